(* C14 Script boundary keeps values intact; templates substitute every expression.  Statements only.
   Model: model/Script.v.  IEEE doubles (type F with `n as f64` = of_Z and the integer a double
   denotes = exact_Z), QuickJS evaluation `eval` and the printing of a value `show` are
   parameters: the first theorem carries the one IEEE fact it needs as an explicit premise. *)
From Coq Require Import List Arith ZArith Bool.
Import ListNotations.
From Acts.Model Require Import Script.
From Acts.Proofs Require Import ScriptProofs.

(* a JSON value (nested arrays / objects, strings, booleans, null, numbers) whose integers are exact in
   a double, |n| <= 2^53, and whose floats are not integral, is identical after JSON -> JS -> JSON *)
Theorem C14_identical :
  forall (F : Type) (of_Z : Z -> F) (exact_Z : F -> option Z),
    (forall z, (Z.abs z <= 2 ^ 53)%Z -> exact_Z (of_Z z) = Some z) ->
    forall v : jv F, ints F exact53 v = true -> floats_proper F exact_Z v = true ->
      of_js F exact_Z (to_js F of_Z v) = v.
Proof. exact roundtrip_exact. Qed.
(* ... and with integral floats allowed it is the same value: such a float comes back as the integer
   it denotes *)
Theorem C14_same_value :
  forall (F : Type) (of_Z : Z -> F) (exact_Z : F -> option Z),
    (forall z, (Z.abs z <= 2 ^ 53)%Z -> exact_Z (of_Z z) = Some z) ->
    forall v : jv F, ints F exact53 v = true -> veq F exact_Z (of_js F exact_Z (to_js F of_Z v)) v.
Proof. exact roundtrip. Qed.

(* a string without templates is passed through verbatim *)
Theorem C14_verbatim :
  forall (F : Type) (eval : bytes -> jv F) (show : jv F -> bytes) s, plain s -> fill_string F eval show s = JStr F s.
Proof. exact verbatim. Qed.
(* a string that is exactly one template yields the typed value *)
Theorem C14_single_typed :
  forall (F : Type) (eval : bytes -> jv F) (show : jv F -> bytes) e, simple e -> fill_string F eval show (tmpl e) = eval (tmpl e).
Proof. exact single_template_typed. Qed.
(* every one of n templates is found as an expression of its own:  p0 {{e1}} p1 ... {{en}} pn *)
Theorem C14_every_template :
  forall parts p0, plain p0 -> (forall ep, In ep parts -> simple (fst ep) /\ plain (snd ep)) ->
    get_exprs (assemble p0 parts) = map (fun ep => tmpl (fst ep)) parts.
Proof. exact every_template. Qed.

Example C14_example :
  (* "x={{ a }}, y={{b}}" has two expressions *)
  get_exprs [120; 61; 123; 123; 32; 97; 32; 125; 125; 44; 32; 121; 61; 123; 123; 98; 125; 125]
  = [[123; 123; 32; 97; 32; 125; 125]; [123; 123; 98; 125; 125]] /\
  fits_i32 3000000000 = false /\ exact53 3000000000 = true.
Proof. vm_compute. auto. Qed.

Print Assumptions C14_identical.
Print Assumptions C14_same_value.
Print Assumptions C14_verbatim.
Print Assumptions C14_single_typed.
Print Assumptions C14_every_template.
