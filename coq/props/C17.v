(* C17 Retention: finished processes leave exactly what the configuration says.  Statements only.
   Model: the retention rule of model/Multi.v as a checker of what the store holds for a pid at the
   end of a history; model/Serde.v `drm` for the removal of a model.  Proved is what an accepted
   observation means, and that removing a model removes exactly its start events. *)
From Coq Require Import List Arith ZArith Bool.
Import ListNotations.
From Acts.Gen Require Import GenState.
From Acts.Model Require Import Engine Multi Serde.
From Acts.Proofs Require Import MultiProofs.

Theorem C17_accepted_observation :
  forall o, ret_check o = [] ->
  (ro_ended o = true -> ro_refused o = true /\
     (ro_keep o = false -> ro_procrow o = None /\ ro_taskrows o = 0) /\
     (ro_keep o = true -> (exists s, ro_procrow o = Some s /\ is_completed s = true) /\ ro_taskrows o = ro_created o /\ ro_openrows o = 0)) /\
  (ro_ended o = false -> (exists s, ro_procrow o = Some s /\ is_completed s = false) /\ ro_taskrows o = ro_created o).
Proof. exact ret_check_sound. Qed.
Theorem C17_rm_model_removes_exactly_its_events :
  forall st id e, In e (ds_events (fst (drm st id))) <-> In e (ds_events st) /\ e_mid e <> id.
Proof. exact rm_model_events. Qed.
Theorem C17_rm_model_keeps_other_models :
  forall st id j, j <> id -> mfind (ds_models (fst (drm st id))) j = mfind (ds_models st) j.
Proof. exact rm_model_other_models. Qed.

Print Assumptions C17_accepted_observation.
Print Assumptions C17_rm_model_removes_exactly_its_events.
Print Assumptions C17_rm_model_keeps_other_models.
