(* C17 Retention: finished processes leave exactly what the configuration says.  Statements only.
   Model: the retention rule of model/Multi.v as a checker of what the store holds for a pid at the
   end of a history; model/Serde.v `drm` for the removal of a model.  Proved is what an accepted
   observation means, and that removing a model removes exactly its start events. *)
From Coq Require Import List Arith ZArith Bool.
Import ListNotations.
From Acts.Gen Require Import GenState.
From Acts.Model Require Import Engine Multi Serde.
From Acts.Proofs Require Import ImageProofs MultiProofs.

Theorem C17_accepted_observation :
  forall o, ret_check o = [] ->
  (ro_ended o = true -> ro_refused o = true /\
     (ro_keep o = false -> ro_procrow o = None /\ ro_taskrows o = 0) /\
     (ro_keep o = true -> (exists s, ro_procrow o = Some s /\ is_completed s = true) /\ ro_taskrows o = ro_created o /\ ro_openrows o = 0)) /\
  (ro_ended o = false -> (exists s, ro_procrow o = Some s /\ is_completed s = false) /\ ro_taskrows o = ro_created o).
Proof. exact ret_check_sound. Qed.
Theorem C17_rm_model_removes_exactly_its_events :
  forall st id e, In e (ds_events (fst (drm st id))) <-> In e (ds_events st) /\ e_mid e <> id.
Proof. exact rm_model_events. Qed.
Theorem C17_rm_model_keeps_other_models :
  forall st id j, j <> id -> mfind (ds_models (fst (drm st id))) j = mfind (ds_models st) j.
Proof. exact rm_model_other_models. Qed.

(* the retention rule as a machine: the product of the processes of one engine with the rule applied after every
   operation (Multi.rstep).  With keep_processes off, whatever the processes do and in whatever order, a process
   that has ended has no process row and no task row; with it on, every process's rows are the complete image of
   the live process (C11) however the others are interleaved; and an operation on one process leaves the rows
   (and everything else) of every other process as they were *)
Theorem C17_ended_processes_leave_nothing :
  forall xs s, (forall p, p < length s -> is_completed (pstate (nth p s deng)) = true -> rows (nth p s deng) = [] /\ prow (nth p s deng) = None) ->
  forall p, p < length (rrun false s xs) ->
  is_completed (pstate (nth p (rrun false s xs) deng)) = true ->
  rows (nth p (rrun false s xs) deng) = [] /\ prow (nth p (rrun false s xs) deng) = None.
Proof. exact retention_drop. Qed.
Theorem C17_kept_processes_keep_everything :
  forall xs s, (forall p, p < length s -> image_ok (nth p s deng)) ->
  forall p, p < length s -> image_ok (nth p (rrun true s xs) deng).
Proof. exact retention_keep. Qed.
Theorem C17_other_processes_untouched :
  forall keep s r o q, q <> r -> nth q (rstep keep s (SOp r o)) deng = nth q s deng.
Proof. exact retention_others. Qed.
(* non-vacuity: two processes; the first one completes and is dropped, the second one is still waiting and keeps its rows *)
Example C17_example :
  let ns := [ Build_node 0 KWorkflow 0 [(ONormal, 1)] None None false [] dspec [] [] [] [] [] [] false;
              Build_node 1 KStep 1 [(ONormal, 2)] None None false [] dspec [] [] [] [] [] [] false;
              Build_node 2 KAct 2 [] None None false [] dspec [] [] [] [] [] [] false ] in
  let s := rrun false [start ns 1000; start ns 1000] [SOp 0 ODrain; SOp 1 ODrain; SOp 0 (OAct 2 ANext []); SOp 0 ODrain] in
  pstate (nth 0 s deng) = SCompleted /\ rows (nth 0 s deng) = [] /\ prow (nth 0 s deng) = None /\
  pstate (nth 1 s deng) = SRunning /\ length (rows (nth 1 s deng)) = 3.
Proof. vm_compute. auto. Qed.
Print Assumptions C17_accepted_observation.
Print Assumptions C17_ended_processes_leave_nothing.
Print Assumptions C17_kept_processes_keep_everything.
Print Assumptions C17_other_processes_untouched.
Print Assumptions C17_rm_model_removes_exactly_its_events.
Print Assumptions C17_rm_model_keeps_other_models.
