(* C05 Client actions: admission rules and at-most-once effect.  Statements only.
   Model: model/Engine.v `do_action` = Process::do_action + Task::update. *)
From Coq Require Import List Arith ZArith Bool.
Import ListNotations.
From Acts.Gen Require Import GenState GenUpdate GenDoAction.
From Acts.Model Require Import Engine Oracles.
From Acts.Proofs Require Import C05Proofs C02Core C02Ops FinalProofs ActionNames UpdateTable.

(* a rejected complete / submit / skip / remove / abort / error / back / push changes no task, emits
   no message, queues nothing: the engine state is returned as it was, only the result marker is
   appended; otherwise the action is accepted.  (`cancel` is not in the list: it can fail after it
   has marked path tasks.) *)
Theorem C05_reject_noop :
  forall e i a opts, is_cancel a = false ->
    do_action e i a opts = ret_err e \/ exists e', do_action e i a opts = ret_ok e'.
Proof. exact reject_noop. Qed.

(* an accepted action names an existing task of a process that has not ended, of the kind that fits
   the action (steps for push, acts otherwise), still open, with every declared output supplied *)
Theorem C05_admission :
  forall e i a opts e1, is_cancel a = false -> do_action e i a opts = ret_ok e1 ->
    is_completed (pstate e) = false /\ i < length (tasks e) /\
    (match a with APush _ => kind e i = KStep | _ => kind e i = KAct end) /\
    forallb (fun kv => vhas opts (fst kv)) (n_outputs (tnode e i)) = true /\
    is_completed (st e i) = false.
Proof.
  intros e i a opts e1 Hc H. destruct (accept_admissible e i a opts e1 Hc H) as (A & B & C & D & E).
  repeat split; auto.
Qed.

(* once an act is terminal every further one of these actions on it is rejected, and so is every
   action once the process has ended *)
Theorem C05_terminal_rejects :
  forall e i a opts, is_cancel a = false -> is_completed (st e i) = true -> do_action e i a opts = ret_err e.
Proof. exact terminal_rejects. Qed.
Theorem C05_ended_rejects :
  forall e i a opts, is_completed (pstate e) = true -> do_action e i a opts = ret_err e.
Proof. exact ended_rejects. Qed.

(* at-most-once effect, for every reachable engine state e (J e is the engine invariant, which every run satisfies:
   C05_runs_satisfy_the_invariant): after an accepted complete / submit / remove / skip / abort of an act, whatever happens next
   -- any operations, any schedule, the same action again at once (two concurrent identical actions: one of them comes
   first) or later -- the act keeps the state that action gave it and every further action on it but cancel is rejected,
   changing nothing.  An action is one atomic operation of the model; the check-then-act race of two client threads
   inside one `update` is a runtime behaviour the model cannot exhibit (DESIGN.md); the held-scheduler corpus repeats
   actions identically against the real engine. *)
Theorem C05_closing_action_is_the_last :
  forall e i a opts cv a' s ops b opts',
    J e -> admission e i a opts = Some (cv, a') -> closing a' = Some s -> is_cancel b = false ->
    let e1 := fold_left apply_op ops (do_action e i a opts) in
    st e1 i = s /\ do_action e1 i b opts' = ret_err e1.
Proof. exact closing_action_is_the_last. Qed.
(* the tie of the action arms to the source, statically: gen/GenUpdate.v is regenerated from Task::update
   (acts/src/scheduler/process/task.rs) on every run -- per arm of `match action.event`: whether it begins with
   the `already completed` rejection before any effect, the state it writes to the act, whose open siblings it
   closes, its effectful calls in order.  Every action of the model has its arm; the rejection of a closed act
   is on every arm but cancel (what `admission` does); the state an arm writes is the state the model's action
   leaves the act in (`closing`); complete / submit / remove are `set_state; next` in both; skip closes the act's
   own open siblings and error the parent's, with the state of the table.  An arm edited in the source (another
   state, a dropped or moved guard, another sibling set) changes the table and breaks one of these. *)
Theorem C05_update_arms_match_source :
  forall a, exists r, arm_of (ev_name a) = Some r /\ a_event r = ev_name a /\
    a_guard r = negb (is_cancel a) /\
    (forall s, a_self r = Some s -> closing a = Some s) /\
    (a_self r = None -> closing a = None \/ a = AAbort) /\
    (forall e i cv s, a_calls r = plain_calls -> a_self r = Some s ->
       exists site, perform e i a cv = ret_ok (next (fuel_of e) cv (set_state site e i s) i)).
Proof.
  intros a. destruct (arm_exists a) as (r & Hr & Hn). exists r. split; [exact Hr|]. split; [exact Hn|].
  split; [exact (guards_match a r Hr)|]. split; [exact (fun s => self_state_match a r s Hr)|].
  split; [exact (no_self_state a r Hr)|]. exact (fun e i cv s => plain_closers e i a cv r s Hr).
Qed.
Theorem C05_skip_and_error_arms_match_source :
  (forall e i cv r w s s', arm_of n_skip = Some r -> a_sibs r = Some (w, s) -> a_self r = Some s' ->
     w = n_self /\
     perform e i ASkip cv = (let e1 := close_open 26 e (siblings e i) s in ret_ok (next (fuel_of e1) cv (set_state 25 e1 i s') i))) /\
  (forall e i cv c p r w s, arm_of n_error = Some r -> a_sibs r = Some (w, s) -> parent e i = Some p ->
     w = n_parent /\ a_self r = None /\
     perform e i (AError (Some c)) cv =
       (let e1 := close_open 32 e (siblings e p) s in ret_ok (emit_error (fuel_of e1) (set_data (set_err 31 e1 i c) i cv) i))) /\
  (exists r w s, arm_of n_skip = Some r /\ a_sibs r = Some (w, s)) /\ (exists r w s, arm_of n_error = Some r /\ a_sibs r = Some (w, s)) /\
  NoDup (map a_event update_arms).
Proof.
  split; [exact skip_arm|]. split; [exact error_arm|]. split; [|split; [|exact arms_distinct]]; vm_compute; do 3 eexists; split; reflexivity.
Qed.
(* Process::do_action, statically: the list and order of the rejections in front of Task::update is regenerated from
   process.rs on every run (`do_action_checks`; every way out of that part of the function must be one of the five
   checks the translator knows, or the run stops); what each check means is `chk_fails`.  The model rejects an action
   exactly when one of the source's checks fails or the arm's own `already completed` guard does; and an accepted action
   on an act with declared outputs carries exactly the declared keys (the source cuts the options). *)
Theorem C05_admission_is_the_checks_of_the_source :
  forall e i a opts,
    (admission e i a opts = None <->
       rejected_early e i a opts = true \/ (arm_guard a = true /\ is_completed (st e i) = true)) /\
    (forall cv a', admission e i a opts = Some (cv, a') -> do_action_cuts_options = true -> n_outs (tnode e i) = true ->
       map fst cv = map fst (n_outputs (tnode e i)) /\ a' = cut_action a).
Proof. intros e i a opts. split; [exact (admission_none_iff e i a opts) | exact (admission_cut e i a opts)]. Qed.
Theorem C05_runs_satisfy_the_invariant : forall ns c0 ops, J (run ns c0 ops).
Proof. exact run_J. Qed.
Example C05_example :
  let ns := [ Build_node 0 KWorkflow 0 [(ONormal, 1)] None None false [] dspec [] [] [] [] [] [] false;
              Build_node 1 KStep 1 [(ONormal, 2)] None None false [] dspec [] [] [] [] [] [] false;
              Build_node 2 KAct 2 [] None None false [] dspec [] [] [] [] [(3, VNull)] [] false ] in
  let e := run ns 1000 [ODrain] in
  (* declared output k3 missing: rejected, nothing changed *)
  do_action e 2 ANext [] = ret_err e /\
  (* supplied: accepted; a second one is rejected *)
  let e2 := apply_op (do_action e 2 ANext [(3, VNum 7)]) ODrain in
  existsb (fun x => match x with EAct true => true | _ => false end) (trace e2) = true /\
  do_action e2 2 ASubmit [(3, VNum 7)] = ret_err e2.
Proof. vm_compute. auto. Qed.

Print Assumptions C05_reject_noop.
Print Assumptions C05_admission.
Print Assumptions C05_terminal_rejects.
Print Assumptions C05_ended_rejects.
Print Assumptions C05_closing_action_is_the_last.
Print Assumptions C05_runs_satisfy_the_invariant.
Print Assumptions C05_update_arms_match_source.
Print Assumptions C05_skip_and_error_arms_match_source.
Print Assumptions C05_admission_is_the_checks_of_the_source.
