(* C05 Client actions: admission rules and at-most-once effect.  Statements only.
   Model: model/Engine.v `do_action` = Process::do_action + Task::update. *)
From Coq Require Import List Arith ZArith Bool.
Import ListNotations.
From Acts.Gen Require Import GenState.
From Acts.Model Require Import Engine Oracles.
From Acts.Proofs Require Import C05Proofs C02Core C02Ops FinalProofs.

(* a rejected complete / submit / skip / remove / abort / error / back / push changes no task, emits
   no message, queues nothing: the engine state is returned as it was, only the result marker is
   appended; otherwise the action is accepted.  (`cancel` is not in the list: it can fail after it
   has marked path tasks.) *)
Theorem C05_reject_noop :
  forall e i a opts, is_cancel a = false ->
    do_action e i a opts = ret_err e \/ exists e', do_action e i a opts = ret_ok e'.
Proof. exact reject_noop. Qed.

(* an accepted action names an existing task of a process that has not ended, of the kind that fits
   the action (steps for push, acts otherwise), still open, with every declared output supplied *)
Theorem C05_admission :
  forall e i a opts e1, is_cancel a = false -> do_action e i a opts = ret_ok e1 ->
    is_completed (pstate e) = false /\ i < length (tasks e) /\
    (match a with APush _ => kind e i = KStep | _ => kind e i = KAct end) /\
    forallb (fun kv => vhas opts (fst kv)) (n_outputs (tnode e i)) = true /\
    is_completed (st e i) = false.
Proof.
  intros e i a opts e1 Hc H. destruct (accept_admissible e i a opts e1 Hc H) as (A & B & C & D & E).
  repeat split; auto.
Qed.

(* once an act is terminal every further one of these actions on it is rejected, and so is every
   action once the process has ended *)
Theorem C05_terminal_rejects :
  forall e i a opts, is_cancel a = false -> is_completed (st e i) = true -> do_action e i a opts = ret_err e.
Proof. exact terminal_rejects. Qed.
Theorem C05_ended_rejects :
  forall e i a opts, is_completed (pstate e) = true -> do_action e i a opts = ret_err e.
Proof. exact ended_rejects. Qed.

(* at-most-once effect, for every reachable engine state e (J e is the engine invariant, which every run satisfies:
   C05_runs_satisfy_the_invariant): after an accepted complete / submit / remove / skip / abort of an act, whatever happens next
   -- any operations, any schedule, the same action again at once (two concurrent identical actions: one of them comes
   first) or later -- the act keeps the state that action gave it and every further action on it but cancel is rejected,
   changing nothing.  An action is one atomic operation of the model; the check-then-act race of two client threads
   inside one `update` is a runtime behaviour the model cannot exhibit (DESIGN.md); the held-scheduler corpus repeats
   actions identically against the real engine. *)
Theorem C05_closing_action_is_the_last :
  forall e i a opts cv a' s ops b opts',
    J e -> admission e i a opts = Some (cv, a') -> closing a' = Some s -> is_cancel b = false ->
    let e1 := fold_left apply_op ops (do_action e i a opts) in
    st e1 i = s /\ do_action e1 i b opts' = ret_err e1.
Proof. exact closing_action_is_the_last. Qed.
Theorem C05_runs_satisfy_the_invariant : forall ns c0 ops, J (run ns c0 ops).
Proof. exact run_J. Qed.
Example C05_example :
  let ns := [ Build_node 0 KWorkflow 0 [(ONormal, 1)] None None false [] dspec [] [] [] [] [] [] false;
              Build_node 1 KStep 1 [(ONormal, 2)] None None false [] dspec [] [] [] [] [] [] false;
              Build_node 2 KAct 2 [] None None false [] dspec [] [] [] [] [(3, VNull)] [] false ] in
  let e := run ns 1000 [ODrain] in
  (* declared output k3 missing: rejected, nothing changed *)
  do_action e 2 ANext [] = ret_err e /\
  (* supplied: accepted; a second one is rejected *)
  let e2 := apply_op (do_action e 2 ANext [(3, VNum 7)]) ODrain in
  existsb (fun x => match x with EAct true => true | _ => false end) (trace e2) = true /\
  do_action e2 2 ASubmit [(3, VNum 7)] = ret_err e2.
Proof. vm_compute. auto. Qed.

Print Assumptions C05_reject_noop.
Print Assumptions C05_admission.
Print Assumptions C05_terminal_rejects.
Print Assumptions C05_ended_rejects.
Print Assumptions C05_closing_action_is_the_last.
Print Assumptions C05_runs_satisfy_the_invariant.
