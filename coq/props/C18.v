(* C18 Channels deliver exactly the messages their filters select.  Statements only.
   Model: model/Chan.v. *)
From Coq Require Import List Arith Bool.
Import ListNotations.
From Acts.Model Require Import Chan.
From Acts.Proofs Require Import ChanProofs.

(* for every sequence of registrations, re-registrations, closes and emissions: a channel's handler is
   invoked for a message iff the channel is (still) registered and the message's type, state, key and
   uses match its patterns and its tag pattern matches the message tag or the model tag *)
Theorem C18_invoked_iff :
  forall ops m id, let e := fst (crun [] ops) in
    In id (dispatch e m) <-> exists o, lookup e id = Some o /\ is_match o m = true.
Proof. exact invoked_iff. Qed.
(* ... and at most once *)
Theorem C18_no_duplicate_delivery : forall ops m, NoDup (dispatch (fst (crun [] ops)) m).
Proof. exact no_duplicate_delivery. Qed.
(* a channel with default options receives everything *)
Theorem C18_default_receives_all : forall m, is_match default_opts m = true.
Proof. exact default_matches_all. Qed.
(* re-registering a channel id replaces the previous handler, other channels are untouched *)
Theorem C18_reregister_replaces : forall e id o, lookup (register e id o) id = Some o.
Proof. exact lookup_register_same. Qed.
Theorem C18_register_frame : forall e id o j, j <> id -> lookup (register e id o) j = lookup e j.
Proof. exact lookup_register_other. Qed.
(* closing or unsubscribing a channel stops deliveries to it and to no other channel *)
Theorem C18_close_removes : forall e id, lookup (remove e id) id = None.
Proof. exact lookup_remove_same. Qed.
Theorem C18_close_frame : forall e id j, j <> id -> lookup (remove e id) j = lookup e j.
Proof. exact lookup_remove_other. Qed.

Example C18_example :
  let act_created := {| m_type := [97;99;116]; m_state := [99]; m_tag := []; m_model_tag := [116;49]; m_key := [107;49]; m_uses := [] |} in
  let o1 := {| o_type := [GAlt [[GLit 115]; [GLit 97; GLit 99; GLit 116]]]; o_state := [GLit 99; GStar]; o_tag := [GLit 116; GAny]; o_key := [GClass true [(97, 99)]; GStar]; o_uses := [GStar] |} in
  let '(e, ds) := crun [] [COn 1 o1; COn 2 default_opts; CEmit act_created; COn 1 default_opts; CClose 2; CEmit act_created] in
  ds = [[]; []; [1; 2]; []; []; [1]].
Proof. vm_compute. reflexivity. Qed.

Print Assumptions C18_invoked_iff.
Print Assumptions C18_no_duplicate_delivery.
Print Assumptions C18_default_receives_all.
Print Assumptions C18_reregister_replaces.
Print Assumptions C18_register_frame.
Print Assumptions C18_close_removes.
Print Assumptions C18_close_frame.
