(* C18 Channels deliver exactly the messages their filters select.  Statements only.
   Model: model/Chan.v. *)
From Coq Require Import List Arith Bool.
Import ListNotations.
From Acts.Model Require Import Chan.
From Acts.Proofs Require Import ChanProofs.

(* for every sequence of registrations, re-registrations, closes and emissions: a channel's handler is
   invoked for a message iff the channel is (still) registered and the message's type, state, key and
   uses match its patterns and its tag pattern matches the message tag or the model tag *)
Theorem C18_invoked_iff :
  forall ops m id, let e := fst (crun [] ops) in
    In id (dispatch e m) <-> exists o, lookup e id = Some o /\ is_match o m = true.
Proof. exact invoked_iff. Qed.
(* ... and at most once *)
Theorem C18_no_duplicate_delivery : forall ops m, NoDup (dispatch (fst (crun [] ops)) m).
Proof. exact no_duplicate_delivery. Qed.
(* a channel with default options receives everything *)
Theorem C18_default_receives_all : forall m, is_match default_opts m = true.
Proof. exact default_matches_all. Qed.
(* re-registering a channel id replaces the previous handler, other channels are untouched *)
Theorem C18_reregister_replaces : forall e id o, lookup (register e id o) id = Some o.
Proof. exact lookup_register_same. Qed.
Theorem C18_register_frame : forall e id o j, j <> id -> lookup (register e id o) j = lookup e j.
Proof. exact lookup_register_other. Qed.
(* closing or unsubscribing a channel stops deliveries to it and to no other channel *)
Theorem C18_close_removes : forall e id, lookup (remove e id) id = None.
Proof. exact lookup_remove_same. Qed.
Theorem C18_close_frame : forall e id j, j <> id -> lookup (remove e id) j = lookup e j.
Proof. exact lookup_remove_other. Qed.

(* the emitter keeps four handler families per channel id (messages, process start, completion, error);
   the statements above hold in each of them for every history of registrations of any kind, closes and events,
   and closing a channel silences it in all of them, whatever kinds of handlers it had registered *)
Theorem C18_invoked_iff_every_kind :
  forall ops k m id, let h := fst (hrun hub0 ops) in
    In id (dispatch (hget h k) m) <-> exists o, lookup (hget h k) id = Some o /\ is_match o m = true.
Proof. exact hub_invoked_iff. Qed.
Theorem C18_no_duplicate_delivery_every_kind : forall ops k m, NoDup (dispatch (hget (fst (hrun hub0 ops)) k) m).
Proof. exact hub_no_duplicate. Qed.
Theorem C18_closed_channel_is_silent_for_every_kind :
  forall ops id k m, ~ In id (dispatch (hget (hremove (fst (hrun hub0 ops)) id) k) m).
Proof. intros ops id k m. apply hub_closed_is_silent. apply (hub_reachable_ok ops hub0 hub0_ok). Qed.
Theorem C18_close_frame_every_kind : forall h id j k, j <> id -> lookup (hget (hremove h id) k) j = lookup (hget h k) j.
Proof. exact hub_close_frame. Qed.
Theorem C18_register_leaves_other_kinds : forall h k id o k', k' <> k -> hget (fst (hstep h (HOn k id o))) k' = hget h k'.
Proof. exact hub_register_other_kinds. Qed.
Example C18_example_kinds :
  let wf_done := {| m_type := [119]; m_state := [99]; m_tag := []; m_model_tag := []; m_key := []; m_uses := [] |} in
  let '(h, ds) := hrun hub0 [HOn HComplete 1 default_opts; HOn HMsg 2 default_opts; HEmit HComplete wf_done; HEmit HMsg wf_done;
                             HClose 1; HEmit HComplete wf_done; HEmit HMsg wf_done] in
  ds = [[]; []; [1]; [2]; []; []; [2]].
Proof. vm_compute. reflexivity. Qed.
Example C18_example :
  let act_created := {| m_type := [97;99;116]; m_state := [99]; m_tag := []; m_model_tag := [116;49]; m_key := [107;49]; m_uses := [] |} in
  let o1 := {| o_type := [GAlt [[GLit 115]; [GLit 97; GLit 99; GLit 116]]]; o_state := [GLit 99; GStar]; o_tag := [GLit 116; GAny]; o_key := [GClass true [(97, 99)]; GStar]; o_uses := [GStar] |} in
  let '(e, ds) := crun [] [COn 1 o1; COn 2 default_opts; CEmit act_created; COn 1 default_opts; CClose 2; CEmit act_created] in
  ds = [[]; []; [1; 2]; []; []; [1]].
Proof. vm_compute. reflexivity. Qed.

Print Assumptions C18_invoked_iff_every_kind.
Print Assumptions C18_no_duplicate_delivery_every_kind.
Print Assumptions C18_closed_channel_is_silent_for_every_kind.
Print Assumptions C18_close_frame_every_kind.
Print Assumptions C18_register_leaves_other_kinds.
Print Assumptions C18_invoked_iff.
Print Assumptions C18_no_duplicate_delivery.
Print Assumptions C18_default_receives_all.
Print Assumptions C18_reregister_replaces.
Print Assumptions C18_register_frame.
Print Assumptions C18_close_removes.
Print Assumptions C18_close_frame.
