(* C15 Sub-process call and return.  Statements only.
   Model: the call protocol of model/Multi.v (package/core/subflow.rs, runtime.rs return_to_act) as a
   checker of what is observed of a parent / child pair; proved is what an accepted observation means.
   The checker (extracted) runs on the message streams and state writes of both processes of every
   generated call history on the real engine. *)
From Coq Require Import List Arith ZArith Bool.
Import ListNotations.
From Acts.Gen Require Import GenState GenReturn.
From Acts.Model Require Import Engine Multi.
From Acts.Proofs Require Import MultiProofs C02Core C02Ops FinalProofs ActionNames ReturnMap.

Theorem C15_accepted_observation :
  forall o, call_check o = [] -> co_missing o = false ->
  co_inputs_ok o = true /\
  match co_child_end o with
  | None => co_act_ends o = [] /\ co_parent_end o = None
  | Some (s, t) =>
      co_outs_ok o = true /\
      (co_act_ends o = [] -> co_quiescent o = false) /\
      (forall s' t', In (s', t') (co_act_ends o) -> co_act_ends o = [(s', t')] /\ s' = expected_end o s /\ (t <= t')%Z) /\
      (forall tp, co_parent_end o = Some tp -> (t <= tp)%Z)
  end.
Proof. exact call_check_sound. Qed.
(* a calling act closed by a client action on its own process while the child still ran is closed exactly once
   all the same: the child's late return (refused, the act is terminal) leaves it alone *)
Theorem C15_forced_close_stays_single :
  forall o, forced_check o = [] -> co_inputs_ok o = true /\ exists x, co_act_ends o = [x].
Proof. exact forced_check_sound. Qed.
(* the engine side of the return, for every reachable state of the calling process (J e is the engine invariant every
   run satisfies): when the child ended without error and its return -- a client action on the calling act: next, abort
   or skip according to the child's ending (runtime.rs return_to_act) -- is admitted, the calling act takes the state
   the ending maps to and keeps it whatever happens next, and every later action on it but cancel, a second return
   included, is rejected: the act is closed exactly once *)
(* a calling act that catches the error of its child: an accepted observation shows the act written error no earlier than the
   child's ending, then completed, each once, and not left open (the handler ran and the flow goes on) *)
Theorem C15_caught_child_error_completes_the_act :
  forall o, caught_check o = [] ->
  co_inputs_ok o = true /\ exists t t1 t2, co_child_end o = Some (SError, t) /\ co_act_ends o = [(SError, t1); (SCompleted, t2)] /\
                                          (t <= t1)%Z /\ (t1 <= t2)%Z /\ co_act_open o = false.
Proof. exact caught_check_sound. Qed.
Theorem C15_return_closes_the_act_for_good :
  forall e i s code opts cv a' ops b opts',
    J e -> s <> SError -> admission e i (return_action s code) opts = Some (cv, a') -> is_cancel b = false ->
    let e1 := fold_left apply_op ops (do_action e i (return_action s code) opts) in
    st e1 i = return_end s /\ do_action e1 i b opts' = ret_err e1.
Proof. exact return_closes_for_good. Qed.
Theorem C15_return_end_is_the_mapping : forall s, return_end s = return_state s.
Proof. destruct s; reflexivity. Qed.
Theorem C15_missing_model_fails_the_act : forall o, call_check o = [] -> co_missing o = true -> co_act_open o = false.
Proof. exact call_check_missing. Qed.
(* expected_end is the return mapping, except that a return the calling act cannot take (a declared
   output is missing) fails the calling act whatever the child's ending *)
Theorem C15_expected_end :
  forall o s, (co_unsatisfied o = false -> expected_end o s = return_state s) /\
              (co_unsatisfied o = true -> expected_end o s = SError).
Proof. exact expected_end_cases. Qed.
Theorem C15_return_mapping :
  forall s, (s = SError -> return_state s = SError) /\ (s = SAborted -> return_state s = SAborted) /\ (s = SSkipped -> return_state s = SSkipped) /\
  (s <> SError -> s <> SAborted -> s <> SSkipped -> return_state s = SCompleted) /\ is_completed (return_state s) = true.
Proof. exact return_state_cases. Qed.

Example C15_example :
  call_check {| co_missing := false; co_child_end := Some (SError, 1018%Z); co_act_ends := [(SError, 1019%Z)]; co_act_open := false;
                co_parent_end := Some 1025%Z; co_inputs_ok := true; co_outs_ok := true; co_unsatisfied := false; co_quiescent := true |} = []
  /\ call_check {| co_missing := false; co_child_end := Some (SCompleted, 1018%Z); co_act_ends := [(SCompleted, 1010%Z)]; co_act_open := false;
                   co_parent_end := None; co_inputs_ok := true; co_outs_ok := true; co_unsatisfied := false; co_quiescent := true |} = [1501].
Proof. vm_compute. auto. Qed.

(* the return mapping, statically tied to the source: gen/GenReturn.v is regenerated from Runtime::return_to_act
   (acts/src/scheduler/runtime.rs) on every run -- the arms of `match state` and its default.  The action the model
   sends to the calling act for a child that ended in state s is the action the source's table names, for every
   state; and the state the calling act is closed with (`return_state`, what the checker expects) is the one that
   action writes (`closing`), the error return apart (it raises the error with the child's code). *)
Theorem C15_return_mapping_matches_source :
  forall s code, ev_name (return_action s code) = return_event s /\
    return_end s = return_state s /\
    (s <> SError -> closing (return_action s code) = Some (return_state s)).
Proof.
  intros s code. split; [exact (return_map_match s code)|]. split; [destruct s; reflexivity|].
  intros H. rewrite (return_action_closing s code H). destruct s; reflexivity.
Qed.

Print Assumptions C15_accepted_observation.
Print Assumptions C15_forced_close_stays_single.
Print Assumptions C15_return_closes_the_act_for_good.
Print Assumptions C15_return_end_is_the_mapping.
Print Assumptions C15_missing_model_fails_the_act.
Print Assumptions C15_return_mapping.
Print Assumptions C15_expected_end.
Print Assumptions C15_caught_child_error_completes_the_act.
Print Assumptions C15_return_mapping_matches_source.
