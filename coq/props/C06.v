(* C06 Errors propagate upward unless a matching catch takes them, exactly once.  Statements only.
   Proved for every run of the engine model (any node table, operations, schedule): an error code is
   only ever stored on a task that is in the error state, so a task that was caught (error -> running)
   and its successors never carry a stale error; the only way a task ever leaves a terminal state is
   that revival.  The choice of the catch, the single execution of its steps and the bubbling order
   are covered by the trace correspondence (write sites 19, 20, 21, 31) and the oracle clause 202. *)
From Coq Require Import List Arith ZArith Bool.
Import ListNotations.
From Acts.Gen Require Import GenState.
From Acts.Model Require Import Engine Oracles.
From Acts.Proofs Require Import EngineBasics C02Core C02Ops.

Theorem C06_error_code_only_in_error_state :
  forall ns c0 ops t, t_err (tk (run ns c0 ops) t) <> None -> st (run ns c0 ops) t = SError.
Proof. exact error_only_with_error_state. Qed.
Theorem C06_only_revival_leaves_error :
  forall ns c0 ops t o n at_ site,
    In (ETrans t o n at_ site) (trace (run ns c0 ops)) -> is_completed o = true -> n = o \/ (o = SError /\ n = SRunning).
Proof. exact terminal_final. Qed.

Print Assumptions C06_error_code_only_in_error_state.
Print Assumptions C06_only_revival_leaves_error.
