(* C06 Errors propagate upward unless a matching catch takes them, exactly once.  Statements only.
   Proved for every run of the engine model (any node table, operations, schedule): an error code is
   only ever stored on a task that is in the error state, so a task that was caught (error -> running)
   and its successors never carry a stale error; the only way a task ever leaves a terminal state is
   that revival.  The choice of the catch, the single execution of its steps and the bubbling order
   are covered by the trace correspondence (write sites 19, 20, 21, 31) and the oracle clause 202. *)
From Coq Require Import List Arith ZArith Bool.
Import ListNotations.
From Acts.Gen Require Import GenState.
From Acts.Model Require Import Engine Oracles.
From Acts.Proofs Require Import EngineBasics C02Core C02Ops FinalProofs.

Theorem C06_error_code_only_in_error_state :
  forall ns c0 ops t, t_err (tk (run ns c0 ops) t) <> None -> st (run ns c0 ops) t = SError.
Proof. exact error_only_with_error_state. Qed.
Theorem C06_only_revival_leaves_error :
  forall ns c0 ops t o n at_ site,
    In (ETrans t o n at_ site) (trace (run ns c0 ops)) -> is_completed o = true -> n = o \/ (o = SError /\ n = SRunning).
Proof. exact terminal_final. Qed.

(* a catch takes the error of a task at most once: no run revives a task twice, and a task that was
   revived carries the mark that makes every later catch of it a no-op (hook.rs $is_catch_processed) *)
Theorem C06_caught_at_most_once :
  forall ns c0 ops t l1 l2 l3 a1 s1 a2 s2,
    trace (run ns c0 ops) = l1 ++ ETrans t SError SRunning a1 s1 :: l2 ++ ETrans t SError SRunning a2 s2 :: l3 -> False.
Proof. exact revived_at_most_once. Qed.
Theorem C06_caught_is_marked :
  forall ns c0 ops t a s,
    In (ETrans t SError SRunning a s) (trace (run ns c0 ops)) -> t_catch_done (tk (run ns c0 ops) t) = true.
Proof. exact revived_is_marked. Qed.
(* a non-matching catch changes nothing (every engine state): emitting an errored task none of whose catches takes the
   error -- no catch for that code and no catch-all, or its one catch already used -- writes no task state, no error
   code and no mark, and appends only events that are no state writes (hook acts, the error message); the error then
   goes on to the parent (emit_error) *)
Theorem C06_non_matching_catch_changes_nothing :
  forall f e j, j < ntasks e -> st e j = SError -> uncaught e j ->
  (forall t, st (emit f e j) t = st e t /\ t_err (tk (emit f e j) t) = t_err (tk e t) /\ t_catch_done (tk (emit f e j) t) = t_catch_done (tk e t)) /\
  exists l, trace (emit f e j) = trace e ++ l /\ forallb (fun x => negb (is_trans x)) l = true.
Proof. exact uncaught_emit_changes_nothing. Qed.
(* non-vacuity: an error with code 1 on an act under a step that catches it; the step is revived once *)
Example C06_example :
  let ns := [ Build_node 0 KWorkflow 0 [(ONormal, 1)] None None false [] dspec [] [] [] [] [] [] false;
              Build_node 1 KStep 1 [(ONormal, 2)] None None false [] dspec [None] [] [] [] [] [] false;
              Build_node 2 KAct 2 [] None None false [] dspec [] [] [] [] [] [] false ] in
  let e := run ns 1000 [ODrain; OAct 2 (AError (Some 1)) []; ODrain] in
  existsb (fun x => match x with ETrans 1 SError SRunning _ 19 => true | _ => false end) (trace e) = true /\
  t_catch_done (tk e 1) = true /\ t_err (tk e 1) = None.
Proof. vm_compute. auto. Qed.
Print Assumptions C06_error_code_only_in_error_state.
Print Assumptions C06_caught_at_most_once.
Print Assumptions C06_caught_is_marked.
Print Assumptions C06_non_matching_catch_changes_nothing.
Print Assumptions C06_only_revival_leaves_error.
