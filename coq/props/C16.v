(* C16 Generated acts and lifecycle hooks run exactly as many times as specified.  Statements only.
   Proved for every engine state: a generator adds exactly one node per generated act, and a parallel
   generator makes all of them children of the generating act, in list order (the same run schedules
   every child).  Group opening order of a sequence, hook firing counts and push are covered by the
   trace correspondence. *)
From Coq Require Import List Arith ZArith Bool.
Import ListNotations.
From Acts.Gen Require Import GenState.
From Acts.Model Require Import Engine.
From Acts.Proofs Require Import EngineLemmas SeqLinks LogInv C02Ops FinalProofs.

Theorem C16_one_node_per_generated_act :
  forall e pn acts sq, length (nodes (build_acts e pn acts sq)) = length (nodes e) + length acts.
Proof. exact build_acts_count. Qed.
Theorem C16_parallel_children_all_at_once :
  forall e pn acts, pn < length (nodes e) ->
  normal_children (nd (build_acts e pn acts false) pn) = normal_children (nd e pn) ++ seq (length (nodes e)) (length acts).
Proof. exact parallel_children. Qed.

Example C16_example :
  let blk := ASpec UIrq 0 true None [] in
  let ns := [ Build_node 0 KWorkflow 0 [(ONormal, 1)] None None false [] dspec [] [] [] [] [] [] false;
              Build_node 1 KStep 1 [(ONormal, 2)] None None false [] dspec [] [] [] [] [] [] false;
              Build_node 2 KAct 2 [] None None false [] (ASpec UParallel 3 true None [blk]) [] [] [] [] [] [] false ] in
  let e := run ns 1000 [ODrain] in
  (* three groups (blocks), each with its irq act, all open at once *)
  length (filter (fun t => is (t_state t) SInterrupt) (tasks e)) = 3.
Proof. vm_compute. reflexivity. Qed.

(* for every engine state: a sequence generator makes its first act a child of the generating node and chains the
   others by `next` links in list order, one node each *)
Theorem C16_sequence_chained_in_list_order :
  forall e pn sp rest, pn < length (nodes e) ->
    let e' := build_acts e pn (sp :: rest) true in
    let len := length (nodes e) in
    normal_children (nd e' pn) = normal_children (nd e pn) ++ [len] /\
    (forall k, k < length rest -> n_next (nd e' (len + k)) = Some (len + S k)) /\
    length (nodes e') = len + S (length rest).
Proof. exact sequence_links. Qed.
(* a sequence generator chains its groups by `next` links (build_acts with sq = true); in every run a group created
   through such a link is created when the group before it is terminal, so the groups open one after another *)
Theorem C16_sequence_groups_one_after_another :
  forall ns c0 ops l1 l2 t nid p at_,
    trace (run ns c0 ops) = l1 ++ ENew t nid (Some p) at_ VNext :: l2 ->
    is_completed (cur c_none l1 p) = true /\
    (cur c_none l1 p <> SError -> st (run ns c0 ops) p = cur c_none l1 p).
Proof. exact next_link_after_terminal. Qed.
(* non-vacuity: a sequence over two elements; the second group is created through the next link of the first one, after
   the client completed the first group's interrupt act *)
Example C16_example_sequence :
  let blk := ASpec UIrq 0 true None [] in
  let ns := [ Build_node 0 KWorkflow 0 [(ONormal, 1)] None None false [] dspec [] [] [] [] [] [] false;
              Build_node 1 KStep 1 [(ONormal, 2)] None None false [] dspec [] [] [] [] [] [] false;
              Build_node 2 KAct 2 [] None None false [] (ASpec USequence 2 true None [blk]) [] [] [] [] [] [] false ] in
  let e0 := run ns 1000 [ODrain] in
  let e1 := run ns 1000 [ODrain; OAct 4 ANext []; ODrain] in
  length (filter (fun t => is (t_state t) SInterrupt) (tasks e0)) = 1 /\
  existsb (fun x => match x with ENew _ _ (Some 3) _ VNext => true | _ => false end) (trace e0) = false /\
  existsb (fun x => match x with ENew _ _ (Some 3) _ VNext => true | _ => false end) (trace e1) = true.
Proof. vm_compute. auto. Qed.
Print Assumptions C16_one_node_per_generated_act.
Print Assumptions C16_parallel_children_all_at_once.
Print Assumptions C16_sequence_groups_one_after_another.
Print Assumptions C16_sequence_chained_in_list_order.
