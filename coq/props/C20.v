(* C20 Models survive serialisation; deployment and tree building are faithful.  Statements only.
   Models: model/Serde.v over the field tables generated from acts/src/model/*.rs (gen/GenModelFields.v),
   model/Tree.v (scheduler/tree/build.rs, node_tree.rs), model/Serde.v deployment part (store/store.rs,
   export/executor/model_executor.rs). *)
From Coq Require Import List String Arith ZArith Bool.
Import ListNotations.
From Acts.Gen Require Import GenModelFields.
From Acts.Model Require Import Engine Serde Tree.
From Acts.Proofs Require Import SerdeProofs TreeProofs TreeLevels.

(* every field of every model struct (Workflow, Step, Branch, Act, Catch, Timeout, as the source
   declares them now) is written under one name and read back from that name: a record written and
   parsed back is identical field by field, whatever the field values are *)
Theorem C20_serde_roundtrip :
  forall (V : Type) (dflt : string -> V) s (r : string -> V) f,
    In s model_structs -> In f (s_fields s) -> decode_field V dflt (encode V s r) f = Some (r (f_name f)).
Proof. exact model_roundtrip. Qed.

(* the execution tree lists every declared step, branch and act (catch / timeout steps included), in
   declaration order, with its kind and nesting depth *)
Theorem C20_tree_lists_declared :
  forall f w t, build_tree f w = Some t ->
    map (fun n => (n_id n, n_kind n, n_level n)) t = combine (combine (built_ids w) (map fst (declared_kl w))) (map snd (declared_kl w)).
Proof. exact tree_rows. Qed.
Theorem C20_tree_ids : forall f w t, build_tree f w = Some t -> tids t = built_ids w.
Proof. exact tree_ids. Qed.
(* ... each exactly once (`on` acts included): no id is met twice in a tree that was built *)
Theorem C20_tree_each_once :
  forall f on w t, build_model f on w = Some t -> t <> [] /\ build_tree f w = Some t /\ NoDup (on ++ built_ids w).
Proof. exact model_nodup. Qed.
(* a model with a duplicate node id has no tree ... *)
Theorem C20_duplicate_has_no_tree : forall f on w, ~ NoDup (on ++ built_ids w) -> build_model f on w = None.
Proof. exact model_duplicate_rejected. Qed.
(* ... and deploy rejects it without changing anything *)
Theorem C20_deploy_rejects_duplicates :
  forall f on w ver text st, ~ NoDup (on ++ built_ids w) -> ddeploy st (dmodel_of f on w ver text) = (st, false).
Proof. exact deploy_duplicates_rejected. Qed.
(* an accepted deploy stores exactly the given model, with version 1 for a new id and the stored
   version plus one otherwise, leaves the other models alone, and leaves exactly one start event for
   every `on` act of the model *)
Theorem C20_deploy_accepted :
  forall st d, ev_unique (ds_events st) -> d_valid d = true ->
  snd (ddeploy st d) = true /\
  (exists r, mfind (ds_models (fst (ddeploy st d))) (d_id d) = Some r /\ m_text r = d_text d /\
             m_ver r = match mfind (ds_models st) (d_id d) with Some old => S (m_ver old) | None => 1 end) /\
  (forall j, j <> d_id d -> mfind (ds_models (fst (ddeploy st d))) j = mfind (ds_models st) j) /\
  (forall a, In a (d_on d) -> has_event (ds_events (fst (ddeploy st d))) (d_id d) a = 1).
Proof. exact ddeploy_accepted. Qed.
(* its premise holds after every sequence of deploy / rm / start operations *)
Theorem C20_events_unique : forall ops, ev_unique (ds_events (drun ops dinit)).
Proof. exact events_unique. Qed.
(* n deploys of one id give version n and the text of the last one *)
Theorem C20_version_counts_deploys :
  forall s id t0 ts, mfind s id = None ->
  exists r, mfind (fold_left (fun st t => deploy st id t) (t0 :: ts) s) id = Some r /\ m_ver r = List.length (t0 :: ts) /\ m_text r = last (t0 :: ts) 0.
Proof. exact deploy_n_times. Qed.
(* starting a model that was never deployed fails, whatever else happened *)
Theorem C20_start_unknown_fails :
  forall ops id, (forall d, In (DDeploy d) ops -> d_id d <> id) -> dstart (drun ops dinit) id = false.
Proof. exact start_never_deployed. Qed.

Example C20_example :
  let leaf i := Step i None None [] [] [] [] [] [] [] in
  let a i := Act i None dspec [] [] None [] [Catch (Some 1) [leaf 8]] [Tmo 2 2000%Z [leaf 9]] in
  let w := {| w_id := 1; w_steps := [Step 2 None (Some 2) [] [] [] [Branch 3 None false [] [leaf 4]; Branch 5 None true [] []] [a 6] [] []; leaf 7];
              w_ins := []; w_outs := []; w_setup := [] |} in
  option_map tids (build_model 20 [30] w) = Some [1; 2; 3; 4; 5; 6; 8; 9; 7]
  /\ build_model 20 [4] w = None
  /\ (let d := dmodel_of 20 [30; 31] w 0 7 in
      let st := drun [DDeploy d; DDeploy d; DStart 1; DRm 2] dinit in
      map (fun r => (m_id r, m_ver r, m_text r)) (ds_models st) = [(1, 2, 7)] /\ List.length (ds_events st) = 2 /\ dstart st 1 = true /\ dstart st 2 = false).
Proof. vm_compute. repeat split; reflexivity. Qed.

Print Assumptions C20_serde_roundtrip.
Print Assumptions C20_tree_lists_declared.
Print Assumptions C20_tree_ids.
Print Assumptions C20_tree_each_once.
Print Assumptions C20_duplicate_has_no_tree.
Print Assumptions C20_deploy_rejects_duplicates.
Print Assumptions C20_deploy_accepted.
Print Assumptions C20_events_unique.
Print Assumptions C20_version_counts_deploys.
Print Assumptions C20_start_unknown_fails.
