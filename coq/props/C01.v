(* C01 Progress: a quiescent, unfinished process is always waiting on a client.  Statements only.
   The property does not hold of the engine: C01_progress_refuted_* exhibit workflows (and client
   histories) after which the engine model -- validated line by line against the implementation --
   is quiescent, unfinished and has nothing a client could answer.  What is proved positively is the
   part of the mechanism that decides when a held-back branch may start (C04 shares it). *)
From Coq Require Import List Arith ZArith Bool.
Import ListNotations.
From Acts.Gen Require Import GenState.
From Acts.Model Require Import Engine Tree.
From Acts.Proofs Require Import EngineLemmas Findings.

(* full statement (false): forall w ops e, go w ops = Some e -> stuck e = false *)
Theorem C01_progress_refuted_needs_cycle : exists w ops e, go w ops = Some e /\ stuck e = true.
Proof. exact needs_cycle_refutes. Qed.
Theorem C01_progress_refuted_hook_act : exists w ops e, go w ops = Some e /\ stuck e = true.
Proof. exact hook_act_refutes. Qed.

(* partial: a needs-branch is released exactly when a needed sibling has finished, an else branch
   exactly when every sibling was skipped; nothing else is ever held back *)
Theorem C01_partial_needs_release :
  forall e i, n_kind (tnode e i) = KBranch -> n_needs (tnode e i) <> [] ->
  fst (is_ready e i) = true <->
  exists j, In j (siblings e i) /\ is_completed (st e j) = true /\ In (n_id (tnode e j)) (n_needs (tnode e i)).
Proof. exact needs_ready_iff. Qed.
Theorem C01_partial_else_release :
  forall e i, n_kind (tnode e i) = KBranch -> n_needs (tnode e i) = [] -> n_else (tnode e i) = true ->
  fst (is_ready e i) = true <-> forall j, In j (siblings e i) -> st e j = SSkipped.
Proof. exact else_ready_iff. Qed.
Theorem C01_partial_others_never_held : forall e i, n_kind (tnode e i) <> KBranch -> is_ready e i = (true, e).
Proof. exact other_ready. Qed.

Print Assumptions C01_progress_refuted_needs_cycle.
Print Assumptions C01_progress_refuted_hook_act.
Print Assumptions C01_partial_needs_release.
Print Assumptions C01_partial_else_release.
Print Assumptions C01_partial_others_never_held.
