(* C01 Progress: a quiescent, unfinished process is always waiting on a client.  Statements only.
   The property does not hold of the engine: C01_progress_refuted_* exhibit workflows (and client
   histories) after which the engine model -- validated line by line against the implementation --
   is quiescent, unfinished and has nothing a client could answer.  What is proved positively is the
   part of the mechanism that decides when a held-back branch may start (C04 shares it). *)
From Coq Require Import List Arith ZArith Bool.
Import ListNotations.
From Acts.Gen Require Import GenState.
From Acts.Model Require Import Engine Tree Class.
From Acts.Proofs Require Import EngineBasics C02Core EngineLemmas Findings Wake Progress.

(* full statement (false): forall w ops e, go w ops = Some e -> stuck e = false *)
Theorem C01_progress_refuted_needs_cycle : exists w ops e, go w ops = Some e /\ stuck e = true.
Proof. exact needs_cycle_refutes. Qed.
Theorem C01_progress_refuted_hook_act : exists w ops e, go w ops = Some e /\ stuck e = true.
Proof. exact hook_act_refutes. Qed.

(* partial: a needs-branch is released exactly when a needed sibling has finished, an else branch
   exactly when every sibling was skipped; nothing else is ever held back *)
Theorem C01_partial_needs_release :
  forall e i, n_kind (tnode e i) = KBranch -> n_needs (tnode e i) <> [] ->
  fst (is_ready e i) = true <->
  exists j, In j (siblings e i) /\ is_completed (st e j) = true /\ In (n_id (tnode e j)) (n_needs (tnode e i)).
Proof. exact needs_ready_iff. Qed.
Theorem C01_partial_else_release :
  forall e i, n_kind (tnode e i) = KBranch -> n_needs (tnode e i) = [] -> n_else (tnode e i) = true ->
  fst (is_ready e i) = true <-> forall j, In j (siblings e i) -> st e j = SSkipped.
Proof. exact else_ready_iff. Qed.
Theorem C01_partial_others_never_held : forall e i, n_kind (tnode e i) <> KBranch -> is_ready e i = (true, e).
Proof. exact other_ready. Qed.

(* partial, the review chain (every engine state that satisfies the engine invariant J, every fuel): whoever closes the
   last open child of a running workflow / branch / step / act closes that parent as well -- nobody is left running over
   children that are all done -- and an act a client has closed, with no successor to start, hands over to the review of
   its parent right after its own message.  The known stuck classes are exactly the hypotheses: a lifecycle-hook act
   (t_evproc) reviews nobody, an act over a child in error is not counted. *)
Theorem C01_partial_last_child_closes_workflow_or_branch :
  forall f cv from e i, J e -> i < ntasks e -> t_evproc (tk e from) = false ->
  let e0 := update_data e i (outputs e from) in
  (kind e0 i = KWorkflow \/ kind e0 i = KBranch) -> st e0 i = SRunning ->
  forallb (child_done e0) (children e0 i) = true ->
  st (review (S f) cv from e i) i = SCompleted.
Proof. exact last_child_completes_container. Qed.
Theorem C01_partial_last_child_closes_step :
  forall f cv from e i, J e -> i < ntasks e -> t_evproc (tk e from) = false ->
  let e0 := update_data e i (outputs e from) in
  kind e0 i = KStep -> st e0 i = SRunning ->
  forallb (fun j => is_completed (st e0 j)) (children e0 i) = true ->
  st (review (S f) cv from e i) i = SCompleted.
Proof. exact last_child_completes_step. Qed.
Theorem C01_partial_last_child_closes_act :
  forall f cv from e i, J e -> i < ntasks e -> t_evproc (tk e from) = false ->
  let e0 := update_data e i (outputs e from) in
  kind e0 i = KAct -> st e0 i = SRunning ->
  (forall j, In j (children e0 i) -> is_completed (st e0 j) = true /\ st e0 j <> SError /\ st e0 j <> SSkipped) ->
  st (review (S f) cv from e i) i = SCompleted.
Proof. exact last_child_completes_act. Qed.
Theorem C01_partial_closed_act_reviews_its_parent :
  forall f cv e i, kind e i = KAct -> is_completed (st e i) = true -> st e i <> SSkipped ->
  st e i <> SCompleted \/ n_next (tnode e i) = None ->
  let e2 := emit f (update_data e i cv) i in
  t_evproc (tk e2 i) = false ->
  next (S f) cv e i = match parent e2 i with Some p => review f cv i e2 p | None => e2 end.
Proof. exact closed_act_reviews_its_parent. Qed.
(* the premises hold in a real state: one step, one act, the client has just completed the act *)
Example C01_wake_premises_hold : option_map (fun e =>
    let e0 := update_data e 1 (outputs e 2) in
    (Nat.ltb 1 (ntasks e), t_evproc (tk e 2), nkind_beq (kind e0 1) KStep, is (st e0 1) SRunning,
     forallb (fun j => is_completed (st e0 j)) (children e0 1), children e0 1,
     nkind_beq (kind e 2) KAct, n_next (tnode e 2), parent (emit 20 (update_data e 2 []) 2) 2)) e_answered
  = Some (true, false, true, true, true, [2], true, None, Some 1).
Proof. exact wake_premises. Qed.

(* the property itself on a class of workflows, for every run (Progress.v): a workflow of steps in sequence whose acts are
   interactive (irq) acts or message (msg) acts -- frag_nodes: no conditions, branches, catches, setup / hooks or function
   acts; any inputs, outputs and timeout declarations -- under any schedule (OSched k picks any queued task, ODrain runs them all), any ticks and any
   accepted or rejected complete / submit / remove / skip / abort actions on any task at any moment (frag_op) is never stuck: when
   nothing is queued and the process has not ended, some act is interrupted, i.e. waits for a client.  No hypothesis on
   fuel: in this class the review chain is act -> step -> workflow.  The invariant is that every open task is queued, or
   interrupted, or running over an open task whose parent it is. *)
Theorem C01_progress_sequential_interactive :
  forall ns c0 ops, frag_nodes ns = true -> forallb frag_op ops = true -> stuck (run ns c0 ops) = false.
Proof. exact sequential_interactive_never_stuck. Qed.
(* ... and on the class the model never runs out of fuel and never takes the scheduler's error path: the statement above is
   not true for want of fuel *)
Theorem C01_class_runs_never_exhaust_fuel :
  forall ns c0 ops, frag_nodes ns = true -> forallb frag_op ops = true -> oof (run ns c0 ops) = false /\ exn (run ns c0 ops) = false.
Proof. exact class_runs_total. Qed.
Theorem C01_progress_sequential_interactive_built :
  forall w ops, option_map frag_nodes (build_tree 30 w) = Some true -> forallb frag_op ops = true ->
  option_map stuck (go w ops) = Some false.
Proof. exact go_never_stuck. Qed.
(* the class is inhabited and its runs are not trivial: two steps, three interactive acts and a message act, outputs; at rest after the start act 2
   waits; after complete / submit / skip (one step picked by the scheduler out of order) the process has completed *)
Example C01_class_inhabited :
  option_map frag_nodes (build_tree 30 w_seq) = Some true /\ forallb frag_op ops_seq = true /\
  option_map (fun e => (queue e, pstate e, st e 2)) (go w_seq []) = Some ([], SRunning, SInterrupt) /\
  option_map (fun e => (queue e, pstate e, map (fun t => st e t) (all_tasks e))) (go w_seq ops_seq)
    = Some ([], SCompleted, [SCompleted; SCompleted; SCompleted; SCompleted; SSubmitted; SCompleted; SSkipped]).
Proof. split; [exact w_seq_in_class|]. split; [exact ops_seq_in_class|]. exact w_seq_runs. Qed.

Print Assumptions C01_progress_refuted_needs_cycle.
Print Assumptions C01_progress_refuted_hook_act.
Print Assumptions C01_partial_needs_release.
Print Assumptions C01_partial_else_release.
Print Assumptions C01_partial_others_never_held.
Print Assumptions C01_partial_last_child_closes_workflow_or_branch.
Print Assumptions C01_partial_last_child_closes_step.
Print Assumptions C01_partial_last_child_closes_act.
Print Assumptions C01_partial_closed_act_reviews_its_parent.
Print Assumptions C01_progress_sequential_interactive.
Print Assumptions C01_progress_sequential_interactive_built.
Print Assumptions C01_class_runs_never_exhaust_fuel.
