(* C09 Acknowledged delivery: at-least-once, bounded retries, silent after ack.  Statements only.
   Model: model/Retry.v.  The tick's selection is a store query; that both store backends answer
   it as the filter reads is C10. *)
From Coq Require Import List Arith ZArith Bool.
Import ListNotations.
From Acts.Model Require Import Retry.
From Acts.Proofs Require Import RetryProofs.
Local Open Scope Z_scope.

(* once acknowledged, or once its task has been acted on, a message is never delivered again and
   its status never changes back: for every history before and after, interval and limit *)
Theorem C09_ack_silent :
  forall interval max ops1 ops2 i,
    let s1 := fold_left (rstep interval max) ops1 rinit in
    closed (rowi s1 i) = true ->
    let s2 := fold_left (rstep interval max) ops2 s1 in
    closed (rowi s2 i) = true /\ cnt i (delivered s2) = cnt i (delivered s1).
Proof. exact ack_silent. Qed.
(* every stored and every delivered retry count lies in [0, max] *)
Theorem C09_bounded : forall interval max ops, bounded max (rrun interval max ops).
Proof. exact retries_bounded. Qed.
(* the record exists before the handler runs *)
Theorem C09_stored_before_delivery : forall interval max ops, stored (rrun interval max ops).
Proof. exact stored_before_delivery. Qed.
(* a redelivery keeps id and content and raises the retry count by one *)
Theorem C09_redelivery :
  forall now max s i r, nth_error (rows s) i = Some r -> r_retry r < max ->
    delivered (tick_body now max s i) = delivered s ++ [(i, r_retry r + 1)] /\
    r_retry (rowi (tick_body now max s i) i) = r_retry r + 1 /\ r_tid (rowi (tick_body now max s i) i) = r_tid r /\
    r_status (rowi (tick_body now max s i) i) = r_status r.
Proof. exact tick_body_increments. Qed.
(* at the limit the message is marked error, not delivered; in status error it stays silent until redo *)
Theorem C09_limit :
  forall now max s i r, nth_error (rows s) i = Some r -> max <= r_retry r ->
    delivered (tick_body now max s i) = delivered s /\ r_status (rowi (tick_body now max s i) i) = Error.
Proof. exact tick_body_limit. Qed.
Theorem C09_error_silent :
  forall s now interval max i, r_status (rowi s i) = Error ->
    rowi (op_tick s now interval max) i = rowi s i /\ cnt i (delivered (op_tick s now interval max)) = cnt i (delivered s).
Proof. exact error_silent. Qed.

(* non-vacuity: two messages, limit 2: the unacknowledged one is redelivered with 1, 2 and then marked
   error; the acknowledged one is delivered once *)
Example C09_example :
  let s := rrun 1000 2 [REmit 1; REmit 2; RAck 0 10; RTick 2000; RTick 4000; RTick 6000; RTick 8000] in
  delivered s = [(0%nat, 0); (1%nat, 0); (1%nat, 1); (1%nat, 2)] /\ map r_status (rows s) = [Acked; Error].
Proof. vm_compute. auto. Qed.

Print Assumptions C09_ack_silent.
Print Assumptions C09_bounded.
Print Assumptions C09_stored_before_delivery.
Print Assumptions C09_redelivery.
Print Assumptions C09_limit.
Print Assumptions C09_error_silent.
