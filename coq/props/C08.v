(* C08 Message stream is a faithful, ordered image of task lifecycles.  Statements only.
   `at most one terminal message per task` does not hold of the engine: C08_once_refuted exhibits a
   workflow whose step reports `completed` twice (a needs-branch resumed from inside the step's
   review).  Proved: which task states may produce a message at all (the gate of runtime.rs
   on_task). *)
From Coq Require Import List Arith ZArith Bool.
Import ListNotations.
From Acts.Gen Require Import GenState GenOnTask.
From Acts.Model Require Import Engine Tree Oracles.
From Acts.Proofs Require Import EngineLemmas Findings ReviveInv LogInv C02Ops FinalProofs StatePred OnTask.

(* full statement (false): forall w ops e t s, go w ops = Some e -> is_completed s = true -> msgs e t s <= 1 *)
Theorem C08_once_refuted : exists w ops e t, go w ops = Some e /\ msgs e t SCompleted = 2.
Proof. exact message_twice_refutes. Qed.

(* a pending or running task, and a task whose emission is disabled (branches, acts until they run),
   never produces a message *)
Theorem C08_partial_gate : forall e i, msg_allowed e i = true ->
  st e i <> SPending /\ st e i <> SRunning /\ t_silent (tk e i) = false.
Proof. exact msg_gate. Qed.

(* the gate and the order of the on_task handler, statically tied to the source: gen/GenOnTask.v is regenerated from
   runtime.rs on every run (`on_task_gate_not`: the state predicates that block the message, next to `is_emit_disabled`;
   `on_task_order`: store write, lifecycle hooks, gate, message built, message sent, by position in the handler).  The
   model's gate is the gate of that table, read through the state predicates regenerated from state.rs, and the model's
   `emit` is written in that order: the message is decided on, and reports, the state the hooks (a catch that takes the
   error among them) left -- C08_message_reports_current_state.  A handler that builds the message before the hooks run,
   or a gate with another predicate, changes the table and breaks this proof. *)
Theorem C08_gate_and_order_match_source :
  (forall e i, msg_allowed e i = gate_of_source (st e i) (t_silent (tk e i))) /\
  on_task_order = model_on_task_order.
Proof. split; [exact gate_match | exact order_match]. Qed.

(* in every run (any node table, operations, schedule): a message reports the state its task has at the
   moment it is sent -- the state the task's last write gave it -- and that state is neither pending nor running *)
Theorem C08_message_reports_current_state :
  forall ns c0 ops l1 l2 t s ins outs,
    trace (run ns c0 ops) = l1 ++ EMsg t s ins outs :: l2 -> s = cur c_none l1 t /\ s <> SPending /\ s <> SRunning.
Proof. exact message_reports_current. Qed.
(* ... and the messages of one task come in lifecycle order: between two messages of a task, with no revival of it by a
   catch in between (`revivals l` lists the tasks revived in l), the stage of the reported state never decreases -- a
   created message never follows a terminal one -- and a terminal report is never followed by a different one *)
Theorem C08_messages_in_lifecycle_order :
  forall ns c0 ops l1 l2 l3 t s1 i1 o1 s2 i2 o2,
    trace (run ns c0 ops) = l1 ++ EMsg t s1 i1 o1 :: l2 ++ EMsg t s2 i2 o2 :: l3 -> ~ In t (revivals l2) ->
    Oracles.stage s1 <= Oracles.stage s2 /\ (is_completed s1 = true -> s2 = s1).
Proof. exact messages_in_lifecycle_order. Qed.
(* non-vacuity: the created and the completed message of an interrupt act *)
Example C08_example :
  let ns := [ Build_node 0 KWorkflow 0 [(ONormal, 1)] None None false [] dspec [] [] [] [] [] [] false;
              Build_node 1 KStep 1 [(ONormal, 2)] None None false [] dspec [] [] [] [] [] [] false;
              Build_node 2 KAct 2 [] None None false [] dspec [] [] [] [] [] [] false ] in
  let e := run ns 1000 [ODrain; OAct 2 ANext []; ODrain] in
  existsb (fun x => match x with EMsg 2 SInterrupt _ _ => true | _ => false end) (trace e) = true /\
  existsb (fun x => match x with EMsg 2 SCompleted _ _ => true | _ => false end) (trace e) = true.
Proof. vm_compute. auto. Qed.
Print Assumptions C08_once_refuted.
Print Assumptions C08_message_reports_current_state.
Print Assumptions C08_messages_in_lifecycle_order.
Print Assumptions C08_partial_gate.
Print Assumptions C08_gate_and_order_match_source.
