(* C08 Message stream is a faithful, ordered image of task lifecycles.  Statements only.
   `at most one terminal message per task` does not hold of the engine: C08_once_refuted exhibits a
   workflow whose step reports `completed` twice (a needs-branch resumed from inside the step's
   review).  Proved: which task states may produce a message at all (the gate of runtime.rs
   on_task). *)
From Coq Require Import List Arith ZArith Bool.
Import ListNotations.
From Acts.Gen Require Import GenState.
From Acts.Model Require Import Engine Tree.
From Acts.Proofs Require Import EngineLemmas Findings.

(* full statement (false): forall w ops e t s, go w ops = Some e -> is_completed s = true -> msgs e t s <= 1 *)
Theorem C08_once_refuted : exists w ops e t, go w ops = Some e /\ msgs e t SCompleted = 2.
Proof. exact message_twice_refutes. Qed.

(* a pending or running task, and a task whose emission is disabled (branches, acts until they run),
   never produces a message *)
Theorem C08_partial_gate : forall e i, msg_allowed e i = true ->
  st e i <> SPending /\ st e i <> SRunning /\ t_silent (tk e i) = false.
Proof. exact msg_gate. Qed.

Print Assumptions C08_once_refuted.
Print Assumptions C08_partial_gate.
