(* C03 Hierarchical completion and exactly one terminal event per process.  Statements only.
   The hierarchical part does not hold of the engine: C03_completion_refuted exhibits a history after
   which a step and the process are completed while an act of that step is still waiting.  Proved:
   terminal writes to the root are mirrored into the process state at once, and after the process
   has ended every client action is rejected (nothing can later be acted on). *)
From Coq Require Import List Arith ZArith Bool.
Import ListNotations.
From Acts.Gen Require Import GenState.
From Acts.Model Require Import Engine Tree Class.
From Acts.Proofs Require Import EngineBasics EngineLemmas Findings C05Proofs Progress.

(* full statement (false): forall w ops e, go w ops = Some e -> open_under_completed e = false *)
Theorem C03_completion_refuted :
  exists w ops e, go w ops = Some e /\ open_under_completed e = true /\ pstate e = SCompleted.
Proof. exact completed_over_open_refutes. Qed.

(* exactly one terminal event (false): a workflow without steps delivers its completed event twice *)
Theorem C03_one_terminal_event_refuted : exists w ops e, go w ops = Some e /\ terminal_events e = 2.
Proof. exact terminal_twice_refutes. Qed.

Theorem C03_partial_root_mirrored : forall site e s, 0 < length (tasks e) -> is_completed s = true -> pstate (set_state site e 0 s) = s.
Proof. exact root_terminal_mirrored. Qed.
Theorem C03_partial_only_root_mirrored : forall site e i s, i <> 0 -> pstate (set_state site e i s) = pstate e.
Proof. exact other_writes_keep_pstate. Qed.
(* the two repaired sites: reviewing a running workflow or branch that still has a task started directly beneath it open
   (lifecycle-hook acts aside) changes nothing but the data handed up -- it is not completed over its open child
   (Workflow::review / Branch::review after the repairs edcdff9 / 551c70a; `review` is the engine's review step, `from`
   the child that finished) *)
Theorem C03_partial_workflow_and_branch_wait_for_their_children :
  forall f cv from e i,
    t_evproc (tk e from) = false ->
    let e' := update_data e i (outputs e from) in
    (kind e' i = KWorkflow \/ kind e' i = KBranch) -> st e' i = SRunning ->
    forallb (child_done e') (children e' i) = false ->
    review (S f) cv from e i = e'.
Proof. exact review_waits_for_children. Qed.
Theorem C03_partial_nothing_acted_on_after_end :
  forall e i a opts, is_completed (pstate e) = true -> do_action e i a opts = ret_err e.
Proof. exact ended_rejects. Qed.

(* the hierarchical part on a class of workflows, for every run (proofs/Progress.v; the class of model/Class.v: steps in
   sequence whose acts are interactive or message acts, any schedule, complete / submit / remove / skip / abort aimed at any task at any moment): no
   task is completed while a task whose parent it is is still open, and once the root task is closed every task is.  The
   invariant: the parent of an open task is running, and a parent has at most one open task at a time. *)
Theorem C03_hierarchy_sequential_interactive :
  forall ns c0 ops, frag_nodes ns = true -> forallb frag_op ops = true ->
  let e := run ns c0 ops in
  open_under_completed e = false /\ (is_completed (st e 0) = true -> forall j, j < ntasks e -> is_completed (st e j) = true).
Proof. exact sequential_interactive_hierarchy. Qed.

Print Assumptions C03_completion_refuted.
Print Assumptions C03_partial_root_mirrored.
Print Assumptions C03_partial_only_root_mirrored.
Print Assumptions C03_partial_workflow_and_branch_wait_for_their_children.
Print Assumptions C03_partial_nothing_acted_on_after_end.
Print Assumptions C03_hierarchy_sequential_interactive.
Print Assumptions C03_one_terminal_event_refuted.
