(* C12 Restart / reload transparency at quiescent points.  Statements only.
   Proved: at every operation boundary of every run, what a reload reads back from the store image is
   the live picture of every task and of the process state (so a continuation that depends on tasks
   and process state only is the same).  What is NOT in the image are generated nodes that have no
   task yet (the later groups of a sequence, the not-yet-run acts of a block): the implementation
   loses them on reload -- known finding 12:generated_node_not_created, reproduced by the
   differential runs (memory store with eviction, SQLite store with restart). *)
From Coq Require Import List Arith ZArith Bool.
Import ListNotations.
From Acts.Gen Require Import GenState.
From Acts.Model Require Import Engine.
From Acts.Proofs Require Import ImageProofs.

Theorem C12_partial_tasks_and_state_recovered :
  forall ns c0 ops, tasks (reload (run ns c0 ops)) = tasks (run ns c0 ops) /\ pstate (reload (run ns c0 ops)) = pstate (run ns c0 ops).
Proof. exact run_reload. Qed.
Theorem C12_partial_reload_of_an_image : forall e, image_ok e -> tasks (reload e) = tasks e /\ pstate (reload e) = pstate e.
Proof. exact reload_image. Qed.

Print Assumptions C12_partial_tasks_and_state_recovered.
Print Assumptions C12_partial_reload_of_an_image.
