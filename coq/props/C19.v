(* C19 Timeout rules fire once, never early, and only for open tasks.  Statements only.
   Model: model/Engine.v do_tick (Process::do_tick + the Timeout arm of hook.rs); a firing is the
   event EFire task rule now start limit (the implementation logs the same line at the same place). *)
From Coq Require Import List Arith ZArith Bool.
Import ListNotations.
From Acts.Gen Require Import GenState GenTimeout.
From Acts.Model Require Import Engine Limit.
From Acts.Proofs Require Import EngineBasics TimeoutInv C02Core C02Ops C19Proofs LimitProofs StatePred TimeoutTable.

(* in every run -- any node table, any interleaving of scheduler steps, client actions and ticks of
   any spacing -- a rule fires only when the task has been open for at least the configured
   duration: never early *)
Theorem C19_never_early :
  forall ns clock0 ops t on now start limit,
    In (EFire t on now start limit) (trace (run ns clock0 ops)) -> (limit <= now - start)%Z.
Proof. exact never_early. Qed.
(* ... and at most once per task instance and rule *)
Theorem C19_at_most_once : forall ns clock0 ops, NoDup (fires (trace (run ns clock0 ops))).
Proof. exact at_most_once. Qed.
(* a task that is terminal never triggers a rule *)
Theorem C19_closed_never_fires : forall now start done r, rule_fires now start done true r = false.
Proof. exact closed_never_fires. Qed.
(* no later than the first tick after the limit while the task is still open: after a tick of a
   running process every due rule of an open task is flagged as fired *)
Theorem C19_fires_when_due :
  forall e adv t on limit,
    pstate e = SRunning -> t < ntasks e -> is_completed (st e t) = false ->
    In (on, limit) (t_timeouts (tk e t)) -> (limit <= clock e + adv - t_start (tk e t))%Z ->
    In on (t_tmo_done (tk (do_tick e adv) t)).
Proof. exact due_rules_fire. Qed.
(* firing a rule does not by itself close the timed task (nor change any task's state) *)
Theorem C19_firing_keeps_states : forall e adv t, st (do_tick e adv) t = st e t.
Proof. exact tick_keeps_states. Qed.

(* non-vacuity: an act with a 2 s rule; a tick at +0.5 s does nothing, a tick at +2.5 s fires once,
   a third tick does not fire again *)
Example C19_example :
  let ns := [ Build_node 0 KWorkflow 0 [(ONormal, 1)] None None false [] dspec [] [] [] [] [] [] false;
              Build_node 1 KStep 1 [(ONormal, 2)] None None false [] dspec [] [] [] [] [] [] false;
              Build_node 2 KAct 2 [(OTimeout 2, 3)] None None false [] dspec [] [(2, 2000%Z)] [] [] [] [] false;
              Build_node 3 KStep 3 [] None None false [] dspec [] [] [] [] [] [] false ] in
  let e := run ns 1000 [ODrain; OTick 500; ODrain; OTick 2000; ODrain; OTick 3000; ODrain] in
  fires (trace e) = [(2, 2)] /\ st e 2 = SInterrupt.
Proof. vm_compute. auto. Qed.

(* the configured duration: a limit is a value followed by one unit letter (s, m, h, d), the value an i64 as
   i64::from_str reads it; the tick compares the elapsed milliseconds with value * factor(unit) * 1000, a longer
   configured duration never gives a shorter limit (model/Limit.v, compared with TimeoutLimit::parse / as_secs on
   generated strings, overflow boundaries included, and used by the engine model for every rule) *)
Theorem C19_limit_syntax :
  forall s v u, parse_limit s = Some (v, u) <-> exists p, s = p ++ [byte_of_unit u] /\ parse_i64 p = Some v.
Proof. exact parse_limit_spec. Qed.
Theorem C19_limit_value_is_i64 : forall l v, parse_i64 l = Some v -> (i64_min <= v <= i64_max)%Z.
Proof. exact parse_i64_range. Qed.
Theorem C19_limit_conversion :
  (forall v u, as_secs (v, u) = (v * factor u)%Z) /\
  factor USecond = 1%Z /\ factor UMinute = 60%Z /\ factor UHour = (60 * 60)%Z /\ factor UDay = (60 * 60 * 24)%Z.
Proof. split; [exact as_secs_factor | exact factor_values]. Qed.
Theorem C19_limit_monotone : forall v v' u, (v <= v')%Z -> (limit_ms (v, u) <= limit_ms (v', u))%Z.
Proof. exact limit_monotone. Qed.
Example C19_limit_example :
  parse_limit [57; 48; 109] = Some (90%Z, UMinute) /\ limit_ms (90%Z, UMinute) = 5400000%Z /\
  parse_limit [53; 32; 115] = None /\ parse_limit [45; 115] = None.
Proof. vm_compute. auto. Qed.
(* the firing rule, statically tied to the source: gen/GenTimeout.v is regenerated from the Timeout arm of hook.rs on every
   run -- the order closed-check, processed-check, due-check, mark, schedule (no other way out, no state write), the state
   predicate of the closed-check, the comparison of the due-check and the factor seconds -> clock units.  The model's
   `rule_fires` (what every tick of every run uses, and what the theorems above are about) is the rule of that table read
   through the state predicates regenerated from state.rs; the order is the model's; the factor is the one of `limit_ms`.
   `>=` turned into `>`, another predicate in the closed-check, the mark set after the scheduling, another factor: each
   changes the table and breaks this proof. *)
Theorem C19_firing_rule_matches_source :
  (forall now start done s r, rule_fires now start done (is_completed s) r = fires_of_source now start done s r) /\
  tmo_order = model_tmo_order /\
  (forall x, limit_ms x = (as_secs x * tmo_factor)%Z).
Proof. split; [exact fires_match|]. split; [exact tmo_order_match | exact factor_match]. Qed.

Print Assumptions C19_never_early.
Print Assumptions C19_at_most_once.
Print Assumptions C19_closed_never_fires.
Print Assumptions C19_fires_when_due.
Print Assumptions C19_firing_keeps_states.
Print Assumptions C19_limit_syntax.
Print Assumptions C19_limit_value_is_i64.
Print Assumptions C19_limit_conversion.
Print Assumptions C19_limit_monotone.
Print Assumptions C19_firing_rule_matches_source.
