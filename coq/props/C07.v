(* C07 Data flow: inputs, act outputs and workflow outputs follow the scoping rules.  Statements only.
   Proved for every engine state and every write (Task::update_data, the single function through
   which start values, transform acts, scripts and client options write): the write reaches the
   writer and tasks of its ancestry only, names of the private class never leave the writer, and a
   task's outputs have exactly the declared keys plus `data` plus the exposed keys.  Read-your-writes
   along the flow and the values themselves are covered by the trace correspondence (message inputs /
   outputs, terminal event outputs, final task data). *)
From Coq Require Import List Arith ZArith Bool.
Import ListNotations.
From Coq Require Import String.
From Acts.Gen Require Import GenState GenConsts.
From Acts.Model Require Import Engine.
From Acts.Proofs Require Import EngineLemmas.

Theorem C07_write_stays_in_ancestry :
  forall e i v t, t <> i -> ~ In t (scope e i) -> t_data (tk (update_data e i v) t) = t_data (tk e t).
Proof. exact update_data_scope. Qed.
Theorem C07_private_names_stay_in_task :
  forall e i v t k, t <> i -> pri_regex k = true -> vget (t_data (tk (update_data e i v) t)) k = vget (t_data (tk e t)) k.
Proof. exact update_data_private. Qed.
Theorem C07_outputs_have_declared_keys :
  forall e i, map fst (outputs e i) =
    map fst (vmerge (vmerge (n_outputs (tnode e i)) [(0, VNull)]) (map (fun k => (k, VNull)) (t_exposed (tk e i)))).
Proof. exact outputs_keys. Qed.

(* the private class of the model (keys 0 `data`, 1 `dataset`, 2 `__p` of the generated names) is the class of the source's
   pattern, regenerated from acts/src/utils/consts.rs on every run: names beginning with `data` or with `__` *)
Theorem C07_private_class_is_the_pattern_of_the_source :
  GenConsts.ACT_PRI_KEYS_REGEX = "^(data|__).*"%string /\ (forall k, pri_regex k = true <-> k <= 2).
Proof. split; [reflexivity|]. intros k. unfold pri_regex. apply Nat.leb_le. Qed.

Example C07_example :
  let ns := [ Build_node 0 KWorkflow 0 [(ONormal, 1)] None None false [] dspec [] [] [] [(3, VNum 5)] [(3, VNull)] [] false;
              Build_node 1 KStep 1 [(ONormal, 2)] None None false [] dspec [] [] [] [] [] [] false;
              Build_node 2 KAct 2 [] None None false [] dspec [] [] [] [] [(3, VNull)] [] false ] in
  let e := run ns 1000 [ODrain; OAct 2 ANext [(3, VNum 9); (2, VNum 1)]; ODrain] in
  (* the declared name k3 is updated in the workflow scope, the private name stays in the act *)
  vget (t_data (tk e 0)) 3 = Some (VNum 9) /\ vget (t_data (tk e 0)) 2 = None /\ scope e 2 = [1; 0].
Proof. vm_compute. auto. Qed.

Print Assumptions C07_write_stays_in_ancestry.
Print Assumptions C07_private_names_stay_in_task.
Print Assumptions C07_outputs_have_declared_keys.
Print Assumptions C07_private_class_is_the_pattern_of_the_source.
