(* C04 Control flow conforms to the YAML: order, branch selection, skips.  Statements only.
   The reference interpretation of the property is the engine model itself (model/Engine.v, written
   from the Rust sources and compared line by line with the implementation on every run); proved
   here is the branch-selection logic it uses, for every engine state:
   which branches start at once, which are skipped, and when a held-back branch is released. *)
From Coq Require Import List Arith ZArith Bool.
Import ListNotations.
From Acts.Gen Require Import GenState GenReady.
From Acts.Model Require Import Engine.
From Acts.Proofs Require Import EngineLemmas LogInv C02Ops FinalProofs StatePred Ready.

(* a needs-branch starts exactly when a needed sibling has finished *)
Theorem C04_needs_branch_release :
  forall e i, n_kind (tnode e i) = KBranch -> n_needs (tnode e i) <> [] ->
  fst (is_ready e i) = true <->
  exists j, In j (siblings e i) /\ is_completed (st e j) = true /\ In (n_id (tnode e j)) (n_needs (tnode e i)).
Proof. exact needs_ready_iff. Qed.
(* the else branch runs exactly when no sibling condition held (every sibling was skipped) *)
Theorem C04_else_branch_release :
  forall e i, n_kind (tnode e i) = KBranch -> n_needs (tnode e i) = [] -> n_else (tnode e i) = true ->
  fst (is_ready e i) = true <-> forall j, In j (siblings e i) -> st e j = SSkipped.
Proof. exact else_ready_iff. Qed.
(* steps, acts and plain branches are never held back by is_ready *)
Theorem C04_others_not_held : forall e i, n_kind (tnode e i) <> KBranch -> is_ready e i = (true, e).
Proof. exact other_ready. Qed.
(* initialisation of a branch: needs -> pending; `if` false -> skipped, true -> runs; without `if`:
   not else -> skipped, else with siblings -> pending *)
Theorem C04_branch_init :
  forall e i, n_kind (tnode e i) = KBranch ->
  st (kind_init e i) i =
    (if negb (Nat.eqb (length (n_needs (tnode e i))) 0) then SPending
     else match n_if (tnode e i) with
          | Some b => match eval_cond (set_silent e i true) i b with Some false => SSkipped | _ => st e i end
          | None => if negb (n_else (tnode e i)) then SSkipped
                    else if Nat.ltb 1 (match parent (set_silent e i true) i with
                                       | Some p => length (normal_children (tnode (set_silent e i true) p)) | None => 1 end)
                         then SPending else st e i
          end) \/ length (tasks e) <= i.
Proof. exact branch_init_state. Qed.

(* order of a sequence, in every run (any node table, operations, schedule): a task created through the `next` link of
   its predecessor -- the next step of a sequence, the next act of a step -- is created when the predecessor is in a
   terminal state (`cur c_none l t` is the state the writes of the trace prefix l leave task t in), and unless that
   state is an error, which a catch may still take, the predecessor stays in it for the rest of the run *)
Theorem C04_successor_starts_after_predecessor_is_terminal :
  forall ns c0 ops l1 l2 t nid p at_,
    trace (run ns c0 ops) = l1 ++ ENew t nid (Some p) at_ VNext :: l2 ->
    is_completed (cur c_none l1 p) = true /\
    (cur c_none l1 p <> SError -> st (run ns c0 ops) p = cur c_none l1 p).
Proof. exact next_link_after_terminal. Qed.
(* non-vacuity: the second step of a sequence is created through the next link after the first one completed *)
Example C04_example_sequence :
  let ns := [ Build_node 0 KWorkflow 0 [(ONormal, 1)] None None false [] dspec [] [] [] [] [] [] false;
              Build_node 1 KStep 1 [] (Some 2) None false [] dspec [] [] [] [] [] [] false;
              Build_node 2 KStep 1 [] None None false [] dspec [] [] [] [] [] [] false ] in
  existsb (fun x => match x with ENew _ 2 (Some 1) _ VNext => true | _ => false end) (trace (run ns 1000 [ODrain])) = true.
Proof. vm_compute. reflexivity. Qed.
(* the release rule, statically tied to the source: gen/GenReady.v is regenerated from Task::is_ready (task.rs) on every
   run -- the state predicate a needed sibling must satisfy, the predicate every sibling must satisfy for an else branch,
   the predicates one of which makes an else branch give up, and the state it is then written.  `ready_of_source` reads
   these through the state predicates regenerated from state.rs; the model's `is_ready` (which the two release theorems
   above are about, and which every run of the model uses) is that function, for every engine state and task. *)
Theorem C04_release_rule_matches_source : forall e i, is_ready e i = ready_of_source e i.
Proof. exact ready_match. Qed.

Print Assumptions C04_needs_branch_release.
Print Assumptions C04_else_branch_release.
Print Assumptions C04_others_not_held.
Print Assumptions C04_branch_init.
Print Assumptions C04_successor_starts_after_predecessor_is_terminal.
Print Assumptions C04_release_rule_matches_source.
