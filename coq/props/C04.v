(* C04 Control flow conforms to the YAML: order, branch selection, skips.  Statements only.
   The reference interpretation of the property is the engine model itself (model/Engine.v, written
   from the Rust sources and compared line by line with the implementation on every run); proved
   here is the branch-selection logic it uses, for every engine state:
   which branches start at once, which are skipped, and when a held-back branch is released. *)
From Coq Require Import List Arith ZArith Bool.
Import ListNotations.
From Acts.Gen Require Import GenState.
From Acts.Model Require Import Engine.
From Acts.Proofs Require Import EngineLemmas.

(* a needs-branch starts exactly when a needed sibling has finished *)
Theorem C04_needs_branch_release :
  forall e i, n_kind (tnode e i) = KBranch -> n_needs (tnode e i) <> [] ->
  fst (is_ready e i) = true <->
  exists j, In j (siblings e i) /\ is_completed (st e j) = true /\ In (n_id (tnode e j)) (n_needs (tnode e i)).
Proof. exact needs_ready_iff. Qed.
(* the else branch runs exactly when no sibling condition held (every sibling was skipped) *)
Theorem C04_else_branch_release :
  forall e i, n_kind (tnode e i) = KBranch -> n_needs (tnode e i) = [] -> n_else (tnode e i) = true ->
  fst (is_ready e i) = true <-> forall j, In j (siblings e i) -> st e j = SSkipped.
Proof. exact else_ready_iff. Qed.
(* steps, acts and plain branches are never held back by is_ready *)
Theorem C04_others_not_held : forall e i, n_kind (tnode e i) <> KBranch -> is_ready e i = (true, e).
Proof. exact other_ready. Qed.
(* initialisation of a branch: needs -> pending; `if` false -> skipped, true -> runs; without `if`:
   not else -> skipped, else with siblings -> pending *)
Theorem C04_branch_init :
  forall e i, n_kind (tnode e i) = KBranch ->
  st (kind_init e i) i =
    (if negb (Nat.eqb (length (n_needs (tnode e i))) 0) then SPending
     else match n_if (tnode e i) with
          | Some b => match eval_cond (set_silent e i true) i b with Some false => SSkipped | _ => st e i end
          | None => if negb (n_else (tnode e i)) then SSkipped
                    else if Nat.ltb 1 (match parent (set_silent e i true) i with
                                       | Some p => length (normal_children (tnode (set_silent e i true) p)) | None => 1 end)
                         then SPending else st e i
          end) \/ length (tasks e) <= i.
Proof. exact branch_init_state. Qed.

Print Assumptions C04_needs_branch_release.
Print Assumptions C04_else_branch_release.
Print Assumptions C04_others_not_held.
Print Assumptions C04_branch_init.
