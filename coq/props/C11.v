(* C11 The store always holds a complete image of what the engine knows.  Statements only.
   Model: the task rows / process row of model/Engine.v (written when a task is pushed, at every task
   event, and by Process::persist at the end of every scheduler step, accepted action and tick). *)
From Coq Require Import List Arith ZArith Bool.
Import ListNotations.
From Acts.Gen Require Import GenState.
From Acts.Model Require Import Engine.
From Acts.Proofs Require Import ImageProofs.

(* after every operation of every run (any node table, any operation sequence, any schedule) there is
   a row for every live task and it equals the task -- state, predecessor link, data (with the catch /
   timeout / hook markers kept in it), error, start and end time, hooks -- and the process row carries
   the process state *)
Theorem C11_image_complete : forall ns c0 ops, image_ok (run ns c0 ops).
Proof. exact run_image. Qed.
(* the invariant is kept by each single operation, accepted or rejected *)
Theorem C11_image_kept_by_every_operation : forall e o, image_ok e -> image_ok (apply_op e o).
Proof. exact image_apply_op. Qed.

Example C11_example :
  let ns := [ Build_node 0 KWorkflow 0 [(ONormal, 1)] None None false [] dspec [] [] [] [] [] [] false;
              Build_node 1 KStep 1 [(ONormal, 2)] None None false [] dspec [] [] [] [] [] [] false;
              Build_node 2 KAct 2 [] None None false [] dspec [] [] [] [] [] [] false ] in
  let e := run ns 1000 [ODrain; OAct 2 (AError (Some 3)) [(5, VNum 1)]; ODrain] in
  map (fun r => match r with Some t => (t_state t, t_err t) | None => (SNone, None) end) (rows e)
    = [(SError, Some 3); (SError, Some 3); (SError, Some 3)] /\ prow e = Some SError.
Proof. vm_compute. auto. Qed.

Print Assumptions C11_image_complete.
Print Assumptions C11_image_kept_by_every_operation.
