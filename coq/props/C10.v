(* C10 Store contract: faithful records and one query semantics on every backend.
   Only statements, closed by `exact`, with their assumptions printed.  The models are
   model/StoreQ.v (memory-store query calculus, collection operations) and model/Fields.v
   (record <-> stored representation over the field tables generated from the Rust sources). *)
From Coq Require Import List String Bool Arith ZArith Sorting.Permutation Sorting.Sorted.
Import ListNotations.
From Acts.Gen Require Import GenStoreFields.
From Acts.Model Require Import StoreQ Fields.
From Acts.Proofs Require Import StoreQProofs FieldsProofs.

(* 1. create; find returns a record equal in every field -- memory backend, all six collections *)
Theorem C10_mem_create_find :
  forall (V : Type) (t : store_tables) (r : string -> V) (f : string),
    In t all_tables -> In f (st_fields t) -> mem_read V (mem_doc V t r) f = Some (r f).
Proof. intros V t r f Ht. exact (mem_roundtrip V t r f (proj1 (table_ok t Ht))). Qed.

(* 2. the same for the SQLite backend; update replaces every field but the id *)
Theorem C10_sql_create_find :
  forall (V : Type) (t : store_tables) (r : string -> V) (f : string),
    In t all_tables -> In f (st_fields t) -> sql_read V t (sql_create V t r) f = Some (r f).
Proof. intros V t r f Ht. exact (sql_create_find V t r f (proj2 (table_ok t Ht))). Qed.
Theorem C10_sql_update :
  forall (V : Type) (t : store_tables) (r0 r1 : string -> V) (f : string),
    In t all_tables -> In f (st_fields t) ->
    sql_read V t (sql_update V t r1 (sql_create V t r0)) f = Some (if String.eqb f "id" then r0 f else r1 f).
Proof. intros V t r0 r1 f Ht. exact (sql_update_find V t r0 r1 f (proj2 (table_ok t Ht))). Qed.

(* 3. collection operations behave like a map from id to record *)
Theorem C10_create_find : forall d k r, db_find (db_insert d k r) k = Some r.
Proof. exact find_insert_same. Qed.
Theorem C10_create_frame : forall d k r j, j <> k -> db_find (db_insert d k r) j = db_find d j.
Proof. exact find_insert_other. Qed.
Theorem C10_update_replaces : forall d k r, db_find d k <> None -> db_find (db_update d k r) k = Some r.
Proof. exact find_update_same. Qed.
Theorem C10_update_frame : forall d k r j, j <> k -> db_find (db_update d k r) j = db_find d j.
Proof. exact find_update_other. Qed.
Theorem C10_delete_removes : forall d k, db_find (db_delete d k) k = None.
Proof. exact find_delete_same. Qed.
Theorem C10_delete_frame : forall d k j, j <> k -> db_find (db_delete d k) j = db_find d j.
Proof. exact find_delete_other. Qed.
Theorem C10_reachable_is_map : forall ops, wf_db (fst (srun [] ops)).
Proof. intros ops. apply sorted_wf, srun_sorted. exact I. Qed.

(* 4. a query returns exactly the records satisfying its AND/OR filter (also when a sub-condition
      matches nothing), ordered by the requested keys, paged by offset/limit, with the true count *)
Theorem C10_query_filter :
  forall d cs, wf_db d -> select d cs = filter (fun kr => sat_query (snd kr) cs) d.
Proof. exact select_is_filter. Qed.
Theorem C10_query_page :
  forall d q, wf_db d ->
    let sel := filter (fun kr => sat_query (snd kr) (q_conds q)) d in
    let p := run_query d q in
    p_count p = List.length sel /\ p_page_size p = q_limit q /\
    exists all, Permutation sel all /\ (q_order q <> [] -> Sorted (le_rows (q_order q)) all) /\
                (q_order q = [] -> all = sel) /\
                p_rows p = firstn (q_limit q) (skipn (q_offset q) all).
Proof. exact run_query_spec. Qed.
Theorem C10_numbers_numerically :
  forall k x y a b, fget (snd x) k = JNum a -> fget (snd y) k = JNum b ->
    (le_rows [(k, false)] x y <-> (a <= b)%Z) /\ (le_rows [(k, true)] x y <-> (b <= a)%Z).
Proof. exact le_rows_num. Qed.

(* non-vacuity: a three-row store, a filter whose first expression matches nothing, an ordered page *)
Example C10_example :
  let d : db := fst (srun [] [SCreate 2 [(0, JNum 10); (1, JStr 7)]; SCreate 1 [(0, JNum 9); (1, JStr 7)];
                              SCreate 3 [(0, JNum 9); (1, JStr 8)]]) in
  wf_db d /\
  select d [ {| c_type := CAnd; c_exprs := [ {| e_op := EQ; e_key := 1; e_val := JStr 99 |};
                                             {| e_op := EQ; e_key := 0; e_val := JNum 9 |} ] |} ] = [] /\
  map fst (p_rows (run_query d {| q_conds := []; q_order := [(0, false); (1, true)]; q_offset := 0; q_limit := 2 |})) = [3; 1].
Proof. split; [apply C10_reachable_is_map|]. vm_compute. auto. Qed.

Print Assumptions C10_mem_create_find.
Print Assumptions C10_sql_create_find.
Print Assumptions C10_sql_update.
Print Assumptions C10_create_find.
Print Assumptions C10_create_frame.
Print Assumptions C10_update_replaces.
Print Assumptions C10_update_frame.
Print Assumptions C10_delete_removes.
Print Assumptions C10_delete_frame.
Print Assumptions C10_reachable_is_map.
Print Assumptions C10_query_filter.
Print Assumptions C10_query_page.
Print Assumptions C10_numbers_numerically.
