(* C02 Task lifecycle: only legal transitions, terminal states are final.
   Statements only.  Model: model/Engine.v (one process: scheduler steps, client actions, ticks, in any
   order -- `OSched k` picks any queued signal, so every schedule of whole engine operations is
   covered); legality: model/Oracles.v `legal` / `revive` over the state classes generated from
   acts/src/scheduler/state.rs. *)
From Coq Require Import List Arith ZArith Bool.
Import ListNotations.
From Acts.Gen Require Import GenState GenSchedNext.
From Acts.Model Require Import Engine Oracles.
From Acts.Proofs Require Import EngineBasics ReviveInv LogInv C02Core C02Ops FinalProofs StatePred SchedNext.

(* every state write of every run, for every node table (well-formed or not), every operation
   sequence and every schedule, moves the task forward through the stages
   none < created (ready / pending / interrupted) < running < terminal, or re-writes the same state,
   or is the revival of an errored task (error -> running) *)
Theorem C02_forward :
  forall (ns : list node) (clock0 : Z) (ops : list op) t o n at_ site,
    In (ETrans t o n at_ site) (trace (run ns clock0 ops)) -> legal o n = true \/ revive o n = true.
Proof. exact all_transitions_legal. Qed.

(* what `legal` means: the stage never decreases, and a terminal state is never left or changed *)
Theorem C02_legal_meaning :
  forall o n, legal o n = true -> stage o <= stage n /\ (is_completed o = true -> n = o).
Proof. exact legal_meaning. Qed.
(* the only way out of a terminal state is the revival of an errored task *)
Theorem C02_terminal_final :
  forall (ns : list node) (clock0 : Z) (ops : list op) t o n at_ site,
    In (ETrans t o n at_ site) (trace (run ns clock0 ops)) -> is_completed o = true -> n = o \/ (o = SError /\ n = SRunning).
Proof. exact terminal_final. Qed.

(* ... and that exception is taken at most once per task: no trace of any run holds two revival
   events of the same task (whatever lies before, between and after them) *)
Theorem C02_revived_at_most_once :
  forall (ns : list node) (clock0 : Z) (ops : list op) t l1 l2 l3 a1 s1 a2 s2,
    trace (run ns clock0 ops) = l1 ++ ETrans t SError SRunning a1 s1 :: l2 ++ ETrans t SError SRunning a2 s2 :: l3 -> False.
Proof. exact revived_at_most_once. Qed.
(* the same as a statement about the state history of a task, read off the trace (`cur c_none l t` is the
   state the writes of the prefix l leave task t in; `revivals l` lists the tasks revived in l):
   every write starts from the state the task has, and between any two points of a run with no revival of
   the task in between its stage never decreases and a terminal state is kept for good *)
Theorem C02_write_from_current :
  forall ns clock0 ops l1 l2 t o n a s,
    trace (run ns clock0 ops) = l1 ++ ETrans t o n a s :: l2 -> o = cur c_none l1 t.
Proof. exact write_from_current. Qed.
Theorem C02_states_only_move_forward :
  forall ns clock0 ops l1 l2 t,
    trace (run ns clock0 ops) = l1 ++ l2 -> ~ In t (revivals l2) ->
    stage (cur c_none l1 t) <= stage (st (run ns clock0 ops) t) /\
    (is_completed (cur c_none l1 t) = true -> st (run ns clock0 ops) t = cur c_none l1 t).
Proof. exact states_only_move_forward. Qed.
(* ... and operationally: a task that is in a terminal state other than error after some operations of a run is in
   that state after any further operations (an error may still be taken by a catch, once) *)
Theorem C02_terminal_is_final :
  forall ns clock0 ops ops' t,
    is_completed (st (run ns clock0 ops) t) = true -> st (run ns clock0 ops) t <> SError ->
    st (run ns clock0 (ops ++ ops')) t = st (run ns clock0 ops) t.
Proof. exact terminal_is_final. Qed.
(* non-vacuity: a run with a transition of every stage, and a revival *)
Example C02_example :
  let ns := [ Build_node 0 KWorkflow 0 [(ONormal, 1)] None None false [] dspec [] [] [] [] [] [] false;
              Build_node 1 KStep 1 [(ONormal, 2)] None None false [] dspec [None] [] [] [] [] [] false;
              Build_node 2 KAct 2 [] None None false [] dspec [] [] [] [] [] [] false ] in
  let e := run ns 1000 [ODrain; OAct 2 (AError (Some 1)) []; ODrain] in
  existsb (fun x => match x with ETrans 1 SError SRunning _ 19 => true | _ => false end) (trace e) = true /\
  existsb (fun x => match x with ETrans 2 SInterrupt SError _ 31 => true | _ => false end) (trace e) = true /\
  pstate e = SCompleted.
Proof. vm_compute. auto. Qed.

(* the scheduler step, statically tied to the source: gen/GenSchedNext.v is regenerated from Scheduler::next
   (scheduler.rs) on every run -- the order drop-check, exec, (on an error of exec) set the error, emit it, write the
   image, with no other way out and no state write of its own; the state predicate of the drop-check.  The model's
   `step_queue` (the `OSched` / `ODrain` operations every theorem above quantifies over) is the step of that table read
   through the state predicates regenerated from state.rs; so a task closed while it waited in the queue is not touched
   (a terminal state is final also for a queued task).  A drop-check with another predicate (only skipped / aborted,
   say), or moved behind exec, changes the table and breaks this proof. *)
Theorem C02_scheduler_step_matches_source :
  (forall e, step_queue e = step_of_source e) /\ sched_order = model_sched_order /\
  (forall e i q, queue e = i :: q -> is_completed (st (add_ev (with_queue e q) (EPop i)) i) = true ->
     step_queue e = add_ev (with_queue e q) (EPop i)).
Proof. split; [exact step_match|]. split; [exact sched_order_match | exact closed_in_queue_untouched]. Qed.

Print Assumptions C02_forward.
Print Assumptions C02_legal_meaning.
Print Assumptions C02_terminal_final.
Print Assumptions C02_revived_at_most_once.
Print Assumptions C02_write_from_current.
Print Assumptions C02_states_only_move_forward.
Print Assumptions C02_terminal_is_final.
Print Assumptions C02_scheduler_step_matches_source.
