(* C02 Task lifecycle: only legal transitions, terminal states are final.
   Statements only.  Model: model/Engine.v (one process: scheduler steps, client actions, ticks, in any
   order -- `OSched k` picks any queued signal, so every schedule of whole engine operations is
   covered); legality: model/Oracles.v `legal` / `revive` over the state classes generated from
   acts/src/scheduler/state.rs. *)
From Coq Require Import List Arith ZArith Bool.
Import ListNotations.
From Acts.Gen Require Import GenState.
From Acts.Model Require Import Engine Oracles.
From Acts.Proofs Require Import EngineBasics C02Core C02Ops.

(* every state write of every run, for every node table (well-formed or not), every operation
   sequence and every schedule, moves the task forward through the stages
   none < created (ready / pending / interrupted) < running < terminal, or re-writes the same state,
   or is the revival of an errored task (error -> running) *)
Theorem C02_forward :
  forall (ns : list node) (clock0 : Z) (ops : list op) t o n at_ site,
    In (ETrans t o n at_ site) (trace (run ns clock0 ops)) -> legal o n = true \/ revive o n = true.
Proof. exact all_transitions_legal. Qed.

(* what `legal` means: the stage never decreases, and a terminal state is never left or changed *)
Theorem C02_legal_meaning :
  forall o n, legal o n = true -> stage o <= stage n /\ (is_completed o = true -> n = o).
Proof. exact legal_meaning. Qed.
(* the only way out of a terminal state is the revival of an errored task *)
Theorem C02_terminal_final :
  forall (ns : list node) (clock0 : Z) (ops : list op) t o n at_ site,
    In (ETrans t o n at_ site) (trace (run ns clock0 ops)) -> is_completed o = true -> n = o \/ (o = SError /\ n = SRunning).
Proof. exact terminal_final. Qed.

(* non-vacuity: a run with a transition of every stage, and a revival *)
Example C02_example :
  let ns := [ Build_node 0 KWorkflow 0 [(ONormal, 1)] None None false [] dspec [] [] [] [] [] [] false;
              Build_node 1 KStep 1 [(ONormal, 2)] None None false [] dspec [None] [] [] [] [] [] false;
              Build_node 2 KAct 2 [] None None false [] dspec [] [] [] [] [] [] false ] in
  let e := run ns 1000 [ODrain; OAct 2 (AError (Some 1)) []; ODrain] in
  existsb (fun x => match x with ETrans 1 SError SRunning _ 19 => true | _ => false end) (trace e) = true /\
  existsb (fun x => match x with ETrans 2 SInterrupt SError _ 31 => true | _ => false end) (trace e) = true /\
  pstate e = SCompleted.
Proof. vm_compute. auto. Qed.

Print Assumptions C02_forward.
Print Assumptions C02_legal_meaning.
Print Assumptions C02_terminal_final.
