(* C13 Processes are isolated; outcome is independent of load, cache size and threads.  Statements only.
   The model of a loaded engine is the product of per-process engine machines (model/Multi.v); that
   the implementation behaves like this product -- that cache, store, queue and emitter, which it
   shares between processes, carry nothing from one process to another -- is what the per-pid
   comparison of loaded runs with solo runs checks. *)
From Coq Require Import List Arith ZArith Bool.
Import ListNotations.
From Acts.Model Require Import Engine Multi.
From Acts.Proofs Require Import MultiProofs.

(* every process of a loaded run ends exactly where it ends when run alone with the operations that
   concern it (its own actions and the ticks), for every interleaving and any number of processes *)
Theorem C13_isolation :
  forall xs s p, p < length s -> nth p (srun s xs) deng = fold_left apply_op (proj p xs) (nth p s deng).
Proof. exact isolation. Qed.
Theorem C13_order_of_others_irrelevant :
  forall xs ys s p, p < length s -> proj p xs = proj p ys -> nth p (srun s xs) deng = nth p (srun s ys) deng.
Proof. exact isolation_order. Qed.

Print Assumptions C13_isolation.
Print Assumptions C13_order_of_others_irrelevant.
