(* Timeout limits (model/act/timeout.rs): `<value><unit>` with unit s | m | h | d, value an i64 as
   i64::from_str reads it (optional sign, at least one ASCII digit, overflow is an error), and the
   conversion to seconds the timeout check uses.  Strings are lists of byte values.  Definitions only. *)
From Coq Require Import List Arith ZArith Bool.
Import ListNotations.
Local Open Scope Z_scope.

Inductive tunit := USecond | UMinute | UHour | UDay.
Definition unit_of_byte (b : nat) : option tunit :=
  if Nat.eqb b 115 then Some USecond else if Nat.eqb b 109 then Some UMinute
  else if Nat.eqb b 104 then Some UHour else if Nat.eqb b 100 then Some UDay else None.
Definition byte_of_unit (u : tunit) : nat := match u with USecond => 115 | UMinute => 109 | UHour => 104 | UDay => 100 end.
Definition factor (u : tunit) : Z := match u with USecond => 1 | UMinute => 60 | UHour => 3600 | UDay => 86400 end.

Definition i64_min : Z := - 9223372036854775808.
Definition i64_max : Z := 9223372036854775807.
Definition is_digit (b : nat) : bool := Nat.leb 48 b && Nat.leb b 57.
(* the digits of l as a number, most significant first; None when a byte is not a digit *)
Fixpoint digits (l : list nat) (acc : Z) : option Z :=
  match l with
  | [] => Some acc
  | d :: r => if is_digit d then digits r (acc * 10 + Z.of_nat (d - 48)) else None
  end.
(* i64::from_str *)
Definition signed (sign : Z) (r : list nat) : option Z :=
  match r with
  | [] => None
  | _ => match digits r 0 with
         | Some n => let v := sign * n in if Z.leb i64_min v && Z.leb v i64_max then Some v else None
         | None => None
         end
  end.
Definition parse_i64 (l : list nat) : option Z :=
  match l with
  | [] => None
  | b :: r => if Nat.eqb b 43 then signed 1 r else if Nat.eqb b 45 then signed (-1) r else signed 1 l
  end.
(* TimeoutLimit::parse: a regex with a greedy `any` group followed by one of s, m, h, d at the end of the text --
   everything but the last byte is the value, the last byte the unit *)
Fixpoint split_last (l : list nat) : option (list nat * nat) :=
  match l with
  | [] => None
  | [x] => Some ([], x)
  | x :: r => match split_last r with Some (p, c) => Some (x :: p, c) | None => None end
  end.
Definition parse_limit (s : list nat) : option (Z * tunit) :=
  match split_last s with
  | None => None
  | Some (p, c) =>
      match unit_of_byte c with
      | None => None
      | Some u => match parse_i64 p with Some v => Some (v, u) | None => None end
      end
  end.
(* TimeoutLimit::as_secs (exact; the code computes in i64) and the limit in milliseconds the tick compares with *)
Definition as_secs (x : Z * tunit) : Z := fst x * factor (snd x).
Definition limit_ms (x : Z * tunit) : Z := as_secs x * 1000.
Definition fits_i64 (z : Z) : bool := Z.leb i64_min z && Z.leb z i64_max.
