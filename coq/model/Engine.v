(* Executable model of one acts process: node table, flat task list with prev links, scheduler
   queue, init / run / next / review protocol, lifecycle hooks, catches, timeouts, run-time
   generated acts, client actions, data flow, and the task rows written by every task event.

   It mirrors the Rust code function by function (file names in the comments); it is not a tidy
   tree semantics.  Definitions only; proofs live in coq/proofs. *)
From Coq Require Import List Arith ZArith Bool.
Import ListNotations.
From Acts.Gen Require Import GenState.

Definition is (s1 s2 : TaskState) : bool := TaskState_beq s1 s2.

Inductive nkind := KWorkflow | KBranch | KStep | KAct.
Scheme Equality for nkind.

(* ---------- values, variables, expressions ---------- *)
Definition key := nat.
Inductive val := VNull | VBool (b : bool) | VNum (z : Z).
Definition vars := list (key * val).
Fixpoint vget (v : vars) (k : key) : option val :=
  match v with [] => None | (k', x) :: r => if Nat.eqb k k' then Some x else vget r k end.
Fixpoint vset (v : vars) (k : key) (x : val) : vars :=
  match v with [] => [(k, x)] | (k', y) :: r => if Nat.eqb k k' then (k, x) :: r else (k', y) :: vset r k x end.
Definition vhas (v : vars) (k : key) : bool := match vget v k with Some _ => true | None => false end.
Definition vmerge (a b : vars) : vars := fold_left (fun acc kv => vset acc (fst kv) (snd kv)) b a.
(* utils/consts.rs: key 0 = "data", 1 = "dataset", 2 = "__p";  ACT_PRI_KEYS_REGEX = ^(data|__).*
   and is_private_key = starts_with("__") *)
Definition pri_regex (k : key) : bool := Nat.leb k 2.
Definition is_private_key (k : key) : bool := Nat.eqb k 2.

(* conditions: the fragment of JavaScript the generator prints; None = the evaluation throws
   (a name that is not defined) *)
Inductive nexpr := NVar (k : key) | NLit (z : Z) | NAdd (a b : nexpr) | NSub (a b : nexpr).
Inductive bexpr := BTrue | BFalse | BLt (a b : nexpr) | BLe (a b : nexpr) | BGt (a b : nexpr) | BGe (a b : nexpr)
                 | BAnd (a b : bexpr) | BOr (a b : bexpr) | BNot (a : bexpr).
Fixpoint neval (env : key -> option val) (e : nexpr) : option Z :=
  match e with
  | NVar k => match env k with
              | Some (VNum z) => Some z
              | Some VNull => Some 0%Z               (* ToNumber(null) *)
              | Some (VBool b) => Some (if b then 1 else 0)%Z
              | None => None end
  | NLit z => Some z
  | NAdd a b => match neval env a, neval env b with Some x, Some y => Some (x + y)%Z | _, _ => None end
  | NSub a b => match neval env a, neval env b with Some x, Some y => Some (x - y)%Z | _, _ => None end
  end.
Fixpoint beval (env : key -> option val) (e : bexpr) : option bool :=
  let cmp f a b := match neval env a, neval env b with Some x, Some y => Some (f x y) | _, _ => None end in
  match e with
  | BTrue => Some true | BFalse => Some false
  | BLt a b => cmp Z.ltb a b | BLe a b => cmp Z.leb a b
  | BGt a b => cmp (fun x y => Z.ltb y x) a b | BGe a b => cmp (fun x y => Z.leb y x) a b
  | BAnd a b => match beval env a with Some true => beval env b | r => r end       (* short circuit *)
  | BOr a b => match beval env a with Some false => beval env b | r => r end
  | BNot a => match beval env a with Some x => Some (negb x) | None => None end
  end.
Definition cond := option bexpr.

(* ---------- nodes ---------- *)
Inductive okind := ONormal | OCatch (on : option nat) | OTimeout (on : nat).
Definition okind_beq a b := match a, b with
  | ONormal, ONormal => true
  | OCatch None, OCatch None => true
  | OCatch (Some x), OCatch (Some y) => Nat.eqb x y
  | OTimeout x, OTimeout y => Nat.eqb x y
  | _, _ => false end.
Inductive levt := LCreated | LCompleted | LBeforeUpdate | LUpdated | LStep.
Scheme Equality for levt.
(* UFail: a package whose execution fails (invalid parameters, a script that throws) *)
Inductive ukind := UIrq | UMsg | UBlock | UParallel | USequence | UFail.
Definition is_fail (u : ukind) : bool := match u with UFail => true | _ => false end.
(* act template: package kind, list length (parallel/sequence), block mode, `on`, nested acts *)
Inductive aspec := ASpec (u : ukind) (n : nat) (sq : bool) (on : option levt) (acts : list aspec).
Definition sp_u a := match a with ASpec u _ _ _ _ => u end.
Definition sp_n a := match a with ASpec _ n _ _ _ => n end.
Definition sp_sq a := match a with ASpec _ _ q _ _ => q end.
Definition sp_on a := match a with ASpec _ _ _ o _ => o end.
Definition sp_acts a := match a with ASpec _ _ _ _ l => l end.
Definition dspec := ASpec UIrq 0 true None [].

Record node := {
  n_id : nat;                                    (* the declared id (interned); 0 for run-time nodes *)
  n_kind : nkind; n_level : nat;
  n_children : list (okind * nat);
  n_next : option nat;
  n_if : cond; n_else : bool; n_needs : list nat;
  n_spec : aspec;
  n_catches : list (option nat);
  n_timeouts : list (nat * Z);                   (* (rule id, limit in ms) *)
  n_setup : list aspec;
  n_inputs : vars; n_outputs : vars; n_params : vars; n_isset : bool }.
Definition n_outs (n : node) : bool := negb (Nat.eqb (length (n_outputs n)) 0).
Definition is_func (n : node) : bool := match sp_u (n_spec n) with UBlock | UParallel | USequence => true | _ => false end.

Record task := { t_nid : nat; t_state : TaskState; t_prev : option nat;
                 t_err : option nat; t_catch_done : bool; t_catches : list (option nat);
                 t_start : Z; t_end : Z; t_tmo_done : list nat; t_timeouts : list (nat * Z);
                 t_evproc : bool; t_silent : bool; t_hooks : list (levt * aspec);
                 t_data : vars; t_exposed : list key }.

(* how a task came to be created: through the `next` link of its predecessor (the next step of a sequence, the next act
   of a step), or any other way (a child of a running task, catch / timeout steps, hook acts, push, redo, the root) *)
Inductive via := VNext | VOther.
Inductive ev :=
| ENew (tid nid : nat) (prev : option nat) (at_ : Z) (via : via)
| ETrans (tid : nat) (o n : TaskState) (at_ : Z) (site : nat)
| EMsg (tid : nat) (s : TaskState) (ins outs : vars)
| EProc (s : TaskState) (outs : vars)
| EAct (ok : bool)
| EPop (tid : nat)
| EQuiet
| EFire (tid on : nat) (now start limit : Z).       (* a timeout rule fires *)

Record eng := { nodes : list node; tasks : list task; rows : list (option task); queue : list nat;
                trace : list ev; oof : bool; exn : bool; pstate : TaskState; prow : option TaskState;
                clock : Z }.

Definition dnode : node := Build_node 0 KAct 0 [] None None false [] dspec [] [] [] [] [] [] false.
Definition dtask : task := Build_task 0 SNone None None false [] 0 0 [] [] false false [] [] [].
Definition nd e i := nth i (nodes e) dnode.
Definition tk e i := nth i (tasks e) dtask.
Definition tnode e i := nd e (t_nid (tk e i)).
Definition st e i := t_state (tk e i).
Definition kind e i := n_kind (tnode e i).

Fixpoint upd {A} (l : list A) (i : nat) (x : A) : list A :=
  match l, i with
  | [], _ => []
  | _ :: t, O => x :: t
  | h :: t, S i => h :: upd t i x
  end.

Definition with_tasks e ts := {| nodes := nodes e; tasks := ts; rows := rows e; queue := queue e; trace := trace e; oof := oof e; exn := exn e; pstate := pstate e; prow := prow e; clock := clock e |}.
Definition with_rows e rs := {| nodes := nodes e; tasks := tasks e; rows := rs; queue := queue e; trace := trace e; oof := oof e; exn := exn e; pstate := pstate e; prow := prow e; clock := clock e |}.
Definition with_trace e tr := {| nodes := nodes e; tasks := tasks e; rows := rows e; queue := queue e; trace := tr; oof := oof e; exn := exn e; pstate := pstate e; prow := prow e; clock := clock e |}.
Definition with_pstate e s := {| nodes := nodes e; tasks := tasks e; rows := rows e; queue := queue e; trace := trace e; oof := oof e; exn := exn e; pstate := s; prow := prow e; clock := clock e |}.
Definition with_prow e s := {| nodes := nodes e; tasks := tasks e; rows := rows e; queue := queue e; trace := trace e; oof := oof e; exn := exn e; pstate := pstate e; prow := s; clock := clock e |}.
Definition with_exn e b := {| nodes := nodes e; tasks := tasks e; rows := rows e; queue := queue e; trace := trace e; oof := oof e; exn := b; pstate := pstate e; prow := prow e; clock := clock e |}.
Definition with_queue e q := {| nodes := nodes e; tasks := tasks e; rows := rows e; queue := q; trace := trace e; oof := oof e; exn := exn e; pstate := pstate e; prow := prow e; clock := clock e |}.
Definition out_of_fuel e := {| nodes := nodes e; tasks := tasks e; rows := rows e; queue := queue e; trace := trace e; oof := true; exn := exn e; pstate := pstate e; prow := prow e; clock := clock e |}.
Definition with_nodes e ns := {| nodes := ns; tasks := tasks e; rows := rows e; queue := queue e; trace := trace e; oof := oof e; exn := exn e; pstate := pstate e; prow := prow e; clock := clock e |}.
Definition with_clock e c := {| nodes := nodes e; tasks := tasks e; rows := rows e; queue := queue e; trace := trace e; oof := oof e; exn := exn e; pstate := pstate e; prow := prow e; clock := c |}.
Definition add_ev e x := with_trace e (trace e ++ [x]).

Definition tmod e i (f : task -> task) : eng := with_tasks e (upd (tasks e) i (f (tk e i))).

(* write sites (the `site` of a transition event; file and function of the Rust call):
    1 task.rs init: none -> ready            2 step/branch/act.rs init: `if` false -> skipped
    3 branch.rs init: -> pending             4 act.rs init: irq -> interrupted     5 act.rs init: msg/func -> ready
    6 task.rs exec: pending branch already ready -> running                         7 task.rs run: ready -> running
    8 workflow.rs run: no steps -> completed 9 task.rs is_ready: else branch -> skipped
   10 branch.rs next: no steps -> completed 11 step/act.rs next: resume pending -> running
   12 step/act.rs next: all children done -> completed                            13 step.rs review: resume pending -> running
   14 workflow.rs review -> completed        15 branch.rs review -> completed      16 step.rs review -> completed
   17 act.rs review: a child skipped -> skipped                                    18 act.rs review -> completed
   19 hook.rs catch: error -> running        20 context.rs emit_error: parent -> error   21 scheduler.rs next: exec failed -> error
   22 next 23 submit 24 remove 25 skip (the act) 26 skip/abort (open siblings -> skipped) 27 abort (the act)
   28 abort_task: ancestor -> aborted        29 abort_task: ancestor's children     30 abort_task: every open task
   31 error (the act) 32 error (siblings of the parent -> skipped) 33 back (the act) 34 back (siblings) 35 back (enclosing step/act)
   36 back/cancel: path tasks               37 undo_task: children -> cancelled    38 undo_task: step -> completed *)
(* Task::set_state (task.rs): the virtual clock advances by one on every call (hook); terminal
   states stamp end_time, created-class states stamp start_time; the root mirrors terminal states
   into the process; the error is cleared unless the new state is error *)
Definition set_state (site : nat) e i s : eng :=
  let t := tk e i in
  let c := (clock e + 1)%Z in
  let t' := {| t_nid := t_nid t; t_state := s; t_prev := t_prev t;
               t_err := if is s SError then t_err t else None;
               t_catch_done := t_catch_done t; t_catches := t_catches t;
               t_start := if is_created s then c else t_start t;
               t_end := if is_completed s then c else t_end t;
               t_tmo_done := t_tmo_done t; t_timeouts := t_timeouts t; t_evproc := t_evproc t;
               t_silent := t_silent t; t_hooks := t_hooks t; t_data := t_data t; t_exposed := t_exposed t |} in
  let e1 := add_ev (with_clock (with_tasks e (upd (tasks e) i t')) c) (ETrans i (t_state t) s c site) in
  (* a state is only ever written to a task that exists (set_state is a method of the task) *)
  if negb (Nat.ltb i (length (tasks e))) then e
  else if is_completed s && Nat.eqb i 0 then with_pstate e1 s else e1.

Definition tset_err (t : task) err := {| t_nid := t_nid t; t_state := t_state t; t_prev := t_prev t; t_err := err;
  t_catch_done := t_catch_done t; t_catches := t_catches t; t_start := t_start t; t_end := t_end t; t_tmo_done := t_tmo_done t;
  t_timeouts := t_timeouts t; t_evproc := t_evproc t; t_silent := t_silent t; t_hooks := t_hooks t; t_data := t_data t; t_exposed := t_exposed t |}.
Definition tset_catch_done (t : task) b := {| t_nid := t_nid t; t_state := t_state t; t_prev := t_prev t; t_err := t_err t;
  t_catch_done := b; t_catches := t_catches t; t_start := t_start t; t_end := t_end t; t_tmo_done := t_tmo_done t;
  t_timeouts := t_timeouts t; t_evproc := t_evproc t; t_silent := t_silent t; t_hooks := t_hooks t; t_data := t_data t; t_exposed := t_exposed t |}.
Definition tset_catches (t : task) cs := {| t_nid := t_nid t; t_state := t_state t; t_prev := t_prev t; t_err := t_err t;
  t_catch_done := t_catch_done t; t_catches := cs; t_start := t_start t; t_end := t_end t; t_tmo_done := t_tmo_done t;
  t_timeouts := t_timeouts t; t_evproc := t_evproc t; t_silent := t_silent t; t_hooks := t_hooks t; t_data := t_data t; t_exposed := t_exposed t |}.
Definition tset_timeouts (t : task) tms := {| t_nid := t_nid t; t_state := t_state t; t_prev := t_prev t; t_err := t_err t;
  t_catch_done := t_catch_done t; t_catches := t_catches t; t_start := t_start t; t_end := t_end t; t_tmo_done := t_tmo_done t;
  t_timeouts := tms; t_evproc := t_evproc t; t_silent := t_silent t; t_hooks := t_hooks t; t_data := t_data t; t_exposed := t_exposed t |}.
Definition tset_tmo_done (t : task) l := {| t_nid := t_nid t; t_state := t_state t; t_prev := t_prev t; t_err := t_err t;
  t_catch_done := t_catch_done t; t_catches := t_catches t; t_start := t_start t; t_end := t_end t; t_tmo_done := l;
  t_timeouts := t_timeouts t; t_evproc := t_evproc t; t_silent := t_silent t; t_hooks := t_hooks t; t_data := t_data t; t_exposed := t_exposed t |}.
Definition tset_evproc (t : task) b := {| t_nid := t_nid t; t_state := t_state t; t_prev := t_prev t; t_err := t_err t;
  t_catch_done := t_catch_done t; t_catches := t_catches t; t_start := t_start t; t_end := t_end t; t_tmo_done := t_tmo_done t;
  t_timeouts := t_timeouts t; t_evproc := b; t_silent := t_silent t; t_hooks := t_hooks t; t_data := t_data t; t_exposed := t_exposed t |}.
Definition tset_silent (t : task) b := {| t_nid := t_nid t; t_state := t_state t; t_prev := t_prev t; t_err := t_err t;
  t_catch_done := t_catch_done t; t_catches := t_catches t; t_start := t_start t; t_end := t_end t; t_tmo_done := t_tmo_done t;
  t_timeouts := t_timeouts t; t_evproc := t_evproc t; t_silent := b; t_hooks := t_hooks t; t_data := t_data t; t_exposed := t_exposed t |}.
Definition tset_hooks (t : task) hs := {| t_nid := t_nid t; t_state := t_state t; t_prev := t_prev t; t_err := t_err t;
  t_catch_done := t_catch_done t; t_catches := t_catches t; t_start := t_start t; t_end := t_end t; t_tmo_done := t_tmo_done t;
  t_timeouts := t_timeouts t; t_evproc := t_evproc t; t_silent := t_silent t; t_hooks := hs; t_data := t_data t; t_exposed := t_exposed t |}.
Definition tset_data (t : task) d := {| t_nid := t_nid t; t_state := t_state t; t_prev := t_prev t; t_err := t_err t;
  t_catch_done := t_catch_done t; t_catches := t_catches t; t_start := t_start t; t_end := t_end t; t_tmo_done := t_tmo_done t;
  t_timeouts := t_timeouts t; t_evproc := t_evproc t; t_silent := t_silent t; t_hooks := t_hooks t; t_data := d; t_exposed := t_exposed t |}.
Definition tset_exposed (t : task) ks := {| t_nid := t_nid t; t_state := t_state t; t_prev := t_prev t; t_err := t_err t;
  t_catch_done := t_catch_done t; t_catches := t_catches t; t_start := t_start t; t_end := t_end t; t_tmo_done := t_tmo_done t;
  t_timeouts := t_timeouts t; t_evproc := t_evproc t; t_silent := t_silent t; t_hooks := t_hooks t; t_data := t_data t; t_exposed := ks |}.

Definition set_err (site : nat) e i (code : nat) : eng := set_state site (tmod e i (fun t => tset_err t (Some code))) i SError.
Definition set_catch_done e i : eng := tmod e i (fun t => tset_catch_done t true).
Definition set_catches e i cs : eng := tmod e i (fun t => tset_catches t cs).
Definition set_timeouts e i tms : eng := tmod e i (fun t => tset_timeouts t tms).
Definition add_tmo_done e i on : eng := tmod e i (fun t => tset_tmo_done t (on :: t_tmo_done t)).
Definition set_evproc e i : eng := tmod e i (fun t => tset_evproc t true).
Definition add_hooks e i hs : eng := tmod e i (fun t => tset_hooks t (t_hooks t ++ hs)).
Definition set_silent e i b : eng := tmod e i (fun t => tset_silent t b).
Definition set_data e i (v : vars) : eng := tmod e i (fun t => tset_data t (vmerge (t_data t) v)).
Definition set_exposed e i (ks : list key) : eng := tmod e i (fun t => tset_exposed t ks).

Definition new_task nid prev : task := Build_task nid SNone prev None false [] 0 0 [] [] false false [] [] [].
(* Process::create_task + Runtime::push *)
Definition sched_v (v : via) e nid prev : eng :=
  let tid := length (tasks e) in
  let e1 := with_rows (with_tasks e (tasks e ++ [new_task nid (Some prev)])) (rows e ++ [Some (new_task nid (Some prev))]) in
  add_ev (with_queue e1 (queue e1 ++ [tid])) (ENew tid nid (Some prev) (clock e) v).
Definition sched := sched_v VOther.
(* ctx.sched_task(next) in the next / review functions of step.rs and act.rs *)
Definition sched_next := sched_v VNext.

(* Task::parent : climb the prev links until a task of a lower level *)
Fixpoint parent_from (f : nat) e (lvl : nat) (p : option nat) : option nat :=
  match f, p with
  | O, _ => None
  | _, None => None
  | S f, Some q => if Nat.ltb (n_level (tnode e q)) lvl then Some q
                   else parent_from f e lvl (t_prev (tk e q))
  end.
Definition parent e i := parent_from (S (length (tasks e))) e (n_level (tnode e i)) (t_prev (tk e i)).
(* Process::children : tasks whose prev is i, in creation order *)
Definition children e i : list nat :=
  filter (fun j => match t_prev (tk e j) with Some p => Nat.eqb p i | None => false end)
         (seq 0 (length (tasks e))).
Definition siblings e i : list nat :=
  match parent e i with
  | Some p => filter (fun j => negb (Nat.eqb j i)) (children e p)
  | None => []
  end.
Definition children_in (n : node) (k : okind) : list nat :=
  map snd (filter (fun c => okind_beq (fst c) k) (n_children n)).
Definition normal_children (n : node) : list nat := children_in n ONormal.
Definition sched_nodes e (l : list nat) i : eng := fold_left (fun e c => sched e c i) l e.

Definition mk_dyn (lvl : nat) (sp : aspec) : node :=
  Build_node 0 KAct lvl [] None None false [] sp [] [] [] [] [] [] false.
Definition nmod e nid (f : node -> node) : eng := with_nodes e (upd (nodes e) nid (f (nd e nid))).
Definition add_child e pn c : eng :=
  nmod e pn (fun n => Build_node (n_id n) (n_kind n) (n_level n) (n_children n ++ [(ONormal, c)]) (n_next n) (n_if n)
                                 (n_else n) (n_needs n) (n_spec n) (n_catches n) (n_timeouts n) (n_setup n) (n_inputs n) (n_outputs n) (n_params n) (n_isset n)).
Definition set_next e pn c : eng :=
  nmod e pn (fun n => Build_node (n_id n) (n_kind n) (n_level n) (n_children n) (Some c) (n_if n)
                                 (n_else n) (n_needs n) (n_spec n) (n_catches n) (n_timeouts n) (n_setup n) (n_inputs n) (n_outputs n) (n_params n) (n_isset n)).
(* Context::build_acts + tree/build.rs dyn_build_act: nodes one level below `pn`; a sequence chains them *)
Definition build_acts e (pn : nat) (acts : list aspec) (sq : bool) : eng :=
  let lvl := S (n_level (nd e pn)) in
  fst (fold_left (fun (acc : eng * nat) sp =>
         let '(ee, prev) := acc in
         let nid := length (nodes ee) in
         let ee1 := with_nodes ee (nodes ee ++ [mk_dyn lvl sp]) in
         if sq then
           if Nat.eqb (n_level (nd ee1 prev)) lvl then (set_next ee1 prev nid, nid)
           else (add_child ee1 pn nid, nid)
         else (add_child ee1 pn nid, prev)) acts (e, pn)).
(* Context::dispatch_acts: `on` acts become lifecycle hooks of the task, the others children of the node *)
Definition dispatch_setup e i (setup : list aspec) : eng :=
  let hooks := fold_right (fun sp acc => match sp_on sp with Some ev => (ev, sp) :: acc | None => acc end) [] setup in
  let normal := filter (fun sp => match sp_on sp with None => true | Some _ => false end) setup in
  match setup with
  | [] => e
  | _ => build_acts (add_hooks e i hooks) (t_nid (tk e i)) normal true
  end.
(* Context::dispatch_act for a hook statement: a detached node one level below the emitted task *)
Definition dispatch_hook e i (sp : aspec) : eng :=
  let nid := length (nodes e) in
  let e1 := with_nodes e (nodes e ++ [mk_dyn (S (n_level (tnode e i))) sp]) in
  if is (st e1 i) SNone then e1
  else let tid := length (tasks e1) in set_evproc (sched e1 nid i) tid.

(* ---------- data flow (task.rs inputs / outputs / find / vars / update_data) ---------- *)
Fixpoint ancestors (f : nat) e (p : option nat) : list nat :=
  match f, p with
  | S f, Some q => q :: ancestors f e (parent e q)
  | _, _ => []
  end.
(* Task::find : own data first, then the parent chain *)
Definition vfind e i k : option val :=
  match find (fun t => vhas (t_data (tk e t)) k) (ancestors (S (length (tasks e))) e (Some i)) with
  | Some t => vget (t_data (tk e t)) k
  | None => None
  end.
(* Task::vars (the globals of an expression): own data extended by the parent's vars, i.e. the
   outermost holder wins *)
Definition gvar e i k : option val :=
  match find (fun t => vhas (t_data (tk e t)) k) (rev (ancestors (S (length (tasks e))) e (Some i))) with
  | Some t => vget (t_data (tk e t)) k
  | None => None
  end.
Definition eval_cond e i (b : bexpr) : option bool := beval (gvar e i) b.
(* Task::outputs : declared, plus "data", plus exposed keys (both forced to null), nulls filled from scope *)
Definition outputs e i : vars :=
  let keys := vmerge (vmerge (n_outputs (tnode e i)) [(0, VNull)])
                     (map (fun k => (k, VNull)) (t_exposed (tk e i))) in
  map (fun kv => match snd kv with
                 | VNull => (fst kv, match vfind e i (fst kv) with Some x => x | None => VNull end)
                 | x => (fst kv, x) end) keys.
(* Task::inputs : outputs of the previous task, overridden by the node's own inputs *)
Definition inputs e i : vars :=
  vmerge (match t_prev (tk e i) with Some p => outputs e p | None => [] end) (n_inputs (tnode e i)).
(* Task::update_data : non-private keys go to the outermost ancestor that holds them; everything to self *)
Definition update_data e i (v : vars) : eng :=
  let anc := rev (ancestors (S (length (tasks e))) e (parent e i)) in
  let e1 := fold_left (fun ee (kv : key * val) =>
              if pri_regex (fst kv) then ee
              else match find (fun t => vhas (t_data (tk ee t)) (fst kv)) anc with
                   | Some t => set_data ee t [kv]
                   | None => ee end) v e in
  set_data e1 i v.

(* Task::is_ready with its side effect (an else branch is skipped once a sibling was taken) *)
Definition is_ready e i : bool * eng :=
  let n := tnode e i in
  match n_kind n with
  | KBranch =>
      let sib := siblings e i in
      if negb (Nat.eqb (length (n_needs n)) 0) then
        (existsb (fun j => is_completed (st e j) && existsb (Nat.eqb (n_id (tnode e j))) (n_needs n)) sib, e)
      else if n_else n then
        if forallb (fun j => is (st e j) SSkipped) sib then (true, e)
        else if existsb (fun j => match st e j with SError | SCompleted | SAborted => true | _ => false end) sib
             then (false, set_state 9 e i SSkipped)
             else (false, e)
      else (false, e)
  | _ => (true, e)
  end.

(* kind-specific init (workflow.rs / step.rs / branch.rs / act.rs); exn is set when `if` throws *)
Definition eval_if e i (c : cond) (k : eng -> eng) : eng :=
  match c with
  | None => k e
  | Some b => match eval_cond e i b with
              | None => with_exn e true
              | Some false => set_state 2 e i SSkipped
              | Some true => k e
              end
  end.
Definition kind_init e i : eng :=
  let n := tnode e i in
  match n_kind n with
  | KWorkflow => dispatch_setup e i (n_setup n)
  | KStep =>
      eval_if e i (n_if n) (fun e =>
        dispatch_setup (set_timeouts (set_catches e i (n_catches n)) i (n_timeouts n)) i (n_setup n))
  | KBranch =>
      let e := set_silent e i true in
      if negb (Nat.eqb (length (n_needs n)) 0) then set_state 3 e i SPending
      else match n_if n with
           | Some b => match eval_cond e i b with
                       | None => with_exn e true
                       | Some false => set_state 2 e i SSkipped
                       | Some true => e
                       end
           | None =>
               if negb (n_else n) then set_state 2 e i SSkipped
               else
                 let cnt := match parent e i with
                            | Some p => length (normal_children (tnode e p)) | None => 1 end in
                 if Nat.ltb 1 cnt then set_state 3 e i SPending else e
           end
  | KAct =>
      eval_if e i (n_if n) (fun e =>
        let e1 := dispatch_setup (set_timeouts (set_catches e i (n_catches n)) i (n_timeouts n)) i (n_setup n) in
        match sp_u (n_spec n) with
        | UIrq => set_state 4 e1 i SInterrupt
        | _ => set_state 5 (set_silent e1 i true) i SReady
        end)
  end.

(* runtime.rs on_task: a message is sent unless the task is pending, running or emit-disabled *)
Definition msg_allowed e i : bool :=
  let s := st e i in
  negb (is s SPending) && negb (is s SRunning) && negb (t_silent (tk e i)).

Inductive ascan := AS_err | AS_skip | AS_count (n : nat).
Fixpoint act_scan e (l : list nat) (n : nat) : ascan :=
  match l with
  | [] => AS_count n
  | j :: l' => if is (st e j) SError then AS_err
               else if is (st e j) SSkipped then AS_skip
               else act_scan e l' (if is_completed (st e j) then S n else n)
  end.

Fixpoint climb_to (f : nat) e (p : option nat) (pred : nat -> bool) : option nat :=
  match f, p with
  | O, _ => None
  | _, None => None
  | S f, Some q => if pred q then Some q else climb_to f e (parent e q) pred
  end.
Definition climb_step e i := climb_to (S (length (tasks e))) e (parent e i) (fun q => nkind_beq (kind e q) KStep).
(* the statement hooks registered on task `t` for lifecycle `ev`, run with the emitted task `i` as context *)
Definition run_stmt_hooks e (t : nat) (ev : levt) (i : nat) : eng :=
  fold_left (fun ee (h : levt * aspec) => if levt_beq (fst h) ev then dispatch_hook ee i (snd h) else ee)
            (t_hooks (tk e t)) e.

(* cache.rs push_task_pri: the task row is the task as it is now; the process row gets the
   process state *)
Definition upsert e i : eng := with_prow (with_rows e (upd (rows e) i (Some (tk e i)))) (Some (pstate e)).
(* Process::persist: every task row is rewritten from the live task, the process row from the
   process (at the end of every scheduler step, accepted client action and tick) *)
Definition persist e : eng := with_prow (with_rows e (map Some (tasks e))) (Some (pstate e)).

(* ---------- emit_task (context.rs) + on_task (runtime.rs) + hooks (task.rs run_hooks),
              emit_error, next, review : mutually recursive through catches and resumes ---------- *)
Fixpoint emit (f : nat) (e : eng) (i : nat) {struct f} : eng :=
  match f with
  | O => out_of_fuel e
  | S f =>
    let s0 := st e i in
    let k := kind e i in
    let e1 := match k with
              | KWorkflow => if is_created s0 then add_ev e (EProc (pstate e) (outputs e i)) else e
              | _ => e end in
    let e1 := upsert e1 i in
    let e2 :=
      if t_evproc (tk e1 i) then e1
      else if is_created (st e1 i) then
        let ea := run_stmt_hooks e1 i LCreated i in
        if nkind_beq k KAct then
          let eb := match climb_step ea i with
                    | Some sp => run_stmt_hooks ea sp LBeforeUpdate i | None => ea end in
          run_stmt_hooks eb 0 LBeforeUpdate i
        else ea
      else if is_completed (st e1 i) && negb (is (st e1 i) SError) then
        let ea := run_stmt_hooks e1 i LCompleted i in
        if nkind_beq k KAct then
          let eb := match climb_step ea i with
                    | Some sp => run_stmt_hooks ea sp LUpdated i | None => ea end in
          run_stmt_hooks eb 0 LUpdated i
        else if nkind_beq k KStep then
          run_stmt_hooks (run_stmt_hooks ea i LStep i) 0 LStep i
        else ea
      else if is (st e1 i) SError then
        (* ErrorCatch hooks (hook.rs): every registered catch is looked at in order *)
        fold_left (fun ee (c : option nat) =>
          match t_err (tk ee i) with
          | None => ee
          | Some code =>
              if t_catch_done (tk ee i) then ee
              else if match c with None => true | Some x => Nat.eqb x code end then
                let ee1 := set_state 19 (set_catch_done ee i) i SRunning in
                match children_in (tnode ee1 i) (OCatch c) with
                | [] => review f [] i ee1 i
                | ch => sched_nodes ee1 ch i
                end
              else ee
          end) (t_catches (tk e1 i)) e1
      else e1 in
    let e3 := if msg_allowed e2 i then add_ev e2 (EMsg i (st e2 i) (inputs e2 i) (outputs e2 i)) else e2 in
    match k with
    | KWorkflow => if is_completed (st e3 i) then add_ev (with_pstate e3 (st e3 i)) (EProc (st e3 i) (outputs e3 i)) else e3
    | _ => e3
    end
  end
with emit_error (f : nat) (e : eng) (i : nat) {struct f} : eng :=
  match f with
  | O => out_of_fuel e
  | S f =>
    if is (st e i) SError then
      let e1 := emit f e i in
      if is (st e1 i) SError then
        match t_err (tk e1 i), parent e1 i with
        | Some code, Some p => if is_completed (st e1 p) then e1 else emit_error f (set_err 20 e1 p code) p
        | _, _ => e1
        end
      else e1
    else e
  end
with next (f : nat) (cv : vars) (e : eng) (i : nat) {struct f} : eng :=
  match f with
  | O => out_of_fuel e
  | S f =>
    let '(isn, e1) :=
      if is_next (st e i) then
        match kind e i with
        | KWorkflow => (forallb (fun j => is_completed (st e j)) (children e i), e)
        | KBranch =>
            if is (st e i) SRunning then
              match normal_children (tnode e i) with
              | [] => (false, set_state 10 e i SCompleted)
              | ch => (true, sched_nodes e ch i)
              end
            else (false, e)
        | KStep | KAct =>
            let isact := nkind_beq (kind e i) KAct in
            let s := st e i in
            if is s SRunning then
              let '(flag, e') :=
                fold_left (fun (acc : bool * eng) j =>
                  let '(fl, ee) := acc in
                  let sj := st ee j in
                  if is sj SNone || is sj SRunning then (true, ee)
                  else if is sj SPending then
                    let '(rdy, ee1) := is_ready ee j in
                    if rdy then (true, next f cv (emit f (set_state 11 ee1 j SRunning) j) j) else (fl, ee1)
                  else (fl, ee)) (children e i) (false, e) in
              if forallb (fun j => is_completed (st e' j)) (children e' i) then
                let e'' := if negb (is_completed (st e' i)) then set_state 12 e' i SCompleted else e' in
                match n_next (tnode e'' i) with
                | Some nx => (true, sched_next e'' nx i)
                | None => (flag, e'')
                end
              else (flag, e')
            else if is s SSkipped || (isact && is s SCompleted) then
              match n_next (tnode e i) with
              | Some nx => (true, sched_next e nx i)
              | None => (false, e)
              end
            else (false, e)
        end
      else (false, e) in
    if is_completed (st e1 i) then
      let e2 := emit f (update_data e1 i cv) i in
      if negb isn && negb (t_evproc (tk e2 i)) then
        match parent e2 i with
        | Some p => review f cv i e2 p
        | None => e2
        end
      else e2
    else e1
  end
with review (f : nat) (cv : vars) (from : nat) (e : eng) (i : nat) {struct f} : eng :=
  match f with
  | O => out_of_fuel e
  | S f =>
    if t_evproc (tk e from) then e else
    let e := update_data e i (outputs e from) in
    let before := st e i in
    let '(isr, e1) :=
      match kind e i with
      | KWorkflow =>
          (* done when every task started directly beneath it is done (lifecycle-hook acts aside) *)
          if is before SRunning then
            if forallb (fun j => is_completed (st e j) || t_evproc (tk e j)) (children e i)
            then (true, set_state 14 e i SCompleted) else (false, e)
          else (false, e)
      | KBranch =>
          if is before SRunning then
            if forallb (fun j => is_completed (st e j) || t_evproc (tk e j)) (children e i)
            then (true, set_state 15 e i SCompleted) else (false, e)
          else if is before SSkipped then (true, e) else (false, e)
      | KStep =>
          if is before SRunning then
            let fix scan (l : list nat) (ee : eng) : option eng * eng :=
              match l with
              | [] => (None, ee)
              | j :: l' =>
                  if is (st ee j) SPending then
                    let '(rdy, ee1) := is_ready ee j in
                    if rdy then (Some (next f cv (emit f (set_state 13 ee1 j SRunning) j) j), ee1)
                    else scan l' ee1
                  else scan l' ee
              end in
            match scan (children e i) e with
            | (Some e', _) => (false, e')
            | (None, e') =>
                if forallb (fun j => is_completed (st e' j)) (children e' i) then
                  let e'' := if negb (is_completed (st e' i)) then set_state 16 e' i SCompleted else e' in
                  match n_next (tnode e'' i) with
                  | Some nx => (false, sched_next e'' nx i)
                  | None => (true, e'')
                  end
                else (false, e')
            end
          else if is before SSkipped then
            match n_next (tnode e i) with
            | Some nx => (false, sched_next e nx i)
            | None => (true, e)
            end
          else (false, e)
      | KAct =>
          if is before SRunning then
            let ch := children e i in
            match act_scan e ch 0 with
            | AS_err => (false, e)
            | AS_skip => (true, set_state 17 e i SSkipped)
            | AS_count n =>
                if Nat.eqb n (length ch) then
                  let e'' := if negb (is_completed (st e i)) then set_state 18 e i SCompleted else e in
                  match n_next (tnode e'' i) with
                  | Some nx => (false, sched_next e'' nx i)
                  | None => (true, e'')
                  end
                else (false, e)
            end
          else (false, e)
      end in
    let e2 := if is_completed (st e1 i) && negb (is before (st e1 i)) then emit f e1 i else e1 in
    if isr then
      match parent e2 i with
      | Some p => review f cv i e2 p
      | None => e2
      end
    else e2
  end.

(* Task::exec = init; run; next (task.rs).  It is only entered from the scheduler loop: the resume
   paths in step.rs / act.rs call exec on a task they have just set running, for which exec is
   the completed check followed by next -- the model calls next there. *)
Definition exec (f : nat) (cv : vars) (e : eng) (i : nat) : eng :=
    if is_completed (st e i) then with_exn e true
    else
      (* init *)
      let e1 :=
        if is (st e i) SNone then
          let ea := kind_init (set_state 1 (set_data e i (inputs e i)) i SReady) i in
          if exn ea then ea
          else if negb (is_completed (st ea i)) then emit f ea i else ea
        else e in
      if exn e1 then e1 else
      (* a pending branch whose siblings are already decided is resumed at once *)
      let e1' := if is (st e1 i) SPending then
                   let '(rdy, ea) := is_ready e1 i in
                   if rdy then emit f (set_state 6 ea i SRunning) i else ea
                 else e1 in
      (* run: a package that fails when it is executed leaves the act running, nothing else has happened; the scheduler's
         error path takes over (exec_or_fail) *)
      if nkind_beq (kind e1' i) KAct && is (st e1' i) SReady && is_fail (sp_u (n_spec (tnode e1' i)))
      then with_exn (set_state 7 e1' i SRunning) true else
      let e2 :=
        if is (st e1' i) SReady then
          let er := set_state 7 e1' i SRunning in
          let er2 := match kind er i with
                     | KWorkflow => match normal_children (tnode er i) with
                                    | [] => set_state 8 er i SCompleted
                                    | ch => sched_nodes er ch i
                                    end
                     | KStep => sched_nodes er (normal_children (tnode er i)) i
                     | KAct =>
                         let sp := n_spec (tnode er i) in
                         let nid := t_nid (tk er i) in
                         let blk := ASpec UBlock 0 true None (sp_acts sp) in
                         let er0 := match sp_u sp with UMsg => set_silent er i false | _ => er end in
                         let er0 := if n_isset (tnode er0 i) then
                                      let ps := n_params (tnode er0 i) in
                                      update_data (set_exposed er0 i (map fst (filter (fun kv => negb (is_private_key (fst kv))) ps))) i ps
                                    else er0 in
                         let er1 := match sp_u sp with
                                    | UBlock => if n_isset (tnode er0 i) then er0 else build_acts er0 nid (sp_acts sp) (sp_sq sp)
                                    | UParallel => build_acts er0 nid (repeat blk (sp_n sp)) false
                                    | USequence => build_acts er0 nid (repeat blk (sp_n sp)) true
                                    | _ => er0 end in
                         sched_nodes er1 (normal_children (tnode er1 i)) i
                     | KBranch => er
                     end in
          emit f er2 i
        else e1' in
      next f cv e2 i.

Definition fuel_of e := 16 + 8 * length (tasks e).

(* Scheduler::next : pop; a task closed while it waited is dropped; exec; on Err mark the task
   error and bubble *)
Definition exec_or_fail (e0 : eng) (i : nat) : eng :=
  let e1 := exec (fuel_of e0) [] e0 i in
  if exn e1 then
    let e2 := with_exn e1 false in
    emit_error (fuel_of e2) (set_err 21 e2 i 0) i
  else e1.
Definition step_queue (e : eng) : eng :=
  match queue e with
  | [] => e
  | i :: q =>
      let e0 := add_ev (with_queue e q) (EPop i) in
      if is_completed (st e0 i) then e0 else persist (exec_or_fail e0 i)
  end.
(* the schedule: run the k-th queued signal next *)
Definition sched_pick (e : eng) (k : nat) : eng :=
  match nth_error (queue e) k with
  | None => e
  | Some i => step_queue (with_queue e (i :: firstn k (queue e) ++ skipn (S k) (queue e)))
  end.
Fixpoint drain (n : nat) (e : eng) : eng :=
  match n with O => e | S n => match queue e with [] => e | _ => drain n (step_queue e) end end.

(* Process::do_tick + hook.rs Timeout: rules of every task that registered some, in start_time
   order; a rule fires once, when the task is still open and the limit has passed *)
Fixpoint insert_by (key : nat -> Z) (x : nat) (l : list nat) : list nat :=
  match l with
  | [] => [x]
  | y :: l' => if Z.ltb (key x) (key y) then x :: l else y :: insert_by key x l'
  end.
Definition sort_by (key : nat -> Z) (l : list nat) : list nat := fold_left (fun acc x => insert_by key x acc) l [].
Definition rule_fires (now start : Z) (done : list nat) (closed : bool) (r : nat * Z) : bool :=
  negb closed && negb (existsb (Nat.eqb (fst r)) done) && Z.leb (snd r) (now - start).
Definition do_tick (e : eng) (adv : Z) : eng :=
  let e := with_clock e (clock e + adv)%Z in
  if is (pstate e) SRunning then
    let ts := filter (fun t => negb (Nat.eqb (length (t_timeouts (tk e t))) 0)) (seq 0 (length (tasks e))) in
    let sorted := sort_by (fun t => t_start (tk e t)) ts in
    persist (fold_left (fun ee t =>
      fold_left (fun ee2 (r : nat * Z) =>
        if rule_fires (clock ee2) (t_start (tk ee2 t)) (t_tmo_done (tk ee2 t)) (is_completed (st ee2 t)) r then
          sched_nodes (add_tmo_done (add_ev ee2 (EFire t (fst r) (clock ee2) (t_start (tk ee2 t)) (snd r))) t (fst r))
                      (children_in (tnode ee2 t) (OTimeout (fst r))) t
        else ee2) (t_timeouts (tk ee t)) ee) sorted e)
  else e.

(* ---------- client actions (process.rs do_action, task.rs update, context.rs *_task) ---------- *)
Inductive action := ANext | ASubmit | ARemove | ASkip | AAbort | AError (code : option nat)
                  | ABack (to : option nat) | ACancel | APush (uses_ok : bool).

Definition close_open (site : nat) e (l : list nat) (s : TaskState) : eng :=
  fold_left (fun ee j => if is_completed (st ee j) then ee else emit (fuel_of ee) (set_state site ee j s) j) l e.

(* Context::abort_task, ancestor part *)
Fixpoint abort_up (f : nat) (e : eng) (p : option nat) : eng :=
  match f, p with
  | O, _ => e
  | _, None => e
  | S f, Some t =>
      let e1 := if is_completed (st e t) then e else emit (fuel_of e) (set_state 28 e t SAborted) t in
      let e2 := fold_left (fun ee c =>
                  if is (st ee c) SPending then emit (fuel_of ee) (set_state 29 ee c SSkipped) c
                  else if is (st ee c) SRunning then emit (fuel_of ee) (set_state 29 ee c SAborted) c
                  else ee) (children e1 t) e1 in
      abort_up f e2 (parent e2 t)
  end.
(* ... preceded by the sweep over every other task that is still open, in creation order *)
Definition abort_sweep (e : eng) (skip : list nat) : eng :=
  fold_left (fun ee t =>
    if is_completed (st ee t) || existsb (Nat.eqb t) skip then ee
    else emit (fuel_of ee) (set_state 30 ee t (if is (st ee t) SRunning then SAborted else SSkipped)) t)
    (seq 0 (length (tasks e))) e.

(* Task::backs *)
Fixpoint backs (f : nat) e (to : nat) (p : option nat) (path : list nat) : option nat * list nat :=
  match f, p with
  | O, _ => (None, path)
  | _, None => (None, path)
  | S f, Some q =>
      if nkind_beq (kind e q) KStep && Nat.eqb (n_id (tnode e q)) to then (Some q, path)
      else
        let path' := if is (st e q) SRunning || is (st e q) SPending then path ++ [q] else path in
        backs f e to (t_prev (tk e q)) path'
  end.

(* Task::follows *)
Fixpoint follows (f : nat) e (i : nat) (path : list nat) : list nat * list nat :=
  match f with
  | O => ([], path)
  | S f =>
    fold_left (fun (acc : list nat * list nat) c =>
      let '(ret, pth) := acc in
      let isacts := existsb (fun j => nkind_beq (kind e j) KAct) (children e c) in
      if nkind_beq (kind e c) KStep && isacts then (ret ++ [c], pth)
      else
        let pth' := if is (st e c) SRunning || is (st e c) SPending then pth ++ [c] else pth in
        let '(r2, p2) := follows f e c pth' in
        (ret ++ r2, p2)) (children e i) ([], path)
  end.

Definition redo e (t : nat) : eng :=
  match t_prev (tk e t) with
  | Some p => sched e (t_nid (tk e t)) p
  | None => e
  end.

Definition mark_path e (path : list nat) : eng :=
  fold_left (fun ee p =>
    if is (st ee p) SRunning then emit (fuel_of ee) (set_state 36 ee p SCompleted) p
    else if is (st ee p) SPending then emit (fuel_of ee) (set_state 36 ee p SSkipped) p
    else ee) path e.

(* Context::undo_task, children part *)
Fixpoint undo_children (f : nat) e (l : list nat) : eng :=
  match f with
  | O => e
  | S f =>
    match l with
    | [] => e
    | _ =>
      let '(e', nexts) := fold_left (fun (acc : eng * list nat) t =>
                            let '(ee, nx) := acc in
                            if is_completed (st ee t) then acc
                            else
                              let ee1 := emit (fuel_of ee) (set_state 37 ee t SCancelled) t in
                              (ee1, nx ++ children ee1 t)) l (e, []) in
      undo_children f e' nexts
    end
  end.

Definition ret_err e := add_ev e (EAct false).
Definition ret_ok e := add_ev (persist e) (EAct true).

(* Process::do_action up to Task::update's own guards: every check that can reject the action
   without having touched anything (the checks are pure, so their order is not observable) *)
Definition is_cancel (a : action) : bool := match a with ACancel => true | _ => false end.
Definition admission (e : eng) (i : nat) (a : action) (opts : vars) : option (vars * action) :=
  if is_completed (pstate e) then None                                  (* the process has ended *)
  else if Nat.leb (length (tasks e)) i then None                        (* cannot find task *)
  else
  let ispush := match a with APush _ => true | _ => false end in
  if ispush && negb (nkind_beq (kind e i) KStep) then None
  else if negb ispush && negb (nkind_beq (kind e i) KAct) then None
  else if n_outs (tnode e i) && negb (forallb (fun kv => vhas opts (fst kv)) (n_outputs (tnode e i))) then None
  else
  (* the options are cut down to the declared outputs, which also drops `ecode`, `to`, `uses` *)
  let cv := if n_outs (tnode e i)
            then map (fun kv => (fst kv, match vget opts (fst kv) with Some x => x | None => VNull end)) (n_outputs (tnode e i))
            else opts in
  let a := if n_outs (tnode e i) then
             match a with AError _ => AError None | ABack _ => ABack None | APush _ => APush false | x => x end
           else a in
  (* "already completed": every action but cancel *)
  if negb (is_cancel a) && is_completed (st e i) then None else Some (cv, a).

Definition perform (e : eng) (i : nat) (a : action) (cv : vars) : eng :=
  let F := fuel_of e in
  match a with
  | APush ok =>
      (
      if negb ok then ret_err e
      else
        (* dispatch_act: a fresh irq act node one level below, scheduled when the step was initialised *)
        let nid := length (nodes e) in
        let e1 := with_nodes e (nodes e ++ [mk_dyn (S (n_level (tnode e i))) dspec]) in
        if is (st e1 i) SNone then ret_ok e1 else ret_ok (sched e1 nid i))
  | ARemove => ret_ok (next F cv (set_state 24 e i SRemoved) i)
  | ASubmit => ret_ok (next F cv (set_state 23 e i SSubmitted) i)
  | ANext => ret_ok (next F cv (set_state 22 e i SCompleted) i)
  | ASkip => (
      let e1 := close_open 26 e (siblings e i) SSkipped in
      ret_ok (next (fuel_of e1) cv (set_state 25 e1 i SSkipped) i))
  | AAbort => (
      let e1 := close_open 26 e (siblings e i) SSkipped in
      let e2 := emit (fuel_of e1) (set_data (set_state 27 e1 i SAborted) i cv) i in
      let e3 := abort_sweep e2 (ancestors (S (length (tasks e2))) e2 (parent e2 i)) in
      ret_ok (abort_up (S (length (tasks e3))) e3 (parent e3 i)))
  | AError code =>
      match code with
      | None => ret_err e
      | Some c =>
          (
            match parent e i with
            | None => ret_err e
            | Some p =>
                let e1 := close_open 32 e (siblings e p) SSkipped in
                ret_ok (emit_error (fuel_of e1) (set_data (set_err 31 e1 i c) i cv) i)
            end)
      end
  | ABack to =>
      (
        match to with
        | None => ret_err e
        | Some nid =>
            match backs (S (length (tasks e))) e nid (t_prev (tk e i)) [] with
            | (None, _) => ret_err e
            | (Some t, path) =>
                let e1 := close_open 34 e (siblings e i) SSkipped in
                let e2 := emit (fuel_of e1) (set_state 33 e1 i SBacked) i in
                let e3 := match climb_to (S (length (tasks e2))) e2 (parent e2 i)
                                  (fun q => nkind_beq (kind e2 q) KStep || nkind_beq (kind e2 q) KAct) with
                          | Some p => if is_completed (st e2 p) then e2 else emit (fuel_of e2) (set_state 35 e2 p SBacked) p
                          | None => e2 end in
                let e4 := mark_path e3 path in
                ret_ok (redo e4 t)
            end
        end)
  | ACancel =>
      match climb_step e i with
      | None => ret_err e
      | Some s =>
          if negb (is (st e s) SCompleted) then ret_err e
          else
            let '(nexts, path) := follows (S (length (tasks e))) e s [] in
            match nexts with
            | [] => ret_err e
            | _ =>
                let e1 := mark_path e path in
                (* undo each next; an already completed one aborts the action with an error *)
                let '(e2, failed) := fold_left (fun (acc : eng * bool) nx =>
                                        let '(ee, fl) := acc in
                                        if fl then acc
                                        else if is_completed (st ee nx) then (ee, true)
                                        else
                                          let ee1 := undo_children (S (length (tasks ee))) ee (children ee nx) in
                                          (emit (fuel_of ee1) (set_state 38 ee1 nx SCompleted) nx, false))
                                      nexts (e1, false) in
                if failed then ret_err (persist e2) else ret_ok (redo e2 s)
            end
      end
  end.

Definition do_action (e : eng) (i : nat) (a : action) (opts : vars) : eng :=
  match admission e i a opts with
  | None => ret_err e
  | Some (cv, a') => perform e i a' cv
  end.

(* Process::start : the process runs, its row is written, the root task is queued *)
Definition start (ns : list node) (clock0 : Z) : eng :=
  add_ev {| nodes := ns; tasks := [new_task 0 None]; rows := [Some (new_task 0 None)]; queue := [0]; trace := [];
            oof := false; exn := false; pstate := SRunning; prow := Some SRunning; clock := clock0 |} (ENew 0 0 None clock0 VOther).

(* ---------- operations ---------- *)
Inductive op :=
| OSched (k : nat)                         (* the scheduler handles the k-th queued signal *)
| ODrain                                   (* ... all of them, in queue order *)
| OAct (tid : nat) (a : action) (opts : vars)
| OTick (adv : Z).
Definition apply_op (e : eng) (o : op) : eng :=
  match o with
  | OSched k => sched_pick e k
  | ODrain => add_ev (drain (4 * (fuel_of e) + 4096) e) EQuiet
  | OAct i a opts => do_action e i a opts
  | OTick adv => do_tick e adv
  end.
Definition run (ns : list node) (clock0 : Z) (ops : list op) : eng := fold_left apply_op ops (start ns clock0).

Definition states e := map (fun t => (t_nid t, t_state t)) (tasks e).
