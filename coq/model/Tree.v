(* Workflow syntax and the node table built from it: acts/src/scheduler/tree/build.rs
   (build_workflow / build_step / build_branch / build_act) and node_tree.rs (make: duplicate ids).
   Definitions only. *)
From Coq Require Import List Arith ZArith Bool.
Import ListNotations.
From Acts.Gen Require Import GenState.
From Acts.Model Require Import Engine.

Inductive step :=
  Step (id : nat) (sif : cond) (next : option nat) (ins outs : vars) (setup : list aspec)
       (branches : list branch) (acts : list act) (catches : list catch) (timeouts : list tmo)
with branch := Branch (id : nat) (bif : cond) (els : bool) (needs : list nat) (steps : list step)
with act :=
  Act (id : nat) (aif : cond) (spec : aspec) (ins outs : vars) (params : option vars)
      (setup : list aspec) (catches : list catch) (timeouts : list tmo)
with catch := Catch (on : option nat) (steps : list step)
with tmo := Tmo (on : nat) (limit : Z) (steps : list step).
Record workflow := { w_id : nat; w_steps : list step; w_ins : vars; w_outs : vars; w_setup : list aspec }.

(* the table under construction; None once a duplicate id was met (NodeTree::make fails) *)
Definition tbl := list node.
Definition has_id (t : tbl) (id : nat) : bool := existsb (fun n => Nat.eqb (n_id n) id) t.
Fixpoint index_of (t : tbl) (id : nat) (i : nat) : option nat :=
  match t with [] => None | n :: r => if Nat.eqb (n_id n) id then Some i else index_of r id (S i) end.

Definition blank (id : nat) (k : nkind) (lvl : nat) : node :=
  Build_node id k lvl [] None None false [] dspec [] [] [] [] [] [] false.
Definition tmod (t : tbl) (i : nat) (f : node -> node) : tbl := upd t i (f (nth i t dnode)).
Definition t_add_child (t : tbl) (p : nat) (k : okind) (c : nat) : tbl :=
  tmod t p (fun n => Build_node (n_id n) (n_kind n) (n_level n) (n_children n ++ [(k, c)]) (n_next n) (n_if n)
                                (n_else n) (n_needs n) (n_spec n) (n_catches n) (n_timeouts n) (n_setup n) (n_inputs n) (n_outputs n) (n_params n) (n_isset n)).
Definition t_set_next (t : tbl) (p : nat) (c : nat) : tbl :=
  tmod t p (fun n => Build_node (n_id n) (n_kind n) (n_level n) (n_children n) (Some c) (n_if n)
                                (n_else n) (n_needs n) (n_spec n) (n_catches n) (n_timeouts n) (n_setup n) (n_inputs n) (n_outputs n) (n_params n) (n_isset n)).
(* link a freshly made node: next of `prev` when they are on the same level, else child of `parent` *)
Definition link (t : tbl) (parent prev me : nat) (lvl : nat) (k : okind) : tbl :=
  if Nat.eqb (n_level (nth prev t dnode)) lvl then t_set_next t prev me else t_add_child t parent k me.

Definition st_id s := match s with Step id _ _ _ _ _ _ _ _ _ => id end.
Definition br_id b := match b with Branch id _ _ _ _ => id end.
Definition ac_id a := match a with Act id _ _ _ _ _ _ _ _ => id end.

(* state threaded through the construction: the table (None = failed) and the `prev` cursor *)
Fixpoint build_step (f : nat) (s : step) (t : tbl) (parent prev lvl : nat) (k : okind) {struct f} : option (tbl * nat) :=
  match f with
  | O => None
  | S f =>
    match s with
    | Step id sif nxt ins outs setup branches acts catches timeouts =>
      if has_id t id then None else
      let me := length t in
      let n := Build_node id KStep lvl [] None sif false [] dspec (map (fun c => match c with Catch on _ => on end) catches)
                          (map (fun x => match x with Tmo on lim _ => (on, lim) end) timeouts) setup ins outs [] false in
      let t := link (t ++ [n]) parent prev me lvl k in
      (* an explicit `next` refers to a node that exists already; then the branches are not built *)
      let r :=
        match nxt with
        | Some target =>
            Some (match index_of t target 0 with Some j => t_set_next t me j | None => t end)
        | None =>
            fold_left (fun acc b => match acc with
                                    | None => None
                                    | Some t => build_branch f b t me (S lvl)
                                    end) branches (Some t)
        end in
      let r := fold_left (fun acc a => match acc with
                                       | None => None
                                       | Some (t, ap) => build_act f a t me ap (S lvl)
                                       end) acts (match r with Some t => Some (t, me) | None => None end) in
      let r := match r with Some (t, _) => Some t | None => None end in
      let r := fold_left (fun acc c => match acc, c with
                                       | None, _ => None
                                       | Some t, Catch on steps =>
                                           match fold_left (fun acc2 st => match acc2 with
                                                                          | None => None
                                                                          | Some (t, cp) => build_step f st t me cp (S lvl) (OCatch on)
                                                                          end) steps (Some (t, me)) with
                                           | Some (t, _) => Some t | None => None end
                                       end) catches r in
      let r := fold_left (fun acc c => match acc, c with
                                       | None, _ => None
                                       | Some t, Tmo on _ steps =>
                                           match fold_left (fun acc2 st => match acc2 with
                                                                          | None => None
                                                                          | Some (t, cp) => build_step f st t me cp (S lvl) (OTimeout on)
                                                                          end) steps (Some (t, me)) with
                                           | Some (t, _) => Some t | None => None end
                                       end) timeouts r in
      match r with Some t => Some (t, me) | None => None end
    end
  end
with build_branch (f : nat) (b : branch) (t : tbl) (parent lvl : nat) {struct f} : option tbl :=
  match f with
  | O => None
  | S f =>
    match b with
    | Branch id bif els needs steps =>
      if has_id t id then None else
      let me := length t in
      let n := Build_node id KBranch lvl [] None bif els needs dspec [] [] [] [] [] [] false in
      let t := t_add_child (t ++ [n]) parent ONormal me in
      match fold_left (fun acc st => match acc with
                                     | None => None
                                     | Some (t, sp) => build_step f st t me sp (S lvl) ONormal
                                     end) steps (Some (t, me)) with
      | Some (t, _) => Some t | None => None end
    end
  end
with build_act (f : nat) (a : act) (t : tbl) (parent prev lvl : nat) {struct f} : option (tbl * nat) :=
  match f with
  | O => None
  | S f =>
    match a with
    | Act id aif spec ins outs params setup catches timeouts =>
      if has_id t id then None else
      let me := length t in
      let n := Build_node id KAct lvl [] None aif false [] spec (map (fun c => match c with Catch on _ => on end) catches)
                          (map (fun x => match x with Tmo on lim _ => (on, lim) end) timeouts) setup ins outs
                          (match params with Some p => p | None => [] end) (match params with Some _ => true | None => false end) in
      let t := link (t ++ [n]) parent prev me lvl ONormal in
      let r := fold_left (fun acc c => match acc, c with
                                       | None, _ => None
                                       | Some t, Catch on steps =>
                                           match fold_left (fun acc2 st => match acc2 with
                                                                          | None => None
                                                                          | Some (t, cp) => build_step f st t me cp (S lvl) (OCatch on)
                                                                          end) steps (Some (t, me)) with
                                           | Some (t, _) => Some t | None => None end
                                       end) catches (Some t) in
      let r := fold_left (fun acc c => match acc, c with
                                       | None, _ => None
                                       | Some t, Tmo on _ steps =>
                                           match fold_left (fun acc2 st => match acc2 with
                                                                          | None => None
                                                                          | Some (t, cp) => build_step f st t me cp (S lvl) (OTimeout on)
                                                                          end) steps (Some (t, me)) with
                                           | Some (t, _) => Some t | None => None end
                                       end) timeouts r in
      match r with Some t => Some (t, me) | None => None end
    end
  end.

Definition build_tree (f : nat) (w : workflow) : option tbl :=
  let root := Build_node (w_id w) KWorkflow 0 [] None None false [] dspec [] [] (w_setup w) (w_ins w) (w_outs w) [] false in
  match fold_left (fun acc st => match acc with
                                 | None => None
                                 | Some (t, sp) => build_step f st t 0 sp 1 ONormal
                                 end) (w_steps w) (Some ([root], 0)) with
  | Some (t, _) => Some t | None => None end.
