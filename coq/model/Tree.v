(* Workflow syntax and the node table built from it: acts/src/scheduler/tree/build.rs
   (build_workflow / build_step / build_branch / build_act) and node_tree.rs (make: duplicate ids).
   Definitions only. *)
From Coq Require Import List Arith ZArith Bool.
Import ListNotations.
From Acts.Gen Require Import GenState.
From Acts.Model Require Import Engine Serde.

Inductive step :=
  Step (id : nat) (sif : cond) (next : option nat) (ins outs : vars) (setup : list aspec)
       (branches : list branch) (acts : list act) (catches : list catch) (timeouts : list tmo)
with branch := Branch (id : nat) (bif : cond) (els : bool) (needs : list nat) (steps : list step)
with act :=
  Act (id : nat) (aif : cond) (spec : aspec) (ins outs : vars) (params : option vars)
      (setup : list aspec) (catches : list catch) (timeouts : list tmo)
with catch := Catch (on : option nat) (steps : list step)
with tmo := Tmo (on : nat) (limit : Z) (steps : list step).
Record workflow := { w_id : nat; w_steps : list step; w_ins : vars; w_outs : vars; w_setup : list aspec }.

(* the table under construction; None once a duplicate id was met (NodeTree::make fails) *)
Definition tbl := list node.
Definition has_id (t : tbl) (id : nat) : bool := existsb (fun n => Nat.eqb (n_id n) id) t.
Fixpoint index_of (t : tbl) (id : nat) (i : nat) : option nat :=
  match t with [] => None | n :: r => if Nat.eqb (n_id n) id then Some i else index_of r id (S i) end.

Definition blank (id : nat) (k : nkind) (lvl : nat) : node :=
  Build_node id k lvl [] None None false [] dspec [] [] [] [] [] [] false.
Definition tmod (t : tbl) (i : nat) (f : node -> node) : tbl := upd t i (f (nth i t dnode)).
Definition t_add_child (t : tbl) (p : nat) (k : okind) (c : nat) : tbl :=
  tmod t p (fun n => Build_node (n_id n) (n_kind n) (n_level n) (n_children n ++ [(k, c)]) (n_next n) (n_if n)
                                (n_else n) (n_needs n) (n_spec n) (n_catches n) (n_timeouts n) (n_setup n) (n_inputs n) (n_outputs n) (n_params n) (n_isset n)).
Definition t_set_next (t : tbl) (p : nat) (c : nat) : tbl :=
  tmod t p (fun n => Build_node (n_id n) (n_kind n) (n_level n) (n_children n) (Some c) (n_if n)
                                (n_else n) (n_needs n) (n_spec n) (n_catches n) (n_timeouts n) (n_setup n) (n_inputs n) (n_outputs n) (n_params n) (n_isset n)).
(* link a freshly made node: next of `prev` when they are on the same level, else child of `parent` *)
Definition link (t : tbl) (parent prev me : nat) (lvl : nat) (k : okind) : tbl :=
  if Nat.eqb (n_level (nth prev t dnode)) lvl then t_set_next t prev me else t_add_child t parent k me.

Definition st_id s := match s with Step id _ _ _ _ _ _ _ _ _ => id end.
Definition br_id b := match b with Branch id _ _ _ _ => id end.
Definition ac_id a := match a with Act id _ _ _ _ _ _ _ _ => id end.

(* fold with failure: None once a step failed *)
Definition ofold {S X : Type} (g : X -> S -> option S) (l : list X) (s : option S) : option S :=
  fold_left (fun acc x => match acc with None => None | Some st => g x st end) l s.
Definition otbl {A} (r : option (tbl * A)) : option tbl := match r with Some (t, _) => Some t | None => None end.

(* the stages of build_step / build_act, parameterised by the recursive builders *)
Definition step_builder := step -> tbl -> nat -> nat -> nat -> okind -> option (tbl * nat).
Definition steps_under (bs : step_builder) (me lvl : nat) (k : okind) (steps : list step) (t : tbl) : option tbl :=
  otbl (ofold (fun st (x : tbl * nat) => bs st (fst x) me (snd x) lvl k) steps (Some (t, me))).
Definition catches_under (bs : step_builder) (me lvl : nat) (catches : list catch) (r : option tbl) : option tbl :=
  ofold (fun c t => match c with Catch on steps => steps_under bs me lvl (OCatch on) steps t end) catches r.
Definition tmos_under (bs : step_builder) (me lvl : nat) (tmos : list tmo) (r : option tbl) : option tbl :=
  ofold (fun c t => match c with Tmo on _ steps => steps_under bs me lvl (OTimeout on) steps t end) tmos r.
Definition acts_under (ba : act -> tbl -> nat -> nat -> nat -> option (tbl * nat)) (me lvl : nat) (acts : list act) (r : option tbl) : option tbl :=
  otbl (ofold (fun a (st : tbl * nat) => ba a (fst st) me (snd st) lvl) acts (match r with Some t => Some (t, me) | None => None end)).
Definition branches_under (bb : branch -> tbl -> nat -> nat -> option tbl) (me lvl : nat) (branches : list branch) (t : tbl) : option tbl :=
  ofold (fun b t => bb b t me lvl) branches (Some t).
(* an explicit `next` refers to a node that exists already *)
Definition explicit_next (t : tbl) (me target : nat) : tbl :=
  match index_of t target 0 with Some j => t_set_next t me j | None => t end.
Definition with_me (me : nat) (r : option tbl) : option (tbl * nat) := match r with Some t => Some (t, me) | None => None end.

(* state threaded through the construction: the table (None = failed) and the `prev` cursor *)
Fixpoint build_step (f : nat) (s : step) (t : tbl) (parent prev lvl : nat) (k : okind) {struct f} : option (tbl * nat) :=
  match f with
  | O => None
  | S f =>
    match s with
    | Step id sif nxt ins outs setup branches acts catches timeouts =>
      if has_id t id then None else
      let me := length t in
      let n := Build_node id KStep lvl [] None sif false [] dspec (map (fun c => match c with Catch on _ => on end) catches)
                          (map (fun x => match x with Tmo on lim _ => (on, lim) end) timeouts) setup ins outs [] false in
      let t := link (t ++ [n]) parent prev me lvl k in
      let t := match nxt with Some target => explicit_next t me target | None => t end in
      let r := branches_under (build_branch f) me (S lvl) branches t in
      with_me me (tmos_under (build_step f) me (S lvl) timeouts
                   (catches_under (build_step f) me (S lvl) catches
                      (acts_under (build_act f) me (S lvl) acts r)))
    end
  end
with build_branch (f : nat) (b : branch) (t : tbl) (parent lvl : nat) {struct f} : option tbl :=
  match f with
  | O => None
  | S f =>
    match b with
    | Branch id bif els needs steps =>
      if has_id t id then None else
      let me := length t in
      let n := Build_node id KBranch lvl [] None bif els needs dspec [] [] [] [] [] [] false in
      let t := t_add_child (t ++ [n]) parent ONormal me in
      steps_under (build_step f) me (S lvl) ONormal steps t
    end
  end
with build_act (f : nat) (a : act) (t : tbl) (parent prev lvl : nat) {struct f} : option (tbl * nat) :=
  match f with
  | O => None
  | S f =>
    match a with
    | Act id aif spec ins outs params setup catches timeouts =>
      if has_id t id then None else
      let me := length t in
      let n := Build_node id KAct lvl [] None aif false [] spec (map (fun c => match c with Catch on _ => on end) catches)
                          (map (fun x => match x with Tmo on lim _ => (on, lim) end) timeouts) setup ins outs
                          (match params with Some p => p | None => [] end) (match params with Some _ => true | None => false end) in
      let t := link (t ++ [n]) parent prev me lvl ONormal in
      with_me me (tmos_under (build_step f) me (S lvl) timeouts (catches_under (build_step f) me (S lvl) catches (Some t)))
    end
  end.

Definition build_tree (f : nat) (w : workflow) : option tbl :=
  let root := Build_node (w_id w) KWorkflow 0 [] None None false [] dspec [] [] (w_setup w) (w_ins w) (w_outs w) [] false in
  otbl (ofold (fun st (x : tbl * nat) => build_step f st (fst x) 0 (snd x) 1 ONormal) (w_steps w) (Some ([root], 0))).

(* NodeTree::load: the `on` acts of the workflow are registered first (each needs an id, 0 stands for
   the empty string), then the workflow and its steps; any id met twice fails the load *)
Fixpoint nodupb (l : list nat) : bool :=
  match l with [] => true | x :: r => negb (existsb (Nat.eqb x) r) && nodupb r end.
Definition build_model (f : nat) (on : list nat) (w : workflow) : option tbl :=
  if existsb (Nat.eqb 0) on then None
  else if negb (nodupb on) then None
  else match build_tree f w with
       | Some t => if existsb (has_id t) on then None else Some t
       | None => None
       end.

(* what deploy sees of a workflow: valid when it has an id (0 = empty) and its tree can be built *)
Definition dmodel_of (f : nat) (on : list nat) (w : workflow) (ver text : nat) : dmodel :=
  {| d_id := w_id w; d_ver := ver; d_text := text; d_on := on;
     d_valid := negb (Nat.eqb (w_id w) 0) && match build_model f on w with Some _ => true | None => false end |}.
