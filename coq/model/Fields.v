(* Record <-> stored representation, over the field tables generated from the Rust sources
   (gen/GenStoreFields.v).  A record is a function from field names to values. *)
From Coq Require Import List String Bool.
Import ListNotations.
From Acts.Gen Require Import GenStoreFields.
Open Scope string_scope.

Section Rec.
Variable V : Type.
Definition record := string -> V.

Fixpoint assoc (k : string) (l : list (string * V)) : option V :=
  match l with [] => None | (k', v) :: t => if String.eqb k k' then Some v else assoc k t end.
(* HashMap::insert / SQL SET: the last binding of a key wins *)
Definition put (l : list (string * V)) (k : string) (v : V) : list (string * V) :=
  (k, v) :: filter (fun kv => negb (String.eqb (fst kv) k)) l.

(* memory store: doc() builds a map key -> value; map_to_model reads every struct field by name *)
Definition mem_doc (t : store_tables) (r : record) : list (string * V) :=
  fold_left (fun acc kf => put acc (fst kf) (r (snd kf))) (st_doc t) [].
Definition mem_read (doc : list (string * V)) (f : string) : option V := assoc f doc.

(* sqlite: create writes (column <- field); find selects columns; from_row reads (field <- column) *)
Definition sql_row (pairs : list (string * string)) (r : record) (row0 : list (string * V)) : list (string * V) :=
  fold_left (fun acc cf => put acc (fst cf) (r (snd cf))) pairs row0.
Definition sql_create (t : store_tables) (r : record) := sql_row (st_create t) r [].
Definition sql_update (t : store_tables) (r : record) (row0 : list (string * V)) := sql_row (st_update t) r row0.
Fixpoint sassoc (k : string) (l : list (string * string)) : option string :=
  match l with [] => None | (k', v) :: t => if String.eqb k k' then Some v else sassoc k t end.
Definition sql_read (t : store_tables) (row : list (string * V)) (f : string) : option V :=
  match sassoc f (st_from_row t) with
  | Some c => if existsb (String.eqb c) (st_select t) then assoc c row else None
  | None => None
  end.
End Rec.

(* decidable table conditions, discharged by computation on the generated tables *)
Definition smem (x : string) (l : list string) := existsb (String.eqb x) l.
Definition pmem (p : string * string) (l : list (string * string)) :=
  existsb (fun q => String.eqb (fst p) (fst q) && String.eqb (snd p) (snd q)) l.
Fixpoint nodupb (l : list string) : bool :=
  match l with [] => true | x :: t => negb (smem x t) && nodupb t end.

Definition mem_ok (t : store_tables) : bool :=
  nodupb (map fst (st_doc t)) && forallb (fun f => pmem (f, f) (st_doc t)) (st_fields t).
Definition sql_ok (t : store_tables) : bool :=
  nodupb (map fst (st_create t)) && nodupb (map fst (st_update t)) && nodupb (map fst (st_from_row t)) &&
  forallb (fun f => pmem (f, f) (st_create t) && pmem (f, f) (st_from_row t) && smem f (st_select t)) (st_fields t) &&
  forallb (fun f => String.eqb f "id" || pmem (f, f) (st_update t)) (st_fields t) &&
  forallb (fun cf => String.eqb (fst cf) (snd cf)) (st_update t) &&
  negb (smem "id" (map fst (st_update t))).
Definition tables_ok (t : store_tables) : bool := mem_ok t && sql_ok t.
