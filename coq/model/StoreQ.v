(* Memory-store query calculus: acts/src/store/db/mem/collect.rs (query, Cond::calc, Expr::op,
   cmp_value) and acts/src/store/query.rs (Query::calc, is_cond).  Definitions only. *)
From Coq Require Import List Arith ZArith Bool.
Import ListNotations.

(* field values; strings are interned by the harness so that the order of the numbers is the
   byte order of the strings *)
Inductive jv := JNull | JBool (b : bool) | JNum (z : Z) | JStr (s : nat).
Definition jv_eqb (a b : jv) : bool :=
  match a, b with
  | JNull, JNull => true
  | JBool x, JBool y => Bool.eqb x y
  | JNum x, JNum y => Z.eqb x y
  | JStr x, JStr y => Nat.eqb x y
  | _, _ => false
  end.
Inductive eop := EQ | NE | LT | LE | GT | GE.
Record expr := { e_op : eop; e_key : nat; e_val : jv }.
Inductive ctype := CAnd | COr.
Record cond := { c_type : ctype; c_exprs : list expr }.
Definition row := list (nat * jv).           (* field id -> value *)
Definition db := list (nat * row).           (* record id -> document, in BTreeMap (id) order *)
Record query := { q_conds : list cond; q_order : list (nat * bool); q_offset : nat; q_limit : nat }.

Fixpoint field (r : row) (k : nat) : option jv :=
  match r with [] => None | (k', v) :: t => if Nat.eqb k k' then Some v else field t k end.

(* Expr::op : ordering operators are false unless both sides are numbers *)
Definition expr_op (op : eop) (l r : jv) : bool :=
  match op with
  | EQ => jv_eqb l r
  | NE => negb (jv_eqb l r)
  | LT => match l, r with JNum a, JNum b => Z.ltb a b | _, _ => false end
  | LE => match l, r with JNum a, JNum b => Z.leb a b | _, _ => false end
  | GT => match l, r with JNum a, JNum b => Z.ltb b a | _, _ => false end
  | GE => match l, r with JNum a, JNum b => Z.leb b a | _, _ => false end
  end.

(* ---------- the property's reading of a filter ---------- *)
Definition sat_expr (r : row) (e : expr) : bool :=
  match field r (e_key e) with Some v => expr_op (e_op e) v (e_val e) | None => false end.
Definition sat_cond (r : row) (c : cond) : bool :=
  match c_type c with
  | CAnd => forallb (sat_expr r) (c_exprs c)
  | COr => existsb (sat_expr r) (c_exprs c)
  end.
Definition sat_query (r : row) (cs : list cond) : bool := forallb (sat_cond r) cs.
(* Cond::is_constraint : an AND without expressions holds for every record, an OR without
   expressions for none *)
Definition live_cond (c : cond) : bool :=
  match c_exprs c, c_type c with [], CAnd => false | _, _ => true end.

(* ---------- the implementation: sets of record ids as lists ---------- *)
Definition mem (x : nat) (l : list nat) : bool := existsb (Nat.eqb x) l.
Definition inter (a b : list nat) : list nat := filter (fun x => mem x b) a.
Definition union (a b : list nat) : list nat := a ++ filter (fun x => negb (mem x a)) b.

Definition ids_of (d : db) (e : expr) : list nat :=
  map fst (filter (fun kr => sat_expr (snd kr) e) d).

(* the query loop of collect.rs: the first expression initialises cond.result, the others go
   through Cond::calc (intersection / union) *)
Definition cond_calc (t : ctype) (acc v : list nat) : list nat :=
  match t with CAnd => inter acc v | COr => union acc v end.
Definition cond_result (d : db) (c : cond) : list nat :=
  match c_exprs c with
  | [] => []
  | e :: es => fold_left (fun acc e' => cond_calc (c_type c) acc (ids_of d e')) es (ids_of d e)
  end.
(* Query::calc : conditions without expressions are skipped, None = nothing applied yet *)
Definition query_calc (d : db) (cs : list cond) : list nat :=
  match fold_left (fun acc c => match acc with
                                | None => Some (cond_result d c)
                                | Some a => Some (inter a (cond_result d c)) end)
                  (filter live_cond cs) None with
  | Some l => l | None => [] end.
Definition is_cond (cs : list cond) : bool := existsb live_cond cs.

(* rows selected by the filter, in id order *)
Definition select (d : db) (cs : list cond) : list (nat * row) :=
  if is_cond cs then let items := query_calc d cs in filter (fun kr => mem (fst kr) items) d
  else d.

(* ---------- ordering: cmp_value ---------- *)
Definition jv_cmp (a b : jv) : comparison :=
  match a, b with
  | JNum x, JNum y => Z.compare x y
  | JStr x, JStr y => Nat.compare x y
  | JNull, JNull => Eq
  | JBool x, JBool y => match x, y with false, true => Lt | true, false => Gt | _, _ => Eq end
  (* different kinds: by their JSON text; only used on ill-typed data, fixed arbitrary order
     quote < digits < f,n,t  -- modelled coarsely as Str < Num < Bool < Null *)
  | JStr _, _ => Lt | _, JStr _ => Gt
  | JNum _, _ => Lt | _, JNum _ => Gt
  | JBool _, _ => Lt | _, JBool _ => Gt
  end.
Definition fget (r : row) (k : nat) : jv := match field r k with Some v => v | None => JNull end.
Fixpoint row_cmp (ord : list (nat * bool)) (a b : row) : comparison :=
  match ord with
  | [] => Eq
  | (k, rev) :: t =>
      match (if rev then jv_cmp (fget b k) (fget a k) else jv_cmp (fget a k) (fget b k)) with
      | Eq => row_cmp t a b
      | c => c
      end
  end.
(* stable insertion sort (Vec::sort_by is stable) *)
Fixpoint insert_sorted (ord : list (nat * bool)) (x : nat * row) (l : list (nat * row)) : list (nat * row) :=
  match l with
  | [] => [x]
  | y :: t => match row_cmp ord (snd x) (snd y) with
              | Gt => y :: insert_sorted ord x t
              | _ => x :: l
              end
  end.
Definition sort_rows (ord : list (nat * bool)) (l : list (nat * row)) : list (nat * row) :=
  fold_right (insert_sorted ord) [] l.

(* ---------- paging ---------- *)
Record page := { p_count : nat; p_page_num : nat; p_page_count : nat; p_page_size : nat;
                 p_rows : list (nat * row) }.
Definition div_ceil (a b : nat) : nat := (a + (b - 1)) / b.
Definition run_query (d : db) (q : query) : page :=
  let rows := select d (q_conds q) in
  let rows := match q_order q with [] => rows | _ => sort_rows (q_order q) rows end in
  {| p_count := length rows;
     p_page_num := q_offset q / q_limit q + 1;
     p_page_count := div_ceil (length rows) (q_limit q);
     p_page_size := q_limit q;
     p_rows := firstn (q_limit q) (skipn (q_offset q) rows) |}.

(* ---------- the collection as a map with the DbCollection operations ---------- *)
Fixpoint db_insert (d : db) (k : nat) (r : row) : db :=
  match d with
  | [] => [(k, r)]
  | (k', r') :: t => if Nat.ltb k k' then (k, r) :: d
                     else if Nat.eqb k k' then (k, r) :: t
                     else (k', r') :: db_insert t k r
  end.
Fixpoint db_find (d : db) (k : nat) : option row :=
  match d with [] => None | (k', r) :: t => if Nat.eqb k k' then Some r else db_find t k end.
Definition db_update (d : db) (k : nat) (r : row) : db :=
  map (fun kr => if Nat.eqb (fst kr) k then (k, r) else kr) d.
Definition db_delete (d : db) (k : nat) : db := filter (fun kr => negb (Nat.eqb (fst kr) k)) d.

Inductive sop := SCreate (k : nat) (r : row) | SUpdate (k : nat) (r : row) | SDelete (k : nat)
               | SFind (k : nat) | SExists (k : nat) | SQuery (q : query).
Inductive sres := RBool (b : bool) | RRow (r : option row) | RPage (p : page) | RErr.
Definition has (d : db) (k : nat) : bool := match db_find d k with Some _ => true | None => false end.
Definition sstep (d : db) (o : sop) : db * sres :=
  match o with
  | SCreate k r => if has d k then (d, RErr) else (db_insert d k r, RBool true)
  | SUpdate k r => (db_update d k r, RBool (has d k))
  | SDelete k => (db_delete d k, RBool (has d k))
  | SFind k => (d, RRow (db_find d k))
  | SExists k => (d, RBool (match db_find d k with Some _ => true | None => false end))
  | SQuery q => (d, RPage (run_query d q))
  end.
Fixpoint srun (d : db) (ops : list sop) : db * list sres :=
  match ops with
  | [] => (d, [])
  | o :: t => let '(d1, r) := sstep d o in let '(d2, rs) := srun d1 t in (d2, r :: rs)
  end.
