(* Property oracles over observable traces.  The same functions are evaluated (extracted) on the
   traces of the implementation and are the subject of the theorems about the model:
   `check ... (observe (run ...))` reports no violation of the clauses a property owns.
   Definitions only. *)
From Coq Require Import List Arith ZArith Bool.
Import ListNotations.
From Acts.Gen Require Import GenState.
From Acts.Model Require Import Engine.

(* package of an act node as the client sees it *)
Inductive upack := PNone | PIrq | PMsg | PBlock | PParallel | PSequence | PSet | POther.
Definition upack_beq a b := match a, b with
  | PNone, PNone | PIrq, PIrq | PMsg, PMsg | PBlock, PBlock | PParallel, PParallel | PSequence, PSequence
  | PSet, PSet | POther, POther => true | _, _ => false end.

Inductive oev :=
| ObNew (tid : nat) (nid : option nat) (prev : option nat) (k : nkind) (lvl : nat) (u : upack) (at_ : Z)
| ObTrans (tid : nat) (o n : TaskState) (at_ : Z)
| ObMsg (tid : nat) (ms : MessageState) (ins outs : vars)
| ObProc (s : TaskState) (outs : vars)
| ObAct (ok : bool)
| ObPop (tid : nat)
| ObQuiet
| ObFire (tid on : nat) (now start limit : Z).

(* ---- what the model exposes ---- *)
Definition pack_of (n : node) : upack :=
  match n_kind n with
  | KAct => if n_isset n then PSet else
            match sp_u (n_spec n) with UIrq => PIrq | UMsg => PMsg | UBlock => PBlock | UParallel => PParallel | USequence => PSequence | UFail => POther end
  | _ => PNone
  end.
Definition observe_ev (e : eng) (nstatic : nat) (x : ev) : oev :=
  match x with
  | ENew t n p a _ => let nn := nd e n in
                    ObNew t (if Nat.ltb n nstatic then Some (n_id nn) else None) p (n_kind nn) (n_level nn) (pack_of nn) a
  | ETrans t o n a _ => ObTrans t o n a
  | EMsg t s i o => ObMsg t (to_mstate s) i o
  | EProc s o => ObProc s o
  | EAct b => ObAct b
  | EPop t => ObPop t
  | EQuiet => ObQuiet
  | EFire t on now start limit => ObFire t on now start limit
  end.
Definition observe (e : eng) (nstatic : nat) : list oev := map (observe_ev e nstatic) (trace e).

(* ---- legality of a state write (C02) ---- *)
Definition stage (s : TaskState) : nat :=
  match s with
  | SNone => 0
  | SReady | SPending | SInterrupt => 1
  | SRunning => 2
  | _ => 3
  end.
Definition legal (o n : TaskState) : bool :=
  TaskState_beq o n                                 (* re-writing the same state is not a change *)
  || Nat.ltb (stage o) (stage n)
  || (is o SReady && (is n SPending || is n SInterrupt)).
Definition revive (o n : TaskState) : bool := is o SError && is n SRunning.

(* ---- replay state ---- *)
Record otask := { o_nid : option nat; o_kind : nkind; o_lvl : nat; o_prev : option nat; o_pack : upack;
                  o_state : TaskState; o_created : nat; o_term : nat; o_revived : nat; o_started : bool;
                  o_msgs : nat }.
Definition dotask := {| o_nid := None; o_kind := KAct; o_lvl := 0; o_prev := None; o_pack := PNone; o_state := SNone;
                        o_created := 0; o_term := 0; o_revived := 0; o_started := false; o_msgs := 0 |}.
Definition viol := (nat * nat)%type.             (* (clause, task) *)
Record ost := { ots : list otask; started : nat; ended : nat; end_state : TaskState; viols : list viol;
                since_quiet : nat; qstates : list TaskState; qended : nat; pending_ops : list (nat * nat); fired : list (nat * nat) }.

Definition otk (s : ost) i := nth i (ots s) dotask.
Definition oupd (s : ost) i (f : otask -> otask) : ost :=
  {| ots := upd (ots s) i (f (otk s i)); started := started s; ended := ended s; end_state := end_state s; viols := viols s;
     since_quiet := since_quiet s; qstates := qstates s; qended := qended s; pending_ops := pending_ops s; fired := fired s |}.
Definition oviol (s : ost) (c t : nat) : ost :=
  {| ots := ots s; started := started s; ended := ended s; end_state := end_state s; viols := viols s ++ [(c, t)];
     since_quiet := since_quiet s; qstates := qstates s; qended := qended s; pending_ops := pending_ops s; fired := fired s |}.
Definition obump (s : ost) : ost :=
  {| ots := ots s; started := started s; ended := ended s; end_state := end_state s; viols := viols s;
     since_quiet := S (since_quiet s); qstates := qstates s; qended := qended s; pending_ops := pending_ops s; fired := fired s |}.

Fixpoint oparent_from (f : nat) (s : ost) (lvl : nat) (p : option nat) : option nat :=
  match f, p with
  | O, _ => None
  | _, None => None
  | S f, Some q => if Nat.ltb (o_lvl (otk s q)) lvl then Some q else oparent_from f s lvl (o_prev (otk s q))
  end.
Definition oparent (s : ost) i := oparent_from (S (length (ots s))) s (o_lvl (otk s i)) (o_prev (otk s i)).
Fixpoint oancestors (f : nat) (s : ost) (p : option nat) : list nat :=
  match f, p with
  | S f, Some q => q :: oancestors f s (oparent s q)
  | _, _ => []
  end.
Definition obeneath (s : ost) (t d : nat) : bool :=
  existsb (Nat.eqb t) (oancestors (S (length (ots s))) s (oparent s d)).
Definition oopen (s : ost) (i : nat) : bool := negb (is_completed (o_state (otk s i))).
Definition all_tids (s : ost) := seq 0 (length (ots s)).

Definition is_terminal_ms (m : MessageState) : bool :=
  match m with MNone | MCreated => false | _ => true end.
(* kinds whose tasks report created and terminal messages *)
Definition reports (t : otask) : bool :=
  match o_kind t with
  | KWorkflow | KStep => true
  | KAct => upack_beq (o_pack t) PIrq
  | KBranch => false
  end.

(* clause numbers: 2xx C02, 3xx C03, 5xx C05, 8xx C08, 1xx C01 *)
Definition step_oracle (hooks : list nat) (tmo_nids : list nat) (s : ost) (x : oev) : ost :=
  match x with
  | ObNew t nid prev k lvl u _ =>
      let s := obump s in
      {| ots := ots s ++ [{| o_nid := nid; o_kind := k; o_lvl := lvl; o_prev := prev; o_pack := u; o_state := SNone;
                            o_created := 0; o_term := 0; o_revived := 0; o_started := false; o_msgs := 0 |}];
         started := started s; ended := ended s; end_state := end_state s;
         viols := if Nat.eqb t (length (ots s)) then viols s else viols s ++ [(901, t)];
         since_quiet := since_quiet s; qstates := qstates s; qended := qended s; pending_ops := pending_ops s; fired := fired s |}
  | ObTrans t o n _ =>
      let s := obump s in
      let cur := o_state (otk s t) in
      let s := if TaskState_beq cur o then s else oviol s 902 t in
      let s :=
        if legal o n then s
        else if revive o n then
          (if Nat.eqb (o_revived (otk s t)) 0 then s else oviol s 202 t)
        else oviol s 201 t in
      let s := oupd s t (fun r => {| o_nid := o_nid r; o_kind := o_kind r; o_lvl := o_lvl r; o_prev := o_prev r; o_pack := o_pack r;
                                     o_state := n; o_created := o_created r; o_term := o_term r;
                                     o_revived := if revive o n then S (o_revived r) else o_revived r;
                                     o_started := o_started r || is n SRunning || is n SInterrupt; o_msgs := o_msgs r |}) in
      (* C03: reported successfully completed only when everything beneath it is terminal *)
      if is n SCompleted && existsb (fun d => oopen s d && match oparent s d with Some p => Nat.eqb p t | None => false end) (all_tids s) then oviol s 304 t else s
  | ObMsg t ms _ _ =>
      let s := obump s in
      let r := otk s t in
      let s := if MessageState_beq ms (to_mstate (o_state r)) then s else oviol s 805 t in
      let s := match o_kind r with KBranch => oviol s 804 t | _ => s end in
      if is_terminal_ms ms then
        let s := if Nat.eqb (o_term r) 0 then s else oviol s 802 t in
        let s := if reports r && o_started r && Nat.eqb (o_created r) 0 then oviol s 803 t else s in
        oupd s t (fun r => {| o_nid := o_nid r; o_kind := o_kind r; o_lvl := o_lvl r; o_prev := o_prev r; o_pack := o_pack r;
                              o_state := o_state r; o_created := o_created r; o_term := S (o_term r); o_revived := o_revived r;
                              o_started := o_started r; o_msgs := S (o_msgs r) |})
      else
        let s := if Nat.eqb (o_created r) 0 then s else oviol s 801 t in
        (* a parent's created message comes before its children's *)
        let s := if existsb (fun d => match oparent s d with Some p => Nat.eqb p t && negb (Nat.eqb (o_created (otk s d)) 0) | None => false end) (all_tids s)
                 then oviol s 808 t else s in
        oupd s t (fun r => {| o_nid := o_nid r; o_kind := o_kind r; o_lvl := o_lvl r; o_prev := o_prev r; o_pack := o_pack r;
                              o_state := o_state r; o_created := S (o_created r); o_term := o_term r; o_revived := o_revived r;
                              o_started := o_started r; o_msgs := S (o_msgs r) |})
  | ObProc st _ =>
      let s := obump s in
      if is_completed st then
        let s := if Nat.eqb (started s) 0 then oviol s 301 0 else s in
        let s := if Nat.eqb (ended s) 0 then s else oviol s 303 0 in
        let s := if TaskState_beq st (o_state (otk s 0)) then s else oviol s 306 0 in
        let s := if is st SError then s
                 else match find (fun d => oopen s d && negb (existsb (Nat.eqb d) hooks)) (all_tids s) with
                      | Some d => oviol s 305 d | None => s end in
        {| ots := ots s; started := started s; ended := S (ended s); end_state := st; viols := viols s;
           since_quiet := since_quiet s; qstates := qstates s; qended := qended s; pending_ops := pending_ops s; fired := fired s |}
      else
        let s := if Nat.eqb (started s) 0 then s else oviol s 302 0 in
        {| ots := ots s; started := S (started s); ended := ended s; end_state := end_state s; viols := viols s;
           since_quiet := since_quiet s; qstates := qstates s; qended := qended s; pending_ops := pending_ops s; fired := fired s |}
  | ObAct ok =>
      match pending_ops s with
      | [] => oviol s 903 0
      | (t, a) :: rest =>
          (* a : 0 next 1 submit 2 skip 3 remove 4 abort 5 error 6 back 7 cancel 8 push *)
          let seven := Nat.ltb a 7 in
          let exists_ := Nat.ltb t (length (qstates s)) in
          let qst := nth t (qstates s) SNone in
          let s1 := {| ots := ots s; started := started s; ended := ended s; end_state := end_state s; viols := viols s;
                       (* what the next operation meets: the states (and the ending) after this action's own effects --
                          the next action may arrive before anything else runs (held scheduler) *)
                       since_quiet := 0; qstates := map o_state (ots s); qended := ended s; pending_ops := rest; fired := fired s |} in
          if ok then
            let s1 := if exists_ then s1 else oviol s1 503 t in
            let s1 := if exists_ && (if Nat.eqb a 8 then negb (nkind_beq (o_kind (otk s t)) KStep) else negb (nkind_beq (o_kind (otk s t)) KAct))
                      then oviol s1 504 t else s1 in
            let s1 := if exists_ && (seven || Nat.eqb a 8) && is_completed qst then oviol s1 502 t else s1 in
            if Nat.eqb (qended s) 0 then s1 else oviol s1 505 t
          else
            if negb (Nat.eqb a 7) && negb (Nat.eqb (since_quiet s) 0) then oviol s1 501 t else s1
      end
  | ObPop _ => s
  | ObFire t on now start limit =>
      (* C19: never early, at most once per task and rule, only for a task that is still open *)
      let s := obump s in
      let s := if Z.leb limit (now - start) then s else oviol s 1901 t in
      let s := if existsb (fun p => Nat.eqb (fst p) t && Nat.eqb (snd p) on) (fired s) then oviol s 1902 t else s in
      let s := if oopen s t then s else oviol s 1903 t in
      {| ots := ots s; started := started s; ended := ended s; end_state := end_state s; viols := viols s;
         since_quiet := since_quiet s; qstates := qstates s; qended := qended s; pending_ops := pending_ops s; fired := (t, on) :: fired s |}
  | ObQuiet =>
      (* C01: nothing in flight: the process has ended, or a client can still answer something *)
      let waiting := existsb (fun d => is (o_state (otk s d)) SInterrupt
                                       || (oopen s d && match o_nid (otk s d) with Some n => existsb (Nat.eqb n) tmo_nids | None => false end))
                             (all_tids s) in
      let s := if Nat.eqb (ended s) 0 && negb waiting then oviol s 101 0 else s in
      {| ots := ots s; started := started s; ended := ended s; end_state := end_state s; viols := viols s;
         since_quiet := 0; qstates := map o_state (ots s); qended := ended s; pending_ops := pending_ops s; fired := fired s |}
  end.

(* end of trace: every reporting task that ended has its terminal message; a message act that ran
   sent exactly its completion message *)
Definition final_oracle (s : ost) : ost :=
  fold_left (fun s t =>
    let r := otk s t in
    let s := if reports r && is_completed (o_state r) && negb (is_none (o_state r)) && Nat.eqb (o_term r) 0 then oviol s 806 t else s in
    if upack_beq (o_pack r) PMsg && is (o_state r) SCompleted && negb (Nat.eqb (o_msgs r) 1) then oviol s 807 t else s)
    (all_tids s) s.

Definition ost0 (ops : list (nat * nat)) : ost :=
  {| ots := []; started := 0; ended := 0; end_state := SNone; viols := []; since_quiet := 0; qstates := []; qended := 0; pending_ops := ops; fired := [] |}.
Definition check (hooks tmo_nids : list nat) (ops : list (nat * nat)) (tr : list oev) : list viol :=
  viols (final_oracle (fold_left (step_oracle hooks tmo_nids) tr (ost0 ops))).

Definition owned (lo hi : nat) (v : list viol) : list viol := filter (fun x => Nat.leb lo (fst x) && Nat.ltb (fst x) hi) v.
Definition ok_C01 v := owned 100 200 v.
Definition ok_C02 v := owned 200 300 v.
Definition ok_C03 v := owned 300 400 v.
Definition ok_C05 v := owned 500 600 v.
Definition ok_C08 v := owned 800 900 v.
Definition ok_C19 v := owned 1900 2000 v.

(* inputs of `check` as the model knows them *)
Definition action_code (a : action) : nat :=
  match a with ANext => 0 | ASubmit => 1 | ASkip => 2 | ARemove => 3 | AAbort => 4 | AError _ => 5 | ABack _ => 6 | ACancel => 7 | APush _ => 8 end.
Definition ops_codes (ops : list op) : list (nat * nat) :=
  fold_right (fun o acc => match o with OAct t a _ => (t, action_code a) :: acc | _ => acc end) [] ops.
Definition hook_tids (e : eng) : list nat := filter (fun i => t_evproc (tk e i)) (seq 0 (length (tasks e))).
Definition tmo_nids_of (ns : list node) : list nat :=
  map n_id (filter (fun n => negb (Nat.eqb (length (n_timeouts n)) 0)) ns).
