(* Channels: export/channel.rs (five glob matchers, conjunction with the tag disjunction) and
   event/emitter.rs (handlers keyed by channel id: replace on re-register, removal by id).
   The glob matcher is a reference implementation of the pattern language globset accepts
   (literal, ?, *, [a-c], [!a], {a,b}); globset itself is in the trusted base and compared with
   it by the correspondence check.  Definitions only. *)
From Coq Require Import List Arith Bool.
Import ListNotations.

Definition bytes := list nat.
Inductive gtok :=
| GLit (c : nat) | GAny | GStar
| GClass (neg : bool) (ranges : list (nat * nat))
| GAlt (alts : list (list gtok)).

Definition in_class (ranges : list (nat * nat)) (c : nat) : bool :=
  existsb (fun r => Nat.leb (fst r) c && Nat.leb c (snd r)) ranges.

Fixpoint gmatch (fuel : nat) (p : list gtok) (s : bytes) : bool :=
  match fuel with
  | O => false
  | S fuel =>
      match p with
      | [] => match s with [] => true | _ => false end
      | GLit c :: p' => match s with x :: s' => Nat.eqb x c && gmatch fuel p' s' | [] => false end
      | GAny :: p' => match s with _ :: s' => gmatch fuel p' s' | [] => false end
      | GStar :: p' => gmatch fuel p' s || match s with _ :: s' => gmatch fuel p s' | [] => false end
      | GClass neg rs :: p' => match s with x :: s' => xorb neg (in_class rs x) && gmatch fuel p' s' | [] => false end
      | GAlt alts :: p' => existsb (fun a => gmatch fuel (a ++ p') s) alts
      end
  end.
Fixpoint tsize (t : gtok) : nat :=
  match t with
  | GAlt alts => S (fold_right (fun a n => fold_right (fun t m => tsize t + m) 1 a + n) 0 alts)
  | _ => 1
  end.
Definition psize (p : list gtok) : nat := fold_right (fun t n => tsize t + n) 1 p.
Definition glob (p : list gtok) (s : bytes) : bool := gmatch ((psize p + 2) * (length s + 2)) p s.

(* the message fields a channel looks at *)
Record msg := { m_type : bytes; m_state : bytes; m_tag : bytes; m_model_tag : bytes; m_key : bytes; m_uses : bytes }.
Record copts := { o_type : list gtok; o_state : list gtok; o_tag : list gtok; o_key : list gtok; o_uses : list gtok }.
Definition is_match (o : copts) (m : msg) : bool :=
  glob (o_type o) (m_type m) && glob (o_state o) (m_state m) &&
  (glob (o_tag o) (m_tag m) || glob (o_tag o) (m_model_tag m)) &&
  glob (o_key o) (m_key m) && glob (o_uses o) (m_uses m).
Definition default_opts : copts := {| o_type := [GStar]; o_state := [GStar]; o_tag := [GStar]; o_key := [GStar]; o_uses := [GStar] |}.

(* the emitter's message handlers: channel id -> options of the registered handler *)
Definition emitter := list (nat * copts).
Fixpoint register (e : emitter) (id : nat) (o : copts) : emitter :=
  match e with
  | [] => [(id, o)]
  | (id', o') :: r => if Nat.eqb id id' then (id, o) :: r else (id', o') :: register r id o
  end.
Definition remove (e : emitter) (id : nat) : emitter := filter (fun c => negb (Nat.eqb (fst c) id)) e.
(* channels whose handler is invoked for a message *)
Definition dispatch (e : emitter) (m : msg) : list nat := map fst (filter (fun c => is_match (snd c) m) e).

Inductive cop := COn (id : nat) (o : copts) | CClose (id : nat) | CEmit (m : msg).
Definition cstep (e : emitter) (o : cop) : emitter * list nat :=
  match o with
  | COn id opts => (register e id opts, [])
  | CClose id => (remove e id, [])
  | CEmit m => (e, dispatch e m)
  end.
Fixpoint crun (e : emitter) (ops : list cop) : emitter * list (list nat) :=
  match ops with
  | [] => (e, [])
  | o :: r => let '(e1, d) := cstep e o in let '(e2, ds) := crun e1 r in (e2, d :: ds)
  end.

(* the emitter has four handler families, all keyed by the channel id (event/emitter.rs: messages, starts,
   completes, errors); Channel::close / unsub remove the id from every one of them *)
Inductive hkind := HMsg | HStart | HComplete | HError.
Record hub := { hb_msg : emitter; hb_start : emitter; hb_complete : emitter; hb_error : emitter }.
Definition hub0 : hub := {| hb_msg := []; hb_start := []; hb_complete := []; hb_error := [] |}.
Definition hget (h : hub) (k : hkind) : emitter :=
  match k with HMsg => hb_msg h | HStart => hb_start h | HComplete => hb_complete h | HError => hb_error h end.
Definition hset (h : hub) (k : hkind) (v : emitter) : hub :=
  match k with
  | HMsg => {| hb_msg := v; hb_start := hb_start h; hb_complete := hb_complete h; hb_error := hb_error h |}
  | HStart => {| hb_msg := hb_msg h; hb_start := v; hb_complete := hb_complete h; hb_error := hb_error h |}
  | HComplete => {| hb_msg := hb_msg h; hb_start := hb_start h; hb_complete := v; hb_error := hb_error h |}
  | HError => {| hb_msg := hb_msg h; hb_start := hb_start h; hb_complete := hb_complete h; hb_error := v |}
  end.
Definition hremove (h : hub) (id : nat) : hub :=
  {| hb_msg := remove (hb_msg h) id; hb_start := remove (hb_start h) id;
     hb_complete := remove (hb_complete h) id; hb_error := remove (hb_error h) id |}.
Inductive hop := HOn (k : hkind) (id : nat) (o : copts) | HClose (id : nat) | HEmit (k : hkind) (m : msg).
Definition hstep (h : hub) (o : hop) : hub * list nat :=
  match o with
  | HOn k id opts => (hset h k (register (hget h k) id opts), [])
  | HClose id => (hremove h id, [])
  | HEmit k m => (h, dispatch (hget h k) m)
  end.
Fixpoint hrun (h : hub) (ops : list hop) : hub * list (list nat) :=
  match ops with
  | [] => (h, [])
  | o :: r => let '(h1, d) := hstep h o in let '(h2, ds) := hrun h1 r in (h2, d :: ds)
  end.
