(* Script boundary (env/value.rs: JSON <-> QuickJS values) and parameter templates
   (utils/convert.rs: get_expr, get_exprs, fill_params).  Strings are byte lists.
   IEEE doubles, QuickJS evaluation and number printing are parameters (trusted base).
   Definitions only. *)
From Coq Require Import List Arith ZArith Bool.
Import ListNotations.

Definition bytes := list nat.
Fixpoint beqb (a b : bytes) : bool :=
  match a, b with
  | [], [] => true
  | x :: a', y :: b' => Nat.eqb x y && beqb a' b'
  | _, _ => false
  end.

Section Js.
Variable F : Type.                       (* IEEE binary64 *)
Variable of_Z : Z -> F.                  (* `n as f64` *)
Variable exact_Z : F -> option Z.        (* the integer an integral double of magnitude <= 2^53 denotes (f.fract() == 0 && |f| <= 2^53, then f as i64) *)

Inductive jv := JNull | JBool (b : bool) | JInt (z : Z) | JFloat (f : F) | JStr (s : bytes)
              | JArr (l : list jv) | JObj (l : list (bytes * jv)).
(* QuickJS values as value.rs sees them: Int is a 32 bit integer *)
Inductive js := SNull | SBool (b : bool) | SInt (z : Z) | SFloat (f : F) | SStr (s : bytes)
              | SArr (l : list js) | SObj (l : list (bytes * js)).

Definition fits_i32 (z : Z) : bool := (Z.leb (- 2147483648) z && Z.leb z 2147483647)%Z.

(* IntoJs for ActValue *)
Fixpoint to_js (v : jv) : js :=
  match v with
  | JNull => SNull
  | JBool b => SBool b
  | JInt z => if fits_i32 z then SInt z else SFloat (of_Z z)
  | JFloat f => SFloat f
  | JStr s => SStr s
  | JArr l => SArr (map to_js l)
  | JObj l => SObj (map (fun kv => (fst kv, to_js (snd kv))) l)
  end.
(* FromJs for ActValue *)
Fixpoint of_js (x : js) : jv :=
  match x with
  | SNull => JNull
  | SBool b => JBool b
  | SInt z => JInt z
  | SFloat f => match exact_Z f with Some z => JInt z | None => JFloat f end
  | SStr s => JStr s
  | SArr l => JArr (map of_js l)
  | SObj l => JObj (map (fun kv => (fst kv, of_js (snd kv))) l)
  end.

(* ---------- templates ---------- *)
Definition LB := 123.  (* { *)
Definition RB := 125.  (* } *)
Definition NL := 10.
Definition SP := 32.

(* the shortest `.*?` followed by "}}" that does not cross a newline: (inner, rest after "}}") *)
Fixpoint close (s : bytes) (acc : bytes) : option (bytes * bytes) :=
  match s with
  | [] => None
  | a :: s' =>
      if Nat.eqb a NL then None
      else match s' with
           | b :: s'' => if Nat.eqb a RB && Nat.eqb b RB then Some (rev acc, s'') else close s' (a :: acc)
           | [] => None
           end
  end.
(* get_exprs: the regex \{\{(.*?)\}\} with find_iter: the matched texts, left to right *)
Fixpoint scan (fuel : nat) (s : bytes) : list bytes :=
  match fuel with
  | O => []
  | S fuel =>
      match s with
      | a :: ((b :: rest) as s') =>
          if Nat.eqb a LB && Nat.eqb b LB then
            match close rest [] with
            | Some (inner, after) => (LB :: LB :: inner ++ [RB; RB]) :: scan fuel after
            | None => scan fuel s'
            end
          else scan fuel s'
      | _ => []
      end
  end.
Definition get_exprs (s : bytes) : list bytes := scan (S (length s)) s.

(* str::replace: every non-overlapping occurrence, left to right *)
Fixpoint starts_with (p s : bytes) : option bytes :=
  match p, s with
  | [], _ => Some s
  | x :: p', y :: s' => if Nat.eqb x y then starts_with p' s' else None
  | _ :: _, [] => None
  end.
Fixpoint replace_all (fuel : nat) (s pat rep : bytes) : bytes :=
  match fuel with
  | O => s
  | S fuel =>
      match pat with
      | [] => s
      | _ => match s with
             | [] => []
             | a :: s' => match starts_with pat s with
                          | Some rest => rep ++ replace_all fuel rest pat rep
                          | None => a :: replace_all fuel s' pat rep
                          end
             end
      end
  end.

Variable eval : bytes -> jv.             (* QuickJS on the template text; an exception gives null *)
Variable show : jv -> bytes.             (* the text substituted for a value *)

(* fill_params on a string *)
Definition fill_string (s : bytes) : jv :=
  match get_exprs s with
  | [] => JStr s
  | exprs =>
      let fix go (l : list bytes) (pos : nat) (value : bytes) : jv :=
        match l with
        | [] => JStr value
        | t :: l' =>
            let r := eval t in
            (* just the json for only one expression that is the whole string *)
            if Nat.eqb pos 0 && Nat.eqb (length t) (length value) && beqb t (firstn (length t) s) then r
            else go l' 1 (replace_all (S (length value)) value t (show r))
        end in
      go exprs (if match starts_with (hd [] exprs) s with Some _ => true | None => false end then 0 else 1) s
  end.

(* get_expr: ^\{\{(.+)\}\}$ , the inner text trimmed *)
Fixpoint trim_l (s : bytes) : bytes := match s with a :: s' => if Nat.eqb a SP then trim_l s' else s | [] => [] end.
Definition trim (s : bytes) : bytes := rev (trim_l (rev (trim_l s))).
Definition get_expr (s : bytes) : option bytes :=
  match s with
  | a :: b :: rest =>
      if Nat.eqb a LB && Nat.eqb b LB then
        match rev rest with
        | c :: d :: inner_rev =>
            if Nat.eqb c RB && Nat.eqb d RB && negb (Nat.eqb (length inner_rev) 0) && negb (existsb (Nat.eqb NL) inner_rev)
            then Some (trim (rev inner_rev)) else None
        | _ => None
        end
      else None
  | _ => None
  end.
End Js.
