(* Several processes in one engine: the product of independent engine machines (C13), the
   sub-process call protocol of package/core/subflow.rs + runtime.rs return_to_act (C15), and the
   retention rule of runtime.rs on_proc / cache.rs remove (C17).  Definitions only. *)
From Coq Require Import List Arith ZArith Bool.
Import ListNotations.
From Acts.Gen Require Import GenState.
From Acts.Model Require Import Engine.

(* ---------- C13: processes as components of a product ---------- *)
Definition sys := list eng.
Inductive sop := SOp (p : nat) (o : op) | SAll (o : op).      (* an operation on one process / a tick for all *)
Definition deng : eng := start [] 0.
Definition sstep (s : sys) (x : sop) : sys :=
  match x with
  | SOp p o => upd s p (apply_op (nth p s deng) o)
  | SAll o => map (fun e => apply_op e o) s
  end.
Definition srun (s : sys) (xs : list sop) : sys := fold_left sstep xs s.
(* the operations that concern process p, in order *)
Fixpoint proj (p : nat) (xs : list sop) : list op :=
  match xs with
  | [] => []
  | SOp q o :: r => if Nat.eqb q p then o :: proj p r else proj p r
  | SAll o :: r => o :: proj p r
  end.

(* ---------- C17: the product with the retention rule (runtime.rs on_proc: when a process delivers its
   terminal event and keep_processes is off, cache.remove deletes its process row and task rows; afterwards
   nothing of it reaches the store any more: every upsert of its tasks fails on the missing process row) ---------- *)
Definition retire (keep : bool) (e : eng) : eng :=
  if keep then e else if is_completed (pstate e) then with_prow (with_rows e []) None else e.
Definition rstep (keep : bool) (s : sys) (x : sop) : sys :=
  match x with
  | SOp p o => upd s p (retire keep (apply_op (nth p s deng) o))
  | SAll o => map (fun e => retire keep (apply_op e o)) s
  end.
Definition rrun (keep : bool) (s : sys) (xs : list sop) : sys := fold_left (rstep keep) xs s.

(* ---------- C15: the call protocol ---------- *)
(* runtime.rs return_to_act: how the calling act is closed when the child ended in state s *)
Definition return_state (s : TaskState) : TaskState :=
  match s with SAborted => SAborted | SSkipped => SSkipped | SError => SError | _ => SCompleted end.
Record callobs := {
  co_missing : bool;                        (* the target model does not exist *)
  co_child_end : option (TaskState * Z);    (* terminal event of the child: state, time *)
  co_act_ends : list (TaskState * Z);       (* terminal writes of the calling act: state, time *)
  co_act_open : bool;                       (* the calling act is open at the end of the history *)
  co_parent_end : option Z;                 (* terminal event of the parent: time *)
  co_inputs_ok : bool;                      (* the child's start inputs are the options of the call *)
  co_outs_ok : bool;                        (* the act's data carries the child's outputs (error: code and message) *)
  co_unsatisfied : bool;                    (* the child does not supply an output the calling act declares: the return is refused *)
  co_quiescent : bool }.                    (* nothing in flight at the end *)
(* a return that cannot be applied (a declared output is missing, C05) fails the calling act *)
Definition expected_end (o : callobs) (s : TaskState) : TaskState :=
  if co_unsatisfied o then SError else return_state s.
Definition call_check (o : callobs) : list nat :=
  if co_missing o then (if co_act_open o then [1506] else [])
  else
    (if co_inputs_ok o then [] else [1504]) ++
    match co_child_end o with
    | None =>
        (match co_act_ends o with [] => [] | _ => [1501] end) ++
        (match co_parent_end o with Some _ => [1505] | None => [] end)
    | Some (s, t) =>
        (match co_act_ends o with
         | [] => if co_quiescent o then [1502] else []
         | [(s', t')] => (if TaskState_beq s' (expected_end o s) then [] else [1502]) ++ (if Z.ltb t' t then [1501] else [])
         | _ => [1502]
         end) ++
        (if co_outs_ok o then [] else [1503]) ++
        (match co_parent_end o with Some tp => if Z.ltb tp t then [1505] else [] | None => [] end)
    end.

(* a calling act that a client action on its own process closed while the child was still running (skip / abort of a
   sibling, an error beside it): the child's late return finds the act closed and must not write to it again *)
Definition forced_check (o : callobs) : list nat :=
  (if co_inputs_ok o then [] else [1504]) ++
  match co_act_ends o with [_] => [] | _ => [1507] end.

(* a calling act with a catch for the error its child ends in: the return writes the act `error` (not before the child's
   ending), the catch takes the error and puts the act back to running, and -- the catch having no steps -- the act is
   completed by its review: error, then completed, each once, and the act is not left open *)
Definition caught_check (o : callobs) : list nat :=
  (if co_inputs_ok o then [] else [1504]) ++
  match co_child_end o with
  | Some (SError, t) =>
      match co_act_ends o with
      | [(SError, t1); (SCompleted, t2)] => if Z.leb t t1 && Z.leb t1 t2 && negb (co_act_open o) then [] else [1508]
      | _ => [1508]
      end
  | _ => [1508]
  end.

(* ---------- C17: what is left of a process ---------- *)
Record retobs := {
  ro_keep : bool;                 (* keep_processes *)
  ro_ended : bool;                (* the terminal event of the process was delivered *)
  ro_procrow : option TaskState;  (* state in the process row, if there is one *)
  ro_taskrows : nat;              (* task rows of the pid *)
  ro_openrows : nat;              (* ... in a non-terminal state *)
  ro_created : nat;               (* tasks the process created *)
  ro_refused : bool }.            (* an action on it after the end was refused (true also when none was tried) *)
Definition ret_check (o : retobs) : list nat :=
  if ro_ended o then
    (if ro_refused o then [] else [1704]) ++
    (if ro_keep o then
       (match ro_procrow o with Some s => if is_completed s then [] else [1702] | None => [1702] end) ++
       (if Nat.eqb (ro_taskrows o) (ro_created o) then [] else [1702]) ++
       (if Nat.eqb (ro_openrows o) 0 then [] else [1703])
     else
       (match ro_procrow o with None => [] | Some _ => [1701] end) ++
       (if Nat.eqb (ro_taskrows o) 0 then [] else [1701]))
  else
    (* a process that has not ended keeps all its rows *)
    (match ro_procrow o with Some s => if is_completed s then [1705] else [] | None => [1705] end) ++
    (if Nat.eqb (ro_taskrows o) (ro_created o) then [] else [1705]).
