(* The serde data model of the workflow types over the field tables generated from
   acts/src/model/*.rs (gen/GenModelFields.v): a struct is written as a map from serialised field
   names to values and read back field by field (a missing field takes its default when it has
   one).  The codecs of the leaf types (String, i32, Option, Vec, Vars, JSON value, enums) and the
   JSON / YAML text layers are trusted.  Also the deployment bookkeeping of store/store.rs.
   Definitions only. *)
From Coq Require Import List String Bool Arith.
Import ListNotations.
From Acts.Gen Require Import GenModelFields.
Open Scope string_scope.

Definition ser_name (f : sfield) : string := match f_rename f with Some n => n | None => f_name f end.

Section Rec.
Variable V : Type.
Variable dflt : string -> V.              (* Default::default() of a field's type *)
Definition record := string -> V.

Fixpoint sassoc (k : string) (l : list (string * V)) : option V :=
  match l with [] => None | (k', v) :: t => if String.eqb k k' then Some v else sassoc k t end.
Definition encode (s : sstruct) (r : record) : list (string * V) :=
  map (fun f => (ser_name f, r (f_name f))) (filter (fun f => negb (f_skip f)) (s_fields s)).
Definition decode_field (doc : list (string * V)) (f : sfield) : option V :=
  match sassoc (ser_name f) doc with
  | Some v => Some v
  | None => if f_default f then Some (dflt (f_name f)) else None
  end.
End Rec.

Fixpoint snodup (l : list string) : bool :=
  match l with [] => true | x :: t => negb (existsb (String.eqb x) t) && snodup t end.
(* every field is written and read under one name, no two fields share a name *)
Definition struct_ok (s : sstruct) : bool :=
  snodup (map ser_name (s_fields s)) && forallb (fun f => negb (f_skip f)) (s_fields s).

(* ---------- deployment: store/store.rs deploy, export/executor/model_executor.rs ---------- *)
Record mrow := { m_id : nat; m_ver : nat; m_text : nat (* the serialised model, interned *) }.
Definition mstore := list mrow.
Fixpoint mfind (s : mstore) (id : nat) : option mrow :=
  match s with [] => None | r :: t => if Nat.eqb (m_id r) id then Some r else mfind t id end.
Fixpoint mput (s : mstore) (r : mrow) : mstore :=
  match s with [] => [r] | x :: t => if Nat.eqb (m_id x) (m_id r) then r :: t else x :: mput t r end.
(* deploy: version 1 for a new id, else the stored version plus one; the text is the given model *)
Definition deploy (s : mstore) (id text : nat) : mstore :=
  match mfind s id with
  | Some old => mput s {| m_id := id; m_ver := S (m_ver old); m_text := text |}
  | None => mput s {| m_id := id; m_ver := 1; m_text := text |}
  end.
Definition mremove (s : mstore) (id : nat) : mstore := filter (fun r => negb (Nat.eqb (m_id r) id)) s.

(* start events: one row per `on` act of the model, keyed (model id, act id); model_executor.rs
   deploy_event: an existing row with the same version is left alone, another version is rewritten *)
Record erow := { e_mid : nat; e_act : nat; e_ver : nat }.
Definition ekey (e : erow) (mid a : nat) : bool := Nat.eqb (e_mid e) mid && Nat.eqb (e_act e) a.
Fixpoint eput (evs : list erow) (mid a ver : nat) : list erow :=
  match evs with
  | [] => [{| e_mid := mid; e_act := a; e_ver := ver |}]
  | e :: t => if ekey e mid a then (if Nat.eqb (e_ver e) ver then e else {| e_mid := mid; e_act := a; e_ver := ver |}) :: t
              else e :: eput t mid a ver
  end.
Record dstate := { ds_models : mstore; ds_events : list erow }.
(* a model as deploy sees it: its id, the `ver` field it carries, its text, the ids of its `on` acts,
   and whether the execution tree can be built from it (Tree.build_model) *)
Record dmodel := { d_id : nat; d_ver : nat; d_text : nat; d_on : list nat; d_valid : bool }.
Definition ddeploy (st : dstate) (d : dmodel) : dstate * bool :=
  if negb (d_valid d) then (st, false)
  else ({| ds_models := deploy (ds_models st) (d_id d) (d_text d);
           ds_events := fold_left (fun evs a => eput evs (d_id d) a (d_ver d)) (d_on d) (ds_events st) |}, true).
Definition drm (st : dstate) (id : nat) : dstate * bool :=
  ({| ds_models := mremove (ds_models st) id; ds_events := filter (fun e => negb (Nat.eqb (e_mid e) id)) (ds_events st) |},
   match mfind (ds_models st) id with Some _ => true | None => false end).
(* starting a process needs the stored model *)
Definition dstart (st : dstate) (id : nat) : bool := match mfind (ds_models st) id with Some _ => true | None => false end.
Inductive dop := DDeploy (d : dmodel) | DRm (id : nat) | DStart (id : nat).
Definition dstep (st : dstate) (o : dop) : dstate * bool :=
  match o with DDeploy d => ddeploy st d | DRm id => drm st id | DStart id => (st, dstart st id) end.
Definition drun (ops : list dop) (st : dstate) : dstate := fold_left (fun s o => fst (dstep s o)) ops st.
Definition dinit : dstate := {| ds_models := []; ds_events := [] |}.
