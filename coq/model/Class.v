(* The class of workflows and operations for which C01 (progress) is proved for every run (proofs/Progress.v): steps in
   sequence whose acts are interactive (irq) acts or message (msg) acts; any schedule; complete / submit / remove / skip / abort on any task at any time.
   Definitions only (they are also extracted: the generator of the class corpus checks membership with them). *)
From Coq Require Import List Arith ZArith Bool.
Import ListNotations.
From Acts.Gen Require Import GenState.
From Acts.Model Require Import Engine.

Definition lvl_of (k : nkind) : nat := match k with KWorkflow => 0 | KStep => 1 | KBranch => 1 | KAct => 2 end.
Definition child_kind (k : nkind) : nkind := match k with KWorkflow => KStep | _ => KAct end.
Definition frag_node (ns : list node) (n : node) : bool :=
  match n_if n with None => true | Some _ => false end &&
  match n_catches n with [] => true | _ => false end &&
  match n_setup n with [] => true | _ => false end &&
  negb (nkind_beq (n_kind n) KBranch) &&
  Nat.eqb (n_level n) (lvl_of (n_kind n)) &&
  Nat.leb (length (n_children n)) 1 &&      (* steps are chained by `next`, acts of a step too: one task at a time under a parent *)
  (if nkind_beq (n_kind n) KAct then match sp_u (n_spec n) with UIrq | UMsg => true | _ => false end && match n_children n with [] => true | _ => false end && negb (n_isset n) else true) &&
  forallb (fun kc => okind_beq (fst kc) ONormal && Nat.ltb (snd kc) (length ns) &&
                     nkind_beq (n_kind (nth (snd kc) ns dnode)) (child_kind (n_kind n))) (n_children n) &&
  match n_next n with
  | None => true
  | Some nx => Nat.ltb nx (length ns) && nkind_beq (n_kind (nth nx ns dnode)) (n_kind n) && negb (nkind_beq (n_kind n) KWorkflow)
  end.
Definition frag_nodes (ns : list node) : bool :=
  forallb (frag_node ns) ns && match ns with r :: _ => nkind_beq (n_kind r) KWorkflow | [] => false end.


(* the operations: any scheduler step, any tick (timeout rules of this class have no steps: a firing starts nothing), and
   the five closing actions a client answers an act with (complete, submit, remove, skip, abort) *)
Definition allowed (a : action) : bool := match a with ANext | ASubmit | ARemove | ASkip | AAbort => true | _ => false end.
Definition frag_op (o : op) : bool := match o with OSched _ | ODrain | OTick _ => true | OAct _ a _ => allowed a end.
