(* Acknowledged delivery / message retry: export/channel.rs store_if, cache/store.rs
   (set_message, set_message_with, with_no_response_messages, resend_error_messages,
   clear_error_messages), runtime.rs tick.  Times are inputs (the clock is not under the
   engine's control).  Definitions only. *)
From Coq Require Import List Arith ZArith Bool.
Import ListNotations.
Local Open Scope Z_scope.

Inductive status := Created | Acked | Completed | Error.
Scheme Equality for status.

(* one stored message; its identity is its position in the list (order of first delivery) *)
Record row := { r_tid : nat; r_status : status; r_retry : Z; r_upd : Z; r_live : bool (* false once cleared *) }.
Record rst := { rows : list row; delivered : list (nat * Z) (* (message, retry_times) of every handler call *) }.

Definition with_rows s rs := {| rows := rs; delivered := delivered s |}.
Definition deliver s i r := {| rows := rows s; delivered := delivered s ++ [(i, r)] |}.
Fixpoint rupd {A} (l : list A) (i : nat) (x : A) : list A :=
  match l, i with
  | [], _ => []
  | _ :: t, O => x :: t
  | h :: t, S i => h :: rupd t i x
  end.
Definition drow := {| r_tid := 0%nat; r_status := Error; r_retry := 0; r_upd := 0; r_live := false |}.

(* first delivery on an acknowledging channel: the row is created (update_time 0), then the handler runs *)
Definition op_emit (s : rst) (tid : nat) : rst :=
  let i := length (rows s) in
  deliver (with_rows s (rows s ++ [{| r_tid := tid; r_status := Created; r_retry := 0; r_upd := 0; r_live := true |}])) i 0.

(* the tick's selection: status = created AND update_time < now - interval (a store query) *)
Definition selected (s : rst) (now interval : Z) : list nat :=
  filter (fun i => let r := nth i (rows s) drow in
                   r_live r && status_beq (r_status r) Created && Z.ltb (r_upd r) (now - interval))
         (seq 0 (length (rows s))).
Definition tick_body (now max : Z) (s : rst) (i : nat) : rst :=
  match nth_error (rows s) i with
  | None => s
  | Some r =>
      if Z.ltb (r_retry r) max then
        deliver (with_rows s (rupd (rows s) i {| r_tid := r_tid r; r_status := r_status r; r_retry := r_retry r + 1; r_upd := now; r_live := true |})) i (r_retry r + 1)
      else with_rows s (rupd (rows s) i {| r_tid := r_tid r; r_status := Error; r_retry := r_retry r; r_upd := now; r_live := true |})
  end.
Definition op_tick (s : rst) (now interval max : Z) : rst := fold_left (tick_body now max) (selected s now interval) s.

Definition set_status (r : row) (x : status) (t : Z) : row :=
  {| r_tid := r_tid r; r_status := x; r_retry := r_retry r; r_upd := t; r_live := r_live r |}.
Definition op_ack (s : rst) (i : nat) (now : Z) : rst :=
  match nth_error (rows s) i with
  | Some r => if r_live r then with_rows s (rupd (rows s) i (set_status r Acked now)) else s
  | None => s
  end.
(* any accepted action on task `tid` closes all its messages *)
Definition op_action (s : rst) (tid : nat) (now : Z) : rst :=
  with_rows s (map (fun r => if r_live r && Nat.eqb (r_tid r) tid then set_status r Completed now else r) (rows s)).
Definition op_redo (s : rst) (now : Z) : rst :=
  with_rows s (map (fun r => if r_live r && status_beq (r_status r) Error
                             then {| r_tid := r_tid r; r_status := Created; r_retry := 0; r_upd := now; r_live := true |} else r) (rows s)).
Definition op_clear (s : rst) : rst :=
  with_rows s (map (fun r => if r_live r && status_beq (r_status r) Error
                             then {| r_tid := r_tid r; r_status := r_status r; r_retry := r_retry r; r_upd := r_upd r; r_live := false |} else r) (rows s)).

Inductive rop := REmit (tid : nat) | RTick (now : Z) | RAck (i : nat) (now : Z) | RAction (tid : nat) (now : Z) | RRedo (now : Z) | RClear.
Definition rstep (interval max : Z) (s : rst) (o : rop) : rst :=
  match o with
  | REmit t => op_emit s t
  | RTick now => op_tick s now interval max
  | RAck i now => op_ack s i now
  | RAction t now => op_action s t now
  | RRedo now => op_redo s now
  | RClear => op_clear s
  end.
Definition rinit : rst := {| rows := []; delivered := [] |}.
Definition rrun interval max ops := fold_left (rstep interval max) ops rinit.
