From Coq Require Import List Arith ZArith Bool Lia.
Import ListNotations.
From Acts.Model Require Import Retry.
Local Open Scope Z_scope.

Definition rowi s i := nth i (rows s) drow.
Definition closed (r : row) : bool := match r_status r with Acked | Completed => true | _ => false end.
Definition cnt (i : nat) (l : list (nat * Z)) : nat := length (filter (fun p => Nat.eqb (fst p) i) l).

Lemma rupd_length {A} (l : list A) i x : length (rupd l i x) = length l.
Proof. revert i; induction l as [|h t IH]; intros [|i]; simpl; auto. Qed.
Lemma rupd_nth_other {A} (l : list A) i j x d : i <> j -> nth j (rupd l i x) d = nth j l d.
Proof. revert i j; induction l as [|h t IH]; intros [|i] [|j] H; simpl; auto; try lia. Qed.
Lemma rupd_nth_same {A} (l : list A) i x d : (i < length l)%nat -> nth i (rupd l i x) d = x.
Proof. revert i; induction l as [|h t IH]; intros [|i] H; simpl in *; try lia; auto. apply IH; lia. Qed.
Lemma nth_map_row (f : row -> row) l i : f drow = drow -> nth i (map f l) drow = f (nth i l drow).
Proof. intros Hd; revert i; induction l as [|h t IH]; intros [|i]; simpl; auto. Qed.
Lemma cnt_app i l x : cnt i (l ++ [x]) = (cnt i l + (if Nat.eqb (fst x) i then 1 else 0))%nat.
Proof. unfold cnt. rewrite filter_app, app_length; simpl. destruct (Nat.eqb _ _); simpl; lia. Qed.

Lemma tick_body_other now max s i j : i <> j ->
  rowi (tick_body now max s i) j = rowi s j /\ cnt j (delivered (tick_body now max s i)) = cnt j (delivered s).
Proof.
  intros H; unfold tick_body. destruct (nth_error (rows s) i) as [r|]; [|auto].
  destruct (Z.ltb _ _); unfold rowi; simpl.
  - rewrite rupd_nth_other by assumption. split; auto. rewrite cnt_app; simpl.
    destruct (Nat.eqb_spec i j); [contradiction | lia].
  - rewrite rupd_nth_other by assumption. auto.
Qed.
Lemma tick_fold_other now max l s j : ~ In j l ->
  rowi (fold_left (tick_body now max) l s) j = rowi s j /\
  cnt j (delivered (fold_left (tick_body now max) l s)) = cnt j (delivered s).
Proof.
  revert s; induction l as [|i l IH]; intros s H; simpl; auto.
  destruct (IH (tick_body now max s i)) as [H1 H2]; [intros Hin; apply H; now right|].
  destruct (tick_body_other now max s i j) as [H3 H4]; [intros ->; apply H; now left|].
  rewrite H1, H2, H3, H4; auto.
Qed.
Lemma selected_created s now interval j : In j (selected s now interval) -> r_status (rowi s j) = Created.
Proof.
  unfold selected. rewrite filter_In. intros [_ H]. apply andb_true_iff in H as [H _].
  apply andb_true_iff in H as [_ H]. unfold rowi. now apply internal_status_dec_bl in H.
Qed.

(* one step never touches a closed message *)
Lemma closed_step interval max s o i :
  closed (rowi s i) = true ->
  closed (rowi (rstep interval max s o) i) = true /\
  cnt i (delivered (rstep interval max s o)) = cnt i (delivered s).
Proof.
  intros Hc. destruct o as [t | now | k now | t now | now | ]; simpl.
  - unfold op_emit, rowi in *; simpl. rewrite cnt_app; simpl.
    destruct (Nat.lt_ge_cases i (length (rows s))) as [Hlt | Hge].
    + rewrite app_nth1 by assumption. split; auto.
      destruct (Nat.eqb_spec (length (rows s)) i); [lia | lia].
    + rewrite nth_overflow in Hc by assumption. discriminate.
  - unfold op_tick.
    assert (Hn : ~ In i (selected s now interval)).
    { intros Hin. apply selected_created in Hin. unfold closed in Hc. rewrite Hin in Hc. discriminate. }
    destruct (tick_fold_other now max _ s i Hn) as [H1 H2]. rewrite H1, H2. auto.
  - unfold op_ack. destruct (nth_error (rows s) k) as [r|] eqn:E; [|auto].
    destruct (r_live r); [|auto]. unfold rowi; simpl. split; [|auto].
    destruct (Nat.eq_dec k i) as [->|Hne].
    + assert (Hlt : (i < length (rows s))%nat) by (apply nth_error_Some; congruence).
      rewrite rupd_nth_same by assumption. reflexivity.
    + rewrite rupd_nth_other by assumption. exact Hc.
  - unfold op_action, rowi in *; simpl. split; [|auto]. rewrite nth_map_row by reflexivity.
    destruct (r_live _ && _); auto.
  - unfold op_redo, rowi in *; simpl. split; [|auto]. rewrite nth_map_row by reflexivity.
    destruct (r_live (nth i (rows s) drow) && status_beq (r_status (nth i (rows s) drow)) Error) eqn:E; auto.
    apply andb_true_iff in E as [_ E]. apply internal_status_dec_bl in E. unfold closed in Hc. rewrite E in Hc. discriminate.
  - unfold op_clear, rowi in *; simpl. split; [|auto]. rewrite nth_map_row by reflexivity.
    destruct (r_live _ && _); auto.
Qed.

(* once acknowledged, or once its task has been acted on, a message is never delivered again and
   its status never changes back -- whatever happens afterwards *)
Theorem ack_silent interval max ops1 ops2 i :
  let s1 := fold_left (rstep interval max) ops1 rinit in
  closed (rowi s1 i) = true ->
  let s2 := fold_left (rstep interval max) ops2 s1 in
  closed (rowi s2 i) = true /\ cnt i (delivered s2) = cnt i (delivered s1).
Proof.
  intros s1 Hc. generalize dependent s1. induction ops2 as [|o ops IH]; intros s1 Hc; simpl; auto.
  destruct (closed_step interval max s1 o i Hc) as [H1 H2].
  destruct (IH (rstep interval max s1 o) H1) as [H3 H4]. split; auto. congruence.
Qed.

(* retry counts, stored and delivered, stay within [0, max] *)
Definition bounded (max : Z) (s : rst) : Prop :=
  (forall r, In r (rows s) -> 0 <= r_retry r <= Z.max 0 max) /\
  (forall p, In p (delivered s) -> 0 <= snd p <= Z.max 0 max).
Lemma in_rupd {A} (l : list A) i x y : In y (rupd l i x) -> y = x \/ In y l.
Proof.
  revert i; induction l as [|h t IH]; intros [|i]; simpl; try tauto.
  - intros [<- | H]; auto.
  - intros [<- | H]; auto. destruct (IH _ H); auto.
Qed.
Lemma bounded_tick_body now max s i : bounded max s -> bounded max (tick_body now max s i).
Proof.
  intros [B1 B2]; unfold tick_body. destruct (nth_error (rows s) i) as [r|] eqn:E; [|split; auto].
  assert (Hr : 0 <= r_retry r <= Z.max 0 max) by (apply B1; eapply nth_error_In; eauto).
  destruct (Z.ltb_spec (r_retry r) max); split; simpl.
  - intros x Hx. apply in_rupd in Hx as [->|Hx]; simpl; auto; lia.
  - intros p Hp. apply in_app_or in Hp as [Hp|[<-|[]]]; simpl; auto; lia.
  - intros x Hx. apply in_rupd in Hx as [->|Hx]; simpl; auto.
  - auto.
Qed.
Lemma bounded_fold now max l s : bounded max s -> bounded max (fold_left (tick_body now max) l s).
Proof. revert s; induction l as [|i l IH]; intros s B; simpl; auto. apply IH, bounded_tick_body, B. Qed.
Theorem retries_bounded interval max ops : bounded max (rrun interval max ops).
Proof.
  unfold rrun. assert (H0 : bounded max rinit) by (split; intros ? []).
  revert H0; generalize rinit as s; induction ops as [|o ops IH]; intros s B; simpl; auto.
  apply IH. destruct o as [t | now | k now | t now | now | ]; simpl.
  - destruct B as [B1 B2]. split; simpl.
    + intros r Hr. apply in_app_or in Hr as [Hr|[<-|[]]]; simpl; auto; lia.
    + intros p Hp. apply in_app_or in Hp as [Hp|[<-|[]]]; simpl; auto; lia.
  - unfold op_tick. now apply bounded_fold.
  - unfold op_ack. destruct (nth_error (rows s) k) as [r|] eqn:E; auto. destruct (r_live r); auto.
    destruct B as [B1 B2]; split; simpl; auto.
    intros x Hx. apply in_rupd in Hx as [->|Hx]; simpl; auto. apply B1. eapply nth_error_In; eauto.
  - destruct B as [B1 B2]; split; simpl; auto.
    intros y Hy. apply in_map_iff in Hy as (x & <- & Hx). destruct (r_live x && _); simpl; auto.
  - destruct B as [B1 B2]; split; simpl; auto.
    intros y Hy. apply in_map_iff in Hy as (x & <- & Hx). destruct (r_live x && _); simpl; auto. lia.
  - destruct B as [B1 B2]; split; simpl; auto.
    intros y Hy. apply in_map_iff in Hy as (x & <- & Hx). destruct (r_live x && _); simpl; auto.
Qed.

(* every message handed to the handler has its row: the record exists before the handler runs *)
Definition stored (s : rst) : Prop := forall p, In p (delivered s) -> (fst p < length (rows s))%nat.
Lemma stored_tick_body now max s i : stored s -> stored (tick_body now max s i).
Proof.
  intros H; unfold tick_body. destruct (nth_error (rows s) i) as [r|] eqn:E; [|auto].
  assert (Hi : (i < length (rows s))%nat) by (apply nth_error_Some; congruence).
  destruct (Z.ltb _ _); intros p Hp; simpl in *; rewrite rupd_length; auto.
  apply in_app_or in Hp as [Hp | [<- | []]]; auto.
Qed.
Theorem stored_before_delivery interval max ops : stored (rrun interval max ops).
Proof.
  unfold rrun. assert (H0 : stored rinit) by (intros ? []).
  revert H0; generalize rinit as s; induction ops as [|o ops IH]; intros s B; simpl; auto.
  apply IH. destruct o as [t | now | k now | t now | now | ]; simpl.
  - intros p Hp. unfold op_emit in *; simpl in *. rewrite app_length; simpl.
    apply in_app_or in Hp as [Hp | [<- | []]]; simpl; [specialize (B p Hp)|]; lia.
  - unfold op_tick. generalize (selected s now interval) as l. intros l; revert s B; induction l as [|i l IHl]; intros s B; simpl; auto.
    apply IHl, stored_tick_body, B.
  - unfold op_ack. destruct (nth_error (rows s) k) as [r|]; auto. destruct (r_live r); auto.
    intros p Hp; simpl in *. rewrite rupd_length. auto.
  - intros p Hp; simpl in *. rewrite map_length. auto.
  - intros p Hp; simpl in *. rewrite map_length. auto.
  - intros p Hp; simpl in *. rewrite map_length. auto.
Qed.

(* a message in status error is silent: a tick neither delivers it nor changes it *)
Lemma error_silent s now interval max i :
  r_status (rowi s i) = Error ->
  rowi (op_tick s now interval max) i = rowi s i /\ cnt i (delivered (op_tick s now interval max)) = cnt i (delivered s).
Proof.
  intros He. unfold op_tick. apply tick_fold_other. intros Hin. apply selected_created in Hin. congruence.
Qed.
(* a redelivery keeps the message (same position = same id and content) and raises the stored retry count by one *)
Lemma tick_body_increments now max s i r :
  nth_error (rows s) i = Some r -> r_retry r < max ->
  delivered (tick_body now max s i) = delivered s ++ [(i, r_retry r + 1)] /\
  r_retry (rowi (tick_body now max s i) i) = r_retry r + 1 /\ r_tid (rowi (tick_body now max s i) i) = r_tid r /\
  r_status (rowi (tick_body now max s i) i) = r_status r.
Proof.
  intros E Hlt. unfold tick_body. rewrite E. apply Z.ltb_lt in Hlt. rewrite Hlt. unfold rowi; simpl.
  assert (Hi : (i < length (rows s))%nat) by (apply nth_error_Some; congruence).
  rewrite rupd_nth_same by assumption. simpl. auto.
Qed.
(* at the limit the next stale tick marks the message error without delivering it *)
Lemma tick_body_limit now max s i r :
  nth_error (rows s) i = Some r -> max <= r_retry r ->
  delivered (tick_body now max s i) = delivered s /\ r_status (rowi (tick_body now max s i) i) = Error.
Proof.
  intros E Hge. unfold tick_body. rewrite E. assert (Hf : Z.ltb (r_retry r) max = false) by (apply Z.ltb_ge; lia). rewrite Hf.
  unfold rowi; simpl. assert (Hi : (i < length (rows s))%nat) by (apply nth_error_Some; congruence).
  rewrite rupd_nth_same by assumption. auto.
Qed.
