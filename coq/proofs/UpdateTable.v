(* The arms of Task::update and Runtime::return_to_act, regenerated from the Rust source on every run
   (gen/GenUpdate.v), against the hand-written engine model: which actions carry the `already completed`
   rejection, which state an action writes to the act, whose open siblings it closes, what follows.
   A change of an arm in the source changes the generated table and breaks one of these proofs. *)
From Coq Require Import List Arith ZArith Bool String.
Import ListNotations.
From Acts.Gen Require Import GenState GenUpdate GenDoAction.
From Acts.Model Require Import Engine.
From Acts.Proofs Require Import FinalProofs ActionNames.
Open Scope string_scope.

Definition arm_of (n : string) : option arm := find (fun r => String.eqb (a_event r) n) update_arms.

Definition n_skip := "Skip". Definition n_error := "Error". Definition n_self := "self". Definition n_parent := "parent".
Definition plain_calls := ["set_state"; "next"].
(* every action of the model has exactly one arm in the source *)
Lemma arm_exists a : exists r, arm_of (ev_name a) = Some r /\ a_event r = ev_name a.
Proof. destruct a; vm_compute; eexists; split; reflexivity. Qed.
Lemma arms_distinct : NoDup (map a_event update_arms).
Proof.
  assert (H : forall l : list string, (fix nd (l : list string) := match l with [] => true | x :: r => negb (existsb (String.eqb x) r) && nd r end) l = true -> NoDup l).
  { induction l as [|x r IH]; intros H; [constructor|]. apply andb_true_iff in H as [H1 H2]. constructor; [|now apply IH].
    intros Hin. apply negb_true_iff in H1. assert (existsb (String.eqb x) r = true) by (apply existsb_exists; exists x; split; [exact Hin | apply String.eqb_refl]). congruence. }
  apply H. vm_compute. reflexivity.
Qed.

(* the rejection of an act that is already closed: in the source on every arm but Cancel, before any effect;
   in the model `admission` rejects exactly when `is_cancel a = false` *)
Lemma guards_match a r : arm_of (ev_name a) = Some r -> a_guard r = negb (is_cancel a).
Proof. intros H. destruct a; vm_compute in H; inversion H; subst r; reflexivity. Qed.

(* the state an arm writes to the act itself is the state the model's action leaves it in *)
Lemma self_state_match a r s : arm_of (ev_name a) = Some r -> a_self r = Some s -> closing a = Some s.
Proof. intros H K. destruct a; vm_compute in H; inversion H; subst r; cbn [a_self] in K; inversion K; reflexivity. Qed.

(* complete / submit / remove: the arm is `set_state; next`, and so is the model *)
Lemma plain_closers e i a cv r s :
  arm_of (ev_name a) = Some r -> a_calls r = ["set_state"; "next"] -> a_self r = Some s ->
  exists site, perform e i a cv = ret_ok (next (fuel_of e) cv (set_state site e i s) i).
Proof.
  intros H K L. revert K L.
  destruct a; vm_compute in H; inversion H; subst r; cbn [a_calls a_self]; intros K L; try discriminate K; inversion L; subst s;
    unfold perform; eexists; reflexivity.
Qed.

(* skip: the open siblings of the act are closed with the table's state, then the act is written and `next` runs *)
Lemma skip_arm e i cv r w s s' :
  arm_of "Skip" = Some r -> a_sibs r = Some (w, s) -> a_self r = Some s' ->
  w = "self" /\
  perform e i ASkip cv =
    (let e1 := close_open 26 e (siblings e i) s in ret_ok (next (fuel_of e1) cv (set_state 25 e1 i s') i)).
Proof.
  intros H K L. vm_compute in H. inversion H; subst r. cbn [a_sibs a_self] in K, L. inversion K; subst w s. inversion L; subst s'.
  split; [reflexivity|]. unfold perform. reflexivity.
Qed.

(* error: the open siblings of the PARENT are closed with the table's state before the error is raised *)
Lemma error_arm e i cv c p r w s :
  arm_of "Error" = Some r -> a_sibs r = Some (w, s) -> parent e i = Some p ->
  w = "parent" /\ a_self r = None /\
  perform e i (AError (Some c)) cv =
    (let e1 := close_open 32 e (siblings e p) s in ret_ok (emit_error (fuel_of e1) (set_data (set_err 31 e1 i c) i cv) i)).
Proof.
  intros H K P. vm_compute in H. inversion H; subst r. cbn [a_sibs a_self] in *. inversion K; subst w s.
  split; [reflexivity|]. split; [reflexivity|]. unfold perform. rewrite P. reflexivity.
Qed.

(* arms that write no state of their own to the act in the source write none through `closing` either, but abort
   (Context::abort_task writes it) *)
Lemma no_self_state a r : arm_of (ev_name a) = Some r -> a_self r = None -> closing a = None \/ a = AAbort.
Proof. intros H K. destruct a; vm_compute in H; inversion H; subst r; cbn [a_self] in K; try discriminate K; auto. Qed.

(* Process::do_action: the rejections in front of Task::update.  The list and order of the checks come from the
   source (gen/GenUpdate.v `do_action_checks`); what each check means is written here. *)
Close Scope string_scope.
Definition is_push (a : action) : bool := match a with APush _ => true | _ => false end.
Definition chk_fails (c : chk) (e : eng) (i : nat) (a : action) (opts : vars) : bool :=
  match c with
  | CProcEnded => is_completed (pstate e)
  | CNoTask => Nat.leb (List.length (tasks e)) i
  | CPushStep => is_push a && negb (nkind_beq (kind e i) KStep)
  | COtherAct => negb (is_push a) && negb (nkind_beq (kind e i) KAct)
  | COutputs => n_outs (tnode e i) && negb (forallb (fun kv => vhas opts (fst kv)) (n_outputs (tnode e i)))
  end.
Definition rejected_early e i a opts : bool := existsb (fun c => chk_fails c e i a opts) do_action_checks.
Definition arm_guard (a : action) : bool := match arm_of (ev_name a) with Some r => a_guard r | None => false end.
Definition cut_action (a : action) : action :=
  match a with AError _ => AError None | ABack _ => ABack None | APush _ => APush false | x => x end.

Lemma arm_guard_cancel a : arm_guard a = negb (is_cancel a).
Proof. destruct a; reflexivity. Qed.
Lemma is_cancel_cut a : is_cancel (cut_action a) = is_cancel a.
Proof. destruct a; reflexivity. Qed.

(* the model rejects an action exactly when one of the source's checks fails or the arm's own guard does *)
Lemma admission_none_iff e i a opts :
  admission e i a opts = None <->
  rejected_early e i a opts = true \/ (arm_guard a = true /\ is_completed (st e i) = true).
Proof.
  rewrite arm_guard_cancel. unfold rejected_early. cbv [do_action_checks existsb chk_fails]. unfold admission.
  fold (is_push a).
  destruct (is_completed (pstate e)); [cbn [orb]; split; auto|].
  destruct (Nat.leb (List.length (tasks e)) i); [cbn [orb]; split; auto|].
  destruct (is_push a && negb (nkind_beq (kind e i) KStep)); [cbn [orb]; split; auto|].
  destruct (negb (is_push a) && negb (nkind_beq (kind e i) KAct)); [cbn [orb]; split; auto|].
  destruct (n_outs (tnode e i) && negb (forallb (fun kv => vhas opts (fst kv)) (n_outputs (tnode e i)))) eqn:Eo; [cbn [orb]; split; auto|].
  cbn [orb]. cbv zeta.
  assert (Hc : is_cancel (if n_outs (tnode e i) then cut_action a else a) = is_cancel a) by (destruct (n_outs (tnode e i)); [apply is_cancel_cut | reflexivity]).
  unfold cut_action in Hc. rewrite Hc.
  destruct (negb (is_cancel a)) eqn:Ec; destruct (is_completed (st e i)) eqn:Es; cbn [andb]; split; intros H; try discriminate; auto;
    try (destruct H as [H | [H1 H2]]; discriminate).
Qed.

(* an accepted action carries the options cut down to the declared outputs exactly when the source cuts them *)
Lemma admission_cut e i a opts cv a' :
  admission e i a opts = Some (cv, a') -> do_action_cuts_options = true -> n_outs (tnode e i) = true ->
  map fst cv = map fst (n_outputs (tnode e i)) /\ a' = cut_action a.
Proof.
  unfold admission. destruct (is_completed (pstate e)); [discriminate|]. destruct (Nat.leb _ _); [discriminate|].
  destruct (_ && negb (nkind_beq (kind e i) KStep)); [discriminate|]. destruct (negb _ && negb (nkind_beq (kind e i) KAct)); [discriminate|].
  destruct (n_outs (tnode e i) && negb _); [discriminate|]. cbv zeta. intros H _ Ho. rewrite Ho in H.
  match type of H with (if ?c then _ else _) = _ => destruct c; [discriminate|] end. inversion H; subst. split; [|reflexivity].
  rewrite map_map. reflexivity.
Qed.

