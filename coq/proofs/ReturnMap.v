(* Runtime::return_to_act regenerated from the source (gen/GenReturn.v) against the model's return action *)
From Coq Require Import List Arith ZArith Bool String.
Import ListNotations.
From Acts.Gen Require Import GenState GenReturn.
From Acts.Model Require Import Engine.
From Acts.Proofs Require Import FinalProofs ActionNames.
Open Scope string_scope.

(* Runtime::return_to_act: the action sent to the calling act for a child that ended in state s *)
Definition return_event (s : TaskState) : string :=
  match find (fun p => TaskState_beq (fst p) s) return_arms with Some p => snd p | None => return_default end.
Lemma return_map_match s code : ev_name (return_action s code) = return_event s.
Proof. destruct s; reflexivity. Qed.

