(* The timeout part of the engine invariant: every firing recorded in the trace happened after the
   limit, no (task, rule) pair fired twice, and a rule that fired is flagged on its task. *)
From Coq Require Import List Arith ZArith Bool Lia.
Import ListNotations.
From Acts.Gen Require Import GenState.
From Acts.Model Require Import Engine.
From Acts.Proofs Require Import EngineBasics.

Definition fire_ok (x : ev) : bool :=
  match x with EFire _ _ now start limit => Z.leb limit (now - start) | _ => true end.
Fixpoint fires (tr : list ev) : list (nat * nat) :=
  match tr with
  | [] => []
  | EFire t on _ _ _ :: r => (t, on) :: fires r
  | _ :: r => fires r
  end.
Definition T (e : eng) : Prop :=
  forallb fire_ok (trace e) = true /\ NoDup (fires (trace e)) /\
  (forall t on, In (t, on) (fires (trace e)) -> In on (t_tmo_done (tk e t))).

Lemma fires_app a b : fires (a ++ b) = fires a ++ fires b.
Proof. induction a as [|x a IH]; simpl; auto. destruct x; simpl; rewrite ?IH; auto. Qed.
Lemma fires_noncore l : forallb (fun x => negb (is_trans x)) l = true -> fires l = [] /\ forallb fire_ok l = true.
Proof.
  induction l as [|x l IH]; simpl; auto. intros H. apply andb_true_iff in H as [H1 H2].
  destruct (IH H2) as [I1 I2]. destruct x; simpl in *; try discriminate; auto.
Qed.

Lemma T_ext e e' : ext e e' -> T e -> T e'.
Proof.
  intros X (H1 & H2 & H3). pose proof X as (_ & (l & Tl & Fl & _) & _).
  destruct (fires_noncore l Fl) as [Fn Fo]. split; [|split].
  - rewrite Tl, forallb_app, H1, Fo. reflexivity.
  - rewrite Tl, fires_app, Fn, app_nil_r. exact H2.
  - intros t on Hin. rewrite Tl, fires_app, Fn, app_nil_r in Hin. rewrite (ext_tmo _ _ t X). now apply H3.
Qed.
Lemma tmo_set_state site e i s t : t_tmo_done (tk (set_state site e i s) t) = t_tmo_done (tk e t).
Proof. rewrite tk_set_state. destruct (Nat.eqb_spec t i); simpl; [subst|reflexivity]. destruct (Nat.ltb _ _); reflexivity. Qed.
Lemma T_set_state site e i s : T e -> T (set_state site e i s).
Proof.
  intros (H1 & H2 & H3).
  destruct (Nat.lt_ge_cases i (length (tasks e))) as [Hlt | Hge]; [|rewrite (set_state_oob _ _ _ _ Hge); now repeat split].
  assert (Ef : fires (trace (set_state site e i s)) = fires (trace e)).
  { rewrite trace_set_state, fires_app by assumption. simpl. apply app_nil_r. }
  split; [|split].
  - rewrite trace_set_state, forallb_app, H1 by assumption. reflexivity.
  - rewrite Ef. exact H2.
  - intros t on Hin. rewrite Ef in Hin. rewrite tmo_set_state. now apply H3.
Qed.
Lemma NoDup_app_single {A} (l : list A) x : NoDup l -> ~ In x l -> NoDup (l ++ [x]).
Proof.
  intros Hn Hx. induction l as [|h t IH]; simpl; [constructor; [intros [] | constructor]|].
  inversion Hn; subst. constructor.
  - rewrite in_app_iff; simpl. intros [H | [H | []]]; [contradiction | subst; apply Hx; now left].
  - apply IH; auto. intros H; apply Hx; now right.
Qed.
Lemma T_tmod e i f : (forall x, t_tmo_done (f x) = t_tmo_done x) -> T e -> T (tmod e i f).
Proof.
  intros K (H1 & H2 & H3). split; [exact H1 | split; [exact H2|]].
  intros t on Hin. cbn [trace tmod with_tasks] in Hin. rewrite tk_tmod.
  destruct (Nat.eqb_spec t i); simpl; [subst|now apply H3]. destruct (Nat.ltb _ _); [rewrite K|]; now apply H3.
Qed.

(* one firing, as do_tick performs it *)
Definition fire (e : eng) (t : nat) (r : nat * Z) : eng :=
  add_tmo_done (add_ev e (EFire t (fst r) (clock e) (t_start (tk e t)) (snd r))) t (fst r).
Lemma T_fire e t r : T e -> t < ntasks e ->
  rule_fires (clock e) (t_start (tk e t)) (t_tmo_done (tk e t)) (is_completed (st e t)) r = true -> T (fire e t r).
Proof.
  intros (H1 & H2 & H3) Ht Hr. unfold rule_fires in Hr.
  apply andb_true_iff in Hr as [Hr Hlim]. apply andb_true_iff in Hr as [_ Hnd]. apply negb_true_iff in Hnd.
  assert (Hnew : ~ In (t, fst r) (fires (trace e))).
  { intros Hin. apply H3 in Hin. assert (existsb (Nat.eqb (fst r)) (t_tmo_done (tk e t)) = true).
    { apply existsb_exists. exists (fst r). split; auto. apply Nat.eqb_refl. } congruence. }
  unfold fire, add_tmo_done. split; [|split]; cbn [trace tmod with_tasks add_ev with_trace].
  - rewrite forallb_app, H1. simpl. now rewrite Hlim.
  - rewrite fires_app. simpl. apply NoDup_app_single; auto.
  - intros t' on Hin. rewrite fires_app in Hin. simpl in Hin. rewrite tk_tmod.
    cbn [tasks add_ev with_trace]. unfold ntasks in Ht.
    apply in_app_or in Hin as [Hin | [E | []]].
    + destruct (Nat.eqb_spec t' t); simpl; [subst|now apply H3].
      apply Nat.ltb_lt in Ht. rewrite Ht. simpl. right. apply (H3 t on Hin).
    + inversion E; subst. rewrite Nat.eqb_refl. apply Nat.ltb_lt in Ht. rewrite Ht. simpl. now left.
Qed.
