(* C20, tree part: the node table built from a model lists the ids of the built constructs, in
   declaration order, each exactly once. *)
From Coq Require Import List Arith ZArith Bool Lia.
Import ListNotations.
From Acts.Gen Require Import GenState.
From Acts.Model Require Import Engine Tree.

(* the ids of the nodes build.rs creates for a construct, in creation order.  A step with an explicit
   `next` does not get its branches built (build.rs: the branches are built in the `None` arm only). *)
Fixpoint ids_step (s : step) : list nat :=
  match s with
  | Step id _ _ _ _ _ branches acts catches tmos =>
      id :: flat_map ids_branch branches
         ++ flat_map ids_act acts ++ flat_map ids_catch catches ++ flat_map ids_tmo tmos
  end
with ids_branch (b : branch) : list nat :=
  match b with Branch id _ _ _ steps => id :: flat_map ids_step steps end
with ids_act (a : act) : list nat :=
  match a with Act id _ _ _ _ _ _ catches tmos => id :: flat_map ids_catch catches ++ flat_map ids_tmo tmos end
with ids_catch (c : catch) : list nat := match c with Catch _ steps => flat_map ids_step steps end
with ids_tmo (x : tmo) : list nat := match x with Tmo _ _ steps => flat_map ids_step steps end.

Definition tids (t : tbl) : list nat := map n_id t.

Lemma tids_upd t i f : (forall x, n_id (f x) = n_id x) -> tids (Tree.tmod t i f) = tids t.
Proof.
  intros Hf. unfold tids, Tree.tmod. revert i. induction t as [|x t IH]; intros [|i]; simpl; auto.
  - now rewrite Hf.
  - f_equal. specialize (IH i). destruct t as [|y t']; [destruct i; reflexivity|]. exact IH.
Qed.
Lemma tids_add_child t p k c : tids (t_add_child t p k c) = tids t.
Proof. unfold t_add_child. apply tids_upd. reflexivity. Qed.
Lemma tids_set_next t p c : tids (t_set_next t p c) = tids t.
Proof. unfold t_set_next. apply tids_upd. reflexivity. Qed.
Lemma tids_link t parent prev me lvl k : tids (link t parent prev me lvl k) = tids t.
Proof. unfold link. destruct (Nat.eqb _ _); [apply tids_set_next | apply tids_add_child]. Qed.
Lemma tids_app t n : tids (t ++ [n]) = tids t ++ [n_id n].
Proof. unfold tids. now rewrite map_app. Qed.

Lemma ofold_none {S X} (g : X -> S -> option S) l : ofold g l None = None.
Proof. unfold ofold. induction l; simpl; auto. Qed.
(* folding builders: the ids of the elements are appended in order *)
Lemma ofold_ids {S X} (tb : S -> tbl) (g : X -> S -> option S) (idsf : X -> list nat) l :
  (forall x st st', In x l -> g x st = Some st' -> tids (tb st') = tids (tb st) ++ idsf x) ->
  forall st st', ofold g l (Some st) = Some st' -> tids (tb st') = tids (tb st) ++ flat_map idsf l.
Proof.
  induction l as [|x l IH]; intros Hg st st' H; unfold ofold in *; simpl in *.
  - inversion H. now rewrite app_nil_r.
  - destruct (g x st) as [st1|] eqn:E.
    + rewrite (IH (fun y a b Hy => Hg y a b (or_intror Hy)) st1 st' H).
      rewrite (Hg x st st1 (or_introl eq_refl) E). now rewrite app_assoc.
    + fold (ofold g l None) in H. rewrite ofold_none in H. discriminate.
Qed.
Lemma otbl_some {A} (r : option (tbl * A)) t : otbl r = Some t -> exists a, r = Some (t, a).
Proof. destruct r as [[t' a]|]; simpl; intros H; inversion H; eauto. Qed.

(* the stages append the ids of what they build *)
Section Stages.
Variable bs : step_builder.
Hypothesis Hbs : forall s t parent prev lvl k t' me, bs s t parent prev lvl k = Some (t', me) -> tids t' = tids t ++ ids_step s.
Lemma steps_under_ids me lvl k steps t t' : steps_under bs me lvl k steps t = Some t' -> tids t' = tids t ++ flat_map ids_step steps.
Proof.
  unfold steps_under. intros H. apply otbl_some in H as (a & H).
  apply (ofold_ids fst _ ids_step) in H; [exact H|].
  intros x [t1 p1] [t2 p2] _ Hx. simpl in *. eapply Hbs; eauto.
Qed.
Lemma catches_under_ids me lvl catches r t' : catches_under bs me lvl catches r = Some t' ->
  exists t, r = Some t /\ tids t' = tids t ++ flat_map ids_catch catches.
Proof.
  unfold catches_under. destruct r as [t|]; [|rewrite ofold_none; discriminate]. intros H. exists t. split; auto.
  apply (ofold_ids (fun x => x) _ ids_catch) in H; [exact H|].
  intros [on steps] t1 t2 _ Hx. simpl. eapply steps_under_ids; eauto.
Qed.
Lemma tmos_under_ids me lvl tmos r t' : tmos_under bs me lvl tmos r = Some t' ->
  exists t, r = Some t /\ tids t' = tids t ++ flat_map ids_tmo tmos.
Proof.
  unfold tmos_under. destruct r as [t|]; [|rewrite ofold_none; discriminate]. intros H. exists t. split; auto.
  apply (ofold_ids (fun x => x) _ ids_tmo) in H; [exact H|].
  intros [on lim steps] t1 t2 _ Hx. simpl. eapply steps_under_ids; eauto.
Qed.
End Stages.
Lemma acts_under_ids ba me lvl acts r t' :
  (forall a t parent prev lvl t' me, ba a t parent prev lvl = Some (t', me) -> tids t' = tids t ++ ids_act a) ->
  acts_under ba me lvl acts r = Some t' -> exists t, r = Some t /\ tids t' = tids t ++ flat_map ids_act acts.
Proof.
  intros Hba. unfold acts_under. destruct r as [t|]; [|rewrite ofold_none; discriminate]. intros H. exists t. split; auto.
  apply otbl_some in H as (a & H). apply (ofold_ids fst _ ids_act) in H; [exact H|].
  intros x [ta pa] [tb pb] _ Hx. simpl in *. eapply Hba; eauto.
Qed.
Lemma branches_under_ids bb me lvl branches t t' :
  (forall b t parent lvl t', bb b t parent lvl = Some t' -> tids t' = tids t ++ ids_branch b) ->
  branches_under bb me lvl branches t = Some t' -> tids t' = tids t ++ flat_map ids_branch branches.
Proof.
  intros Hbb. unfold branches_under. intros H. apply (ofold_ids (fun x => x) _ ids_branch) in H; [exact H|].
  intros b ta tb _ Hb. eapply Hbb; eauto.
Qed.
Lemma tids_explicit_next t me target : tids (explicit_next t me target) = tids t.
Proof. unfold explicit_next. destruct (index_of _ _ _); [apply tids_set_next | reflexivity]. Qed.
Lemma tids_onext (nxt : option nat) m t0 : tids (match nxt with Some target => explicit_next t0 m target | None => t0 end) = tids t0.
Proof. destruct nxt; [apply tids_explicit_next | reflexivity]. Qed.
Lemma with_me_some me r t' m : with_me me r = Some (t', m) -> r = Some t'.
Proof. destruct r; simpl; intros H; inversion H; reflexivity. Qed.

Lemma build_ids f :
  (forall s t parent prev lvl k t' me, build_step f s t parent prev lvl k = Some (t', me) -> tids t' = tids t ++ ids_step s) /\
  (forall b t parent lvl t', build_branch f b t parent lvl = Some t' -> tids t' = tids t ++ ids_branch b) /\
  (forall a t parent prev lvl t' me, build_act f a t parent prev lvl = Some (t', me) -> tids t' = tids t ++ ids_act a).
Proof.
  induction f as [|f (IHs & IHb & IHa)]; [repeat split; intros; discriminate|].
  split; [|split].
  - (* step *)
    intros [id sif nxt ins outs setup branches acts catches tmos] t parent prev lvl k t' me H. cbn [build_step] in H.
    destruct (has_id t id); [discriminate|]. cbv zeta in H.
    apply with_me_some in H.
    apply (tmos_under_ids _ IHs) in H as (t3 & H & I4).
    apply (catches_under_ids _ IHs) in H as (t2 & H & I3).
    apply (acts_under_ids _ _ _ _ _ _ IHa) in H as (t1 & H & I2).
    rewrite I4, I3, I2. cbn [ids_step]. rewrite <- !app_assoc.
    apply (branches_under_ids _ _ _ _ _ _ IHb) in H. rewrite H.
    rewrite tids_onext, tids_link, tids_app. cbn [n_id]. rewrite <- !app_assoc. reflexivity.
  - (* branch *)
    intros [id bif els needs steps] t parent lvl t' H. cbn [build_branch] in H.
    destruct (has_id t id); [discriminate|]. cbv zeta in H.
    apply (steps_under_ids _ IHs) in H. rewrite H, tids_add_child, tids_app. cbn [ids_branch n_id]. now rewrite <- app_assoc.
  - (* act *)
    intros [id aif spec ins outs params setup catches tmos] t parent prev lvl t' me H. cbn [build_act] in H.
    destruct (has_id t id); [discriminate|]. cbv zeta in H.
    apply with_me_some in H.
    apply (tmos_under_ids _ IHs) in H as (t3 & H & I4).
    apply (catches_under_ids _ IHs) in H as (t2 & H & I3).
    inversion H; subst. rewrite I4, I3, tids_link, tids_app. cbn [ids_act n_id]. rewrite <- !app_assoc. reflexivity.
Qed.

Definition built_ids (w : workflow) : list nat := w_id w :: flat_map ids_step (w_steps w).
(* the table lists the built constructs in declaration order *)
Theorem tree_ids f w t : build_tree f w = Some t -> tids t = built_ids w.
Proof.
  unfold build_tree. intros H. apply otbl_some in H as (a & H).
  apply (ofold_ids fst _ ids_step) in H.
  - simpl in H. exact H.
  - intros x [t1 p1] [t2 p2] _ Hx. simpl in *. eapply (proj1 (build_ids f)); eauto.
Qed.

(* ---- every id occurs once: a model with a duplicate node id is rejected ---- *)
Lemma ofold_inv {S X} (P : S -> Prop) (g : X -> S -> option S) l :
  (forall x st st', P st -> g x st = Some st' -> P st') ->
  forall st st', P st -> ofold g l (Some st) = Some st' -> P st'.
Proof.
  induction l as [|x l IH]; intros Hg st st' HP H; unfold ofold in *; simpl in *.
  - inversion H; subst; auto.
  - destruct (g x st) as [st1|] eqn:E.
    + eapply IH; [exact Hg | eapply Hg; eauto | exact H].
    + fold (ofold g l None) in H. rewrite ofold_none in H. discriminate.
Qed.
Lemma has_id_In t id : has_id t id = false -> ~ In id (tids t).
Proof.
  unfold has_id, tids. intros H Hin. apply in_map_iff in Hin as (n & E & Hn).
  assert (existsb (fun n0 => Nat.eqb (n_id n0) id) t = true) by (apply existsb_exists; exists n; split; auto; subst; apply Nat.eqb_refl).
  congruence.
Qed.
Lemma NoDup_snoc {A} (l : list A) x : NoDup l -> ~ In x l -> NoDup (l ++ [x]).
Proof.
  intros Hn Hx. induction l as [|h t IH]; simpl; [constructor; [intros [] | constructor]|].
  inversion Hn; subst. constructor.
  - rewrite in_app_iff; simpl. intros [H | [H | []]]; [contradiction | subst; apply Hx; now left].
  - apply IH; auto. intros H; apply Hx; now right.
Qed.
Definition ND (t : tbl) : Prop := NoDup (tids t).

Section StagesND.
Variable bs : step_builder.
Hypothesis Hbs : forall s t parent prev lvl k t' me, ND t -> bs s t parent prev lvl k = Some (t', me) -> ND t'.
Lemma steps_under_nd me lvl k steps t t' : ND t -> steps_under bs me lvl k steps t = Some t' -> ND t'.
Proof.
  unfold steps_under. intros Hn H. apply otbl_some in H as (a & H).
  apply (ofold_inv (fun x : tbl * nat => ND (fst x))) in H; auto.
  intros x [t1 p1] [t2 p2] H1 Hx. simpl in *. eapply Hbs; eauto.
Qed.
Lemma catches_under_nd me lvl catches t t' : ND t -> catches_under bs me lvl catches (Some t) = Some t' -> ND t'.
Proof.
  unfold catches_under. intros Hn H. apply (ofold_inv ND) in H; auto.
  intros [on steps] t1 t2 H1 Hx. eapply steps_under_nd; eauto.
Qed.
Lemma tmos_under_nd me lvl tmos t t' : ND t -> tmos_under bs me lvl tmos (Some t) = Some t' -> ND t'.
Proof.
  unfold tmos_under. intros Hn H. apply (ofold_inv ND) in H; auto.
  intros [on lim steps] t1 t2 H1 Hx. eapply steps_under_nd; eauto.
Qed.
End StagesND.

Lemma build_nd f :
  (forall s t parent prev lvl k t' me, ND t -> build_step f s t parent prev lvl k = Some (t', me) -> ND t') /\
  (forall b t parent lvl t', ND t -> build_branch f b t parent lvl = Some t' -> ND t') /\
  (forall a t parent prev lvl t' me, ND t -> build_act f a t parent prev lvl = Some (t', me) -> ND t').
Proof.
  induction f as [|f (IHs & IHb & IHa)]; [repeat split; intros; discriminate|].
  assert (Hmake : forall t n, ND t -> has_id t (n_id n) = false -> ND (t ++ [n])).
  { intros t n Hn Hh. unfold ND. rewrite tids_app. apply NoDup_snoc; auto. now apply has_id_In. }
  split; [|split].
  - intros [id sif nxt ins outs setup branches acts catches tmos] t parent prev lvl k t' me Hn H. cbn [build_step] in H.
    destruct (has_id t id) eqn:Eh; [discriminate|]. cbv zeta in H.
    apply with_me_some in H.
    destruct (tmos_under_ids _ (proj1 (build_ids f)) _ _ _ _ _ H) as (t3 & H3 & _). rewrite H3 in H.
    apply (tmos_under_nd _ IHs) in H; auto.
    destruct (catches_under_ids _ (proj1 (build_ids f)) _ _ _ _ _ H3) as (t2 & H2 & _). rewrite H2 in H3.
    apply (catches_under_nd _ IHs) in H3; auto.
    unfold acts_under in H2.
    match type of H2 with otbl (ofold _ acts ?init) = _ => destruct init as [[t1 p1]|] eqn:E1; [|rewrite ofold_none in H2; discriminate] end.
    apply otbl_some in H2 as (a & H2).
    apply (ofold_inv (fun x : tbl * nat => ND (fst x))) in H2; auto.
    + intros x [ta pa] [tb pb] Ha Hx. simpl in *. eapply IHa; eauto.
    + simpl. destruct (branches_under _ _ _ _ _) as [tb|] eqn:Eb; [|discriminate]. inversion E1; subst.
      unfold branches_under in Eb. apply (ofold_inv ND) in Eb; auto.
      * intros b ta tb' Ha Hb. eapply IHb; eauto.
      * unfold ND.
        rewrite tids_onext, tids_link. apply Hmake; auto.
  - intros [id bif els needs steps] t parent lvl t' Hn H. cbn [build_branch] in H.
    destruct (has_id t id) eqn:Eh; [discriminate|]. cbv zeta in H.
    apply (steps_under_nd _ IHs) in H; auto. unfold ND. rewrite tids_add_child. apply Hmake; auto.
  - intros [id aif spec ins outs params setup catches tmos] t parent prev lvl t' me Hn H. cbn [build_act] in H.
    destruct (has_id t id) eqn:Eh; [discriminate|]. cbv zeta in H.
    apply with_me_some in H.
    destruct (tmos_under_ids _ (proj1 (build_ids f)) _ _ _ _ _ H) as (t3 & H3 & _). rewrite H3 in H.
    apply (tmos_under_nd _ IHs) in H; auto.
    apply (catches_under_nd _ IHs) in H3; auto. unfold ND. rewrite tids_link. apply Hmake; auto.
Qed.

(* a table that was built has no id twice: a model with a duplicate id among the built constructs
   has no tree (deploy rejects it) *)
Theorem tree_nodup f w t : build_tree f w = Some t -> NoDup (built_ids w).
Proof.
  intros H. rewrite <- (tree_ids f w t H). unfold build_tree in H. apply otbl_some in H as (a & H).
  apply (ofold_inv (fun x : tbl * nat => ND (fst x))) in H; auto.
  - intros x [t1 p1] [t2 p2] H1 Hx. simpl in *. eapply (proj1 (build_nd f)); eauto.
  - simpl. unfold ND. simpl. constructor; [intros [] | constructor].
Qed.
Corollary duplicate_rejected f w : ~ NoDup (built_ids w) -> build_tree f w = None.
Proof. intros Hd. destruct (build_tree f w) eqn:E; auto. exfalso. apply Hd. eapply tree_nodup; eauto. Qed.

(* ---- the whole load, `on` acts included ---- *)
Lemma nodupb_NoDup l : nodupb l = true -> NoDup l.
Proof.
  induction l as [|x r IH]; simpl; [constructor|]. intros H. apply andb_true_iff in H as [H1 H2].
  constructor; auto. intros Hin. apply negb_true_iff in H1.
  assert (existsb (Nat.eqb x) r = true) by (apply existsb_exists; exists x; split; auto; apply Nat.eqb_refl). congruence.
Qed.
Theorem model_nodup f on w t : build_model f on w = Some t -> t <> [] /\ build_tree f w = Some t /\ NoDup (on ++ built_ids w).
Proof.
  unfold build_model. destruct (existsb (Nat.eqb 0) on); [discriminate|].
  destruct (nodupb on) eqn:En; [|discriminate]. simpl.
  destruct (build_tree f w) as [t0|] eqn:Eb; [|discriminate].
  destruct (existsb (has_id t0) on) eqn:Eh; [discriminate|]. intros H; inversion H; subst.
  split; [|split; auto].
  - intros ->. apply tree_ids in Eb. discriminate.
  - pose proof (tree_nodup _ _ _ Eb) as Hn. rewrite <- (tree_ids _ _ _ Eb) in *.
    apply nodupb_NoDup in En. revert En Eh. clear -Hn. induction on as [|x on IH]; simpl; intros En Eh; auto.
    apply orb_false_iff in Eh as [E1 E2]. inversion En; subst. constructor; [|auto].
    rewrite in_app_iff. intros [Hi | Hi]; [contradiction|]. apply has_id_In in E1. contradiction.
Qed.
Corollary model_duplicate_rejected f on w : ~ NoDup (on ++ built_ids w) -> build_model f on w = None.
Proof. intros Hd. destruct (build_model f on w) eqn:E; auto. exfalso. apply Hd. eapply model_nodup; eauto. Qed.
