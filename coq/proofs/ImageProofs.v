(* C11 / C12: at every operation boundary the store image (task rows, process row) equals the live
   process; reloading the tasks from the rows gives back the live tasks. *)
From Coq Require Import List Arith ZArith Bool Lia.
Import ListNotations.
From Acts.Gen Require Import GenState.
From Acts.Model Require Import Engine.

Definition image_ok (e : eng) : Prop := rows e = map Some (tasks e) /\ prow e = Some (pstate e).
(* Store::load_proc + load_tasks: the live picture rebuilt from the rows *)
Definition reload (e : eng) : eng :=
  with_pstate (with_tasks e (map (fun r => match r with Some t => t | None => dtask end) (rows e)))
              (match prow e with Some s => s | None => SNone end).

Lemma image_persist e : image_ok (persist e).
Proof. split; reflexivity. Qed.
Lemma image_add_ev e x : image_ok e -> image_ok (add_ev e x).
Proof. intros H; exact H. Qed.
Lemma image_with_queue e q : image_ok e -> image_ok (with_queue e q).
Proof. intros H; exact H. Qed.
Lemma image_with_clock e c : image_ok e -> image_ok (with_clock e c).
Proof. intros H; exact H. Qed.
Lemma image_ret_err e : image_ok e -> image_ok (ret_err e).
Proof. intros H; exact H. Qed.
Lemma image_ret_ok e : image_ok (ret_ok e).
Proof. unfold ret_ok. apply image_add_ev, image_persist. Qed.

Lemma image_step_queue e : image_ok e -> image_ok (step_queue e).
Proof.
  intros H. unfold step_queue. destruct (queue e) as [|i q]; [exact H|]. cbv zeta.
  destruct (is_completed _); [exact H | apply image_persist].
Qed.
Lemma image_sched_pick e k : image_ok e -> image_ok (sched_pick e k).
Proof. intros H. unfold sched_pick. destruct (nth_error (queue e) k); [apply image_step_queue; exact H | exact H]. Qed.
Lemma image_drain n : forall e, image_ok e -> image_ok (drain n e).
Proof.
  induction n as [|n IH]; intros e H; cbn [drain]; [exact H|].
  destruct (queue e); [exact H|]. apply IH, image_step_queue, H.
Qed.
Lemma image_do_tick e adv : image_ok e -> image_ok (do_tick e adv).
Proof. intros H. unfold do_tick. cbv zeta. destruct (is _ SRunning); [apply image_persist | exact H]. Qed.

Ltac image_leaf H :=
  repeat match goal with
  | |- image_ok (ret_ok _) => apply image_ret_ok
  | |- image_ok (ret_err (persist _)) => apply image_ret_err, image_persist
  | |- image_ok (ret_err _) => apply image_ret_err; exact H
  | |- image_ok (if ?b then _ else _) => destruct b
  | |- image_ok (match ?x with _ => _ end) => destruct x
  end.
Lemma image_perform e i a cv : image_ok e -> image_ok (perform e i a cv).
Proof. intros H. destruct a; unfold perform; cbv zeta beta; image_leaf H. Qed.
Lemma image_do_action e i a opts : image_ok e -> image_ok (do_action e i a opts).
Proof.
  intros H. unfold do_action. destruct (admission e i a opts) as [[cv a']|]; [apply image_perform, H | apply image_ret_err, H].
Qed.
Lemma image_apply_op e o : image_ok e -> image_ok (apply_op e o).
Proof.
  intros H. destruct o; cbn [apply_op].
  - now apply image_sched_pick.
  - apply image_add_ev. now apply image_drain.
  - now apply image_do_action.
  - now apply image_do_tick.
Qed.
(* C11: after every operation of every run the store holds the image of every live task (state,
   predecessor, data, error, times, hooks, markers) and of the process state *)
Theorem run_image ns c0 ops : image_ok (run ns c0 ops).
Proof.
  unfold run. assert (H0 : image_ok (start ns c0)) by (split; reflexivity).
  revert H0. generalize (start ns c0). induction ops as [|o ops IH]; intros e H; cbn [fold_left]; [exact H|].
  apply IH, image_apply_op, H.
Qed.
(* C12 (task part): what a reload reads back from an image is the live picture *)
Theorem reload_image e : image_ok e -> tasks (reload e) = tasks e /\ pstate (reload e) = pstate e.
Proof.
  intros [H1 H2]. unfold reload. cbn [tasks pstate with_tasks with_pstate]. rewrite H1, H2. split; [|reflexivity].
  rewrite map_map. apply map_id.
Qed.
Corollary run_reload ns c0 ops : tasks (reload (run ns c0 ops)) = tasks (run ns c0 ops) /\ pstate (reload (run ns c0 ops)) = pstate (run ns c0 ops).
Proof. apply reload_image, run_image. Qed.
(* a rejected action leaves the engine exactly as it was, image included *)
Lemma persist_id e : image_ok e -> persist e = e.
Proof. intros [H1 H2]. destruct e; cbn in *. unfold persist, with_prow, with_rows; cbn. now rewrite <- H1, <- H2. Qed.
