(* Scheduler::next (what happens to a dequeued task) regenerated from the source (gen/GenSchedNext.v) against the
   model's scheduler step `step_queue` / `exec_or_fail` *)
From Coq Require Import List Arith ZArith Bool String.
Import ListNotations.
From Acts.Gen Require Import GenState GenSchedNext.
From Acts.Model Require Import Engine.
From Acts.Proofs Require Import StatePred.
Open Scope string_scope.
Definition model_sched_order : list string := ["drop"; "exec"; "set_err"; "emit_error"; "persist"].
Close Scope string_scope.
(* the scheduler step of the source's table: a dequeued task whose state satisfies the drop predicate is left alone;
   otherwise exec, on an error the error is set and emitted, and the image of the process is written *)
Definition step_of_source (e : eng) : eng :=
  match queue e with
  | [] => e
  | i :: q =>
      let e0 := add_ev (with_queue e q) (EPop i) in
      if state_pred sched_drop_pred (st e0 i) then e0
      else
        let e1 := exec (fuel_of e0) [] e0 i in
        persist (if exn e1 then let e2 := with_exn e1 false in emit_error (fuel_of e2) (set_err 21 e2 i 0) i else e1)
  end.
Lemma step_match e : step_queue e = step_of_source e.
Proof. unfold step_queue, step_of_source, exec_or_fail. destruct (queue e) as [|i q]; reflexivity. Qed.
Lemma sched_order_match : sched_order = model_sched_order.
Proof. reflexivity. Qed.
(* consequence, for every engine state: a task that was closed while it waited in the queue is not touched *)
Lemma closed_in_queue_untouched e i q : queue e = i :: q -> is_completed (st (add_ev (with_queue e q) (EPop i)) i) = true ->
  step_queue e = add_ev (with_queue e q) (EPop i).
Proof. intros Hq Hc. unfold step_queue. rewrite Hq. cbv zeta. rewrite Hc. reflexivity. Qed.
