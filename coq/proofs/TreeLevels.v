(* C20, tree part: the node table lists, in declaration order, the kind and the nesting depth of every
   declared construct (together with TreeProofs.tree_ids: the pre-order list of (id, kind, depth)
   determines the declared tree). *)
From Coq Require Import List Arith ZArith Bool Lia.
Import ListNotations.
From Acts.Gen Require Import GenState.
From Acts.Model Require Import Engine Serde Tree.
From Acts.Proofs Require Import TreeProofs SerdeProofs.

Definition kl := (nkind * nat)%type.
Fixpoint kl_step (lvl : nat) (s : step) : list kl :=
  match s with
  | Step _ _ _ _ _ _ branches acts catches tmos =>
      (KStep, lvl) :: flat_map (kl_branch (S lvl)) branches
         ++ flat_map (kl_act (S lvl)) acts ++ flat_map (kl_catch (S lvl)) catches ++ flat_map (kl_tmo (S lvl)) tmos
  end
with kl_branch (lvl : nat) (b : branch) : list kl :=
  match b with Branch _ _ _ _ steps => (KBranch, lvl) :: flat_map (kl_step (S lvl)) steps end
with kl_act (lvl : nat) (a : act) : list kl :=
  match a with Act _ _ _ _ _ _ _ catches tmos => (KAct, lvl) :: flat_map (kl_catch (S lvl)) catches ++ flat_map (kl_tmo (S lvl)) tmos end
with kl_catch (lvl : nat) (c : catch) : list kl := match c with Catch _ steps => flat_map (kl_step lvl) steps end
with kl_tmo (lvl : nat) (x : tmo) : list kl := match x with Tmo _ _ steps => flat_map (kl_step lvl) steps end.

Definition tkl (t : tbl) : list kl := map (fun n => (n_kind n, n_level n)) t.

Lemma tkl_upd t i f : (forall x, n_kind (f x) = n_kind x /\ n_level (f x) = n_level x) -> tkl (Tree.tmod t i f) = tkl t.
Proof.
  intros Hf. unfold tkl, Tree.tmod. revert i. induction t as [|x t IH]; intros [|i]; simpl; auto.
  - destruct (Hf x) as [-> ->]. reflexivity.
  - f_equal. specialize (IH i). destruct t as [|y t']; [destruct i; reflexivity|]. exact IH.
Qed.
Lemma tkl_add_child t p k c : tkl (t_add_child t p k c) = tkl t.
Proof. unfold t_add_child. apply tkl_upd. intros; split; reflexivity. Qed.
Lemma tkl_set_next t p c : tkl (t_set_next t p c) = tkl t.
Proof. unfold t_set_next. apply tkl_upd. intros; split; reflexivity. Qed.
Lemma tkl_link t parent prev me lvl k : tkl (link t parent prev me lvl k) = tkl t.
Proof. unfold link. destruct (Nat.eqb _ _); [apply tkl_set_next | apply tkl_add_child]. Qed.
Lemma tkl_app t n : tkl (t ++ [n]) = tkl t ++ [(n_kind n, n_level n)].
Proof. unfold tkl. now rewrite map_app. Qed.
Lemma tkl_explicit_next t me target : tkl (explicit_next t me target) = tkl t.
Proof. unfold explicit_next. destruct (index_of _ _ _); [apply tkl_set_next | reflexivity]. Qed.
Lemma tkl_onext (nxt : option nat) m t0 : tkl (match nxt with Some target => explicit_next t0 m target | None => t0 end) = tkl t0.
Proof. destruct nxt; [apply tkl_explicit_next | reflexivity]. Qed.

Lemma ofold_kl {S X} (tb : S -> tbl) (g : X -> S -> option S) (klf : X -> list kl) l :
  (forall x st st', In x l -> g x st = Some st' -> tkl (tb st') = tkl (tb st) ++ klf x) ->
  forall st st', ofold g l (Some st) = Some st' -> tkl (tb st') = tkl (tb st) ++ flat_map klf l.
Proof.
  induction l as [|x l IH]; intros Hg st st' H; unfold ofold in *; simpl in *.
  - inversion H. now rewrite app_nil_r.
  - destruct (g x st) as [st1|] eqn:E.
    + rewrite (IH (fun y a b Hy => Hg y a b (or_intror Hy)) st1 st' H).
      rewrite (Hg x st st1 (or_introl eq_refl) E). now rewrite app_assoc.
    + fold (ofold g l None) in H. rewrite ofold_none in H. discriminate.
Qed.

Section Stages.
Variable bs : step_builder.
Hypothesis Hbs : forall s t parent prev lvl k t' me, bs s t parent prev lvl k = Some (t', me) -> tkl t' = tkl t ++ kl_step lvl s.
Lemma steps_under_kl me lvl k steps t t' : steps_under bs me lvl k steps t = Some t' -> tkl t' = tkl t ++ flat_map (kl_step lvl) steps.
Proof.
  unfold steps_under. intros H. apply otbl_some in H as (a & H).
  apply (ofold_kl fst _ (kl_step lvl)) in H; [exact H|].
  intros x [t1 p1] [t2 p2] _ Hx. simpl in *. eapply Hbs; eauto.
Qed.
Lemma catches_under_kl me lvl catches r t' : catches_under bs me lvl catches r = Some t' ->
  exists t, r = Some t /\ tkl t' = tkl t ++ flat_map (kl_catch lvl) catches.
Proof.
  unfold catches_under. destruct r as [t|]; [|rewrite ofold_none; discriminate]. intros H. exists t. split; auto.
  apply (ofold_kl (fun x => x) _ (kl_catch lvl)) in H; [exact H|].
  intros [on steps] t1 t2 _ Hx. simpl. eapply steps_under_kl; eauto.
Qed.
Lemma tmos_under_kl me lvl tmos r t' : tmos_under bs me lvl tmos r = Some t' ->
  exists t, r = Some t /\ tkl t' = tkl t ++ flat_map (kl_tmo lvl) tmos.
Proof.
  unfold tmos_under. destruct r as [t|]; [|rewrite ofold_none; discriminate]. intros H. exists t. split; auto.
  apply (ofold_kl (fun x => x) _ (kl_tmo lvl)) in H; [exact H|].
  intros [on lim steps] t1 t2 _ Hx. simpl. eapply steps_under_kl; eauto.
Qed.
End Stages.
Lemma acts_under_kl ba me lvl acts r t' :
  (forall a t parent prev t' me, ba a t parent prev lvl = Some (t', me) -> tkl t' = tkl t ++ kl_act lvl a) ->
  acts_under ba me lvl acts r = Some t' -> exists t, r = Some t /\ tkl t' = tkl t ++ flat_map (kl_act lvl) acts.
Proof.
  intros Hba. unfold acts_under. destruct r as [t|]; [|rewrite ofold_none; discriminate]. intros H. exists t. split; auto.
  apply otbl_some in H as (a & H). apply (ofold_kl fst _ (kl_act lvl)) in H; [exact H|].
  intros x [ta pa] [tb pb] _ Hx. simpl in *. eapply Hba; eauto.
Qed.
Lemma branches_under_kl bb me lvl branches t t' :
  (forall b t parent t', bb b t parent lvl = Some t' -> tkl t' = tkl t ++ kl_branch lvl b) ->
  branches_under bb me lvl branches t = Some t' -> tkl t' = tkl t ++ flat_map (kl_branch lvl) branches.
Proof.
  intros Hbb. unfold branches_under. intros H. apply (ofold_kl (fun x => x) _ (kl_branch lvl)) in H; [exact H|].
  intros b ta tb _ Hb. eapply Hbb; eauto.
Qed.

Lemma build_kl f :
  (forall s t parent prev lvl k t' me, build_step f s t parent prev lvl k = Some (t', me) -> tkl t' = tkl t ++ kl_step lvl s) /\
  (forall b t parent lvl t', build_branch f b t parent lvl = Some t' -> tkl t' = tkl t ++ kl_branch lvl b) /\
  (forall a t parent prev lvl t' me, build_act f a t parent prev lvl = Some (t', me) -> tkl t' = tkl t ++ kl_act lvl a).
Proof.
  induction f as [|f (IHs & IHb & IHa)]; [repeat split; intros; discriminate|].
  split; [|split].
  - intros [id sif nxt ins outs setup branches acts catches tmos] t parent prev lvl k t' me H. cbn [build_step] in H.
    destruct (has_id t id); [discriminate|]. cbv zeta in H.
    apply with_me_some in H.
    apply (tmos_under_kl _ IHs) in H as (t3 & H & I4).
    apply (catches_under_kl _ IHs) in H as (t2 & H & I3).
    apply (acts_under_kl _ _ _ _ _ _) in H as (t1 & H & I2); [|intros; eapply IHa; eauto].
    rewrite I4, I3, I2. cbn [kl_step]. rewrite <- !app_assoc.
    apply (branches_under_kl _ _ _ _ _ _) in H; [|intros; eapply IHb; eauto]. rewrite H.
    rewrite tkl_onext, tkl_link, tkl_app. cbn [n_kind n_level]. rewrite <- !app_assoc. reflexivity.
  - intros [id bif els needs steps] t parent lvl t' H. cbn [build_branch] in H.
    destruct (has_id t id); [discriminate|]. cbv zeta in H.
    apply (steps_under_kl _ IHs) in H. rewrite H, tkl_add_child, tkl_app. cbn [kl_branch n_kind n_level]. now rewrite <- app_assoc.
  - intros [id aif spec ins outs params setup catches tmos] t parent prev lvl t' me H. cbn [build_act] in H.
    destruct (has_id t id); [discriminate|]. cbv zeta in H.
    apply with_me_some in H.
    apply (tmos_under_kl _ IHs) in H as (t3 & H & I4).
    apply (catches_under_kl _ IHs) in H as (t2 & H & I3).
    inversion H; subst. rewrite I4, I3, tkl_link, tkl_app. cbn [kl_act n_kind n_level]. rewrite <- !app_assoc. reflexivity.
Qed.

Definition declared_kl (w : workflow) : list kl := (KWorkflow, 0) :: flat_map (kl_step 1) (w_steps w).
Theorem tree_kl f w t : build_tree f w = Some t -> tkl t = declared_kl w.
Proof.
  unfold build_tree. intros H. apply otbl_some in H as (a & H).
  apply (ofold_kl fst _ (kl_step 1)) in H.
  - simpl in H. exact H.
  - intros x [t1 p1] [t2 p2] _ Hx. simpl in *. eapply (proj1 (build_kl f)); eauto.
Qed.
(* the two lists line up: node i of the table is the i-th declared construct *)
Theorem tree_rows f w t : build_tree f w = Some t ->
  map (fun n => (n_id n, n_kind n, n_level n)) t = combine (combine (built_ids w) (map fst (declared_kl w))) (map snd (declared_kl w)).
Proof.
  intros H. rewrite <- (tree_ids f w t H), <- (tree_kl f w t H). unfold tids, tkl. clear H.
  induction t as [|n t IH]; simpl; [reflexivity|]. now rewrite IH.
Qed.

Lemma deploy_duplicates_rejected f on w ver text st :
  ~ NoDup (on ++ built_ids w) -> ddeploy st (dmodel_of f on w ver text) = (st, false).
Proof.
  intros H. apply ddeploy_rejected. cbn [dmodel_of d_valid].
  rewrite (model_duplicate_rejected f on w H). apply andb_false_r.
Qed.
