From Coq Require Import List String Bool.
Import ListNotations.
From Acts.Gen Require Import GenStoreFields.
From Acts.Model Require Import Fields.
Open Scope string_scope.

Section Rec.
Variable V : Type.
Notation assoc := (assoc V).
Notation put := (put V).

Lemma assoc_put_same l k v : assoc k (put l k v) = Some v.
Proof. unfold Fields.put; simpl. now rewrite String.eqb_refl. Qed.
Lemma assoc_filter_other l k j : j <> k ->
  assoc j (filter (fun kv : string * V => negb (String.eqb (fst kv) k)) l) = assoc j l.
Proof.
  intros Hne; induction l as [|(k', v') t IH]; simpl; auto.
  destruct (String.eqb_spec k' k); simpl.
  - subst. destruct (String.eqb_spec j k); [contradiction | exact IH].
  - destruct (String.eqb_spec j k'); auto.
Qed.
Lemma assoc_put_other l k v j : j <> k -> assoc j (put l k v) = assoc j l.
Proof.
  intros Hne; unfold Fields.put; simpl. destruct (String.eqb_spec j k); [contradiction|].
  now apply assoc_filter_other.
Qed.

Lemma smem_In x l : smem x l = true <-> In x l.
Proof. unfold smem; rewrite existsb_exists; split.
  - intros (y & Hy & E). apply String.eqb_eq in E; subst; auto.
  - intros H; exists x; split; auto. apply String.eqb_refl. Qed.
Lemma pmem_In p l : pmem p l = true <-> In p l.
Proof. unfold pmem; rewrite existsb_exists; split.
  - intros ((a, b) & Hy & E). apply andb_true_iff in E as [E1 E2]. apply String.eqb_eq in E1, E2.
    destruct p; simpl in *; subst; auto.
  - intros H; exists p; split; auto. now rewrite !String.eqb_refl. Qed.
Lemma nodupb_NoDup l : nodupb l = true -> NoDup l.
Proof.
  induction l as [|x t IH]; simpl; [constructor|].
  intros H. apply andb_true_iff in H as [H1 H2]. constructor; auto.
  intros Hin. apply smem_In in Hin. rewrite Hin in H1. discriminate.
Qed.

(* writing (key <- r field) pairs with distinct keys: key k holds r f iff (k, f) is a pair *)
Lemma write_pairs_read (r : string -> V) pairs row0 k f :
  NoDup (map fst pairs) -> In (k, f) pairs ->
  assoc k (fold_left (fun acc kf => put acc (fst kf) (r (snd kf))) pairs row0) = Some (r f).
Proof.
  revert row0; induction pairs as [|(k', f') t IH]; simpl; intros row0 Hn Hin; [tauto|].
  inversion Hn as [|? ? Hn1 Hn2]; subst.
  destruct Hin as [E | Hin].
  - inversion E; subst.
    assert (Hkeep : forall l acc, ~ In k (map fst l) ->
              assoc k (fold_left (fun acc kf => put acc (fst kf) (r (snd kf))) l acc) = assoc k acc).
    { induction l as [|(a, b) l IHl]; simpl; intros acc Hni; auto.
      rewrite IHl by tauto. apply assoc_put_other. intros ->. apply Hni; now left. }
    rewrite Hkeep by assumption. apply assoc_put_same.
  - apply IH; auto.
Qed.
Lemma write_pairs_keep (r : string -> V) pairs row0 k :
  ~ In k (map fst pairs) ->
  assoc k (fold_left (fun acc kf => put acc (fst kf) (r (snd kf))) pairs row0) = assoc k row0.
Proof.
  revert row0; induction pairs as [|(a, b) l IHl]; simpl; intros acc Hni; auto.
  rewrite IHl by tauto. apply assoc_put_other. intros ->. apply Hni; now left.
Qed.

(* ---- memory store: create; find returns every field ---- *)
Theorem mem_roundtrip t (r : string -> V) f :
  mem_ok t = true -> In f (st_fields t) -> mem_read V (mem_doc V t r) f = Some (r f).
Proof.
  unfold mem_ok, mem_read, mem_doc. intros H Hf. apply andb_true_iff in H as [H1 H2].
  apply nodupb_NoDup in H1. rewrite forallb_forall in H2. specialize (H2 f Hf). apply pmem_In in H2.
  now apply write_pairs_read.
Qed.

Lemma sassoc_In k f l : NoDup (map fst l) -> In (k, f) l -> sassoc k l = Some f.
Proof.
  induction l as [|(a, b) t IH]; simpl; intros Hn Hin; [tauto|]. inversion Hn; subst.
  destruct Hin as [E | Hin].
  - inversion E; subst. now rewrite String.eqb_refl.
  - destruct (String.eqb_spec k a); [|auto]. subst. exfalso. apply H1. apply in_map_iff. exists (a, f); auto.
Qed.

Lemma sql_ok_parts t : sql_ok t = true ->
  NoDup (map fst (st_create t)) /\ NoDup (map fst (st_update t)) /\ NoDup (map fst (st_from_row t)) /\
  (forall f, In f (st_fields t) -> In (f, f) (st_create t) /\ In (f, f) (st_from_row t) /\ smem f (st_select t) = true) /\
  (forall f, In f (st_fields t) -> f = "id" \/ In (f, f) (st_update t)) /\
  ~ In "id" (map fst (st_update t)).
Proof.
  unfold sql_ok. intros H.
  apply andb_true_iff in H as [H H7]. apply andb_true_iff in H as [H H6]. apply andb_true_iff in H as [H H5].
  apply andb_true_iff in H as [H H4]. apply andb_true_iff in H as [H H3]. apply andb_true_iff in H as [H1 H2].
  split; [now apply nodupb_NoDup|]. split; [now apply nodupb_NoDup|]. split; [now apply nodupb_NoDup|].
  split; [|split].
  - intros f Hf. rewrite forallb_forall in H4. specialize (H4 f Hf). apply andb_true_iff in H4 as [H4 Hs].
    apply andb_true_iff in H4 as [Ha Hb]. repeat split; auto; now apply pmem_In.
  - intros f Hf. rewrite forallb_forall in H5. specialize (H5 f Hf). apply orb_true_iff in H5 as [E | E].
    + left. now apply String.eqb_eq.
    + right. now apply pmem_In.
  - intros Hin. apply smem_In in Hin. rewrite Hin in H7. discriminate.
Qed.

(* ---- sqlite: create; find returns every field ---- *)
Theorem sql_create_find t (r : string -> V) f :
  sql_ok t = true -> In f (st_fields t) -> sql_read V t (sql_create V t r) f = Some (r f).
Proof.
  intros H Hf. destruct (sql_ok_parts t H) as (Nc & Nu & Nf & Hall & Hupd & Hid).
  destruct (Hall f Hf) as (Hc & Hfr & Hs).
  unfold sql_read. rewrite (sassoc_In f f _ Nf Hfr). unfold smem in Hs. rewrite Hs.
  unfold sql_create, sql_row. now apply write_pairs_read.
Qed.

(* ---- sqlite: update replaces every field except the id, which it keeps ---- *)
Theorem sql_update_find t (r0 r1 : string -> V) f :
  sql_ok t = true -> In f (st_fields t) ->
  sql_read V t (sql_update V t r1 (sql_create V t r0)) f = Some (if String.eqb f "id" then r0 f else r1 f).
Proof.
  intros H Hf. destruct (sql_ok_parts t H) as (Nc & Nu & Nf & Hall & Hupd & Hid).
  destruct (Hall f Hf) as (Hc & Hfr & Hs).
  unfold sql_read. rewrite (sassoc_In f f _ Nf Hfr). unfold smem in Hs. rewrite Hs.
  unfold sql_update, sql_row.
  destruct (String.eqb_spec f "id") as [->|Hne].
  - rewrite write_pairs_keep by assumption. unfold sql_create, sql_row. now apply write_pairs_read.
  - destruct (Hupd f Hf) as [E | Hu]; [contradiction|]. now apply write_pairs_read.
Qed.
End Rec.

(* the generated tables satisfy the conditions: decided by computation on the current sources *)
Lemma all_tables_ok : forallb tables_ok all_tables = true.
Proof. vm_compute. reflexivity. Qed.
Lemma table_ok t : In t all_tables -> mem_ok t = true /\ sql_ok t = true.
Proof.
  intros H. pose proof all_tables_ok as A. rewrite forallb_forall in A. specialize (A t H).
  unfold tables_ok in A. now apply andb_true_iff in A.
Qed.
