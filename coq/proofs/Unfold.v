(* one unfolding step of the mutually recursive engine functions, as equations (the right-hand sides are computed from
   the definitions); used where the functions are otherwise kept opaque to simpl / cbn *)
From Coq Require Import List Arith ZArith Bool.
Import ListNotations.
From Acts.Gen Require Import GenState.
From Acts.Model Require Import Engine.

Lemma review_S f cv from e i :
  review (S f) cv from e i = ltac:(let t := eval cbn [review] in (review (S f) cv from e i) in exact t).
Proof. reflexivity. Qed.
Lemma next_S f cv e i :
  next (S f) cv e i = ltac:(let t := eval cbn [next] in (next (S f) cv e i) in exact t).
Proof. reflexivity. Qed.
Lemma emit_S f e i :
  emit (S f) e i = ltac:(let t := eval cbn [emit] in (emit (S f) e i) in exact t).
Proof. reflexivity. Qed.
Lemma abort_up_S f e t :
  abort_up (S f) e (Some t) = ltac:(let x := eval cbn [abort_up] in (abort_up (S f) e (Some t)) in exact x).
Proof. reflexivity. Qed.
