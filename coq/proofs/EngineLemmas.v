(* Component theorems about the engine model used by C04 (branch readiness), C07 (data scoping) and
   C16 (generated acts).  They hold for every engine state, reachable or not. *)
From Coq Require Import List Arith ZArith Bool Lia.
Import ListNotations.
From Acts.Gen Require Import GenState.
From Acts.Model Require Import Engine.
From Acts.Proofs Require Import EngineBasics.

(* ---------- C07: update_data writes to the writer and to its ancestry only ---------- *)
Lemma data_set_data_other e j v t : t <> j -> t_data (tk (set_data e j v) t) = t_data (tk e t).
Proof.
  intros H. unfold set_data. rewrite tk_tmod. destruct (Nat.eqb_spec t j); [contradiction|]. reflexivity.
Qed.
Lemma vget_vset_other v k k' x : k <> k' -> vget (vset v k' x) k = vget v k.
Proof.
  intros H. induction v as [|[k0 y] r IH]; simpl.
  - destruct (Nat.eqb_spec k k'); [contradiction | reflexivity].
  - destruct (Nat.eqb_spec k' k0) as [->|N]; simpl.
    + destruct (Nat.eqb_spec k k0); [contradiction | reflexivity].
    + destruct (Nat.eqb k k0); auto.
Qed.
Lemma vget_set_data_key e j kv k t : k <> fst kv -> vget (t_data (tk (set_data e j [kv]) t)) k = vget (t_data (tk e t)) k.
Proof.
  intros H. unfold set_data. rewrite tk_tmod. destruct (Nat.eqb t j && Nat.ltb j (length (tasks e))) eqn:E; [|reflexivity].
  apply andb_true_iff in E as [E _]. apply Nat.eqb_eq in E. subst. cbn. now apply vget_vset_other.
Qed.
Definition scope e i : list nat := ancestors (S (length (tasks e))) e (parent e i).
Definition spread e i (v : vars) : eng :=
  fold_left (fun ee (kv : key * val) =>
              if pri_regex (fst kv) then ee
              else match find (fun t => vhas (t_data (tk ee t)) (fst kv)) (rev (scope e i)) with
                   | Some t => set_data ee t [kv]
                   | None => ee end) v e.
Lemma update_data_spread e i v : update_data e i v = set_data (spread e i v) i v.
Proof. reflexivity. Qed.
Lemma spread_scope e i v t : ~ In t (scope e i) -> t_data (tk (spread e i v) t) = t_data (tk e t).
Proof.
  intros Hn. unfold spread. set (anc := rev (scope e i)).
  assert (Ha : ~ In t anc) by (unfold anc; now rewrite <- in_rev).
  clearbody anc. generalize e. induction v as [|kv v IH]; intros e0; cbn [fold_left]; [reflexivity|].
  destruct (pri_regex (fst kv)); [apply IH|].
  destruct (find _ anc) as [t0|] eqn:F; [|apply IH].
  rewrite IH. apply data_set_data_other. intros ->. apply find_some in F as [F _]. contradiction.
Qed.
Lemma spread_private e i v t k : pri_regex k = true -> vget (t_data (tk (spread e i v) t)) k = vget (t_data (tk e t)) k.
Proof.
  intros Hk. unfold spread. set (anc := rev (scope e i)). clearbody anc.
  generalize e. induction v as [|kv v IH]; intros e0; cbn [fold_left]; [reflexivity|].
  destruct (pri_regex (fst kv)) eqn:Ep; [apply IH|].
  destruct (find _ anc) as [t0|] eqn:F; [|apply IH].
  rewrite IH. apply vget_set_data_key. intros ->. congruence.
Qed.
(* a write by task i reaches no task outside {i} and i's ancestry *)
Theorem update_data_scope e i v t : t <> i -> ~ In t (scope e i) -> t_data (tk (update_data e i v) t) = t_data (tk e t).
Proof. intros Hi Hs. rewrite update_data_spread, data_set_data_other by assumption. now apply spread_scope. Qed.
(* keys of the private class (data, dataset, and names starting with two underscores) never leave the writer *)
Theorem update_data_private e i v t k : t <> i -> pri_regex k = true ->
  vget (t_data (tk (update_data e i v) t)) k = vget (t_data (tk e t)) k.
Proof. intros Hi Hk. rewrite update_data_spread, data_set_data_other by assumption. now apply spread_private. Qed.
(* the writer itself gets every key *)
Lemma vget_vset_same v k x : vget (vset v k x) k = Some x.
Proof.
  induction v as [|[k0 y] r IH]; simpl; [now rewrite Nat.eqb_refl|].
  destruct (Nat.eqb_spec k k0) as [->|N]; simpl; [now rewrite Nat.eqb_refl|].
  destruct (Nat.eqb_spec k k0); [contradiction | exact IH].
Qed.
Lemma vget_vmerge_last a b k x : vget (vmerge a (b ++ [(k, x)])) k = Some x.
Proof. unfold vmerge. rewrite fold_left_app. cbn. apply vget_vset_same. Qed.
(* the outputs of a task have exactly the declared keys, the `data` key and the exposed keys *)
Theorem outputs_keys e i :
  map fst (outputs e i) = map fst (vmerge (vmerge (n_outputs (tnode e i)) [(0, VNull)]) (map (fun k => (k, VNull)) (t_exposed (tk e i)))).
Proof. unfold outputs. rewrite map_map. apply map_ext. intros [k [| |]]; reflexivity. Qed.

(* ---------- C04: when a pending branch may start ---------- *)
Lemma is_eq' a b : is a b = true -> a = b.
Proof. destruct a, b; simpl; intros H; try reflexivity; discriminate. Qed.
Theorem needs_ready_iff e i : n_kind (tnode e i) = KBranch -> n_needs (tnode e i) <> [] ->
  fst (is_ready e i) = true <->
  exists j, In j (siblings e i) /\ is_completed (st e j) = true /\ In (n_id (tnode e j)) (n_needs (tnode e i)).
Proof.
  intros Hk Hn. unfold is_ready. rewrite Hk.
  destruct (n_needs (tnode e i)) as [|x l] eqn:E; [congruence|]. cbn [length Nat.eqb negb fst].
  rewrite existsb_exists. split.
  - intros (j & Hj & H). apply andb_true_iff in H as [H1 H2]. apply existsb_exists in H2 as (y & Hy & Ey).
    apply Nat.eqb_eq in Ey. exists j. repeat split; auto. now rewrite Ey.
  - intros (j & Hj & H1 & H2). exists j. split; auto. apply andb_true_iff. split; [exact H1|]. apply existsb_exists.
    exists (n_id (tnode e j)). split; auto. apply Nat.eqb_refl.
Qed.
Theorem else_ready_iff e i : n_kind (tnode e i) = KBranch -> n_needs (tnode e i) = [] -> n_else (tnode e i) = true ->
  fst (is_ready e i) = true <-> forall j, In j (siblings e i) -> st e j = SSkipped.
Proof.
  intros Hk Hn He. unfold is_ready. rewrite Hk, Hn, He. cbn [length Nat.eqb negb].
  destruct (forallb (fun j => is (st e j) SSkipped) (siblings e i)) eqn:F.
  - cbn. split; auto. intros _ j Hj. rewrite forallb_forall in F. now apply is_eq', F.
  - assert (N : ~ forall j, In j (siblings e i) -> st e j = SSkipped).
    { intros A. assert (forallb (fun j => is (st e j) SSkipped) (siblings e i) = true); [|congruence].
      apply forallb_forall. intros j Hj. rewrite (A j Hj). reflexivity. }
    destruct (existsb _ _); cbn; split; intros H; try discriminate; contradiction.
Qed.
(* a plain branch (no needs, not else) and every non-branch task is never held back *)
Theorem other_ready e i : n_kind (tnode e i) <> KBranch -> is_ready e i = (true, e).
Proof. intros Hk. unfold is_ready. destruct (n_kind (tnode e i)); congruence. Qed.

(* ---------- C16: generated acts ---------- *)
Lemma nodes_nmod e n f : length (nodes (nmod e n f)) = length (nodes e).
Proof. unfold nmod; cbn. apply upd_length. Qed.
(* one node per generated act *)
Theorem build_acts_count e pn acts sq : length (nodes (build_acts e pn acts sq)) = length (nodes e) + length acts.
Proof.
  unfold build_acts. set (lvl := S (n_level (nd e pn))). clearbody lvl.
  assert (G : forall l (acc : eng * nat),
    length (nodes (fst (fold_left (fun (acc : eng * nat) sp =>
         let '(ee, prev) := acc in
         let nid := length (nodes ee) in
         let ee1 := with_nodes ee (nodes ee ++ [mk_dyn lvl sp]) in
         if sq then
           if Nat.eqb (n_level (nd ee1 prev)) lvl then (set_next ee1 prev nid, nid)
           else (add_child ee1 pn nid, nid)
         else (add_child ee1 pn nid, prev)) l acc))) = length (nodes (fst acc)) + length l).
  { induction l as [|sp l IH]; intros [ee prev]; cbn [fold_left fst length]; [lia|].
    rewrite IH. destruct sq; [destruct (Nat.eqb _ _)|]; cbn [fst]; unfold set_next, add_child; rewrite nodes_nmod; cbn; rewrite app_length; cbn; lia. }
  apply (G acts (e, pn)).
Qed.
(* a parallel generator over n elements adds n children (one group per element, in order); they are
   all scheduled by the same run *)
Lemma children_add_child e pn c : pn < length (nodes e) ->
  normal_children (nd (add_child e pn c) pn) = normal_children (nd e pn) ++ [c].
Proof.
  intros H. unfold add_child, nmod, nd; cbn. rewrite upd_nth, Nat.eqb_refl. apply Nat.ltb_lt in H. rewrite H. cbn.
  unfold normal_children, children_in. cbn. now rewrite filter_app, map_app.
Qed.
Theorem parallel_children e pn acts : pn < length (nodes e) ->
  normal_children (nd (build_acts e pn acts false) pn) = normal_children (nd e pn) ++ seq (length (nodes e)) (length acts).
Proof.
  intros Hp. unfold build_acts. set (lvl := S (n_level (nd e pn))). clearbody lvl.
  assert (G : forall l (ee : eng) prev, pn < length (nodes ee) ->
    normal_children (nd (fst (fold_left (fun (acc : eng * nat) sp =>
         let '(ee, prev) := acc in
         let nid := length (nodes ee) in
         let ee1 := with_nodes ee (nodes ee ++ [mk_dyn lvl sp]) in
         if false then
           if Nat.eqb (n_level (nd ee1 prev)) lvl then (set_next ee1 prev nid, nid)
           else (add_child ee1 pn nid, nid)
         else (add_child ee1 pn nid, prev)) l (ee, prev))) pn) = normal_children (nd ee pn) ++ seq (length (nodes ee)) (length l)).
  { induction l as [|sp l IH]; intros ee prev H; cbn [fold_left fst length seq]; [now rewrite app_nil_r|].
    rewrite IH.
    - rewrite children_add_child by (cbn; rewrite app_length; cbn; lia).
      unfold add_child. rewrite nodes_nmod. cbn [with_nodes nodes]. rewrite app_length. cbn [length].
      replace (length (nodes ee) + 1) with (S (length (nodes ee))) by lia.
      rewrite <- app_assoc. f_equal.
      unfold nd; cbn [with_nodes nodes]. rewrite app_nth1 by lia. reflexivity.
    - unfold add_child. rewrite nodes_nmod. cbn. rewrite app_length. lia. }
  apply (G acts e pn Hp).
Qed.

(* ---------- C03: the process state mirrors terminal writes to the root task ---------- *)
Theorem root_terminal_mirrored site e s : 0 < length (tasks e) -> is_completed s = true -> pstate (set_state site e 0 s) = s.
Proof. intros H0 H. unfold set_state. apply Nat.ltb_lt in H0. rewrite H0, H. reflexivity. Qed.
Theorem other_writes_keep_pstate site e i s : i <> 0 -> pstate (set_state site e i s) = pstate e.
Proof. intros H. unfold set_state. destruct (negb _); [reflexivity|]. destruct (Nat.eqb_spec i 0); [contradiction|]. rewrite andb_false_r. reflexivity. Qed.

(* ---------- C08: the message gate ---------- *)
Theorem msg_gate e i : msg_allowed e i = true -> st e i <> SPending /\ st e i <> SRunning /\ t_silent (tk e i) = false.
Proof.
  unfold msg_allowed. intros H. apply andb_true_iff in H as [H H3]. apply andb_true_iff in H as [H1 H2].
  repeat split.
  - intros E. rewrite E in H1. discriminate.
  - intros E. rewrite E in H2. discriminate.
  - now destruct (t_silent (tk e i)).
Qed.

(* ---------- C04: initialisation of a branch ---------- *)
Lemma st_set_state_same site e i s : i < length (tasks e) -> st (set_state site e i s) i = s.
Proof.
  intros H. unfold st. rewrite tk_set_state. rewrite Nat.eqb_refl. apply Nat.ltb_lt in H. rewrite H. reflexivity.
Qed.
Lemma st_set_silent e i b j : st (set_silent e i b) j = st e j.
Proof.
  unfold st, set_silent. rewrite tk_tmod. destruct (Nat.eqb j i && Nat.ltb i (length (tasks e))) eqn:E; [|reflexivity].
  apply andb_true_iff in E as [E _]. apply Nat.eqb_eq in E. subst. reflexivity.
Qed.
Lemma tnode_set_silent e i b j : tnode (set_silent e i b) j = tnode e j.
Proof.
  unfold tnode, nd, set_silent. rewrite tk_tmod. cbn [tmod with_tasks nodes].
  destruct (Nat.eqb j i && Nat.ltb i (length (tasks e))) eqn:E; [|reflexivity].
  apply andb_true_iff in E as [E _]. apply Nat.eqb_eq in E. subst. reflexivity.
Qed.
Theorem branch_init_state e i : n_kind (tnode e i) = KBranch ->
  st (kind_init e i) i =
    (if negb (Nat.eqb (length (n_needs (tnode e i))) 0) then SPending
     else match n_if (tnode e i) with
          | Some b => match eval_cond (set_silent e i true) i b with Some false => SSkipped | _ => st e i end
          | None => if negb (n_else (tnode e i)) then SSkipped
                    else if Nat.ltb 1 (match parent (set_silent e i true) i with
                                       | Some p => length (normal_children (tnode (set_silent e i true) p)) | None => 1 end)
                         then SPending else st e i
          end) \/ length (tasks e) <= i.
Proof.
  intros Hk. destruct (Nat.lt_ge_cases i (length (tasks e))) as [Hi|Hi]; [left | right; exact Hi].
  assert (Hl : i < length (tasks (set_silent e i true))) by (unfold set_silent; pose proof (ntasks_tmod e i (fun t => tset_silent t true)) as X; unfold ntasks in X; rewrite X; exact Hi).
  unfold kind_init. rewrite Hk.
  destruct (negb (Nat.eqb (length (n_needs (tnode e i))) 0)); [now apply st_set_state_same|].
  destruct (n_if (tnode e i)) as [b|].
  - destruct (eval_cond (set_silent e i true) i b) as [[|]|].
    + apply st_set_silent.
    + now apply st_set_state_same.
    + unfold st, with_exn. cbn. apply st_set_silent.
  - destruct (negb (n_else (tnode e i))); [now apply st_set_state_same|].
    destruct (Nat.ltb 1 _); [now apply st_set_state_same | apply st_set_silent].
Qed.

(* ---------- C03: a workflow / branch is not completed over an open child ---------- *)
Definition child_done e (j : nat) : bool := is_completed (st e j) || t_evproc (tk e j).
Theorem review_waits_for_children f cv from e i :
  t_evproc (tk e from) = false ->
  let e' := update_data e i (outputs e from) in
  (kind e' i = KWorkflow \/ kind e' i = KBranch) -> st e' i = SRunning ->
  forallb (child_done e') (children e' i) = false ->
  review (S f) cv from e i = e'.
Proof.
  intros Hev e' Hk Hs Hd. cbn [review]. rewrite Hev. fold e'.
  assert (Hr : is (st e' i) SRunning = true) by (rewrite Hs; reflexivity).
  unfold child_done in Hd.
  destruct Hk as [Hk | Hk]; rewrite Hk, Hr, Hd; cbn [fst snd]; rewrite Hs; reflexivity.
Qed.
