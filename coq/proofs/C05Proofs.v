From Coq Require Import List Arith ZArith Bool Lia.
Import ListNotations.
From Acts.Gen Require Import GenState.
From Acts.Model Require Import Engine.

Lemma ret_err_ne_ok x y : ret_err x <> ret_ok y.
Proof.
  intros H. unfold ret_err, ret_ok, add_ev in H. apply (f_equal trace) in H; cbn [trace with_trace] in H.
  apply app_inj_tail in H as [_ H]; discriminate.
Qed.

(* Task::update for an admitted action other than cancel: it either rejects without having touched
   anything (a required option is missing) or it is accepted *)
Lemma perform_noop e i a cv :
  is_cancel a = false -> perform e i a cv = ret_err e \/ exists e', perform e i a cv = ret_ok e'.
Proof.
  intros Hc. destruct a; cbn [is_cancel] in Hc; try discriminate Hc; clear Hc; unfold perform; cbv zeta beta.
  all:
  repeat match goal with
  | |- ret_err ?x = ret_err ?x \/ _ => left; reflexivity
  | |- ret_ok _ = ret_err _ \/ _ => right; eexists; reflexivity
  | |- (match (if ?b then _ else _) with _ => _ end) = _ \/ _ => destruct b
  | |- (if ?b then _ else _) = _ \/ _ => destruct b
  | |- (match ?x with _ => _ end) = _ \/ _ => destruct x
  end.
Qed.

(* the action as Task::update sees it is a cancel only if the client asked for a cancel *)
Lemma admission_cancel e i a opts cv a' : admission e i a opts = Some (cv, a') -> is_cancel a' = is_cancel a.
Proof.
  unfold admission.
  repeat match goal with
  | |- (if ?b then _ else _) = _ -> _ => destruct b; [discriminate|]
  end.
  cbv zeta. destruct (n_outs (tnode e i)); destruct a; cbn [is_cancel negb andb];
    repeat match goal with |- (if ?b then _ else _) = _ -> _ => destruct b; [discriminate|] end;
    intros H; inversion H; reflexivity.
Qed.

(* C05: a rejected complete / submit / skip / remove / abort / error / back / push leaves the whole
   engine state untouched -- tasks, rows, nodes, queue, process state, clock -- and emits nothing;
   only the result marker is appended *)
Lemma reject_noop e i a opts :
  is_cancel a = false ->
  do_action e i a opts = ret_err e \/ exists e', do_action e i a opts = ret_ok e'.
Proof.
  intros Hc. unfold do_action. destruct (admission e i a opts) as [[cv a']|] eqn:A; [|left; reflexivity].
  apply perform_noop. rewrite (admission_cancel _ _ _ _ _ _ A). exact Hc.
Qed.

(* admission: what an accepted action implies *)
Definition admissible (e : eng) (i : nat) (a : action) (opts : vars) : Prop :=
  is_completed (pstate e) = false /\ i < length (tasks e) /\
  (match a with APush _ => kind e i = KStep | _ => kind e i = KAct end) /\
  forallb (fun kv => vhas opts (fst kv)) (n_outputs (tnode e i)) = true /\
  (is_cancel a = false -> is_completed (st e i) = false).

Lemma admission_some e i a opts cv a' : admission e i a opts = Some (cv, a') -> admissible e i a opts.
Proof.
  unfold admission, admissible.
  destruct (is_completed (pstate e)); [discriminate|].
  destruct (Nat.leb_spec (length (tasks e)) i) as [Hi|Hi]; [discriminate|].
  destruct ((match a with APush _ => true | _ => false end) && negb (nkind_beq (kind e i) KStep)) eqn:E3; [discriminate|].
  destruct (negb (match a with APush _ => true | _ => false end) && negb (nkind_beq (kind e i) KAct)) eqn:E4; [discriminate|].
  destruct (n_outs (tnode e i) && negb (forallb (fun kv => vhas opts (fst kv)) (n_outputs (tnode e i)))) eqn:E5; [discriminate|].
  cbv zeta. intros H.
  assert (Hkind : match a with APush _ => kind e i = KStep | _ => kind e i = KAct end).
  { destruct a; cbn [andb negb] in E3, E4;
      try (destruct (nkind_beq (kind e i) KAct) eqn:K; [apply internal_nkind_dec_bl in K; exact K | discriminate]).
    destruct (nkind_beq (kind e i) KStep) eqn:K; [apply internal_nkind_dec_bl in K; exact K | discriminate]. }
  assert (Houts : forallb (fun kv => vhas opts (fst kv)) (n_outputs (tnode e i)) = true).
  { unfold n_outs in E5. destruct (n_outputs (tnode e i)) as [|x l] eqn:EO; [reflexivity|].
    cbn [length Nat.eqb negb andb] in E5. destruct (forallb _ (x :: l)) eqn:F; [reflexivity | discriminate]. }
  repeat split; auto.
  intros Hc.
  destruct (is_completed (st e i)) eqn:ES; [|reflexivity]. exfalso.
  destruct (n_outs (tnode e i)); destruct a; cbn [is_cancel] in Hc; try discriminate Hc;
    cbn [is_cancel negb andb] in H; discriminate H.
Qed.

Lemma accept_admissible e i a opts e1 :
  is_cancel a = false -> do_action e i a opts = ret_ok e1 -> admissible e i a opts.
Proof.
  intros Hc H. unfold do_action in H. destruct (admission e i a opts) as [[cv a']|] eqn:A.
  - exact (admission_some _ _ _ _ _ _ A).
  - exfalso. exact (ret_err_ne_ok _ _ H).
Qed.

(* once an act is terminal every further non-cancel action on it is rejected; so is every action
   once the process has ended *)
Lemma terminal_rejects e i a opts :
  is_cancel a = false -> is_completed (st e i) = true -> do_action e i a opts = ret_err e.
Proof.
  intros Hc Hs. destruct (reject_noop e i a opts Hc) as [H | (e' & H)]; [exact H|].
  destruct (accept_admissible e i a opts e' Hc H) as (_ & _ & _ & _ & Hopen).
  rewrite (Hopen Hc) in Hs. discriminate.
Qed.
Lemma ended_rejects e i a opts : is_completed (pstate e) = true -> do_action e i a opts = ret_err e.
Proof. intros H. unfold do_action, admission. now rewrite H. Qed.
