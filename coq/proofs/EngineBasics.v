(* Frame lemmas for the primitives of model/Engine.v: what they do to the trace, to task states and
   to task errors.  `ext e e'` : e' extends e by events that are not state writes and keeps every
   task's state and error. *)
From Coq Require Import List Arith ZArith Bool Lia.
Import ListNotations.
From Acts.Gen Require Import GenState.
From Acts.Model Require Import Engine.

Lemma upd_length {A} (l : list A) i x : length (upd l i x) = length l.
Proof. revert i; induction l as [|h t IH]; intros [|i]; simpl; auto. Qed.
Lemma upd_nth {A} (l : list A) i j x d :
  nth j (upd l i x) d = if Nat.eqb j i && Nat.ltb i (length l) then x else nth j l d.
Proof.
  revert i j; induction l as [|h t IH]; intros [|i] [|j]; simpl; auto.
  - destruct (Nat.eqb j i); reflexivity.
  - rewrite IH. change (Nat.ltb (S i) (S (length t))) with (Nat.ltb i (length t)). reflexivity.
Qed.

(* the events the invariants speak about: state writes and timeout firings *)
Definition is_trans (x : ev) : bool := match x with ETrans _ _ _ _ _ => true | EFire _ _ _ _ _ => true | _ => false end.
Definition ntasks (e : eng) := length (tasks e).
(* a message reports the state its task has at that moment, and that state is neither pending nor running *)
(* ... and a task created through a `next` link is created when its predecessor is terminal *)
Definition msg_ok (e : eng) (x : ev) : bool :=
  match x with
  | EMsg i s _ _ => is s (st e i) && negb (is s SPending) && negb (is s SRunning)
  | ENew _ _ (Some p) _ VNext => is_completed (st e p)
  | _ => true
  end.
Lemma msg_ok_st e e' x : (forall t, st e' t = st e t) -> msg_ok e' x = msg_ok e x.
Proof. intros H. destruct x as [? ? [p|] ? [|] | | | | | | |]; simpl; auto; now rewrite H. Qed.
Lemma forallb_msg_ok_st e e' l : (forall t, st e' t = st e t) -> forallb (msg_ok e') l = forallb (msg_ok e) l.
Proof. intros H. induction l as [|x l IH]; simpl; auto. now rewrite IH, (msg_ok_st e e' x H). Qed.
Definition ext (e e' : eng) : Prop :=
  (forall t, st e' t = st e t /\ t_err (tk e' t) = t_err (tk e t) /\ t_catch_done (tk e' t) = t_catch_done (tk e t) /\
             t_tmo_done (tk e' t) = t_tmo_done (tk e t) /\ t_start (tk e' t) = t_start (tk e t)) /\
  (exists l, trace e' = trace e ++ l /\ forallb (fun x => negb (is_trans x)) l = true /\ forallb (msg_ok e) l = true) /\
  ntasks e <= ntasks e' /\
  (forall t, t < ntasks e -> t_prev (tk e' t) = t_prev (tk e t)) /\
  (forall t, ntasks e <= t -> t < ntasks e' -> exists p, t_prev (tk e' t) = Some p /\ p < t) /\
  (forall i, In i (queue e') -> In i (queue e) \/ i < ntasks e').

Lemma ext_refl e : ext e e.
Proof.
  split; [intros t; auto|]. split; [exists []; now rewrite app_nil_r|]. split; [lia|]. split; [auto|]. split; [intros; lia | auto].
Qed.
Lemma ext_trans e1 e2 e3 : ext e1 e2 -> ext e2 e3 -> ext e1 e3.
Proof.
  intros (H1 & (l1 & T1 & F1 & M1) & L1 & K1 & N1 & Q1) (H2 & (l2 & T2 & F2 & M2) & L2 & K2 & N2 & Q2). split; [|split; [|split; [|split; [|split]]]].
  - intros t. destruct (H1 t) as (a & b & c & d & f), (H2 t) as (a' & b' & c' & d' & f'). repeat split; congruence.
  - exists (l1 ++ l2). rewrite T2, T1, app_assoc. split; auto. rewrite !forallb_app, F1, F2, M1. split; [reflexivity|].
    rewrite <- (forallb_msg_ok_st e1 e2 l2); [exact M2 | intros t; apply H1].
  - lia.
  - intros t Ht. rewrite K2 by lia. now apply K1.
  - intros t Ht1 Ht3. destruct (Nat.lt_ge_cases t (ntasks e2)).
    + rewrite K2 by assumption. now apply N1.
    + now apply N2.
  - intros i Hi. destruct (Q2 i Hi) as [Hi2 | Hi2]; [|right; exact Hi2].
    destruct (Q1 i Hi2) as [Hi1 | Hi1]; [left; exact Hi1 | right; lia].
Qed.

(* ---- with_* : only the named field changes ---- *)
Ltac ext_triv := split; [intros t; repeat split; reflexivity | split; [exists []; simpl; rewrite app_nil_r; auto | split; [unfold ntasks; simpl; lia | split; [intros; reflexivity | split; [unfold ntasks; simpl; intros; lia | intros; left; assumption]]]]].
Lemma ext_with_rows e r : ext e (with_rows e r). Proof. ext_triv. Qed.
Lemma ext_with_pstate e s : ext e (with_pstate e s). Proof. ext_triv. Qed.
Lemma ext_with_prow e s : ext e (with_prow e s). Proof. ext_triv. Qed.
Lemma ext_with_exn e b : ext e (with_exn e b). Proof. ext_triv. Qed.
Lemma ext_with_clock e c : ext e (with_clock e c). Proof. ext_triv. Qed.
Lemma ext_oof e : ext e (out_of_fuel e). Proof. ext_triv. Qed.
Lemma ext_with_nodes e ns : ext e (with_nodes e ns). Proof. ext_triv. Qed.
Lemma ext_add_ev e x : is_trans x = false -> msg_ok e x = true -> ext e (add_ev e x).
Proof.
  intros H M. split; [intros t; repeat split; reflexivity|]. split; [exists [x]; simpl; now rewrite H, M|].
  split; [unfold ntasks; simpl; lia | split; [intros; reflexivity | split; [unfold ntasks; simpl; intros; lia | intros; left; assumption]]].
Qed.

(* ---- tmod with a function that keeps state, error, the catch flag and the prev link ---- *)
Lemma tk_tmod e i f t : tk (tmod e i f) t = if Nat.eqb t i && Nat.ltb i (length (tasks e)) then f (tk e i) else tk e t.
Proof. unfold tk, tmod; simpl. apply upd_nth. Qed.
Definition keeps (f : task -> task) : Prop :=
  forall x, t_state (f x) = t_state x /\ t_err (f x) = t_err x /\ t_catch_done (f x) = t_catch_done x /\ t_prev (f x) = t_prev x /\
            t_tmo_done (f x) = t_tmo_done x /\ t_start (f x) = t_start x.
Lemma ntasks_tmod e i f : ntasks (tmod e i f) = ntasks e.
Proof. unfold ntasks, tmod; simpl. apply upd_length. Qed.
Lemma ext_tmod e i f : keeps f -> ext e (tmod e i f).
Proof.
  intros K. split; [|split; [|split; [|split; [|split]]]].
  - intros t. unfold st. rewrite tk_tmod.
    destruct (Nat.eqb_spec t i); simpl; [subst|repeat split; reflexivity].
    destruct (Nat.ltb i (length (tasks e))); [|repeat split; reflexivity]. destruct (K (tk e i)) as (a & b & c & d & g & h). auto.
  - exists []. simpl. rewrite app_nil_r. auto.
  - rewrite ntasks_tmod; lia.
  - intros t Ht. rewrite tk_tmod. destruct (Nat.eqb_spec t i); simpl; [subst|reflexivity].
    destruct (Nat.ltb i (length (tasks e))); [|reflexivity]. apply K.
  - rewrite ntasks_tmod. intros; lia.
  - intros j Hj. left. exact Hj.
Qed.
Lemma ext_nmod e n f : ext e (nmod e n f). Proof. apply ext_with_nodes. Qed.

Lemma ext_set_catches e i cs : ext e (set_catches e i cs). Proof. apply ext_tmod; intros x; repeat split; reflexivity. Qed.
Lemma ext_set_timeouts e i x : ext e (set_timeouts e i x). Proof. apply ext_tmod; intros y; repeat split; reflexivity. Qed.
Lemma ext_set_evproc e i : ext e (set_evproc e i). Proof. apply ext_tmod; intros y; repeat split; reflexivity. Qed.
Lemma ext_add_hooks e i h : ext e (add_hooks e i h). Proof. apply ext_tmod; intros y; repeat split; reflexivity. Qed.
Lemma ext_set_silent e i b : ext e (set_silent e i b). Proof. apply ext_tmod; intros y; repeat split; reflexivity. Qed.
Lemma ext_set_data e i v : ext e (set_data e i v). Proof. apply ext_tmod; intros y; repeat split; reflexivity. Qed.
Lemma ext_set_exposed e i v : ext e (set_exposed e i v). Proof. apply ext_tmod; intros y; repeat split; reflexivity. Qed.
Lemma ext_upsert e i : ext e (upsert e i).
Proof. unfold upsert. eapply ext_trans; [apply ext_with_rows | apply ext_with_prow]. Qed.
Lemma ext_persist e : ext e (persist e).
Proof. unfold persist. eapply ext_trans; [apply ext_with_rows | apply ext_with_prow]. Qed.

(* ---- sched: one more task, in state none with no error ---- *)
Global Arguments sched_next : simpl never.
Global Arguments sched : simpl never.
Lemma tk_sched_v v e n p t : tk (sched_v v e n p) t = if Nat.eqb t (length (tasks e)) then new_task n (Some p) else tk e t.
Proof.
  unfold tk, sched_v; simpl.
  destruct (Nat.eqb_spec t (length (tasks e))) as [->|Hne].
  - rewrite app_nth2, Nat.sub_diag; auto.
  - destruct (Nat.lt_ge_cases t (length (tasks e))).
    + now rewrite app_nth1.
    + rewrite !nth_overflow; auto. rewrite app_length; simpl; lia.
Qed.
Lemma tk_sched e n p t : tk (sched e n p) t = if Nat.eqb t (length (tasks e)) then new_task n (Some p) else tk e t.
Proof. apply tk_sched_v. Qed.
Lemma ntasks_sched_v v e n p : ntasks (sched_v v e n p) = S (ntasks e).
Proof. unfold ntasks, sched_v; simpl. rewrite app_length; simpl; lia. Qed.
Lemma ntasks_sched e n p : ntasks (sched e n p) = S (ntasks e).
Proof. apply ntasks_sched_v. Qed.
Lemma ext_sched_v v e n p : p < ntasks e -> (v = VNext -> is_completed (st e p) = true) -> ext e (sched_v v e n p).
Proof.
  intros Hp Hv. assert (tk_sched := tk_sched_v v). assert (ntasks_sched := ntasks_sched_v v).
  split; [|split; [|split; [|split; [|split]]]].
  - intros t. unfold st. rewrite tk_sched. destruct (Nat.eqb_spec t (length (tasks e))) as [->|]; auto.
    unfold tk. rewrite nth_overflow by lia. repeat split; reflexivity.
  - exists [ENew (length (tasks e)) n (Some p) (clock e) v]. repeat split; try reflexivity.
    simpl. destruct v; [now rewrite Hv | reflexivity].
  - rewrite ntasks_sched; lia.
  - intros t Ht. rewrite tk_sched. unfold ntasks in Ht. destruct (Nat.eqb_spec t (length (tasks e))); [lia | reflexivity].
  - rewrite ntasks_sched. intros t H1 H2. assert (t = ntasks e) by lia. subst. exists p.
    rewrite tk_sched. unfold ntasks. rewrite Nat.eqb_refl. split; [reflexivity | exact Hp].
  - intros j Hj. unfold sched_v in Hj; cbn [queue add_ev with_trace with_queue] in Hj. apply in_app_or in Hj as [Hj | [<- | []]].
    + left. exact Hj.
    + right. rewrite ntasks_sched. unfold ntasks; cbn [tasks with_rows with_tasks]. lia.
Qed.
Lemma ext_sched e n p : p < ntasks e -> ext e (sched e n p).
Proof. intros H. apply ext_sched_v; [exact H | discriminate]. Qed.
Lemma ext_sched_next e n p : p < ntasks e -> is_completed (st e p) = true -> ext e (sched_next e n p).
Proof. intros H Hc. apply ext_sched_v; auto. Qed.
Lemma ntasks_sched_next e n p : ntasks (sched_next e n p) = S (ntasks e). Proof. apply ntasks_sched_v. Qed.
Lemma ext_len e e' : ext e e' -> ntasks e <= ntasks e'. Proof. intros (_ & _ & L & _). exact L. Qed.
(* every queued id denotes a task *)
Definition QR (e : eng) : Prop := forall i, In i (queue e) -> i < ntasks e.
Lemma QR_ext e e' : ext e e' -> QR e -> QR e'.
Proof.
  intros X HQ i Hi. pose proof (ext_len _ _ X). destruct X as (_ & _ & _ & _ & _ & Q6).
  destruct (Q6 i Hi) as [H1 | H1]; [specialize (HQ i H1); lia | exact H1].
Qed.
Lemma ext_sched_nodes e l i : i < ntasks e -> ext e (sched_nodes e l i).
Proof.
  unfold sched_nodes. revert e; induction l as [|c l IH]; intros e Hi; simpl; [apply ext_refl|].
  eapply ext_trans; [apply ext_sched; exact Hi | apply IH]. rewrite ntasks_sched; lia.
Qed.

Lemma ext_fold {B} (g : eng -> B -> eng) l e : (forall e b, ext e (g e b)) -> ext e (fold_left g l e).
Proof. intros H. revert e; induction l as [|b l IH]; intros e; simpl; [apply ext_refl|]. eapply ext_trans; [apply H | apply IH]. Qed.
(* a fold whose steps need a lower bound on the number of tasks *)
Lemma ext_fold_ge {B} (g : eng -> B -> eng) k l e : (forall e b, k <= ntasks e -> ext e (g e b)) -> k <= ntasks e -> ext e (fold_left g l e).
Proof.
  intros H. revert e; induction l as [|b l IH]; intros e Hk; simpl; [apply ext_refl|].
  eapply ext_trans; [apply H; exact Hk | apply IH]. pose proof (ext_len _ _ (H e b Hk)). lia.
Qed.

Lemma ext_build_acts e pn acts sq : ext e (build_acts e pn acts sq).
Proof.
  unfold build_acts.
  assert (H : forall l (acc : eng * nat), ext (fst acc)
     (fst (fold_left (fun (acc : eng * nat) sp =>
         let '(ee, prev) := acc in
         let nid := length (nodes ee) in
         let ee1 := with_nodes ee (nodes ee ++ [mk_dyn (S (n_level (nd e pn))) sp]) in
         if sq then
           if Nat.eqb (n_level (nd ee1 prev)) (S (n_level (nd e pn))) then (set_next ee1 prev nid, nid)
           else (add_child ee1 pn nid, nid)
         else (add_child ee1 pn nid, prev)) l acc))).
  { induction l as [|sp l IH]; intros [ee prev]; simpl; [apply ext_refl|].
    eapply ext_trans; [|apply IH].
    destruct sq; [destruct (Nat.eqb _ _)|]; simpl;
      (eapply ext_trans; [apply ext_with_nodes | apply ext_nmod]). }
  apply (H acts (e, pn)).
Qed.
Lemma ext_dispatch_setup e i s : ext e (dispatch_setup e i s).
Proof.
  unfold dispatch_setup. destruct s; [apply ext_refl|].
  eapply ext_trans; [apply ext_add_hooks | apply ext_build_acts].
Qed.
Lemma ext_dispatch_hook e i sp : i < ntasks e -> ext e (dispatch_hook e i sp).
Proof.
  intros Hi. unfold dispatch_hook. destruct (is _ _); [apply ext_with_nodes|].
  eapply ext_trans; [apply ext_with_nodes|]. eapply ext_trans; [apply ext_sched; exact Hi | apply ext_set_evproc].
Qed.
Lemma ext_run_stmt_hooks e t ev i : i < ntasks e -> ext e (run_stmt_hooks e t ev i).
Proof.
  intros Hi. unfold run_stmt_hooks. apply (ext_fold_ge _ (S i)); [|lia].
  intros e0 h H0. destruct (levt_beq _ _); [apply ext_dispatch_hook; lia | apply ext_refl].
Qed.
Lemma ext_update_data e i v : ext e (update_data e i v).
Proof.
  unfold update_data. eapply ext_trans; [|apply ext_set_data].
  apply ext_fold. intros e0 kv. destruct (pri_regex _); [apply ext_refl|].
  destruct (find _ _); [apply ext_set_data | apply ext_refl].
Qed.
(* prev links point backwards *)
Definition W (e : eng) : Prop := forall t, t < ntasks e -> match t_prev (tk e t) with Some p => p < t | None => True end.
Lemma W_ext e e' : ext e e' -> W e -> W e'.
Proof.
  intros (_ & _ & L & K & N & _) HW t Ht. destruct (Nat.lt_ge_cases t (ntasks e)).
  - rewrite K by assumption. now apply HW.
  - destruct (N t H Ht) as (p & -> & Hp). exact Hp.
Qed.
Lemma ext_redo e t : W e -> t < ntasks e -> ext e (redo e t).
Proof.
  intros HW Ht. unfold redo. specialize (HW t Ht). destruct (t_prev _); [apply ext_sched; lia | apply ext_refl].
Qed.

(* ext keeps the observations the guards read *)
Lemma ext_prev e e' t : ext e e' -> t < ntasks e -> t_prev (tk e' t) = t_prev (tk e t). Proof. intros (_ & _ & _ & K & _). apply K. Qed.
Lemma ext_st e e' t : ext e e' -> st e' t = st e t. Proof. intros [H _]. apply H. Qed.
Lemma ext_err e e' t : ext e e' -> t_err (tk e' t) = t_err (tk e t). Proof. intros [H _]. apply H. Qed.
Lemma ext_cd e e' t : ext e e' -> t_catch_done (tk e' t) = t_catch_done (tk e t). Proof. intros [H _]. apply H. Qed.
Lemma ext_tmo e e' t : ext e e' -> t_tmo_done (tk e' t) = t_tmo_done (tk e t). Proof. intros [H _]. apply H. Qed.
Lemma ext_start e e' t : ext e e' -> t_start (tk e' t) = t_start (tk e t). Proof. intros [H _]. apply H. Qed.

(* ---- set_state ---- *)
Lemma tk_set_state site e i s t :
  tk (set_state site e i s) t =
    if Nat.eqb t i && Nat.ltb i (length (tasks e)) then
      (let x := tk e i in
       {| t_nid := t_nid x; t_state := s; t_prev := t_prev x; t_err := if is s SError then t_err x else None;
          t_catch_done := t_catch_done x; t_catches := t_catches x;
          t_start := if is_created s then (clock e + 1)%Z else t_start x;
          t_end := if is_completed s then (clock e + 1)%Z else t_end x;
          t_tmo_done := t_tmo_done x; t_timeouts := t_timeouts x; t_evproc := t_evproc x; t_silent := t_silent x;
          t_hooks := t_hooks x; t_data := t_data x; t_exposed := t_exposed x |})
    else tk e t.
Proof.
  unfold set_state. destruct (Nat.ltb i (length (tasks e))) eqn:El; simpl.
  - destruct (is_completed s && Nat.eqb i 0); unfold tk; simpl; rewrite upd_nth, El; reflexivity.
  - now rewrite andb_false_r.
Qed.
Lemma set_state_oob site e i s : length (tasks e) <= i -> set_state site e i s = e.
Proof. intros H. unfold set_state. apply Nat.ltb_ge in H. now rewrite H. Qed.
Lemma st_set_state_other site e i s t : t <> i -> st (set_state site e i s) t = st e t.
Proof. intros H. unfold st. rewrite tk_set_state. destruct (Nat.eqb_spec t i); [contradiction | reflexivity]. Qed.
Lemma st_set_state_same site e i s : st (set_state site e i s) i = s \/ (length (tasks e) <= i /\ st (set_state site e i s) i = st e i).
Proof.
  unfold st. rewrite tk_set_state, Nat.eqb_refl. simpl.
  destruct (Nat.ltb_spec i (length (tasks e))); [left; reflexivity | right; auto].
Qed.
Lemma trace_set_state site e i s : i < length (tasks e) ->
  trace (set_state site e i s) = trace e ++ [ETrans i (st e i) s (clock e + 1)%Z site].
Proof. intros H. unfold set_state. apply Nat.ltb_lt in H. rewrite H. simpl. destruct (is_completed s && Nat.eqb i 0); reflexivity. Qed.
Lemma st_oob e i : length (tasks e) <= i -> st e i = SNone.
Proof. intros H. unfold st, tk. now rewrite nth_overflow. Qed.

Lemma ntasks_set_state site e i s : ntasks (set_state site e i s) = ntasks e.
Proof. unfold ntasks, set_state. destruct (negb _); [reflexivity|]. destruct (_ && _); simpl; apply upd_length. Qed.
Lemma prev_set_state site e i s t : t_prev (tk (set_state site e i s) t) = t_prev (tk e t).
Proof. rewrite tk_set_state. destruct (Nat.eqb_spec t i); simpl; [subst|reflexivity]. destruct (Nat.ltb _ _); reflexivity. Qed.
Lemma W_set_state site e i s : W e -> W (set_state site e i s).
Proof. intros HW t Ht. rewrite ntasks_set_state in Ht. rewrite prev_set_state. now apply HW. Qed.
Lemma queue_set_state site e i s : queue (set_state site e i s) = queue e.
Proof. unfold set_state. destruct (negb _); [reflexivity|]. destruct (_ && _); reflexivity. Qed.
