From Coq Require Import List Arith ZArith Bool String.
Import ListNotations.
From Acts.Gen Require Import GenState GenOnTask.
From Acts.Model Require Import Engine.
From Acts.Proofs Require Import StatePred.

(* Runtime's on_task handler: the order store write -> lifecycle hooks -> gate -> message, and the gate itself, are
   regenerated from runtime.rs; the model's `emit` is written in that order (upsert, hooks, then the message of the
   state the hooks left) and its gate `msg_allowed` is the gate of the table *)
Open Scope string_scope.
Definition model_on_task_order : list string := ["upsert"; "run_hooks"; "gate"; "create_message"; "emit_message"].
Close Scope string_scope.
Definition gate_of_source (s : TaskState) (silent : bool) : bool :=
  forallb (fun n => negb (state_pred n s)) on_task_gate_not && negb silent.
Lemma gate_match e i : msg_allowed e i = gate_of_source (st e i) (t_silent (tk e i)).
Proof. unfold msg_allowed, gate_of_source. destruct (st e i), (t_silent (tk e i)); reflexivity. Qed.
Lemma order_match : on_task_order = model_on_task_order.
Proof. reflexivity. Qed.
(* the model's emit: the message is decided on, and built from, the state after the store write and the hooks *)
Lemma emit_message_after_hooks f e i :
  exists e2, forall e3, e3 = (if msg_allowed e2 i then add_ev e2 (EMsg i (st e2 i) (inputs e2 i) (outputs e2 i)) else e2) ->
    emit (S f) e i = match kind e i with
                     | KWorkflow => if is_completed (st e3 i) then add_ev (with_pstate e3 (st e3 i)) (EProc (st e3 i) (outputs e3 i)) else e3
                     | _ => e3 end.
Proof. eexists. intros e3 He3. subst e3. reflexivity. Qed.

