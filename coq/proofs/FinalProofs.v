(* Terminal is final, operationally: across any further operations of a run a task in a terminal state other than
   error keeps it; hence an accepted complete / submit / remove / skip of an act is the last action but cancel that the
   act ever accepts.  From the engine invariant (faithful log + legal writes) and the monotonicity of the trace. *)
From Coq Require Import List Arith ZArith Bool Lia.
Import ListNotations.
From Acts.Gen Require Import GenState.
From Acts.Model Require Import Engine Oracles.
From Acts.Proofs Require Import EngineBasics TimeoutInv ReviveInv LogInv C02Core C05Proofs C02Ops TraceMono TraceOps.

Lemma terminal_nonerror_stays tr : forall c t, logok c tr = true -> forallb legal_ev tr = true ->
  is_completed (c t) = true -> c t <> SError -> cur c tr t = c t.
Proof.
  induction tr as [|x tr IH]; intros c t Hl Hp Hc He; [reflexivity|].
  cbn [logok forallb cur] in *. apply andb_true_iff in Hl as [Hx Hl]. apply andb_true_iff in Hp as [Px Pp].
  assert (Hs : cstep c x t = c t).
  { destruct x as [| t' o n a s | | | | | |]; try reflexivity. cbn [cstep]. destruct (Nat.eqb_spec t t') as [<- | Hne]; [|reflexivity].
    cbn [evok] in Hx. apply is_true_eq in Hx. subst o. cbn [legal_ev] in Px.
    assert (Er : revive (c t) n = false) by (unfold revive; destruct (c t); simpl in *; try reflexivity; congruence).
    rewrite Er, orb_false_r in Px. now apply (legal_meaning (c t) n Px). }
  rewrite IH; auto; now rewrite Hs.
Qed.
(* between two states of the engine linked by a growing trace *)
Lemma stays e e' t : J e -> J e' -> pre e e' -> is_completed (st e t) = true -> st e t <> SError -> st e' t = st e t.
Proof.
  intros ((_ & _ & _ & _ & _ & (_ & HL)) & _) ((HP & _ & _ & _ & _ & (HL1 & HL2)) & _) [l Hl] Hc He.
  unfold P in HP. rewrite Hl in HP, HL1. rewrite forallb_app in HP. apply andb_true_iff in HP as [_ HP].
  rewrite logok_app in HL1. apply andb_true_iff in HL1 as [_ HL1].
  rewrite <- HL2, Hl, cur_app. rewrite <- HL in Hc, He |- *. now apply terminal_nonerror_stays.
Qed.
Lemma st_ret_ok e i : st (ret_ok e) i = st e i. Proof. reflexivity. Qed.
Lemma ops_J ops : forall e, J e -> J (fold_left apply_op ops e).
Proof. induction ops as [|o ops IH]; intros e HJ; cbn [fold_left]; auto. apply IH. now apply apply_op_J. Qed.
(* once terminal (and not in error: an error may still be taken by a catch), for good *)
Theorem terminal_is_final_ops e ops t : J e -> is_completed (st e t) = true -> st e t <> SError ->
  st (fold_left apply_op ops e) t = st e t.
Proof. intros HJ Hc He. apply stays; auto; [now apply ops_J | apply pre_ops]. Qed.
Theorem terminal_is_final ns c0 ops ops' t :
  is_completed (st (run ns c0 ops) t) = true -> st (run ns c0 ops) t <> SError ->
  st (run ns c0 (ops ++ ops')) t = st (run ns c0 ops) t.
Proof. intros Hc He. unfold run at 1. rewrite fold_left_app. fold (run ns c0 ops). apply terminal_is_final_ops; auto. apply run_J. Qed.

(* what an accepted complete / submit / remove / skip leaves the act in *)
Definition closing (a : action) : option TaskState :=
  match a with ANext => Some SCompleted | ASubmit => Some SSubmitted | ARemove => Some SRemoved | ASkip => Some SSkipped | AAbort => Some SAborted | _ => None end.
Lemma perform_closes e i a cv s : J e -> i < ntasks e -> is_completed (st e i) = false -> closing a = Some s ->
  st (perform e i a cv) i = s /\ is_completed s = true /\ s <> SError.
Proof.
  intros HJ Hi Ho Hc.
  assert (Hs : is_completed s = true /\ s <> SError) by (destruct a; simpl in Hc; inversion Hc; subst; split; try reflexivity; discriminate).
  split; [|exact Hs]. destruct Hs as [Hs1 Hs2].
  assert (Hnext : forall F site em, J em -> ntasks e <= ntasks em -> is_completed (st em i) = false ->
            st (ret_ok (next F cv (set_state site em i s) i)) i = s).
  { intros F site em Jm Lm Hom. rewrite st_ret_ok.
    assert (Gs : G em (set_state site em i s)) by (apply G_set_state; auto; rewrite legal_to_terminal; auto).
    assert (Hin : i < length (tasks em)) by (unfold ntasks in *; lia).
    assert (Sm : st (set_state site em i s) i = s) by (destruct (EngineBasics.st_set_state_same site em i s) as [E | [E _]]; [exact E | lia]).
    assert (Gn : G (set_state site em i s) (next F cv (set_state site em i s) i)) by (apply mainN; [apply Gs | destruct Gs; lia]).
    rewrite (stays (set_state site em i s) (next F cv (set_state site em i s) i) i); [exact Sm | apply Gs | apply Gn | apply pre_next | now rewrite Sm | now rewrite Sm]. }
  destruct a; cbn [closing] in Hc; inversion Hc; subst; unfold perform; cbv zeta.
  - apply Hnext; auto.
  - apply Hnext; auto.
  - apply Hnext; auto.
  - pose proof HJ as ((_ & _ & HW & _) & _).
    assert (Hsib : forall j, In j (siblings e i) -> j < ntasks e) by (intros j Hj; eapply siblings_lt; eauto).
    assert (G1 : G e (close_open 26 e (siblings e i) SSkipped)) by (apply close_open_J; auto).
    assert (S1 : st (close_open 26 e (siblings e i) SSkipped) i = st e i).
    { apply close_open_st; auto; try discriminate. intros Hin. apply siblings_ne in Hin. now apply Hin. }
    apply Hnext; [apply G1 | destruct G1; lia | now rewrite S1].
  - (* abort: the act is written aborted, emitted, then the rest of the process is closed around it *)
    pose proof HJ as ((_ & _ & HW & _) & _).
    assert (Hsib : forall j, In j (siblings e i) -> j < ntasks e) by (intros j Hj; eapply siblings_lt; eauto).
    set (e1 := close_open 26 e (siblings e i) SSkipped).
    assert (G1 : G e e1) by (apply close_open_J; auto).
    assert (S1 : st e1 i = st e i).
    { apply close_open_st; auto; try discriminate. intros Hin. apply siblings_ne in Hin. now apply Hin. }
    assert (Hi1 : i < ntasks e1) by (destruct G1; lia).
    assert (Gs : G e1 (set_state 27 e1 i SAborted)) by (apply G_set_state; [apply G1 | rewrite S1, legal_to_terminal; auto]).
    assert (Sm : st (set_state 27 e1 i SAborted) i = SAborted) by (destruct (EngineBasics.st_set_state_same 27 e1 i SAborted) as [E | [E _]]; [exact E | unfold ntasks in Hi1; lia]).
    set (ed := set_data (set_state 27 e1 i SAborted) i cv).
    assert (Gd : G e1 ed) by (eapply G_trans; [exact Gs|]; apply G_xext; [apply Gs | apply xext_set_data]).
    assert (Sd : st ed i = SAborted) by (unfold ed; rewrite (ext_st _ _ i (ext_set_data (set_state 27 e1 i SAborted) i cv)); exact Sm).
    set (e2 := emit (fuel_of e1) ed i).
    assert (G2 : G e1 e2) by (eapply G_trans; [exact Gd|]; apply mainE; [apply Gd | destruct G1, Gd; lia]).
    rewrite st_ret_ok.
    set (e3 := abort_sweep e2 (ancestors (S (length (tasks e2))) e2 (parent e2 i))).
    assert (G3 : G e2 e3) by (apply abort_sweep_J, G2).
    assert (G4 : G e3 (abort_up (S (length (tasks e3))) e3 (parent e3 i))).
    { apply abort_up_J; [apply G3|]. intros q Hq.
      destruct G3 as [((_ & _ & HW3 & _) & _) L3]. apply parent_lt in Hq; auto; destruct G1, G2; lia. }
    rewrite <- Sd. apply stays; [apply Gd | apply G4 | | now rewrite Sd | now rewrite Sd].
    eapply pre_trans; [apply pre_emit|]. fold e2. eapply pre_trans; [apply pre_abort_sweep | apply pre_abort_up].
Qed.

(* after an accepted complete / submit / remove / skip of an act, whatever happens next -- any operations, any schedule,
   the same action again at once or later -- every further action on that act but cancel is rejected and changes nothing *)
Theorem closing_action_is_the_last e i a opts cv a' s ops b opts' :
  J e -> admission e i a opts = Some (cv, a') -> closing a' = Some s -> is_cancel b = false ->
  let e1 := fold_left apply_op ops (do_action e i a opts) in
  st e1 i = s /\ do_action e1 i b opts' = ret_err e1.
Proof.
  intros HJ Ha Hc Hb e1.
  destruct (admission_some _ _ _ _ _ _ Ha) as (_ & Hi & _ & _ & Hopen).
  assert (Hca : is_cancel a' = false) by (destruct a'; simpl in Hc; try discriminate; reflexivity).
  assert (Ho : is_completed (st e i) = false) by (apply Hopen; rewrite <- (admission_cancel _ _ _ _ _ _ Ha); exact Hca).
  assert (Ed : do_action e i a opts = perform e i a' cv) by (unfold do_action; now rewrite Ha).
  destruct (perform_closes e i a' cv s HJ Hi Ho Hc) as (S1 & S2 & S3).
  assert (J1 : J (do_action e i a opts)) by (apply do_action_J; exact HJ).
  assert (S1' : st (do_action e i a opts) i = s) by (rewrite Ed; exact S1).
  assert (Sf : st e1 i = s).
  { unfold e1. rewrite terminal_is_final_ops; auto; now rewrite S1'. }
  split; [exact Sf|]. apply terminal_rejects; auto. now rewrite Sf.
Qed.

(* order of a sequence: a task created through the `next` link of its predecessor -- the next step of a sequence, the next
   act of a step -- is created when the predecessor is in a terminal state, and (unless that state is an error a catch may
   still take) the predecessor stays in it for the rest of the run *)
Theorem next_link_after_terminal ns c0 ops l1 l2 t nid p at_ :
  trace (run ns c0 ops) = l1 ++ ENew t nid (Some p) at_ VNext :: l2 ->
  is_completed (cur c_none l1 p) = true /\
  (cur c_none l1 p <> SError -> st (run ns c0 ops) p = cur c_none l1 p).
Proof.
  intros E. destruct (log_faithful ns c0 ops) as [H Hc]. pose proof H as H0. rewrite E in H. apply logok_at in H. cbn [evok] in H.
  split; [exact H|]. intros He.
  destruct (run_J ns c0 ops) as ((HP & _) & _). unfold P in HP. rewrite E in HP, H0.
  rewrite forallb_app in HP. apply andb_true_iff in HP as [_ HP]. rewrite logok_app in H0. apply andb_true_iff in H0 as [_ H0].
  rewrite <- Hc, E, cur_app. now apply terminal_nonerror_stays.
Qed.

(* the messages of one task come in lifecycle order: between two messages of a task with no revival of it in between, the
   stage of the reported state does not decrease and a terminal report is never followed by a different one *)
Theorem messages_in_lifecycle_order ns c0 ops l1 l2 l3 t s1 i1 o1 s2 i2 o2 :
  trace (run ns c0 ops) = l1 ++ EMsg t s1 i1 o1 :: l2 ++ EMsg t s2 i2 o2 :: l3 -> ~ In t (revivals l2) ->
  stage s1 <= stage s2 /\ (is_completed s1 = true -> s2 = s1).
Proof.
  intros E Hr.
  destruct (message_reports_current ns c0 ops l1 (l2 ++ EMsg t s2 i2 o2 :: l3) t s1 i1 o1 E) as (E1 & _).
  assert (E' : trace (run ns c0 ops) = (l1 ++ EMsg t s1 i1 o1 :: l2) ++ EMsg t s2 i2 o2 :: l3) by (rewrite E, <- app_assoc; reflexivity).
  destruct (message_reports_current ns c0 ops _ l3 t s2 i2 o2 E') as (E2 & _).
  destruct (log_faithful ns c0 ops) as [Hl _]. destruct (run_J ns c0 ops) as ((HP & _) & _). unfold P in HP.
  rewrite E' in Hl, HP. rewrite logok_app in Hl. apply andb_true_iff in Hl as [Hl _]. rewrite forallb_app in HP. apply andb_true_iff in HP as [HP _].
  rewrite logok_app in Hl. apply andb_true_iff in Hl as [_ Hl]. rewrite forallb_app in HP. apply andb_true_iff in HP as [_ HP].
  cbn [logok forallb] in Hl, HP. apply andb_true_iff in Hl as [_ Hl]. apply andb_true_iff in HP as [_ HP].
  rewrite cur_app in E2. cbn [cur cstep] in E2. rewrite E1, E2.
  now apply history_forward.
Qed.

(* the return of a sub-process (runtime.rs return_to_act): the action on the calling act for a child that ended in state s *)
Definition return_action (s : TaskState) (code : option nat) : action :=
  match s with SAborted => AAbort | SSkipped => ASkip | SError => AError code | _ => ANext end.
Definition return_end (s : TaskState) : TaskState :=
  match s with SAborted => SAborted | SSkipped => SSkipped | SError => SError | _ => SCompleted end.
Lemma return_action_closing s code : s <> SError -> closing (return_action s code) = Some (return_end s).
Proof. destruct s; simpl; intros H; try reflexivity. congruence. Qed.
Lemma admission_keeps e i a opts cv a' : admission e i a opts = Some (cv, a') ->
  match a with AError _ | ABack _ | APush _ => True | _ => a' = a end.
Proof.
  unfold admission. destruct (is_completed (pstate e)); [discriminate|]. destruct (Nat.leb _ _); [discriminate|].
  destruct (_ && negb (nkind_beq (kind e i) KStep)); [discriminate|]. destruct (negb _ && negb (nkind_beq (kind e i) KAct)); [discriminate|].
  destruct (n_outs (tnode e i) && negb _); [discriminate|]. cbv zeta.
  destruct (n_outs (tnode e i)); destruct a; cbn [is_cancel negb andb]; try exact (fun _ => I);
    try (destruct (is_completed (st e i)); cbn [andb negb]; [discriminate | intros H; inversion H; reflexivity]);
    try (intros H; inversion H; reflexivity).
Qed.
(* when the child ended without error and its return is admitted, the calling act takes the state the ending maps to and
   keeps it whatever happens next; every later action on it but cancel -- a second return included -- is rejected *)
Theorem return_closes_for_good e i s code opts cv a' ops b opts' :
  J e -> s <> SError -> admission e i (return_action s code) opts = Some (cv, a') -> is_cancel b = false ->
  let e1 := fold_left apply_op ops (do_action e i (return_action s code) opts) in
  st e1 i = return_end s /\ do_action e1 i b opts' = ret_err e1.
Proof.
  intros HJ Hs Ha Hb. apply (closing_action_is_the_last e i (return_action s code) opts cv a' (return_end s) ops b opts' HJ Ha); auto.
  pose proof (admission_keeps _ _ _ _ _ _ Ha) as K. rewrite <- (return_action_closing s code Hs).
  destruct s; simpl in K |- *; try (rewrite K; reflexivity). congruence.
Qed.

(* a non-matching catch changes nothing: emitting an errored task none of whose catches takes the error (no catch for the
   code, or the one catch already used) writes no task state and no error, and appends only events that are no state writes *)
Theorem uncaught_emit_changes_nothing f e j : j < ntasks e -> st e j = SError -> uncaught e j ->
  (forall t, st (emit f e j) t = st e t /\ t_err (tk (emit f e j) t) = t_err (tk e t) /\ t_catch_done (tk (emit f e j) t) = t_catch_done (tk e t)) /\
  exists l, trace (emit f e j) = trace e ++ l /\ forallb (fun x => negb (is_trans x)) l = true.
Proof.
  intros Hj Hs Hu. destruct (emit_xext_uncaught f e j Hj Hs Hu) as [(H1 & (l & Tl & Fl & _) & _) _]. split.
  - intros t. destruct (H1 t) as (a & b & c & _). auto.
  - exists l. auto.
Qed.
