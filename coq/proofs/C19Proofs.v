(* C19 Timeout rules: global invariants come from the engine invariant (TimeoutInv.T inside C02Core.Inv);
   the lemmas here describe one tick. *)
From Coq Require Import List Arith ZArith Bool Lia.
Import ListNotations.
From Acts.Gen Require Import GenState.
From Acts.Model Require Import Engine.
From Acts.Proofs Require Import EngineBasics TimeoutInv C02Core C02Ops.

Lemma never_early ns c0 ops t on now start limit :
  In (EFire t on now start limit) (trace (run ns c0 ops)) -> (limit <= now - start)%Z.
Proof.
  intros Hin. destruct (run_J ns c0 ops) as ((_ & _ & _ & (HF & _) & _) & _).
  rewrite forallb_forall in HF. specialize (HF _ Hin). simpl in HF. now apply Z.leb_le.
Qed.
Lemma at_most_once ns c0 ops : NoDup (fires (trace (run ns c0 ops))).
Proof. destruct (run_J ns c0 ops) as ((_ & _ & _ & (_ & HN & _) & _) & _). exact HN. Qed.

(* ---- one tick ---- *)
(* what a tick leaves alone: states, start times, registered rules, the clock; flags only grow *)
Definition stable (e e' : eng) : Prop :=
  clock e' = clock e /\ pstate e' = pstate e /\ ntasks e <= ntasks e' /\
  forall t, st e' t = st e t /\ t_start (tk e' t) = t_start (tk e t) /\
            (t < ntasks e -> t_timeouts (tk e' t) = t_timeouts (tk e t)) /\
            (forall on, In on (t_tmo_done (tk e t)) -> In on (t_tmo_done (tk e' t))).
Lemma stable_refl e : stable e e.
Proof. split; [reflexivity | split; [reflexivity | split; [lia|]]]. intros t. split; [reflexivity | split; [reflexivity | split; auto]]. Qed.
Lemma stable_trans a b c : stable a b -> stable b c -> stable a c.
Proof.
  intros (C1 & P1 & L1 & H1) (C2 & P2 & L2 & H2). split; [congruence | split; [congruence | split; [lia|]]].
  intros t. destruct (H1 t) as (a1 & b1 & c1 & d1), (H2 t) as (a2 & b2 & c2 & d2).
  split; [congruence | split; [congruence | split]].
  - intros Ht. rewrite c2 by lia. now apply c1.
  - intros on Hon. now apply d2, d1.
Qed.
Lemma stable_sched e n p : stable e (sched e n p).
Proof.
  split; [reflexivity | split; [reflexivity | split; [rewrite ntasks_sched; lia|]]].
  intros t. unfold st. rewrite tk_sched.
  destruct (Nat.eqb_spec t (length (tasks e))) as [->|Hne]; [|split; [reflexivity | split; [reflexivity | split; auto]]].
  unfold tk. rewrite nth_overflow by lia. cbn. split; [reflexivity | split; [reflexivity | split]].
  - unfold ntasks. intros; lia.
  - intros on [].
Qed.
Lemma stable_sched_nodes e l i : stable e (sched_nodes e l i).
Proof.
  unfold sched_nodes. revert e; induction l as [|c l IH]; intros e; simpl; [apply stable_refl|].
  eapply stable_trans; [apply stable_sched | apply IH].
Qed.
Lemma stable_fire e t r : stable e (fire e t r).
Proof.
  unfold fire, add_tmo_done. split; [reflexivity | split; [reflexivity | split; [rewrite ntasks_tmod; unfold ntasks; simpl; lia|]]].
  intros x. unfold st. rewrite tk_tmod. cbn [tasks add_ev with_trace].
  destruct (Nat.eqb x t && Nat.ltb t (length (tasks e))) eqn:E; [|split; [reflexivity | split; [reflexivity | split; auto]]].
  apply andb_true_iff in E as [E _]. apply Nat.eqb_eq in E. subst x. cbn.
  split; [reflexivity | split; [reflexivity | split; [reflexivity|]]]. intros on Hon. now right.
Qed.

(* the rules of one task, then of all tasks *)
Definition tick_rules (t : nat) (ee : eng) (rules : list (nat * Z)) : eng :=
  fold_left (fun ee2 (r : nat * Z) =>
    if rule_fires (clock ee2) (t_start (tk ee2 t)) (t_tmo_done (tk ee2 t)) (is_completed (st ee2 t)) r then
      sched_nodes (fire ee2 t r) (children_in (tnode ee2 t) (OTimeout (fst r))) t
    else ee2) rules ee.
Lemma tick_rules_cons t ee r rules :
  tick_rules t ee (r :: rules) =
  tick_rules t (if rule_fires (clock ee) (t_start (tk ee t)) (t_tmo_done (tk ee t)) (is_completed (st ee t)) r
                then sched_nodes (fire ee t r) (children_in (tnode ee t) (OTimeout (fst r))) t else ee) rules.
Proof. reflexivity. Qed.
Lemma stable_tick_rules t rules ee : stable ee (tick_rules t ee rules).
Proof.
  unfold tick_rules. revert ee; induction rules as [|r rules IH]; intros ee; simpl; [apply stable_refl|].
  eapply stable_trans; [|apply IH].
  destruct (rule_fires _ _ _ _ _); [|apply stable_refl].
  eapply stable_trans; [apply stable_fire | apply stable_sched_nodes].
Qed.

Lemma do_tick_unfold e adv :
  do_tick e adv =
  let e0 := with_clock e (clock e + adv)%Z in
  if is (pstate e0) SRunning then
    persist (fold_left (fun ee t => tick_rules t ee (t_timeouts (tk ee t)))
      (sort_by (fun t => t_start (tk e0 t)) (filter (fun t => negb (Nat.eqb (length (t_timeouts (tk e0 t))) 0)) (seq 0 (length (tasks e0))))) e0)
  else e0.
Proof. reflexivity. Qed.
Lemma tk_persist e t : tk (persist e) t = tk e t. Proof. reflexivity. Qed.
Lemma st_persist e t : st (persist e) t = st e t. Proof. reflexivity. Qed.

(* firing a rule does not by itself close (or otherwise change the state of) any task *)
Lemma tick_keeps_states e adv t : st (do_tick e adv) t = st e t.
Proof.
  rewrite do_tick_unfold. cbv zeta. set (e0 := with_clock e (clock e + adv)%Z).
  destruct (is (pstate e0) SRunning); [|reflexivity]. rewrite st_persist.
  assert (H : forall l ee, stable e0 ee -> stable e0 (fold_left (fun ee t => tick_rules t ee (t_timeouts (tk ee t))) l ee)).
  { induction l as [|x l IH]; intros ee Hs; simpl; auto. apply IH. eapply stable_trans; [exact Hs | apply stable_tick_rules]. }
  match goal with |- st (fold_left _ ?l e0) t = _ => destruct (H l e0 (stable_refl e0)) as (_ & _ & _ & Hst) end.
  now destruct (Hst t) as (-> & _).
Qed.

(* a rule never fires for a task that is terminal *)
Lemma closed_never_fires now start done r : rule_fires now start done true r = false.
Proof. reflexivity. Qed.

(* after a tick of a running process, every rule of an open task whose limit has passed is flagged:
   it fires at the first tick after the limit at the latest *)
Lemma In_insert_by' key x l y : y = x \/ In y l -> In y (insert_by key x l).
Proof.
  induction l as [|z l IH]; intros H.
  - destruct H as [H | H]; [subst; now left | destruct H].
  - cbn [insert_by]. destruct (Z.ltb (key x) (key z)).
    + destruct H as [H | H]; [subst; now left | now right].
    + destruct H as [H | H]; [right; apply IH; now left|].
      destruct H as [H | H]; [subst; now left | right; apply IH; now right].
Qed.
Lemma In_sort_by' key l y : In y l -> In y (sort_by key l).
Proof.
  unfold sort_by. assert (H : forall l0 acc, In y acc \/ In y l0 -> In y (fold_left (fun acc x => insert_by key x acc) l0 acc)).
  { induction l0 as [|x l0 IH]; simpl; [intros acc [H | []]; exact H|]. intros acc [Ha | [-> | Hl]]; apply IH.
    - left. apply In_insert_by'. now right.
    - left. apply In_insert_by'. now left.
    - now right. }
  intros Hy. apply H. now right.
Qed.
Lemma due_rules_fire e adv t on limit :
  pstate e = SRunning -> t < ntasks e -> is_completed (st e t) = false ->
  In (on, limit) (t_timeouts (tk e t)) -> (limit <= clock e + adv - t_start (tk e t))%Z ->
  In on (t_tmo_done (tk (do_tick e adv) t)).
Proof.
  intros Hp Ht Hopen Hr Hlim. rewrite do_tick_unfold. cbv zeta. set (e0 := with_clock e (clock e + adv)%Z).
  assert (Ep : is (pstate e0) SRunning = true) by (unfold e0; cbn [pstate with_clock]; rewrite Hp; reflexivity).
  rewrite Ep. rewrite tk_persist.
  match goal with |- context [fold_left ?g ?l e0] => set (gg := g); set (ll := l) end.
  assert (Hin : In t ll).
  { unfold ll. apply In_sort_by'. apply filter_In. split; [apply in_seq; unfold e0, ntasks in *; cbn [tasks with_clock]; lia|].
    unfold e0. change (tk (with_clock e (clock e + adv)%Z) t) with (tk e t).
    destruct (t_timeouts (tk e t)); [destruct Hr | reflexivity]. }
  (* the fold: before t's turn nothing relevant changes, at t's turn the rule is flagged, later flags stay *)
  assert (Hrules : forall rules ee, stable e0 ee -> In (on, limit) rules ->
             In on (t_tmo_done (tk (tick_rules t ee rules) t))).
  { induction rules as [|r rules IH]; intros ee Hs Hrin; [destruct Hrin|]. rewrite tick_rules_cons.
    match goal with |- In on (t_tmo_done (tk (tick_rules t ?x rules) t)) => set (ee1 := x) end.
    assert (S1 : stable ee ee1).
    { unfold ee1. destruct (rule_fires _ _ _ _ _); [|apply stable_refl]. eapply stable_trans; [apply stable_fire | apply stable_sched_nodes]. }
    destruct Hrin as [-> | Hrin]; [|apply IH; [eapply stable_trans; eauto | exact Hrin]].
    (* this rule: it fires, or it is flagged already *)
    assert (Hflag : In on (t_tmo_done (tk ee1 t))).
    { unfold ee1. destruct Hs as (Hc & _ & Hl & Hst). destruct (Hst t) as (Hs1 & Hs2 & _ & _).
      unfold rule_fires. cbn [fst snd]. rewrite Hs1, Hs2, Hc.
      change (st e0 t) with (st e t). change (t_start (tk e0 t)) with (t_start (tk e t)). change (clock e0) with (clock e + adv)%Z.
      rewrite Hopen. cbn [negb andb].
      destruct (existsb (Nat.eqb on) (t_tmo_done (tk ee t))) eqn:Ed; cbn [negb andb].
      - apply existsb_exists in Ed as (y & Hy & Ey). apply Nat.eqb_eq in Ey. now subst.
      - assert (El : Z.leb limit (clock e + adv - t_start (tk e t)) = true) by now apply Z.leb_le. rewrite El.
        destruct (stable_sched_nodes (fire ee t (on, limit)) (children_in (tnode ee t) (OTimeout on)) t) as (_ & _ & _ & H2).
        apply (proj2 (proj2 (proj2 (H2 t)))). unfold fire, add_tmo_done. rewrite tk_tmod. cbn [tasks add_ev with_trace fst].
        rewrite Nat.eqb_refl. assert (Hlt : Nat.ltb t (length (tasks ee)) = true) by (apply Nat.ltb_lt; unfold ntasks in Hl, Ht; unfold e0 in Hl; cbn [tasks with_clock] in Hl; lia).
        rewrite Hlt. cbn. now left. }
    destruct (stable_tick_rules t rules ee1) as (_ & _ & _ & H3). now apply (proj2 (proj2 (proj2 (H3 t)))). }
  assert (Hfold : forall l ee, stable e0 ee -> (In t l \/ In on (t_tmo_done (tk ee t))) -> In on (t_tmo_done (tk (fold_left gg l ee) t))).
  { induction l as [|x l IH]; intros ee Hs [Hl | Hd]; cbn [fold_left]; try (now destruct Hl); auto.
    - assert (S1 : stable ee (gg ee x)) by apply stable_tick_rules.
      apply IH; [eapply stable_trans; eauto|].
      destruct Hl as [-> | Hl]; [|now left]. right. unfold gg. apply Hrules; auto.
      destruct Hs as (_ & _ & _ & Hst). rewrite (proj1 (proj2 (proj2 (Hst t)))); [exact Hr | unfold e0, ntasks in *; cbn [tasks with_clock]; lia].
    - assert (S1 : stable ee (gg ee x)) by apply stable_tick_rules.
      apply IH; [eapply stable_trans; eauto|]. right. destruct S1 as (_ & _ & _ & H4). now apply (proj2 (proj2 (proj2 (H4 t)))). }
  apply Hfold; [apply stable_refl | now left].
Qed.
