(* C01, the review chain: whoever closes the last open child of a running workflow / branch / step / act closes that
   parent too (every engine state, every fuel), and an act closed by a client with no successor to start hands over to
   the review of its parent.  These are the links whose absence the known stuck classes are (a hook act is never
   reviewed: t_evproc; an errored child of an act blocks the count). *)
From Coq Require Import List Arith ZArith Bool Lia.
Import ListNotations.
From Acts.Gen Require Import GenState.
From Acts.Model Require Import Engine.
From Acts.Proofs Require Import Unfold EngineBasics TimeoutInv ReviveInv LogInv C02Core C02Ops TraceMono TraceOps EngineLemmas FinalProofs.

(* the end of review: the emission of the reviewed task and the walk further up leave a closed task closed *)
Lemma review_tail f cv i before e1 (isr : bool) :
  J e1 -> i < ntasks e1 -> is_completed (st e1 i) = true -> st e1 i <> SError ->
  st (let e2 := if is_completed (st e1 i) && negb (is before (st e1 i)) then emit f e1 i else e1 in
      if isr then match parent e2 i with Some p => review f cv i e2 p | None => e2 end else e2) i = st e1 i.
Proof.
  intros HJ Hi Hc He. cbv zeta.
  set (e2 := if _ && _ then emit f e1 i else e1).
  assert (G2 : G e1 e2) by (unfold e2; destruct (_ && _); [apply mainE; auto | apply G_refl; auto]).
  assert (P2 : pre e1 e2) by (unfold e2; destruct (_ && _); [apply pre_emit | apply pre_refl]).
  assert (S2 : st e2 i = st e1 i) by (apply stays; auto; apply G2).
  destruct isr; [|exact S2].
  destruct (parent e2 i) as [p|] eqn:Ep; [|exact S2].
  assert (Hp : p < ntasks e2). { apply parent_lt in Ep; [destruct G2; lia | apply (G_W _ _ G2) | destruct G2; lia]. }
  rewrite <- S2. apply stays; [apply G2 | apply mainR; [apply G2 | exact Hp | destruct G2; lia] | apply pre_review | rewrite S2; auto | rewrite S2; auto].
Qed.

Lemma st_same site e i s : i < ntasks e -> st (set_state site e i s) i = s.
Proof. intros H. destruct (EngineBasics.st_set_state_same site e i s) as [E | [E _]]; [exact E | unfold ntasks in H; lia]. Qed.

(* workflow and branch: every task started directly beneath is done (hook acts aside) *)
Theorem last_child_completes_container f cv from e i :
  J e -> i < ntasks e -> t_evproc (tk e from) = false ->
  let e0 := update_data e i (outputs e from) in
  (kind e0 i = KWorkflow \/ kind e0 i = KBranch) -> st e0 i = SRunning ->
  forallb (child_done e0) (children e0 i) = true ->
  st (review (S f) cv from e i) i = SCompleted.
Proof.
  intros HJ Hi Hev e0 Hk Hs Hd. rewrite review_S. rewrite Hev. fold e0.
  assert (G0 : G e e0) by (apply G_xext; [exact HJ | apply xext_update_data]).
  assert (R0 : i < ntasks e0) by (destruct G0; lia).
  assert (Hr : is (st e0 i) SRunning = true) by (rewrite Hs; reflexivity).
  unfold child_done in Hd.
  assert (Hsite : forall site, J (set_state site e0 i SCompleted)) by (intros site; apply J_set_state; [apply G0 | rewrite Hs; reflexivity]).
  destruct Hk as [Hk | Hk]; rewrite Hk, Hr, Hd.
  - etransitivity; [apply (review_tail f cv i (st e0 i) (set_state 14 e0 i SCompleted) true)|]; rewrite ?st_same; auto; try discriminate.
    rewrite ntasks_set_state; exact R0.
  - etransitivity; [apply (review_tail f cv i (st e0 i) (set_state 15 e0 i SCompleted) true)|]; rewrite ?st_same; auto; try discriminate.
    rewrite ntasks_set_state; exact R0.
Qed.

(* step: every task started directly beneath is closed *)
Theorem last_child_completes_step f cv from e i :
  J e -> i < ntasks e -> t_evproc (tk e from) = false ->
  let e0 := update_data e i (outputs e from) in
  kind e0 i = KStep -> st e0 i = SRunning ->
  forallb (fun j => is_completed (st e0 j)) (children e0 i) = true ->
  st (review (S f) cv from e i) i = SCompleted.
Proof.
  intros HJ Hi Hev e0 Hk Hs Hd. rewrite review_S. rewrite Hev. fold e0.
  assert (G0 : G e e0) by (apply G_xext; [exact HJ | apply xext_update_data]).
  assert (R0 : i < ntasks e0) by (destruct G0; lia).
  assert (Hr : is (st e0 i) SRunning = true) by (rewrite Hs; reflexivity).
  rewrite Hk, Hr.
  match goal with |- context [ (fix scan (l : list nat) (ee : eng) {struct l} : option eng * eng := @?body scan l ee) ] =>
    set (scan := (fix scan (l : list nat) (ee : eng) {struct l} : option eng * eng := body scan l ee))
  end.
  assert (HS : forall l, (forall j, In j l -> is_completed (st e0 j) = true) -> scan l e0 = (None, e0)).
  { induction l as [|j l IHl]; intros Hl; [reflexivity|]. cbn [scan].
    assert (Hj : is (st e0 j) SPending = false) by (specialize (Hl j (or_introl eq_refl)); destruct (st e0 j); simpl in *; congruence).
    rewrite Hj. apply IHl. intros; apply Hl; now right. }
  rewrite HS by (apply forallb_forall; exact Hd). rewrite Hd.
  assert (Hc : is_completed (st e0 i) = false) by (rewrite Hs; reflexivity). rewrite Hc. cbn [negb].
  assert (J1 : J (set_state 16 e0 i SCompleted)) by (apply J_set_state; [apply G0 | rewrite Hs; reflexivity]).
  assert (S1 : st (set_state 16 e0 i SCompleted) i = SCompleted) by (now apply st_same).
  destruct (n_next (tnode (set_state 16 e0 i SCompleted) i)) as [nx|].
  - set (e1 := sched_next (set_state 16 e0 i SCompleted) nx i).
    assert (X1 : xext (set_state 16 e0 i SCompleted) e1).
    { apply xext_sched_next; [rewrite ntasks_set_state; exact R0 | rewrite S1; reflexivity]. }
    assert (S1' : st e1 i = SCompleted) by (rewrite (ext_st _ _ i (proj1 X1)); exact S1).
    etransitivity; [apply (review_tail f cv i (st e0 i) e1 false)|]; rewrite ?S1'; auto; try discriminate.
    + now apply (J_xext _ _ X1).
    + destruct X1 as [X1 _]. apply ext_len in X1. rewrite ntasks_set_state in X1. lia.
  - etransitivity; [apply (review_tail f cv i (st e0 i) (set_state 16 e0 i SCompleted) true)|]; rewrite ?S1; auto; try discriminate.
    rewrite ntasks_set_state; exact R0.
Qed.

(* act: every task started directly beneath is closed, none in error, none skipped *)
Lemma act_scan_count e l : (forall j, In j l -> is_completed (st e j) = true /\ st e j <> SError /\ st e j <> SSkipped) ->
  forall n, act_scan e l n = AS_count (n + length l).
Proof.
  induction l as [|j l IH]; intros Hl n; cbn [act_scan length]; [f_equal; lia|].
  destruct (Hl j (or_introl eq_refl)) as (Hc & He & Hk).
  assert (E1 : is (st e j) SError = false) by (destruct (st e j); simpl in *; congruence).
  assert (E2 : is (st e j) SSkipped = false) by (destruct (st e j); simpl in *; congruence).
  rewrite E1, E2, Hc, IH by (intros; apply Hl; now right). f_equal; lia.
Qed.
Theorem last_child_completes_act f cv from e i :
  J e -> i < ntasks e -> t_evproc (tk e from) = false ->
  let e0 := update_data e i (outputs e from) in
  kind e0 i = KAct -> st e0 i = SRunning ->
  (forall j, In j (children e0 i) -> is_completed (st e0 j) = true /\ st e0 j <> SError /\ st e0 j <> SSkipped) ->
  st (review (S f) cv from e i) i = SCompleted.
Proof.
  intros HJ Hi Hev e0 Hk Hs Hd. rewrite review_S. rewrite Hev. fold e0.
  assert (G0 : G e e0) by (apply G_xext; [exact HJ | apply xext_update_data]).
  assert (R0 : i < ntasks e0) by (destruct G0; lia).
  assert (Hr : is (st e0 i) SRunning = true) by (rewrite Hs; reflexivity).
  rewrite Hk, Hr, (act_scan_count e0 _ Hd 0). cbn [Nat.add]. rewrite Nat.eqb_refl.
  assert (Hc : is_completed (st e0 i) = false) by (rewrite Hs; reflexivity). rewrite Hc. cbn [negb].
  assert (J1 : J (set_state 18 e0 i SCompleted)) by (apply J_set_state; [apply G0 | rewrite Hs; reflexivity]).
  assert (S1 : st (set_state 18 e0 i SCompleted) i = SCompleted) by (now apply st_same).
  destruct (n_next (tnode (set_state 18 e0 i SCompleted) i)) as [nx|].
  - set (e1 := sched_next (set_state 18 e0 i SCompleted) nx i).
    assert (X1 : xext (set_state 18 e0 i SCompleted) e1).
    { apply xext_sched_next; [rewrite ntasks_set_state; exact R0 | rewrite S1; reflexivity]. }
    assert (S1' : st e1 i = SCompleted) by (rewrite (ext_st _ _ i (proj1 X1)); exact S1).
    etransitivity; [apply (review_tail f cv i (st e0 i) e1 false)|]; rewrite ?S1'; auto; try discriminate.
    + now apply (J_xext _ _ X1).
    + destruct X1 as [X1 _]. apply ext_len in X1. rewrite ntasks_set_state in X1. lia.
  - etransitivity; [apply (review_tail f cv i (st e0 i) (set_state 18 e0 i SCompleted) true)|]; rewrite ?S1; auto; try discriminate.
    rewrite ntasks_set_state; exact R0.
Qed.
(* ... and a skipped child skips the act (the first child, in creation order, that is in error or skipped decides) *)

(* the hand-over: an act closed by a client (completed / submitted / removed ... written by the action), with no successor to
   start and not a hook act, reviews its parent right after its own message *)
Theorem closed_act_reviews_its_parent f cv e i :
  kind e i = KAct -> is_completed (st e i) = true -> st e i <> SSkipped -> st e i <> SCompleted \/ n_next (tnode e i) = None ->
  let e2 := emit f (update_data e i cv) i in
  t_evproc (tk e2 i) = false ->
  next (S f) cv e i = match parent e2 i with Some p => review f cv i e2 p | None => e2 end.
Proof.
  intros Hk Hc Hns Hnx e2 Hev. rewrite next_S. rewrite Hk.
  assert (Hr : is (st e i) SRunning = false) by (destruct (st e i); simpl in *; congruence).
  assert (Hsk : is (st e i) SSkipped = false) by (destruct (st e i); simpl in *; congruence).
  rewrite Hr, Hsk. cbn [nkind_beq orb andb].
  destruct (is_next (st e i)) eqn:En.
  - destruct (is (st e i) SCompleted) eqn:Ec.
    + destruct Hnx as [Hnx | Hnx]; [apply is_eq in Ec; contradiction|]. rewrite Hnx, Hc. fold e2. rewrite Hev. reflexivity.
    + rewrite Hc. fold e2. rewrite Hev. reflexivity.
  - rewrite Hc. fold e2. rewrite Hev. reflexivity.
Qed.

(* non-vacuity: one step with one act; the client has just completed the act (site 22), the step is running and its only
   child is closed: the hypotheses of last_child_completes_step hold, and the act is no hook act *)
From Acts.Model Require Import Tree.
From Acts.Proofs Require Import Findings.
Definition w_one := wf [Step 1 None None [] [] [] [] [Act 2 None irq [] [] None [] [] []] [] []].
Definition e_answered : option eng := option_map (fun e => set_state 22 e 2 SCompleted) (go w_one []).
Example wake_premises : option_map (fun e =>
    let e0 := update_data e 1 (outputs e 2) in
    (Nat.ltb 1 (ntasks e), t_evproc (tk e 2), nkind_beq (kind e0 1) KStep, is (st e0 1) SRunning,
     forallb (fun j => is_completed (st e0 j)) (children e0 1), children e0 1,
     nkind_beq (kind e 2) KAct, n_next (tnode e 2), parent (emit 20 (update_data e 2 []) 2) 2)) e_answered
  = Some (true, false, true, true, true, [2], true, None, Some 1).
Proof. vm_compute. reflexivity. Qed.
