(* The revival part of the engine invariant: the trace holds at most one revival (error -> running)
   per task, and a task that was revived carries the `catch done` mark (hook.rs: $is_catch_processed). *)
From Coq Require Import List Arith ZArith Bool Lia.
Import ListNotations.
From Acts.Gen Require Import GenState.
From Acts.Model Require Import Engine Oracles.
From Acts.Proofs Require Import EngineBasics TimeoutInv.

Fixpoint revivals (tr : list ev) : list nat :=
  match tr with
  | [] => []
  | ETrans t o n _ _ :: r => if revive o n then t :: revivals r else revivals r
  | _ :: r => revivals r
  end.
Definition R (e : eng) : Prop :=
  NoDup (revivals (trace e)) /\ (forall t, In t (revivals (trace e)) -> t_catch_done (tk e t) = true).

Lemma revivals_app a b : revivals (a ++ b) = revivals a ++ revivals b.
Proof.
  induction a as [|x a IH]; simpl; auto. destruct x; simpl; rewrite ?IH; auto.
  destruct (revive _ _); simpl; now rewrite ?IH.
Qed.
Lemma revivals_noncore l : forallb (fun x => negb (is_trans x)) l = true -> revivals l = [].
Proof.
  induction l as [|x l IH]; simpl; auto. intros H. apply andb_true_iff in H as [H1 H2].
  destruct x; simpl in *; try discriminate; auto.
Qed.
Lemma legal_not_revive o n : legal o n = true -> revive o n = false.
Proof. destruct o, n; simpl; intros; try discriminate; reflexivity. Qed.

Lemma R_ext e e' : ext e e' -> R e -> R e'.
Proof.
  intros X (H1 & H2). pose proof X as (_ & (l & Tl & Fl & _) & _).
  pose proof (revivals_noncore l Fl) as Fn. split.
  - rewrite Tl, revivals_app, Fn, app_nil_r. exact H1.
  - intros t Hin. rewrite Tl, revivals_app, Fn, app_nil_r in Hin. rewrite (ext_cd _ _ t X). now apply H2.
Qed.
Lemma cd_set_state site e i s t : t_catch_done (tk (set_state site e i s) t) = t_catch_done (tk e t).
Proof. rewrite tk_set_state. destruct (Nat.eqb_spec t i); simpl; [subst|reflexivity]. destruct (Nat.ltb _ _); reflexivity. Qed.
(* a write that is not a revival *)
Lemma R_set_state site e i s : R e -> revive (st e i) s = false -> R (set_state site e i s).
Proof.
  intros (H1 & H2) L.
  destruct (Nat.lt_ge_cases i (length (tasks e))) as [Hlt | Hge]; [|rewrite (set_state_oob _ _ _ _ Hge); now split].
  assert (Ef : revivals (trace (set_state site e i s)) = revivals (trace e)).
  { rewrite trace_set_state, revivals_app by assumption. simpl. rewrite L. apply app_nil_r. }
  split.
  - rewrite Ef. exact H1.
  - intros t Hin. rewrite Ef in Hin. rewrite cd_set_state. now apply H2.
Qed.
(* the revival itself: the task carries the mark already and was never revived before *)
Lemma R_set_state_revive site e i s :
  R e -> t_catch_done (tk e i) = true -> ~ In i (revivals (trace e)) -> R (set_state site e i s).
Proof.
  intros (H1 & H2) Hcd Hnew.
  destruct (Nat.lt_ge_cases i (length (tasks e))) as [Hlt | Hge]; [|rewrite (set_state_oob _ _ _ _ Hge); now split].
  unfold R. rewrite trace_set_state, revivals_app by assumption. simpl.
  destruct (revive (st e i) s).
  - split.
    + apply NoDup_app_single; auto.
    + intros t Hin. rewrite cd_set_state. apply in_app_or in Hin as [Hin | [E | []]]; [now apply H2 | now subst].
  - rewrite app_nil_r. split; [exact H1|]. intros t Hin. rewrite cd_set_state. now apply H2.
Qed.
(* task edits that never clear the mark *)
Lemma R_tmod e i f : (forall x, t_catch_done x = true -> t_catch_done (f x) = true) -> R e -> R (tmod e i f).
Proof.
  intros K (H1 & H2). split; [exact H1|].
  intros t Hin. cbn [trace tmod with_tasks] in Hin. rewrite tk_tmod.
  destruct (Nat.eqb_spec t i); simpl; [subst|now apply H2]. destruct (Nat.ltb _ _); [apply K|]; now apply H2.
Qed.
(* events other than state writes *)
Lemma R_add_ev e x : (match x with ETrans _ _ _ _ _ => false | _ => true end) = true -> R e -> R (add_ev e x).
Proof.
  intros Hx (H1 & H2). unfold R. cbn [trace add_ev with_trace]. rewrite revivals_app.
  assert (E : revivals [x] = []) by (destruct x; simpl; auto; discriminate).
  rewrite E, app_nil_r. split; [exact H1|]. intros t Hin. now apply H2.
Qed.

(* the readable form: two revival events of one task cannot both be in a trace *)
Lemma revivals_In tr t : In t (revivals tr) <-> exists o n a s, In (ETrans t o n a s) tr /\ revive o n = true.
Proof.
  induction tr as [|x tr IH]; simpl.
  - split; [intros [] | intros (o & n & a & s & [] & _)].
  - destruct x as [| t' o n a s | | | | | |]; simpl;
      try (rewrite IH; split; [intros (o' & n' & a' & s' & H & Hr); exists o', n', a', s'; split; auto
                              | intros (o' & n' & a' & s' & [H | H] & Hr); [discriminate | exists o', n', a', s'; split; auto]]).
    destruct (revive o n) eqn:Er; simpl.
    + split.
      * intros [-> | H]; [exists o, n, a, s; split; auto|]. apply IH in H as (o' & n' & a' & s' & H & Hr). exists o', n', a', s'; split; auto.
      * intros (o' & n' & a' & s' & [H | H] & Hr); [inversion H; subst; now left|]. right. apply IH. exists o', n', a', s'; split; auto.
    + rewrite IH. split.
      * intros (o' & n' & a' & s' & H & Hr). exists o', n', a', s'; split; auto.
      * intros (o' & n' & a' & s' & [H | H] & Hr); [inversion H; subst; congruence|]. exists o', n', a', s'; split; auto.
Qed.
Lemma NoDup_app_twice {A} (l1 l2 l3 : list A) x : ~ NoDup (l1 ++ x :: l2 ++ x :: l3).
Proof.
  intros H. apply NoDup_remove_2 in H. apply H. rewrite in_app_iff. right. rewrite in_app_iff. right. now left.
Qed.
Lemma no_second_revival tr t l1 l2 l3 a1 s1 a2 s2 :
  NoDup (revivals tr) -> tr = l1 ++ ETrans t SError SRunning a1 s1 :: l2 ++ ETrans t SError SRunning a2 s2 :: l3 -> False.
Proof.
  intros Hn ->. rewrite revivals_app in Hn. simpl in Hn. rewrite revivals_app in Hn. simpl in Hn.
  now apply NoDup_app_twice in Hn.
Qed.
