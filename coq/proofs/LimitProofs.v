From Coq Require Import List Arith ZArith Bool Lia.
Import ListNotations.
From Acts.Model Require Import Limit.
Local Open Scope Z_scope.

Lemma split_last_app p c : split_last (p ++ [c]) = Some (p, c).
Proof. induction p as [|x p IH]; simpl; auto. rewrite IH. destruct (p ++ [c]) eqn:E; auto. destruct p; discriminate. Qed.
Lemma split_last_spec s p c : split_last s = Some (p, c) -> s = p ++ [c].
Proof.
  revert p c; induction s as [|x r IH]; intros p c H; simpl in H; [discriminate|].
  destruct r as [|y r'].
  - inversion H; subst. reflexivity.
  - destruct (split_last (y :: r')) as [[p' c']|] eqn:E; [|discriminate]. inversion H; subst. simpl. f_equal. now apply IH.
Qed.
Lemma unit_roundtrip u : unit_of_byte (byte_of_unit u) = Some u. Proof. destruct u; reflexivity. Qed.
Lemma unit_of_byte_inv b u : unit_of_byte b = Some u -> b = byte_of_unit u.
Proof.
  unfold unit_of_byte. destruct (Nat.eqb_spec b 115); [intros H; inversion H; subst; reflexivity|].
  destruct (Nat.eqb_spec b 109); [intros H; inversion H; subst; reflexivity|].
  destruct (Nat.eqb_spec b 104); [intros H; inversion H; subst; reflexivity|].
  destruct (Nat.eqb_spec b 100); [intros H; inversion H; subst; reflexivity | discriminate].
Qed.
(* a limit is accepted exactly when it is a value followed by one unit letter *)
Theorem parse_limit_spec s v u : parse_limit s = Some (v, u) <-> exists p, s = p ++ [byte_of_unit u] /\ parse_i64 p = Some v.
Proof.
  unfold parse_limit. split.
  - destruct (split_last s) as [[p c]|] eqn:E; [|discriminate]. apply split_last_spec in E.
    destruct (unit_of_byte c) as [u'|] eqn:Eu; [|discriminate]. destruct (parse_i64 p) as [v'|] eqn:Ev; [|discriminate].
    intros H; inversion H; subst. exists p. split; auto. f_equal. f_equal. now apply unit_of_byte_inv.
  - intros (p & -> & Hp). rewrite split_last_app, unit_roundtrip, Hp. reflexivity.
Qed.
(* what is accepted is an i64 *)
Lemma signed_range sign r v : signed sign r = Some v -> i64_min <= v <= i64_max.
Proof.
  unfold signed. intros H. destruct r; [discriminate|]. destruct (digits _ _); [|discriminate]. cbv zeta in H.
  destruct (Z.leb i64_min (sign * z) && Z.leb (sign * z) i64_max) eqn:E; [|discriminate]. inversion H; subst.
  apply andb_true_iff in E as [E1 E2]. apply Z.leb_le in E1, E2. lia.
Qed.
Theorem parse_i64_range l v : parse_i64 l = Some v -> i64_min <= v <= i64_max.
Proof.
  unfold parse_i64. destruct l as [|b r]; [discriminate|].
  destruct (Nat.eqb b 43); [apply signed_range|]. destruct (Nat.eqb b 45); apply signed_range.
Qed.
(* an empty value, a lone sign and anything that is not a digit are refused *)
Theorem parse_i64_rejects : parse_i64 [] = None /\ parse_i64 [43%nat] = None /\ parse_i64 [45%nat] = None /\
  forall l b r, is_digit b = false -> parse_i64 (48%nat :: l ++ b :: r) = None.
Proof.
  repeat split. intros l b r Hb. unfold parse_i64, signed. simpl.
  assert (E : forall acc, digits (l ++ b :: r) acc = None).
  { induction l as [|d l IH]; intros acc; simpl; [now rewrite Hb|]. destruct (is_digit d); auto. }
  now rewrite E.
Qed.
(* the conversion: seconds, minutes, hours, days *)
Theorem as_secs_factor v u : as_secs (v, u) = v * factor u. Proof. reflexivity. Qed.
Theorem factor_values : factor USecond = 1 /\ factor UMinute = 60 /\ factor UHour = 60 * 60 /\ factor UDay = 60 * 60 * 24.
Proof. repeat split. Qed.
(* a longer configured duration never gives a shorter limit, and the limit of a non-negative duration is non-negative *)
Theorem limit_monotone v v' u : v <= v' -> limit_ms (v, u) <= limit_ms (v', u).
Proof. unfold limit_ms, as_secs; simpl. intros H. destruct u; simpl; lia. Qed.
Theorem limit_nonneg v u : 0 <= v -> 0 <= limit_ms (v, u).
Proof. unfold limit_ms, as_secs; simpl. intros H. destruct u; simpl; lia. Qed.
(* digits: appending a digit multiplies by ten and adds it *)
Lemma digits_app a b acc : digits (a ++ b) acc = match digits a acc with Some n => digits b n | None => None end.
Proof. revert acc; induction a as [|d a IH]; intros acc; simpl; auto. destruct (is_digit d); auto. Qed.
Theorem digits_snoc l d acc n : digits l acc = Some n -> is_digit d = true -> digits (l ++ [d]) acc = Some (n * 10 + Z.of_nat (d - 48)).
Proof. intros H Hd. rewrite digits_app, H. simpl. now rewrite Hd. Qed.
