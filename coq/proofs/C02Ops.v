(* C02, continued: the operations built on the core keep the invariant *)
From Coq Require Import List Arith ZArith Bool Lia.
Import ListNotations.
From Acts.Gen Require Import GenState.
From Acts.Model Require Import Engine Oracles.
From Acts.Proofs Require Import EngineBasics TimeoutInv ReviveInv LogInv C02Core C05Proofs.
Global Arguments emit : simpl never.
Global Arguments emit_error : simpl never.
Global Arguments next : simpl never.
Global Arguments review : simpl never.
Global Arguments exec : simpl never.
Global Arguments fuel_of : simpl never.

Lemma In_firstn' {A} (x : A) n l : In x (firstn n l) -> In x l.
Proof. revert l; induction n as [|n IH]; intros [|y l]; simpl; auto; try tauto. intros [<- | H]; auto. Qed.
Lemma In_skipn' {A} (x : A) n l : In x (skipn n l) -> In x l.
Proof. revert l; induction n as [|n IH]; intros [|y l]; simpl; auto. Qed.
Lemma sched_pick_J e k : J e -> G e (sched_pick e k).
Proof.
  intros HJ. unfold sched_pick. destruct (nth_error (queue e) k) as [i|] eqn:En; [|now apply G_refl].
  set (q' := i :: firstn k (queue e) ++ skipn (S k) (queue e)).
  assert (Jq : J (with_queue e q')).
  { apply J_with_queue; auto. intros x [<- | Hx]; [eapply nth_error_In; eauto|].
    apply in_app_or in Hx as [Hx | Hx]; [eapply In_firstn'; eauto | eapply In_skipn'; eauto]. }
  eapply G_trans; [split; [exact Jq | unfold ntasks; simpl; lia]|]. now apply step_queue_J.
Qed.
Lemma drain_J n e : J e -> G e (drain n e).
Proof.
  revert e; induction n as [|n IH]; intros e HJ; simpl; [now apply G_refl|].
  destruct (queue e); [now apply G_refl|].
  eapply G_trans; [now apply step_queue_J|]. apply IH. now apply step_queue_J.
Qed.

(* ---- tick ---- *)
Lemma In_insert_by key x y l : In y (insert_by key x l) -> y = x \/ In y l.
Proof.
  induction l as [|z l IH]; simpl; [intros [<- | []]; auto|].
  destruct (Z.ltb _ _); simpl; [intros [<- | H]; auto|]. intros [<- | H]; auto. destruct (IH H); auto.
Qed.
Lemma In_sort_by key l y : In y (sort_by key l) -> In y l.
Proof.
  unfold sort_by. assert (H : forall l0 acc, In y (fold_left (fun acc x => insert_by key x acc) l0 acc) -> In y acc \/ In y l0).
  { induction l0 as [|x l0 IH]; simpl; auto. intros acc Hy. destruct (IH _ Hy) as [Ha | Ha]; auto.
    apply In_insert_by in Ha as [-> | Ha]; auto. }
  intros Hy. destruct (H l [] Hy) as [[] | Hl]; exact Hl.
Qed.
(* one firing keeps J *)
Lemma fire_J e t r : J e -> t < ntasks e ->
  rule_fires (clock e) (t_start (tk e t)) (t_tmo_done (tk e t)) (is_completed (st e t)) r = true -> G e (fire e t r).
Proof.
  intros ((HP & HQ & HW & HT & HR & HL) & HX & HQR) Ht Hr. split; [|unfold fire, add_tmo_done; rewrite ntasks_tmod; unfold ntasks; simpl; lia].
  split; [split; [|split; [|split; [|split; [|split]]]]|split].
  - unfold P, fire, add_tmo_done. cbn [trace tmod with_tasks add_ev with_trace]. rewrite forallb_app, HP. reflexivity.
  - intros x Hx. unfold fire, add_tmo_done, st in *. rewrite tk_tmod in *. cbn [tasks add_ev with_trace] in *.
    destruct (Nat.eqb x t && Nat.ltb t (length (tasks e))); [|now apply HQ]. simpl in *. now apply HQ.
  - unfold fire. apply W_tmod; auto.
  - now apply T_fire.
  - unfold fire, add_tmo_done. apply R_tmod; auto. apply R_add_ev; auto.
  - unfold fire, add_tmo_done. apply L_tmod; auto. apply L_add_ev; auto.
  - exact HX.
  - intros j Hj. unfold fire, add_tmo_done. rewrite ntasks_tmod. now apply HQR.
Qed.
Lemma do_tick_J e adv : J e -> G e (do_tick e adv).
Proof.
  intros HJ. unfold do_tick.
  set (e0 := with_clock e (clock e + adv)%Z).
  assert (G0 : G e e0) by (apply G_xext; auto; apply xext_with_clock).
  destruct (is (pstate e0) SRunning); [|exact G0].
  apply G_persist.
  apply (G_fold _ _ (fun t => t < ntasks e0)); [| |exact G0].
  - intros ee t Ht Gee.
    apply (G_fold _ _ (fun _ => True)); [|auto|exact Gee].
    intros ee2 r _ Gee2. destruct (rule_fires _ _ _ _ _) eqn:Er; [|exact Gee2].
    fold (fire ee2 t r).
    assert (Rt : t < ntasks ee2) by (destruct Gee2 as [_ L]; assert (E0 : ntasks e0 = ntasks e) by reflexivity; lia).
    assert (Gf : G ee2 (fire ee2 t r)) by (apply fire_J; [apply Gee2 | exact Rt | exact Er]).
    eapply G_trans; [exact Gee2|]. eapply G_trans; [exact Gf|]. apply G_xext; [apply Gf|]. apply xext_sched_nodes.
    destruct Gf; lia.
  - intros t Ht. apply In_sort_by in Ht. apply filter_In in Ht as [Ht _]. apply in_seq in Ht. unfold e0 in Ht. cbn [tasks with_clock] in Ht. unfold e0, ntasks. cbn [tasks with_clock]. lia.
Qed.

(* ---- the building blocks of the actions ---- *)
Lemma close_open_J site e l s : J e -> is_completed s = true -> (forall j, In j l -> j < ntasks e) -> G e (close_open site e l s).
Proof.
  intros HJ Hs Hl. unfold close_open. apply (G_fold _ _ (fun j => j < ntasks e)); [|exact Hl|now apply G_refl].
  intros ee j Hj Gee. destruct (is_completed (st ee j)) eqn:Ec; [exact Gee|].
  assert (Gs : G ee (set_state site ee j s)) by (apply G_set_state; [apply Gee | rewrite legal_to_terminal; auto]).
  eapply G_trans; [exact Gee|]. eapply G_trans; [exact Gs|]. apply mainE; [apply Gs | destruct Gee, Gs; lia].
Qed.
(* closing other tasks with a state that is not error leaves a task outside the list alone *)
Lemma close_open_st site e l s i : s <> SError -> (forall j, In j l -> j < ntasks e) -> ~ In i l ->
  st (close_open site e l s) i = st e i.
Proof.
  intros Hs. unfold close_open. revert e. induction l as [|j l IH]; intros e Hl Hi; simpl; auto.
  assert (Hj : j < ntasks e) by (apply Hl; now left).
  assert (Hij : i <> j) by (intros ->; apply Hi; now left).
  destruct (is_completed (st e j)).
  - apply IH; [intros; apply Hl; now right | intros H; apply Hi; now right].
  - set (e1 := set_state site e j s).
    assert (S1 : st e1 j <> SError).
    { unfold e1. destruct (st_set_state_same site e j s) as [-> | [Ho _]]; [exact Hs | unfold ntasks in Hj; lia]. }
    assert (X : xext e1 (emit (fuel_of e) e1 j)) by (apply emit_xext; [unfold e1; rewrite ntasks_set_state; exact Hj | exact S1]).
    rewrite IH.
    + rewrite (ext_st _ _ i (proj1 X)). unfold e1. now apply st_set_state_other.
    + intros x Hx. pose proof (ext_len _ _ (proj1 X)) as HL. assert (E1 : ntasks e1 = ntasks e) by apply ntasks_set_state.
      specialize (Hl x (or_intror Hx)). lia.
    + intros H; apply Hi; now right.
Qed.
Lemma abort_up_J f e p : J e -> (forall q, p = Some q -> q < ntasks e) -> G e (abort_up f e p).
Proof.
  revert e p; induction f as [|f IH]; intros e p HJ Hp; simpl; [now apply G_refl|].
  destruct p as [t|]; [|now apply G_refl]. specialize (Hp t eq_refl).
  set (e1 := if is_completed (st e t) then e else emit (fuel_of e) (set_state 28 e t SAborted) t).
  assert (G1 : G e e1).
  { unfold e1. destruct (is_completed (st e t)) eqn:Ec; [now apply G_refl|].
    assert (Gs : G e (set_state 28 e t SAborted)) by (apply G_set_state; auto; rewrite legal_to_terminal; auto).
    eapply G_trans; [exact Gs|]. apply mainE; [apply Gs | destruct Gs; lia]. }
  match goal with |- G e (abort_up f ?x _) => set (e2 := x) end.
  assert (G2 : G e1 e2).
  { unfold e2. apply (G_fold _ _ (fun c => c < ntasks e1)); [| |apply G_refl, G1].
    - intros ee c Hc Gee.
      destruct (is (st ee c) SPending) eqn:EP.
      + apply is_eq in EP. assert (Gs : G ee (set_state 29 ee c SSkipped)) by (apply G_set_state; [apply Gee | rewrite EP; reflexivity]).
        eapply G_trans; [exact Gee|]. eapply G_trans; [exact Gs|]. apply mainE; [apply Gs | destruct Gee, Gs; lia].
      + destruct (is (st ee c) SRunning) eqn:ER; [|exact Gee].
        apply is_eq in ER. assert (Gs : G ee (set_state 29 ee c SAborted)) by (apply G_set_state; [apply Gee | rewrite ER; reflexivity]).
        eapply G_trans; [exact Gee|]. eapply G_trans; [exact Gs|]. apply mainE; [apply Gs | destruct Gee, Gs; lia].
    - intros c Hc. eapply children_lt; eauto. }
  eapply G_trans; [exact G1|]. eapply G_trans; [exact G2|]. apply IH; [apply G2|].
  intros q Hq. destruct G2 as [((_ & _ & HW & _) & _) L2]. destruct G1 as [_ L1].
  apply parent_lt in Hq; auto; lia.
Qed.
Lemma abort_sweep_J e skip : J e -> G e (abort_sweep e skip).
Proof.
  intros HJ. unfold abort_sweep. apply (G_fold _ _ (fun t => t < ntasks e)); [| |now apply G_refl].
  - intros ee t Ht Gee. destruct (is_completed (st ee t) || existsb (Nat.eqb t) skip) eqn:Ec; [exact Gee|].
    apply orb_false_iff in Ec as [Ec _].
    assert (Gs : G ee (set_state 30 ee t (if is (st ee t) SRunning then SAborted else SSkipped))).
    { apply G_set_state; [apply Gee|]. rewrite legal_to_terminal; auto. destruct (is _ _); reflexivity. }
    eapply G_trans; [exact Gee|]. eapply G_trans; [exact Gs|]. apply mainE; [apply Gs | destruct Gee, Gs; lia].
  - intros t Ht. apply in_seq in Ht. unfold ntasks. lia.
Qed.
Lemma mark_path_J e path : J e -> (forall p, In p path -> p < ntasks e) -> G e (mark_path e path).
Proof.
  intros HJ Hp. unfold mark_path. apply (G_fold _ _ (fun p => p < ntasks e)); [|exact Hp|now apply G_refl].
  intros ee p Hpp Gee.
  destruct (is (st ee p) SRunning) eqn:ER.
  - apply is_eq in ER. assert (Gs : G ee (set_state 36 ee p SCompleted)) by (apply G_set_state; [apply Gee | rewrite ER; reflexivity]).
    eapply G_trans; [exact Gee|]. eapply G_trans; [exact Gs|]. apply mainE; [apply Gs | destruct Gee, Gs; lia].
  - destruct (is (st ee p) SPending) eqn:EP; [|exact Gee].
    apply is_eq in EP. assert (Gs : G ee (set_state 36 ee p SSkipped)) by (apply G_set_state; [apply Gee | rewrite EP; reflexivity]).
    eapply G_trans; [exact Gee|]. eapply G_trans; [exact Gs|]. apply mainE; [apply Gs | destruct Gee, Gs; lia].
Qed.

Lemma G_W e e' : G e e' -> W e'. Proof. intros [((_ & _ & HW & _) & _) _]. exact HW. Qed.

(* ---- structure needed by error, back and cancel ---- *)
Lemma children_prev e i j : In j (children e i) -> t_prev (tk e j) = Some i.
Proof.
  unfold children. intros H. apply filter_In in H as [_ H].
  destruct (t_prev (tk e j)) as [p|]; [|discriminate]. apply Nat.eqb_eq in H. now subst.
Qed.
Lemma children_gt e i j : W e -> In j (children e i) -> i < j.
Proof.
  intros HW H. pose proof (children_lt _ _ _ H) as Hj. specialize (HW j Hj). now rewrite (children_prev _ _ _ H) in HW.
Qed.
Lemma not_sibling_of_parent e i p : W e -> i < ntasks e -> parent e i = Some p -> ~ In i (siblings e p).
Proof.
  intros HW Hi Hp Hin. unfold siblings in Hin.
  destruct (parent e p) as [g|] eqn:Eg; [|exact Hin].
  apply filter_In in Hin as [Hin _].
  pose proof (children_prev _ _ _ Hin) as Hprev.
  assert (Hpi : p < i) by (eapply parent_lt; eauto).
  assert (Hgp : g < p) by (eapply parent_lt; eauto; lia).
  unfold parent in Hp. rewrite Hprev in Hp.
  assert (p <= g) by (eapply parent_from_le; eauto; lia). lia.
Qed.
Lemma backs_range e to : W e -> forall f p path r path',
  (forall q, p = Some q -> q < ntasks e) -> (forall x, In x path -> x < ntasks e) ->
  backs f e to p path = (r, path') -> (forall t, r = Some t -> t < ntasks e) /\ (forall x, In x path' -> x < ntasks e).
Proof.
  intros HW. induction f as [|f IH]; intros p path r path' Hp Hpath H; simpl in H.
  - inversion H; subst. split; [discriminate | exact Hpath].
  - destruct p as [q|]; [|inversion H; subst; split; [discriminate | exact Hpath]].
    specialize (Hp q eq_refl).
    destruct (nkind_beq (kind e q) KStep && Nat.eqb (n_id (tnode e q)) to).
    + inversion H; subst. split; [intros t Ht; inversion Ht; subst; exact Hp | exact Hpath].
    + eapply IH; [| |exact H].
      * intros q' Hq'. specialize (HW q Hp). rewrite Hq' in HW. lia.
      * intros x Hx. destruct (_ || _); [|auto]. apply in_app_or in Hx as [Hx | [<- | []]]; auto.
Qed.
Lemma follows_range e : forall f i path r path', (forall x, In x path -> x < ntasks e) ->
  follows f e i path = (r, path') -> (forall x, In x r -> x < ntasks e) /\ (forall x, In x path' -> x < ntasks e).
Proof.
  induction f as [|f IH]; intros i path r path' Hpath H; simpl in H.
  - inversion H; subst. split; [intros x [] | exact Hpath].
  - revert H. generalize (children_lt e i). generalize (children e i) as l.
    assert (Hgen : forall l (acc : list nat * list nat), (forall j, In j l -> j < ntasks e) ->
       (forall x, In x (fst acc) -> x < ntasks e) -> (forall x, In x (snd acc) -> x < ntasks e) ->
       forall r0 p0, fold_left (fun (acc : list nat * list nat) c =>
          let '(ret, pth) := acc in
          let isacts := existsb (fun j => nkind_beq (kind e j) KAct) (children e c) in
          if nkind_beq (kind e c) KStep && isacts then (ret ++ [c], pth)
          else
            let pth' := if is (st e c) SRunning || is (st e c) SPending then pth ++ [c] else pth in
            let '(r2, p2) := follows f e c pth' in
            (ret ++ r2, p2)) l acc = (r0, p0) ->
       (forall x, In x r0 -> x < ntasks e) /\ (forall x, In x p0 -> x < ntasks e)).
    { induction l as [|c l IHl]; intros [ret pth] Hl Hr Hp r0 p0 Hf; simpl in Hf.
      - inversion Hf; subst. split; assumption.
      - assert (Hc : c < ntasks e) by (apply Hl; now left).
        destruct (nkind_beq (kind e c) KStep && existsb (fun j => nkind_beq (kind e j) KAct) (children e c)).
        + eapply IHl; [intros; apply Hl; now right | | |exact Hf]; simpl in *.
          * intros x Hx. apply in_app_or in Hx as [Hx | [<- | []]]; auto.
          * exact Hp.
        + destruct (follows f e c (if is (st e c) SRunning || is (st e c) SPending then pth ++ [c] else pth)) as [r2 p2] eqn:Ef.
          apply IH in Ef as [Hr2 Hp2].
          * eapply IHl; [intros; apply Hl; now right | | |exact Hf]; simpl in *.
            -- intros x Hx. apply in_app_or in Hx as [Hx | Hx]; auto.
            -- exact Hp2.
          * intros x Hx. simpl in Hp. destruct (_ || _); [|auto]. apply in_app_or in Hx as [Hx | [<- | []]]; auto. }
    intros l Hl Hf. apply (Hgen l ([], path) Hl); [cbn [fst]; intros x [] | exact Hpath | exact Hf].
Qed.

(* undo_task's sweep over the descendants of nx: it cancels tasks created after nx only *)
Lemma undo_children_J nx : forall f e l, J e -> (forall j, In j l -> nx < j /\ j < ntasks e) ->
  G e (undo_children f e l) /\ st (undo_children f e l) nx = st e nx.
Proof.
  induction f as [|f IH]; intros e l HJ Hl; simpl; [split; [now apply G_refl | reflexivity]|].
  destruct l as [|j0 l0]; [split; [now apply G_refl | reflexivity]|].
  set (l := j0 :: l0) in *.
  match goal with |- context [fold_left ?g l (e, [])] => set (gg := g) end.
  assert (Hfold : forall l1 (acc : eng * list nat),
            (forall j, In j l1 -> nx < j /\ j < ntasks e) -> G e (fst acc) -> st (fst acc) nx = st e nx ->
            (forall x, In x (snd acc) -> nx < x /\ x < ntasks (fst acc)) ->
            G e (fst (fold_left gg l1 acc)) /\ st (fst (fold_left gg l1 acc)) nx = st e nx /\
            (forall x, In x (snd (fold_left gg l1 acc)) -> nx < x /\ x < ntasks (fst (fold_left gg l1 acc)))).
  { induction l1 as [|t l1 IHl]; intros [ee nxs] Hl1 Gee See Hnx; cbn [fst snd] in Gee, See, Hnx; cbn [fold_left]; [auto|].
    apply IHl; [intros; apply Hl1; now right | | |]; unfold gg; cbn beta iota; cbn [fst snd].
    - destruct (is_completed (st ee t)) eqn:Ec; cbn [fst snd]; [exact Gee|].
      assert (Gs : G ee (set_state 37 ee t SCancelled)) by (apply G_set_state; [apply Gee | rewrite legal_to_terminal; auto]).
      eapply G_trans; [exact Gee|]. eapply G_trans; [exact Gs|]. apply mainE; [apply Gs|].
      destruct (Hl1 t (or_introl eq_refl)). destruct Gee, Gs; lia.
    - destruct (is_completed (st ee t)) eqn:Ec; cbn [fst snd]; [exact See|].
      destruct (Hl1 t (or_introl eq_refl)) as [Hgt Hlt].
      set (e1 := set_state 37 ee t SCancelled).
      assert (Rt : t < ntasks e1) by (unfold e1; rewrite ntasks_set_state; destruct Gee; lia).
      assert (S1 : st e1 t <> SError).
      { unfold e1. destruct (st_set_state_same 37 ee t SCancelled) as [-> | [Ho _]]; [discriminate|].
        unfold e1 in Rt. rewrite ntasks_set_state in Rt. unfold ntasks in Rt. lia. }
      rewrite (ext_st _ _ nx (proj1 (emit_xext (fuel_of ee) e1 t Rt S1))).
      unfold e1. rewrite st_set_state_other by lia. exact See.
    - destruct (is_completed (st ee t)) eqn:Ec; cbn [fst snd]; [exact Hnx|].
      destruct (Hl1 t (or_introl eq_refl)) as [Hgt Hlt].
      set (e1 := set_state 37 ee t SCancelled).
      assert (Gs : G ee e1) by (apply G_set_state; [apply Gee | rewrite legal_to_terminal; auto]).
      assert (Rt : t < ntasks e1) by (destruct Gee, Gs; lia).
      assert (Ge : G e1 (emit (fuel_of ee) e1 t)) by (apply mainE; [apply Gs | exact Rt]).
      intros x Hx. apply in_app_or in Hx as [Hx | Hx].
      + destruct (Hnx x Hx). split; [assumption|]. destruct Gs, Ge; lia.
      + split; [|eapply children_lt; eauto].
        assert (t < x) by (apply (children_gt _ _ _ (G_W _ _ Ge) Hx)). lia. }
  destruct (Hfold l (e, []) Hl (G_refl e HJ) eq_refl ltac:(intros x [])) as (Gf & Sf & Nf).
  destruct (fold_left gg l (e, [])) as [e' nexts] eqn:Ef. cbn [fst snd] in *.
  destruct (IH e' nexts (proj1 Gf) Nf) as [Gr Sr].
  split; [eapply G_trans; eauto | congruence].
Qed.

Lemma ret_J e e' : G e e' -> forall b, G e (add_ev e' (EAct b)).
Proof. intros Gee b. eapply G_trans; [exact Gee|]. apply G_xext; [apply Gee | now apply xext_add_ev]. Qed.
Lemma ret_err_J e e' : G e e' -> G e (ret_err e').
Proof. intros H. now apply ret_J. Qed.
Lemma ret_ok_J e e' : G e e' -> G e (ret_ok e').
Proof. intros H. unfold ret_ok. apply ret_J. now apply G_persist. Qed.
Ltac ret_tac := match goal with
  | |- G _ (ret_ok _) => apply ret_ok_J
  | |- G _ (ret_err _) => apply ret_err_J
  end.

(* Task::update for an admitted action *)
Lemma perform_J e i a cv : J e -> i < ntasks e -> (is_cancel a = false -> is_completed (st e i) = false) -> G e (perform e i a cv).
Proof.
  intros HJ Hi Hopen. pose proof HJ as ((_ & _ & HW & _) & _).
  assert (Hnext : forall site s, is_completed s = true -> is_completed (st e i) = false -> G e (next (fuel_of e) cv (set_state site e i s) i)).
  { intros site s Hs Ho.
    assert (Gs : G e (set_state site e i s)) by (apply G_set_state; auto; rewrite legal_to_terminal; auto).
    eapply G_trans; [exact Gs|]. apply mainN; [apply Gs | destruct Gs; lia]. }
  destruct a; unfold perform; cbv zeta.
  - (* next *) ret_tac; apply Hnext; auto.
  - ret_tac; apply Hnext; auto.
  - ret_tac; apply Hnext; auto.
  - (* skip *)
    specialize (Hopen eq_refl).
    set (e1 := close_open 26 e (siblings e i) SSkipped).
    assert (G1 : G e e1) by (apply close_open_J; auto; intros j Hj; eapply siblings_lt; eauto).
    assert (S1 : st e1 i = st e i).
    { apply close_open_st; [discriminate | intros j Hj; eapply siblings_lt; eauto | intros Hin; now apply siblings_ne in Hin]. }
    ret_tac.
    assert (Gs : G e1 (set_state 25 e1 i SSkipped)) by (apply G_set_state; [apply G1 | rewrite S1, legal_to_terminal; auto]).
    eapply G_trans; [exact G1|]. eapply G_trans; [exact Gs|]. apply mainN; [apply Gs | destruct G1, Gs; lia].
  - (* abort *)
    specialize (Hopen eq_refl).
    set (e1 := close_open 26 e (siblings e i) SSkipped).
    assert (G1 : G e e1) by (apply close_open_J; auto; intros j Hj; eapply siblings_lt; eauto).
    assert (S1 : st e1 i = st e i).
    { apply close_open_st; [discriminate | intros j Hj; eapply siblings_lt; eauto | intros Hin; now apply siblings_ne in Hin]. }
    ret_tac.
    assert (Gs : G e1 (set_state 27 e1 i SAborted)) by (apply G_set_state; [apply G1 | rewrite S1, legal_to_terminal; auto]).
    assert (Gd : G e1 (set_data (set_state 27 e1 i SAborted) i cv)).
    { eapply G_trans; [exact Gs|]. apply G_xext; [apply Gs | apply xext_set_data]. }
    set (e2 := emit (fuel_of e1) (set_data (set_state 27 e1 i SAborted) i cv) i).
    assert (G2 : G e1 e2) by (eapply G_trans; [exact Gd|]; apply mainE; [apply Gd | destruct G1, Gd; lia]).
    set (e3 := abort_sweep e2 (ancestors (S (length (tasks e2))) e2 (parent e2 i))).
    assert (G3 : G e2 e3) by (apply abort_sweep_J, G2).
    eapply G_trans; [exact G1|]. eapply G_trans; [exact G2|]. eapply G_trans; [exact G3|].
    apply abort_up_J; [apply G3|]. intros q Hq.
    destruct G3 as [((_ & _ & HW3 & _) & _) L3]. apply parent_lt in Hq; auto; destruct G1, G2; lia.
  - (* error *)
    destruct code as [c|]; [|ret_tac; now apply G_refl].
    specialize (Hopen eq_refl).
    destruct (parent e i) as [p|] eqn:Ep; [|ret_tac; now apply G_refl].
    set (e1 := close_open 32 e (siblings e p) SSkipped).
    assert (G1 : G e e1) by (apply close_open_J; auto; intros j Hj; eapply siblings_lt; eauto).
    assert (S1 : st e1 i = st e i).
    { apply close_open_st; [discriminate | intros j Hj; eapply siblings_lt; eauto | eapply not_sibling_of_parent; eauto]. }
    ret_tac.
    assert (Gs : G e1 (set_err 31 e1 i c)) by (apply G_set_err; [apply G1 | rewrite S1; apply legal_to_terminal; auto]).
    assert (Gd : G e1 (set_data (set_err 31 e1 i c) i cv)).
    { eapply G_trans; [exact Gs|]. apply G_xext; [apply Gs | apply xext_set_data]. }
    eapply G_trans; [exact G1|]. eapply G_trans; [exact Gd|]. apply mainEE; [apply Gd | destruct G1, Gd; lia].
  - (* back *)
    destruct to as [nid|]; [|ret_tac; now apply G_refl].
    specialize (Hopen eq_refl).
    destruct (backs (S (length (tasks e))) e nid (t_prev (tk e i)) []) as [[t|] path] eqn:Eb; [|ret_tac; now apply G_refl].
    assert (Hp0 : forall q, t_prev (tk e i) = Some q -> q < ntasks e) by (intros q Hq; specialize (HW i Hi); rewrite Hq in HW; lia).
    assert (Hn0 : forall x : nat, In x [] -> x < ntasks e) by (intros x []).
    destruct (backs_range e nid HW (S (length (tasks e))) (t_prev (tk e i)) [] (Some t) path Hp0 Hn0 Eb) as [Ht Hpath].
    specialize (Ht t eq_refl).
    set (e1 := close_open 34 e (siblings e i) SSkipped).
    assert (G1 : G e e1) by (apply close_open_J; auto; intros j Hj; eapply siblings_lt; eauto).
    assert (S1 : st e1 i = st e i).
    { apply close_open_st; [discriminate | intros j Hj; eapply siblings_lt; eauto | intros Hin; now apply siblings_ne in Hin]. }
    assert (Gs : G e1 (set_state 33 e1 i SBacked)) by (apply G_set_state; [apply G1 | rewrite S1, legal_to_terminal; auto]).
    set (e2 := emit (fuel_of e1) (set_state 33 e1 i SBacked) i).
    assert (G2 : G e1 e2) by (eapply G_trans; [exact Gs|]; apply mainE; [apply Gs | destruct G1, Gs; lia]).
    match goal with |- G e (ret_ok (redo (mark_path ?x path) t)) => set (e3 := x) end.
    assert (G3 : G e2 e3).
    { unfold e3. destruct (climb_to _ _ _ _) as [p|] eqn:Ec; [|apply G_refl, G2].
      destruct (is_completed (st e2 p)) eqn:Ecp; [apply G_refl, G2|].
      assert (Rp : p < ntasks e2).
      { destruct G2 as [((_ & _ & HW2 & _) & _) L2]. eapply climb_to_lt; [exact HW2 | | exact Ec].
        intros q Hq. apply parent_lt in Hq; auto; destruct G1; lia. }
      assert (Gp : G e2 (set_state 35 e2 p SBacked)) by (apply G_set_state; [apply G2 | rewrite legal_to_terminal; auto]).
      eapply G_trans; [exact Gp|]. apply mainE; [apply Gp | destruct Gp; lia]. }
    assert (L13 : ntasks e <= ntasks e3) by (destruct G1, G2, G3; lia).
    assert (G4 : G e3 (mark_path e3 path)) by (apply mark_path_J; [apply G3 | intros x Hx; specialize (Hpath x Hx); lia]).
    ret_tac. eapply G_trans; [exact G1|]. eapply G_trans; [exact G2|]. eapply G_trans; [exact G3|]. eapply G_trans; [exact G4|].
    apply G_xext; [apply G4|]. destruct G4 as [J4 L4]. apply xext_redo; [apply J4 | lia].
  - (* cancel *)
    destruct (climb_step e i) as [s|] eqn:Es; [|ret_tac; now apply G_refl].
    assert (Rs : s < ntasks e) by (eapply climb_step_lt; eauto).
    destruct (negb (is (st e s) SCompleted)); [ret_tac; now apply G_refl|].
    destruct (follows (S (length (tasks e))) e s []) as [nexts path] eqn:Ef.
    assert (Hn0 : forall x : nat, In x [] -> x < ntasks e) by (intros x []).
    destruct (follows_range e (S (length (tasks e))) s [] nexts path Hn0 Ef) as [Hnexts Hpath].
    destruct nexts as [|n0 ns]; [ret_tac; now apply G_refl|].
    set (nexts := n0 :: ns) in *.
    set (e1 := mark_path e path).
    assert (G1 : G e e1) by (apply mark_path_J; auto).
    match goal with |- G e (let '(e2, failed) := fold_left ?g nexts (e1, false) in _) =>
      assert (HF : G e1 (fst (fold_left g nexts (e1, false)))); [|destruct (fold_left g nexts (e1, false)) as [e2 failed]] end.
    { assert (Hgen : forall l (acc : eng * bool), (forall x, In x l -> x < ntasks e1) -> G e1 (fst acc) ->
         G e1 (fst (fold_left (fun (acc : eng * bool) nx =>
            let '(ee, fl) := acc in
            if fl then acc
            else if is_completed (st ee nx) then (ee, true)
            else
              let ee1 := undo_children (S (length (tasks ee))) ee (children ee nx) in
              (emit (fuel_of ee1) (set_state 38 ee1 nx SCompleted) nx, false)) l acc))).
      { induction l as [|nx l IHl]; intros [ee fl] Hl Gee; cbn [fold_left]; [exact Gee|].
        cbn [fst] in Gee. apply IHl; [intros; apply Hl; now right|].
        destruct fl; [exact Gee|].
        destruct (is_completed (st ee nx)) eqn:Ec; [exact Gee|]. cbv zeta. cbn [fst].
        assert (Rnx : nx < ntasks ee) by (specialize (Hl nx (or_introl eq_refl)); destruct Gee; lia).
        destruct (undo_children_J nx (S (length (tasks ee))) ee (children ee nx) (proj1 Gee)) as [Gu Su].
        { intros j Hj. split; [apply (children_gt ee nx j (G_W _ _ Gee) Hj) | eapply children_lt; eauto]. }
        set (ee1 := undo_children (S (length (tasks ee))) ee (children ee nx)) in *.
        assert (Gs : G ee1 (set_state 38 ee1 nx SCompleted)) by (apply G_set_state; [apply Gu | rewrite Su, legal_to_terminal; auto]).
        eapply G_trans; [exact Gee|]. eapply G_trans; [exact Gu|]. eapply G_trans; [exact Gs|].
        apply mainE; [apply Gs | destruct Gu, Gs; lia]. }
      apply Hgen; [intros x Hx; specialize (Hnexts x Hx); destruct G1; lia | apply G_refl, G1]. }
    cbn [fst] in HF.
    destruct failed; [ret_tac; eapply G_trans; eauto|].
    ret_tac. eapply G_trans; [exact G1|]. eapply G_trans; [exact HF|].
    apply G_xext; [apply HF|]. destruct HF as [J2 L2]. apply xext_redo; [apply J2 | destruct G1; lia].
  - (* push *)
    destruct (negb uses_ok); [ret_tac; now apply G_refl|].
    set (e1 := with_nodes e (nodes e ++ [mk_dyn (S (n_level (tnode e i))) dspec])).
    assert (G1 : G e e1) by (apply G_xext; auto; apply xext_with_nodes).
    destruct (is (st e1 i) SNone); ret_tac; [exact G1|].
    eapply G_trans; [exact G1|]. apply G_xext; [apply G1|]. apply xext_sched. destruct G1; lia.
Qed.

Lemma do_action_J e i a opts : J e -> G e (do_action e i a opts).
Proof.
  intros HJ. unfold do_action. destruct (admission e i a opts) as [[cv a']|] eqn:A.
  - assert (Ha : i < ntasks e /\ (is_cancel a' = false -> is_completed (st e i) = false)).
    { destruct (admission_some _ _ _ _ _ _ A) as (_ & Hi & _ & _ & Hopen).
      split; [exact Hi|]. intros Hc. apply Hopen. rewrite <- (admission_cancel _ _ _ _ _ _ A). exact Hc. }
    apply perform_J; tauto.
  - apply G_xext; auto. now apply xext_add_ev.
Qed.

Lemma apply_op_J e o : J e -> G e (apply_op e o).
Proof.
  intros HJ. destruct o; cbn [apply_op].
  - now apply sched_pick_J.
  - eapply G_trans; [now apply drain_J|]. apply G_xext; [now apply drain_J | now apply xext_add_ev].
  - now apply do_action_J.
  - now apply do_tick_J.
Qed.

Lemma start_J ns c0 : J (start ns c0).
Proof.
  split; [split; [|split; [|split; [|split; [|split]]]]|split].
  - reflexivity.
  - intros t Ht. unfold start, tk in Ht; cbn in Ht. destruct t as [|[|t]]; cbn in Ht; congruence.
  - intros t Ht. unfold ntasks, start in Ht; cbn in Ht. assert (t = 0) by lia. subst. cbn. exact I.
  - split; [reflexivity | split; [constructor | intros t on []]].
  - split; [constructor | intros t []].
  - split; [reflexivity | intros t; unfold start, st, tk; cbn; destruct t as [|[|t]]; reflexivity].
  - reflexivity.
  - intros i [<- | []]. unfold ntasks, start; cbn. lia.
Qed.

Theorem run_J ns c0 ops : J (run ns c0 ops).
Proof.
  unfold run. assert (H : forall e, J e -> J (fold_left apply_op ops e)).
  { induction ops as [|o ops IH]; intros e HJ; cbn [fold_left]; auto. apply IH. now apply apply_op_J. }
  apply H, start_J.
Qed.

(* every state write of every run is a legal forward transition or the revival of an errored task *)
Theorem all_transitions_legal ns c0 ops t o n a site :
  In (ETrans t o n a site) (trace (run ns c0 ops)) -> legal o n = true \/ revive o n = true.
Proof.
  intros Hin. destruct (run_J ns c0 ops) as ((HP & _) & _). unfold P in HP. rewrite forallb_forall in HP.
  specialize (HP _ Hin). simpl in HP. now apply orb_true_iff in HP.
Qed.

Lemma legal_meaning o n : legal o n = true -> stage o <= stage n /\ (is_completed o = true -> n = o).
Proof.
  intros H. destruct o, n; simpl in *; try discriminate; split; auto; try lia; try discriminate; try reflexivity.
Qed.
Lemma terminal_final ns c0 ops t o n a s :
  In (ETrans t o n a s) (trace (run ns c0 ops)) -> is_completed o = true -> n = o \/ (o = SError /\ n = SRunning).
Proof.
  intros Hin Hc. destruct (all_transitions_legal _ _ _ _ _ _ _ _ Hin) as [H | H].
  - left. now apply legal_meaning.
  - right. unfold revive in H. apply andb_true_iff in H as [H1 H2]. split; now apply internal_TaskState_dec_bl.
Qed.

(* C06: an error code is only ever stored on a task in the error state *)
Theorem error_only_with_error_state ns c0 ops t : t_err (tk (run ns c0 ops) t) <> None -> st (run ns c0 ops) t = SError.
Proof. destruct (run_J ns c0 ops) as ((_ & HQ & _) & _). apply HQ. Qed.

(* no task is revived twice: the trace of a run never holds two revival events of one task *)
Theorem revived_at_most_once ns c0 ops t l1 l2 l3 a1 s1 a2 s2 :
  trace (run ns c0 ops) = l1 ++ ETrans t SError SRunning a1 s1 :: l2 ++ ETrans t SError SRunning a2 s2 :: l3 -> False.
Proof.
  destruct (run_J ns c0 ops) as ((_ & _ & _ & _ & (HN & _) & _) & _). now apply no_second_revival.
Qed.
(* a revived task carries the mark of its catch *)
Theorem revived_is_marked ns c0 ops t a s :
  In (ETrans t SError SRunning a s) (trace (run ns c0 ops)) -> t_catch_done (tk (run ns c0 ops) t) = true.
Proof.
  intros Hin. destruct (run_J ns c0 ops) as ((_ & _ & _ & _ & (_ & HM) & _) & _). apply HM.
  apply revivals_In. exists SError, SRunning, a, s. split; auto.
Qed.

(* the trace is a faithful log of the task states *)
Theorem log_faithful ns c0 ops :
  logok c_none (trace (run ns c0 ops)) = true /\ forall t, cur c_none (trace (run ns c0 ops)) t = st (run ns c0 ops) t.
Proof. destruct (run_J ns c0 ops) as ((_ & _ & _ & _ & _ & HL) & _). exact HL. Qed.
(* every state write starts from the state the task really has: the one its last write gave it *)
Theorem write_from_current ns c0 ops l1 l2 t o n a s :
  trace (run ns c0 ops) = l1 ++ ETrans t o n a s :: l2 -> o = cur c_none l1 t.
Proof.
  intros E. destruct (log_faithful ns c0 ops) as [H _]. rewrite E in H. apply logok_at in H. simpl in H. now apply is_true_eq.
Qed.
(* every message reports the state its task has when it is sent, and that state is neither pending nor running *)
Theorem message_reports_current ns c0 ops l1 l2 t s i o :
  trace (run ns c0 ops) = l1 ++ EMsg t s i o :: l2 -> s = cur c_none l1 t /\ s <> SPending /\ s <> SRunning.
Proof.
  intros E. destruct (log_faithful ns c0 ops) as [H _]. rewrite E in H. apply logok_at in H. simpl in H.
  apply andb_true_iff in H as [H H3]. apply andb_true_iff in H as [H1 H2]. split; [now apply is_true_eq|].
  split; intros ->; simpl in *; discriminate.
Qed.

(* the state history of a task, read off the log: between two points of a run without a revival of the
   task in between, its stage never decreases and a terminal state is kept *)
Lemma history_forward tr : forall c t, logok c tr = true -> forallb legal_ev tr = true -> ~ In t (revivals tr) ->
  stage (c t) <= stage (cur c tr t) /\ (is_completed (c t) = true -> cur c tr t = c t).
Proof.
  induction tr as [|x tr IH]; intros c t Hl Hp Hr; [simpl; split; auto|].
  cbn [logok forallb cur] in *.
  apply andb_true_iff in Hl as [Hx Hl]. apply andb_true_iff in Hp as [Px Pp].
  assert (Hr' : ~ In t (revivals tr)).
  { intros Hin. apply Hr. destruct x; cbn [revivals]; auto. destruct (revive _ _); [now right | exact Hin]. }
  destruct (IH (cstep c x) t Hl Pp Hr') as [I1 I2].
  assert (Hs : stage (c t) <= stage (cstep c x t) /\ (is_completed (c t) = true -> cstep c x t = c t)).
  { destruct x as [| t' o n a s | | | | | |]; try (simpl; split; auto; fail).
    cbn [cstep]. destruct (Nat.eqb_spec t t') as [<- | Hne]; [|split; auto].
    cbn [evok] in Hx. apply is_true_eq in Hx. subst o. cbn [legal_ev] in Px.
    destruct (revive (c t) n) eqn:Er.
    - exfalso. apply Hr. cbn [revivals]. rewrite Er. now left.
    - rewrite orb_false_r in Px. now apply legal_meaning. }
  destruct Hs as [S1 S2]. split; [lia|].
  intros Hc. rewrite I2; [now apply S2 | now rewrite S2].
Qed.
Theorem states_only_move_forward ns c0 ops l1 l2 t :
  trace (run ns c0 ops) = l1 ++ l2 -> ~ In t (revivals l2) ->
  stage (cur c_none l1 t) <= stage (st (run ns c0 ops) t) /\
  (is_completed (cur c_none l1 t) = true -> st (run ns c0 ops) t = cur c_none l1 t).
Proof.
  intros E Hr. destruct (log_faithful ns c0 ops) as [Hl Hc].
  destruct (run_J ns c0 ops) as ((HP & _) & _). unfold P in HP. rewrite E in Hl, HP.
  rewrite logok_app in Hl. apply andb_true_iff in Hl as [_ Hl]. rewrite forallb_app in HP. apply andb_true_iff in HP as [_ HP].
  rewrite <- Hc, E, cur_app. now apply history_forward.
Qed.
