(* The trace only grows: whatever the engine does, the events already logged stay where they are.  Unconditional
   (no invariant is needed), by induction over the fuel of the engine's recursive core. *)
From Coq Require Import List Arith ZArith Bool Lia.
Import ListNotations.
From Acts.Gen Require Import GenState.
From Acts.Model Require Import Engine.
From Acts.Proofs Require Import EngineBasics.

Definition pre (e e' : eng) : Prop := exists l, trace e' = trace e ++ l.
Lemma pre_refl e : pre e e. Proof. exists []. now rewrite app_nil_r. Qed.
Lemma pre_trans a b c : pre a b -> pre b c -> pre a c.
Proof. intros [l1 H1] [l2 H2]. exists (l1 ++ l2). now rewrite H2, H1, app_assoc. Qed.
Lemma pre_eq e e' : trace e' = trace e -> pre e e'. Proof. intros H. exists []. now rewrite app_nil_r. Qed.
Lemma pre_ext e e' : ext e e' -> pre e e'. Proof. intros (_ & (l & Tl & _) & _). now exists l. Qed.
Lemma pre_add_ev e x : pre e (add_ev e x). Proof. now exists [x]. Qed.
Lemma pre_set_state site e i s : pre e (set_state site e i s).
Proof.
  destruct (Nat.lt_ge_cases i (length (tasks e))) as [H | H]; [|rewrite set_state_oob by exact H; apply pre_refl].
  eexists. now apply trace_set_state.
Qed.
Lemma pre_tmod e i f : pre e (tmod e i f). Proof. now apply pre_eq. Qed.
Lemma pre_set_err site e i c : pre e (set_err site e i c).
Proof. unfold set_err. eapply pre_trans; [apply (pre_tmod e i) | apply pre_set_state]. Qed.
Lemma pre_sched_v v e n p : pre e (sched_v v e n p). Proof. unfold sched_v. eexists. reflexivity. Qed.
Lemma pre_sched e n p : pre e (sched e n p). Proof. apply pre_sched_v. Qed.
Lemma pre_sched_next e n p : pre e (sched_next e n p). Proof. apply pre_sched_v. Qed.
Lemma pre_fold {B} (g : eng -> B -> eng) l : (forall e b, pre e (g e b)) -> forall e, pre e (fold_left g l e).
Proof. intros H. induction l as [|b l IH]; intros e; simpl; [apply pre_refl|]. eapply pre_trans; [apply H | apply IH]. Qed.
Lemma pre_sched_nodes e l i : pre e (sched_nodes e l i).
Proof. unfold sched_nodes. apply pre_fold. intros; apply pre_sched. Qed.
Lemma pre_upsert e i : pre e (upsert e i). Proof. now apply pre_eq. Qed.
Lemma pre_persist e : pre e (persist e). Proof. now apply pre_eq. Qed.
Lemma pre_set_data e i v : pre e (set_data e i v). Proof. apply pre_tmod. Qed.
Lemma pre_update_data e i v : pre e (update_data e i v).
Proof.
  unfold update_data. eapply pre_trans; [|apply pre_set_data]. apply pre_fold. intros ee kv.
  destruct (pri_regex _); [apply pre_refl|]. destruct (find _ _); [apply pre_set_data | apply pre_refl].
Qed.
Lemma pre_dispatch_hook e i sp : pre e (dispatch_hook e i sp).
Proof.
  unfold dispatch_hook. cbv zeta. destruct (is _ SNone); [now apply pre_eq|].
  eapply pre_trans; [|apply pre_tmod]. eapply pre_trans; [|apply pre_sched]. now apply pre_eq.
Qed.
Lemma pre_run_stmt_hooks e t ev i : pre e (run_stmt_hooks e t ev i).
Proof. unfold run_stmt_hooks. apply pre_fold. intros ee h. destruct (levt_beq _ _); [apply pre_dispatch_hook | apply pre_refl]. Qed.
Lemma pre_is_ready e i : pre e (snd (is_ready e i)).
Proof.
  unfold is_ready. destruct (n_kind _); try apply pre_refl. destruct (negb _); [apply pre_refl|]. destruct (n_else _); [|apply pre_refl].
  destruct (forallb _ _); [apply pre_refl|]. destruct (existsb _ _); [apply pre_set_state | apply pre_refl].
Qed.

Lemma fold_left_ind' {A B} (P : A -> Prop) (g : A -> B -> A) (l : list B) (a : A) :
  P a -> (forall a b, P a -> P (g a b)) -> P (fold_left g l a).
Proof. intros H0 Hs. revert a H0. induction l as [|b l IH]; intros a H0; simpl; auto. Qed.

Lemma mono f :
  (forall e i, pre e (emit f e i)) /\ (forall e i, pre e (emit_error f e i)) /\
  (forall cv e i, pre e (next f cv e i)) /\ (forall cv from e i, pre e (review f cv from e i)).
Proof.
  induction f as [|f (IHe & IHee & IHn & IHr)]; [repeat split; intros; now apply pre_eq|].
  assert (HE : forall e i, pre e (emit (S f) e i)).
  { intros e i. cbn [emit].
    set (k := kind e i).
    set (e1a := match k with KWorkflow => if is_created (st e i) then add_ev e (EProc (pstate e) (outputs e i)) else e | _ => e end).
    assert (X1 : pre e (upsert e1a i)).
    { eapply pre_trans; [|apply pre_upsert]. unfold e1a. destruct k; try apply pre_refl. destruct (is_created _); [apply pre_add_ev | apply pre_refl]. }
    set (e1 := upsert e1a i) in *.
    match goal with |- pre e (match k with KWorkflow => if is_completed (st ?e3 i) then _ else _ | _ => _ end) => set (e3v := e3) end.
    assert (X3 : pre e e3v).
    { unfold e3v. match goal with |- pre e (if msg_allowed ?e2 i then _ else _) => set (e2v := e2) end.
      assert (X2 : pre e1 e2v).
      { unfold e2v. destruct (t_evproc (tk e1 i)); [apply pre_refl|].
        assert (Hh : forall ea t ev, pre e1 ea -> pre e1 (run_stmt_hooks ea t ev i)) by (intros; eapply pre_trans; [eassumption | apply pre_run_stmt_hooks]).
        destruct (is_created (st e1 i)).
        - destruct (nkind_beq k KAct); [|apply Hh, pre_refl]. apply Hh. destruct (climb_step _ _); [apply Hh|]; apply Hh, pre_refl.
        - destruct (is_completed (st e1 i) && negb (is (st e1 i) SError)).
          + destruct (nkind_beq k KAct).
            * apply Hh. destruct (climb_step _ _); [apply Hh|]; apply Hh, pre_refl.
            * destruct (nkind_beq k KStep); [apply Hh, Hh, Hh, pre_refl | apply Hh, pre_refl].
          + destruct (is (st e1 i) SError); [|apply pre_refl].
            apply pre_fold. intros ee c. destruct (t_err (tk ee i)); [|apply pre_refl].
            destruct (t_catch_done (tk ee i)); [apply pre_refl|].
            destruct (match c with Some x => Nat.eqb x n | None => true end); [|apply pre_refl].
            set (ee1 := set_state 19 (set_catch_done ee i) i SRunning).
            assert (X19 : pre ee ee1) by (eapply pre_trans; [apply (pre_tmod ee i) | apply pre_set_state]).
            destruct (children_in (tnode ee1 i) (OCatch c)); [eapply pre_trans; [exact X19 | apply IHr] | eapply pre_trans; [exact X19 | apply pre_sched_nodes]]. }
      assert (X2' : pre e e2v) by (eapply pre_trans; eauto).
      destruct (msg_allowed e2v i); [eapply pre_trans; [exact X2' | apply pre_add_ev] | exact X2']. }
    destruct k; try exact X3. destruct (is_completed (st e3v i)); [|exact X3].
    eapply pre_trans; [exact X3|]. eapply pre_trans; [|apply pre_add_ev]. now apply pre_eq. }
  assert (HEE : forall e i, pre e (emit_error (S f) e i)).
  { intros e i. cbn [emit_error]. destruct (is (st e i) SError); [|apply pre_refl].
    destruct (is (st (emit f e i) i) SError); [|apply IHe].
    destruct (t_err _); [|apply IHe]. destruct (parent _ _); [|apply IHe]. destruct (is_completed _); [apply IHe|].
    eapply pre_trans; [apply IHe|]. eapply pre_trans; [apply pre_set_err | apply IHee]. }
  assert (HN : forall cv e i, pre e (next (S f) cv e i)).
  { intros cv e i. cbn [next].
    match goal with |- pre e (let '(isn, e1) := ?X in _) => assert (X1 : pre e (snd X)); [|destruct X as [isn e1]; cbn [snd] in X1] end.
    { destruct (is_next (st e i)); [|apply pre_refl]. destruct (kind e i).
      - apply pre_refl.
      - destruct (is (st e i) SRunning); [|apply pre_refl]. destruct (normal_children _); [apply pre_set_state | apply pre_sched_nodes].
      - destruct (is (st e i) SRunning).
        + match goal with |- pre e (snd (let '(flag, e') := ?F in _)) => assert (XF : pre e (snd F)); [|destruct F as [flag e']; cbn [snd] in XF] end.
          { apply (fold_left_ind' (fun acc => pre e (snd acc))); [apply pre_refl|].
            intros [fl ee] j Hacc. cbn [snd] in *. destruct (is (st ee j) SNone || is (st ee j) SRunning); [exact Hacc|].
            destruct (is (st ee j) SPending); [|exact Hacc]. pose proof (pre_is_ready ee j) as Hr. destruct (is_ready ee j) as [rdy ee1]. cbn [snd] in *.
            destruct rdy; [|eapply pre_trans; eauto]. cbn [snd].
            eapply pre_trans; [exact Hacc|]. eapply pre_trans; [exact Hr|]. eapply pre_trans; [apply pre_set_state|]. eapply pre_trans; [apply IHe | apply IHn]. }
          destruct (forallb _ _); [|exact XF].
          set (e'' := if negb (is_completed (st e' i)) then set_state 12 e' i SCompleted else e').
          assert (X2 : pre e e'') by (unfold e''; destruct (negb _); [eapply pre_trans; [exact XF | apply pre_set_state] | exact XF]).
          destruct (n_next _); [eapply pre_trans; [exact X2 | apply pre_sched_v] | exact X2].
        + destruct (is (st e i) SSkipped || _); [|apply pre_refl]. destruct (n_next _); [apply pre_sched_v | apply pre_refl].
      - destruct (is (st e i) SRunning).
        + match goal with |- pre e (snd (let '(flag, e') := ?F in _)) => assert (XF : pre e (snd F)); [|destruct F as [flag e']; cbn [snd] in XF] end.
          { apply (fold_left_ind' (fun acc => pre e (snd acc))); [apply pre_refl|].
            intros [fl ee] j Hacc. cbn [snd] in *. destruct (is (st ee j) SNone || is (st ee j) SRunning); [exact Hacc|].
            destruct (is (st ee j) SPending); [|exact Hacc]. pose proof (pre_is_ready ee j) as Hr. destruct (is_ready ee j) as [rdy ee1]. cbn [snd] in *.
            destruct rdy; [|eapply pre_trans; eauto]. cbn [snd].
            eapply pre_trans; [exact Hacc|]. eapply pre_trans; [exact Hr|]. eapply pre_trans; [apply pre_set_state|]. eapply pre_trans; [apply IHe | apply IHn]. }
          destruct (forallb _ _); [|exact XF].
          set (e'' := if negb (is_completed (st e' i)) then set_state 12 e' i SCompleted else e').
          assert (X2 : pre e e'') by (unfold e''; destruct (negb _); [eapply pre_trans; [exact XF | apply pre_set_state] | exact XF]).
          destruct (n_next _); [eapply pre_trans; [exact X2 | apply pre_sched_v] | exact X2].
        + destruct (is (st e i) SSkipped || _); [|apply pre_refl]. destruct (n_next _); [apply pre_sched_v | apply pre_refl]. }
    destruct (is_completed (st e1 i)); [|exact X1].
    assert (X2 : pre e (emit f (update_data e1 i cv) i)) by (eapply pre_trans; [exact X1|]; eapply pre_trans; [apply pre_update_data | apply IHe]).
    destruct (negb isn && _); [|exact X2]. destruct (parent _ _); [eapply pre_trans; [exact X2 | apply IHr] | exact X2]. }
  assert (HR : forall cv from e i, pre e (review (S f) cv from e i)).
  { intros cv from e0 i. cbn [review]. destruct (t_evproc (tk e0 from)); [apply pre_refl|].
    set (e := update_data e0 i (outputs e0 from)). assert (X0 : pre e0 e) by apply pre_update_data.
    match goal with |- pre e0 (let '(isr, e1) := ?X in _) => assert (X1 : pre e (snd X)); [|destruct X as [isr e1]; cbn [snd] in X1] end.
    { destruct (kind e i).
      - destruct (is (st e i) SRunning); [|apply pre_refl]. destruct (forallb _ _); [apply pre_set_state | apply pre_refl].
      - destruct (is (st e i) SRunning); [destruct (forallb _ _); [apply pre_set_state | apply pre_refl]|]. destruct (is (st e i) SSkipped); apply pre_refl.
      - destruct (is (st e i) SRunning).
        + match goal with |- context [ (fix scan (l : list nat) (ee : eng) {struct l} : option eng * eng := @?body scan l ee) ] =>
            set (scan := (fix scan (l : list nat) (ee : eng) {struct l} : option eng * eng := body scan l ee))
          end.
          assert (HS : forall l ee, pre e ee -> pre e (snd (scan l ee)) /\ (forall e', fst (scan l ee) = Some e' -> pre e e')).
          { induction l as [|j l IHl]; intros ee Hee; simpl; [split; [exact Hee | intros e' H; discriminate]|].
            destruct (is (st ee j) SPending); [|now apply IHl]. pose proof (pre_is_ready ee j) as Hr. destruct (is_ready ee j) as [rdy ee1]. cbn [snd] in Hr.
            assert (Hee1 : pre e ee1) by (eapply pre_trans; eauto). destruct rdy; simpl; [|now apply IHl].
            split; [exact Hee1|]. intros e' H. inversion H; subst.
            eapply pre_trans; [exact Hee1|]. eapply pre_trans; [apply pre_set_state|]. eapply pre_trans; [apply IHe | apply IHn]. }
          destruct (HS (children e i) e (pre_refl e)) as [HS1 HS2].
          destruct (scan (children e i) e) as [[e'|] e2] eqn:ES; simpl in *.
          * now apply HS2.
          * destruct (forallb _ _); simpl; [|exact HS1].
            set (e'' := if negb (is_completed (st e2 i)) then set_state 16 e2 i SCompleted else e2).
            assert (X2 : pre e e'') by (unfold e''; destruct (negb _); [eapply pre_trans; [exact HS1 | apply pre_set_state] | exact HS1]).
            destruct (n_next _); simpl; [eapply pre_trans; [exact X2 | apply pre_sched_v] | exact X2].
        + destruct (is (st e i) SSkipped); [|apply pre_refl]. destruct (n_next _); [apply pre_sched_v | apply pre_refl].
      - destruct (is (st e i) SRunning); [|apply pre_refl]. destruct (act_scan _ _ _); [apply pre_refl | apply pre_set_state|].
        destruct (Nat.eqb _ _); [|apply pre_refl].
        set (e'' := if negb (is_completed (st e i)) then set_state 18 e i SCompleted else e).
        assert (X2 : pre e e'') by (unfold e''; destruct (negb _); [apply pre_set_state | apply pre_refl]).
        destruct (n_next _); [eapply pre_trans; [exact X2 | apply pre_sched_v] | exact X2]. }
    set (e2 := if is_completed (st e1 i) && negb (is (st e i) (st e1 i)) then emit f e1 i else e1).
    assert (X2 : pre e0 e2).
    { eapply pre_trans; [exact X0|]. eapply pre_trans; [exact X1|]. unfold e2. destruct (_ && _); [apply IHe | apply pre_refl]. }
    destruct isr; [|exact X2]. destruct (parent _ _); [eapply pre_trans; [exact X2 | apply IHr] | exact X2]. }
  repeat split; assumption.
Qed.

