(* a sequence generator (build_acts with sq = true) makes its first act a child of the generating node and chains the
   others by `next` links, in list order *)
From Coq Require Import List Arith ZArith Bool Lia.
Import ListNotations.
From Acts.Gen Require Import GenState.
From Acts.Model Require Import Engine.
From Acts.Proofs Require Import EngineBasics EngineLemmas.

Definition bstep (lvl pn : nat) (acc : eng * nat) (sp : aspec) : eng * nat :=
  let '(ee, prev) := acc in
  let nid := length (nodes ee) in
  let ee1 := with_nodes ee (nodes ee ++ [mk_dyn lvl sp]) in
  if Nat.eqb (n_level (nd ee1 prev)) lvl then (set_next ee1 prev nid, nid) else (add_child ee1 pn nid, nid).
Lemma build_acts_seq e pn acts : build_acts e pn acts true = fst (fold_left (bstep (S (n_level (nd e pn))) pn) acts (e, pn)).
Proof. reflexivity. Qed.

Lemma nd_nmod e n f i : nd (nmod e n f) i = if Nat.eqb i n && Nat.ltb n (length (nodes e)) then f (nd e n) else nd e i.
Proof. unfold nd, nmod; cbn. apply upd_nth. Qed.
Lemma nd_app_old e x i : i < length (nodes e) -> nd (with_nodes e (nodes e ++ [x])) i = nd e i.
Proof. intros H. unfold nd; cbn [nodes with_nodes]. now rewrite app_nth1. Qed.
Lemma nd_app_new e x : nd (with_nodes e (nodes e ++ [x])) (length (nodes e)) = x.
Proof. unfold nd; cbn [nodes with_nodes]. rewrite app_nth2 by lia. now rewrite Nat.sub_diag. Qed.

(* the state of the fold after at least one element: `first` is the first generated node, `prev` the last one *)
Record chained (lvl pn first : nat) (ee : eng) (prev : nat) : Prop := {
  ch_len : prev < length (nodes ee);
  ch_first : first <= prev;
  ch_last : S prev = length (nodes ee);
  ch_lvl : forall k, first <= k -> k <= prev -> n_level (nd ee k) = lvl;
  ch_next : forall k, first <= k -> k < prev -> n_next (nd ee k) = Some (S k) }.

Lemma bstep_chained lvl pn first ee prev sp : pn < first -> chained lvl pn first ee prev ->
  chained lvl pn first (fst (bstep lvl pn (ee, prev) sp)) (snd (bstep lvl pn (ee, prev) sp)) /\
  snd (bstep lvl pn (ee, prev) sp) = S prev /\
  (forall i, i < first -> nd (fst (bstep lvl pn (ee, prev) sp)) i = nd ee i).
Proof.
  intros Hpn [H1 H2 H3 H4 H5]. unfold bstep. cbv zeta.
  set (ee1 := with_nodes ee (nodes ee ++ [mk_dyn lvl sp])).
  assert (L1 : length (nodes ee1) = S (length (nodes ee))) by (unfold ee1; cbn; rewrite app_length; cbn; lia).
  assert (Eold : forall k, k < length (nodes ee) -> nd ee1 k = nd ee k) by (intros k Hk; unfold ee1; now apply nd_app_old).
  assert (Eprev : nd ee1 prev = nd ee prev) by (apply Eold; lia).
  rewrite Eprev, (H4 prev H2 (le_n _)), Nat.eqb_refl. cbn [fst snd].
  assert (Enew : nd ee1 (length (nodes ee)) = mk_dyn lvl sp) by apply nd_app_new.
  split; [|split; [lia|]].
  - constructor.
    + unfold set_next. rewrite nodes_nmod. lia.
    + lia.
    + unfold set_next. rewrite nodes_nmod. lia.
    + intros k Hk1 Hk2. unfold set_next. rewrite nd_nmod.
      destruct (Nat.eqb_spec k prev) as [-> | Hne]; cbn [andb].
      * assert (Hl : Nat.ltb prev (length (nodes ee1)) = true) by (apply Nat.ltb_lt; lia). rewrite Hl. cbn [n_level]. rewrite Eprev. apply H4; lia.
      * cbn [andb]. destruct (Nat.eq_dec k (length (nodes ee))) as [-> | Hk]; [rewrite Enew; reflexivity|].
        rewrite Eold by lia. apply H4; lia.
    + intros k Hk1 Hk2. unfold set_next. rewrite nd_nmod.
      destruct (Nat.eqb_spec k prev) as [-> | Hne]; cbn [andb].
      * assert (Hl : Nat.ltb prev (length (nodes ee1)) = true) by (apply Nat.ltb_lt; lia). rewrite Hl. cbn [n_next]. f_equal. lia.
      * cbn [andb]. rewrite Eold by lia. apply H5; lia.
  - intros i Hi. unfold set_next. rewrite nd_nmod. destruct (Nat.eqb_spec i prev); [lia|]. cbn [andb]. apply Eold. lia.
Qed.

Lemma fold_chained lvl pn first : pn < first -> forall rest ee prev, chained lvl pn first ee prev ->
  let r := fold_left (bstep lvl pn) rest (ee, prev) in
  chained lvl pn first (fst r) (snd r) /\ snd r = prev + length rest /\ (forall i, i < first -> nd (fst r) i = nd ee i).
Proof.
  intros Hpn. induction rest as [|sp rest IH]; intros ee prev Hc; cbn [fold_left length].
  - cbn [fst snd]. split; [exact Hc | split; [lia | auto]].
  - destruct (bstep_chained lvl pn first ee prev sp Hpn Hc) as (C1 & C2 & C3).
    destruct (bstep lvl pn (ee, prev) sp) as [ee' prev'] eqn:E. cbn [fst snd] in *.
    destruct (IH ee' prev' C1) as (D1 & D2 & D3). split; [exact D1 | split; [rewrite D2, C2; lia|]].
    intros i Hi. rewrite D3 by exact Hi. now apply C3.
Qed.
Theorem sequence_links e pn sp rest : pn < length (nodes e) ->
  let e' := build_acts e pn (sp :: rest) true in
  let len := length (nodes e) in
  normal_children (nd e' pn) = normal_children (nd e pn) ++ [len] /\
  (forall k, k < length rest -> n_next (nd e' (len + k)) = Some (len + S k)) /\
  length (nodes e') = len + S (length rest).
Proof.
  intros Hpn e' len. unfold e'. rewrite build_acts_seq. set (lvl := S (n_level (nd e pn))). cbn [fold_left].
  (* the first act becomes a child of the generating node *)
  assert (E1 : bstep lvl pn (e, pn) sp = (add_child (with_nodes e (nodes e ++ [mk_dyn lvl sp])) pn len, len)).
  { unfold bstep. cbv zeta. rewrite nd_app_old by exact Hpn. unfold lvl.
    destruct (Nat.eqb_spec (n_level (nd e pn)) (S (n_level (nd e pn)))); [lia | reflexivity]. }
  rewrite E1. set (ee1 := with_nodes e (nodes e ++ [mk_dyn lvl sp])). set (e1 := add_child ee1 pn len).
  assert (L1 : length (nodes e1) = S len) by (unfold e1, add_child; rewrite nodes_nmod; unfold ee1; cbn [nodes with_nodes]; rewrite app_length; cbn; lia).
  assert (Hp1 : pn < length (nodes ee1)) by (unfold ee1; cbn [nodes with_nodes]; rewrite app_length; cbn; lia).
  assert (N1 : nd e1 len = mk_dyn lvl sp).
  { unfold e1, add_child. rewrite nd_nmod. destruct (Nat.eqb_spec len pn); [unfold len in *; lia|]. cbn [andb]. apply nd_app_new. }
  assert (C1 : chained lvl pn len e1 len).
  { constructor; [lia | lia | lia | |].
    - intros k Hk1 Hk2. assert (k = len) by lia. subst k. rewrite N1. reflexivity.
    - intros k Hk1 Hk2. lia. }
  destruct (fold_chained lvl pn len Hpn rest e1 len C1) as (D1 & D2 & D3). cbv zeta in D1, D2, D3.
  destruct (fold_left (bstep lvl pn) rest (e1, len)) as [ef pf] eqn:EF. cbn [fst snd] in *.
  split; [|split].
  - rewrite (D3 pn Hpn). unfold e1. rewrite children_add_child by exact Hp1. f_equal.
    unfold ee1. now rewrite nd_app_old.
  - intros k Hk. destruct D1 as [_ _ _ _ Hn]. replace (len + S k) with (S (len + k)) by lia. apply Hn; lia.
  - destruct D1 as [_ _ Hl _ _]. lia.
Qed.
