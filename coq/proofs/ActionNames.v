(* the model's actions by the name of their EventAction variant.  Definitions only. *)
From Coq Require Import List String.
Import ListNotations.
From Acts.Gen Require Import GenState.
From Acts.Model Require Import Engine.
Open Scope string_scope.
Definition ev_name (a : action) : string :=
  match a with
  | ANext => "Next" | ASubmit => "Submit" | ARemove => "Remove" | ASkip => "Skip" | AAbort => "Abort"
  | AError _ => "Error" | ABack _ => "Back" | ACancel => "Cancel" | APush _ => "Push"
  end.
Close Scope string_scope.
