From Coq Require Import List Arith ZArith Bool Lia.
Import ListNotations.
From Acts.Model Require Import Script.

Section Proofs.
Variable F : Type.
Variable of_Z : Z -> F.
Variable exact_Z : F -> option Z.        (* the integer an integral double of magnitude <= 2^53 denotes *)
(* IEEE 754 binary64: every integer of magnitude up to 2^53 is exactly representable *)
Hypothesis exact_of_Z : forall z, (Z.abs z <= 2 ^ 53)%Z -> exact_Z (of_Z z) = Some z.

Notation jv := (jv F).
Notation js := (js F).

(* structural induction through the nested lists *)
Section Ind.
Variable P : jv -> Prop.
Hypothesis Hnull : P (JNull F).
Hypothesis Hbool : forall b, P (JBool F b).
Hypothesis Hint : forall z, P (JInt F z).
Hypothesis Hfloat : forall f, P (JFloat F f).
Hypothesis Hstr : forall s, P (JStr F s).
Hypothesis Harr : forall l, Forall P l -> P (JArr F l).
Hypothesis Hobj : forall l, Forall (fun kv => P (snd kv)) l -> P (JObj F l).
Fixpoint jv_ind' (v : jv) : P v :=
  match v with
  | JNull _ => Hnull
  | JBool _ b => Hbool b
  | JInt _ z => Hint z
  | JFloat _ f => Hfloat f
  | JStr _ s => Hstr s
  | JArr _ l => Harr l ((fix go (l : list jv) : Forall P l :=
                          match l with [] => Forall_nil _ | x :: r => Forall_cons _ (jv_ind' x) (go r) end) l)
  | JObj _ l => Hobj l ((fix go (l : list (bytes * jv)) : Forall (fun kv => P (snd kv)) l :=
                          match l with [] => Forall_nil _ | x :: r => Forall_cons _ (jv_ind' (snd x)) (go r) end) l)
  end.
End Ind.

(* every integer inside the value satisfies p *)
Fixpoint ints (p : Z -> bool) (v : jv) : bool :=
  match v with
  | JInt _ z => p z
  | JArr _ l => forallb (ints p) l
  | JObj _ l => forallb (fun kv => ints p (snd kv)) l
  | _ => true
  end.

Definition exact53 (z : Z) : bool := Z.leb (Z.abs z) (2 ^ 53).
(* floats that occur in the value are not integral (an integral float is the same number as the integer) *)
Fixpoint floats_proper (v : jv) : bool :=
  match v with
  | JFloat _ f => match exact_Z f with Some _ => false | None => true end
  | JArr _ l => forallb floats_proper l
  | JObj _ l => forallb (fun kv => floats_proper (snd kv)) l
  | _ => true
  end.

(* 1. a value whose integers are exact in a double comes back identical *)
Theorem roundtrip_exact (v : jv) :
  ints exact53 v = true -> floats_proper v = true -> of_js F exact_Z (to_js F of_Z v) = v.
Proof.
  induction v as [| b | z | f | s | l IH | l IH] using jv_ind'; simpl; intros H Hf; auto.
  - destruct (fits_i32 z); simpl; auto. rewrite exact_of_Z; auto. now apply Z.leb_le.
  - destruct (exact_Z f); [discriminate | reflexivity].
  - f_equal. rewrite map_map. rewrite <- (map_id l) at 2. apply map_ext_in. intros x Hx.
    rewrite Forall_forall in IH. rewrite forallb_forall in H, Hf. apply IH; auto.
  - f_equal. rewrite map_map. rewrite <- (map_id l) at 2. apply map_ext_in. intros [k x] Hx. simpl.
    rewrite Forall_forall in IH. rewrite forallb_forall in H, Hf. f_equal.
    apply (IH (k, x)); [exact Hx | exact (H (k, x) Hx) | exact (Hf (k, x) Hx)].
Qed.

Lemma Forall2_map_self {A} (R : A -> A -> Prop) (f : A -> A) l : (forall x, In x l -> R (f x) x) -> Forall2 R (map f l) l.
Proof. induction l as [|x l IH]; intros H; simpl; constructor; [apply H; now left | apply IH; intros; apply H; now right]. Qed.

(* 2. same value: an integral float and the integer it denotes are the same number *)
Inductive veq : jv -> jv -> Prop :=
| veq_null : veq (JNull F) (JNull F)
| veq_bool b : veq (JBool F b) (JBool F b)
| veq_int z : veq (JInt F z) (JInt F z)
| veq_float f : veq (JFloat F f) (JFloat F f)
| veq_if z f : exact_Z f = Some z -> veq (JInt F z) (JFloat F f)
| veq_str s : veq (JStr F s) (JStr F s)
| veq_arr a b : Forall2 veq a b -> veq (JArr F a) (JArr F b)
| veq_obj a b : Forall2 (fun x y => fst x = fst y /\ veq (snd x) (snd y)) a b -> veq (JObj F a) (JObj F b).

Theorem roundtrip (v : jv) : ints exact53 v = true -> veq (of_js F exact_Z (to_js F of_Z v)) v.
Proof.
  induction v as [| b | z | f | s | l IH | l IH] using jv_ind'; simpl; intros H.
  - constructor.
  - constructor.
  - destruct (fits_i32 z); simpl; [constructor|]. rewrite exact_of_Z; [constructor | now apply Z.leb_le].
  - destruct (exact_Z f) eqn:E; [now apply veq_if | constructor].
  - constructor.
  - constructor. rewrite map_map. rewrite forallb_forall in H. rewrite Forall_forall in IH.
    apply Forall2_map_self. intros x Hx. apply IH; auto.
  - constructor. rewrite map_map. rewrite forallb_forall in H. rewrite Forall_forall in IH.
    apply (Forall2_map_self (fun x y => fst x = fst y /\ veq (snd x) (snd y))). intros x Hx. split; [reflexivity|]. simpl. apply (IH x); auto.
Qed.

(* ---------- templates ---------- *)
Variable eval : bytes -> jv.
Variable show : jv -> bytes.

Definition plain (s : bytes) : Prop := forall x, In x s -> x <> LB.     (* no opening brace at all *)
Definition simple (s : bytes) : Prop := forall x, In x s -> x <> RB /\ x <> NL.  (* inside a template *)

Lemma scan_plain fuel s : plain s -> scan fuel s = [].
Proof.
  revert s; induction fuel as [|fuel IH]; intros s Hp; simpl; auto.
  destruct s as [|a [|b rest]]; auto.
  assert (Ha : Nat.eqb a LB = false) by (apply Nat.eqb_neq, Hp; now left).
  rewrite Ha. simpl. apply IH. intros x Hx. apply Hp. now right.
Qed.
(* a string without templates is passed through verbatim *)
Theorem verbatim s : plain s -> fill_string F eval show s = JStr F s.
Proof. intros Hp. unfold fill_string, get_exprs. now rewrite scan_plain. Qed.

Lemma close_step a b s acc : a <> NL -> a <> RB -> close (a :: b :: s) acc = close (b :: s) (a :: acc).
Proof.
  intros Hn Hr. cbn [close]. apply Nat.eqb_neq in Hn, Hr. rewrite Hn, Hr. reflexivity.
Qed.
Lemma close_simple inner rest acc : simple inner ->
  close (inner ++ RB :: RB :: rest) acc = Some (rev acc ++ inner, rest).
Proof.
  revert acc; induction inner as [|a inner IH]; intros acc Hs.
  - cbn. now rewrite app_nil_r.
  - destruct (Hs a (or_introl eq_refl)) as [Hr Hn].
    assert (E : exists b s'', inner ++ RB :: RB :: rest = b :: s'') by (destruct inner; simpl; eauto).
    destruct E as (b & s'' & E). cbn [app]. rewrite E, close_step by assumption. rewrite <- E.
    rewrite IH by (intros x Hx; apply Hs; now right). cbn [rev]. now rewrite <- app_assoc.
Qed.

Definition tmpl (inner : bytes) : bytes := LB :: LB :: inner ++ [RB; RB].

(* the scanner finds exactly the templates of  p0 {{e1}} p1 {{e2}} ... pn *)
Fixpoint assemble (p0 : bytes) (parts : list (bytes * bytes)) : bytes :=
  match parts with
  | [] => p0
  | (e, p) :: r => p0 ++ tmpl e ++ assemble p r
  end.
Lemma scan_nonopen a b rest fuel : a <> LB -> scan (S fuel) (a :: b :: rest) = scan fuel (b :: rest).
Proof. intros H. cbn [scan]. apply Nat.eqb_neq in H. now rewrite H. Qed.
Lemma scan_template e rest fuel : simple e -> scan (S fuel) (tmpl e ++ rest) = tmpl e :: scan fuel rest.
Proof.
  intros Hs. unfold tmpl. cbn [app scan]. rewrite !Nat.eqb_refl. cbn [andb].
  rewrite <- app_assoc. cbn [app]. rewrite close_simple by assumption. reflexivity.
Qed.
(* the scanner finds exactly the templates of  p0 {{e1}} p1 {{e2}} ... pn  (plain text between
   them, no closing brace or newline inside them) *)
Theorem scan_assemble parts : forall p0 fuel, plain p0 ->
  (forall ep, In ep parts -> simple (fst ep) /\ plain (snd ep)) -> length (assemble p0 parts) < fuel ->
  scan fuel (assemble p0 parts) = map (fun ep => tmpl (fst ep)) parts.
Proof.
  induction parts as [|[e p] r IH]; intros p0 fuel Hp0 Hparts Hlen; cbn [assemble map]; cbn [assemble] in Hlen.
  - now apply scan_plain.
  - destruct (Hparts (e, p) (or_introl eq_refl)) as [He Hp]. cbn [fst snd] in *.
    (* skip the plain prefix *)
    revert fuel Hlen. induction p0 as [|a p0 IHp]; intros fuel Hlen.
    + cbn [app] in *. destruct fuel as [|fuel]; [cbn in Hlen; lia|].
      rewrite scan_template by assumption. cbn [fst]. f_equal.
      apply IH; auto; [intros ep Hep; apply Hparts; now right|]. rewrite app_length in Hlen. unfold tmpl in Hlen. cbn [length] in Hlen. lia.
    + cbn [app] in *. destruct fuel as [|fuel]; [cbn in Hlen; lia|].
      assert (E : exists b s', p0 ++ tmpl e ++ assemble p r = b :: s') by (destruct p0; unfold tmpl; cbn; eauto).
      destruct E as (b & s' & E). rewrite E. rewrite scan_nonopen by (apply Hp0; now left). rewrite <- E.
      apply IHp; [intros x Hx; apply Hp0; now right|]. cbn [length] in Hlen. lia.
Qed.

(* a string that is exactly one template yields the typed value *)
Theorem single_template_typed e : simple e -> fill_string F eval show (tmpl e) = eval (tmpl e).
Proof.
  intros He. unfold fill_string, get_exprs.
  assert (Hs : scan (S (length (tmpl e))) (tmpl e) = [tmpl e]).
  { rewrite <- (app_nil_r (tmpl e)) at 2. rewrite scan_template by assumption. now destruct (length (tmpl e)). }
  rewrite Hs. cbn [hd].
  assert (Hst : forall s : bytes, starts_with s s = Some []).
  { induction s as [|a s IHs]; cbn; auto. now rewrite Nat.eqb_refl. }
  rewrite Hst. cbn [Nat.eqb andb]. rewrite Nat.eqb_refl. cbn [andb].
  rewrite firstn_all.
  assert (Hb : forall s : bytes, beqb s s = true) by (induction s as [|a s IHs]; cbn; auto; now rewrite Nat.eqb_refl).
  now rewrite Hb.
Qed.
Theorem every_template parts p0 : plain p0 -> (forall ep, In ep parts -> simple (fst ep) /\ plain (snd ep)) ->
  get_exprs (assemble p0 parts) = map (fun ep => tmpl (fst ep)) parts.
Proof. intros H0 Hp. unfold get_exprs. apply scan_assemble; auto. Qed.
End Proofs.
