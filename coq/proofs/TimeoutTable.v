(* The Timeout arm of hook.rs regenerated from the source (gen/GenTimeout.v) against the model's firing rule
   (`rule_fires`, used by `do_tick`) and the unit conversion of model/Limit.v *)
From Coq Require Import List Arith ZArith Bool String.
Import ListNotations.
From Acts.Gen Require Import GenState GenTimeout.
From Acts.Model Require Import Engine Limit.
From Acts.Proofs Require Import StatePred.
Open Scope string_scope.
(* elapsed <cmp> limit; a comparison the model does not know fires nothing *)
Definition cmp_of (c : string) (elapsed limit : Z) : bool :=
  if String.eqb c ">=" then Z.leb limit elapsed else if String.eqb c ">" then Z.ltb limit elapsed else false.
Definition model_tmo_order : list string := ["closed"; "processed"; "due"; "mark"; "sched"].
Close Scope string_scope.
Definition fires_of_source (now start : Z) (done : list nat) (s : TaskState) (r : nat * Z) : bool :=
  negb (state_pred tmo_closed_pred s) && negb (existsb (Nat.eqb (fst r)) done) && cmp_of tmo_due_cmp (now - start)%Z (snd r).
Lemma fires_match now start done s r : rule_fires now start done (is_completed s) r = fires_of_source now start done s r.
Proof. unfold rule_fires, fires_of_source. reflexivity. Qed.
Lemma tmo_order_match : tmo_order = model_tmo_order.
Proof. reflexivity. Qed.
Lemma factor_match x : limit_ms x = (as_secs x * tmo_factor)%Z.
Proof. reflexivity. Qed.
(* the model's tick: what a due rule does is mark, then schedule -- in the order of the table -- and nothing else *)
Lemma tick_rule_step e t r :
  rule_fires (clock e) (t_start (tk e t)) (t_tmo_done (tk e t)) (is_completed (st e t)) r = true ->
  (if rule_fires (clock e) (t_start (tk e t)) (t_tmo_done (tk e t)) (is_completed (st e t)) r then
     sched_nodes (add_tmo_done (add_ev e (EFire t (fst r) (clock e) (t_start (tk e t)) (snd r))) t (fst r)) (children_in (tnode e t) (OTimeout (fst r))) t
   else e) =
  sched_nodes (add_tmo_done (add_ev e (EFire t (fst r) (clock e) (t_start (tk e t)) (snd r))) t (fst r)) (children_in (tnode e t) (OTimeout (fst r))) t.
Proof. intros H. rewrite H. reflexivity. Qed.
