(* the trace only grows, for whole operations *)
From Coq Require Import List Arith ZArith Bool Lia.
Import ListNotations.
From Acts.Gen Require Import GenState.
From Acts.Model Require Import Engine.
From Acts.Proofs Require Import EngineBasics TraceMono.
Global Arguments emit : simpl never.
Global Arguments emit_error : simpl never.
Global Arguments next : simpl never.
Global Arguments review : simpl never.
Global Arguments exec : simpl never.
Global Arguments fuel_of : simpl never.
Definition pre_emit f e i := proj1 (mono f) e i.
Definition pre_emit_error f e i := proj1 (proj2 (mono f)) e i.
Definition pre_next f cv e i := proj1 (proj2 (proj2 (mono f))) cv e i.
Definition pre_review f cv from e i := proj2 (proj2 (proj2 (mono f))) cv from e i.

(* ---- the rest of the engine: one scheduler step, ticks, client actions ---- *)
Lemma pre_dispatch_setup e i s : pre e (dispatch_setup e i s). Proof. apply pre_ext, ext_dispatch_setup. Qed.
Lemma pre_build_acts e pn acts sq : pre e (build_acts e pn acts sq). Proof. apply pre_ext, ext_build_acts. Qed.
Lemma pre_eval_if e i c k : (forall e0, pre e0 (k e0)) -> pre e (eval_if e i c k).
Proof.
  intros Hk. unfold eval_if. destruct c as [b|]; [|apply Hk]. destruct (eval_cond e i b) as [[|]|]; [apply Hk | apply pre_set_state | now apply pre_eq].
Qed.
Lemma pre_kind_init e i : pre e (kind_init e i).
Proof.
  unfold kind_init. cbv zeta. destruct (n_kind (tnode e i)).
  - apply pre_dispatch_setup.
  - destruct (negb (Nat.eqb _ 0)); [eapply pre_trans; [apply (pre_tmod e i) | apply pre_set_state]|].
    destruct (n_if (tnode e i)) as [b|].
    + destruct (eval_cond _ i b) as [[|]|]; [apply pre_tmod | eapply pre_trans; [apply (pre_tmod e i) | apply pre_set_state] | now apply pre_eq].
    + destruct (negb (n_else _)); [eapply pre_trans; [apply (pre_tmod e i) | apply pre_set_state]|].
      destruct (Nat.ltb 1 _); [eapply pre_trans; [apply (pre_tmod e i) | apply pre_set_state] | apply pre_tmod].
  - apply pre_eval_if. intros e0. eapply pre_trans; [|apply pre_dispatch_setup]. eapply pre_trans; apply pre_tmod.
  - apply pre_eval_if. intros e0.
    set (e1 := dispatch_setup _ i _). assert (X1 : pre e0 e1).
    { unfold e1. eapply pre_trans; [|apply pre_dispatch_setup]. eapply pre_trans; apply pre_tmod. }
    destruct (sp_u _); try (eapply pre_trans; [exact X1|]; eapply pre_trans; [apply (pre_tmod e1 i) | apply pre_set_state]).
    eapply pre_trans; [exact X1 | apply pre_set_state].
Qed.
Lemma pre_exec f cv e i : pre e (exec f cv e i).
Proof.
  unfold exec. destruct (is_completed (st e i)); [now apply pre_eq|]. cbv zeta.
  match goal with |- pre e (if exn ?E1 then _ else _) => set (e1 := E1) end.
  assert (X1 : pre e e1).
  { unfold e1. destruct (is (st e i) SNone); [|apply pre_refl].
    set (ea := kind_init _ i). assert (Xa : pre e ea).
    { unfold ea. eapply pre_trans; [|apply pre_kind_init]. eapply pre_trans; [apply (pre_tmod e i) | apply pre_set_state]. }
    destruct (exn ea); [exact Xa|]. destruct (negb _); [eapply pre_trans; [exact Xa | apply pre_emit] | exact Xa]. }
  destruct (exn e1); [exact X1|].
  match goal with |- pre e (if nkind_beq (kind ?E1' i) KAct && _ && _ then _ else _) => set (e1' := E1') end.
  assert (X1' : pre e e1').
  { unfold e1'. destruct (is (st e1 i) SPending); [|exact X1]. pose proof (pre_is_ready e1 i) as Hr. destruct (is_ready e1 i) as [rdy ea]. cbn [snd] in Hr.
    destruct rdy; [|eapply pre_trans; eauto]. eapply pre_trans; [exact X1|]. eapply pre_trans; [exact Hr|]. eapply pre_trans; [apply pre_set_state | apply pre_emit]. }
  destruct (nkind_beq (kind e1' i) KAct && is (st e1' i) SReady && is_fail (sp_u (n_spec (tnode e1' i)))).
  { eapply pre_trans; [exact X1'|]. eapply pre_trans; [apply pre_set_state | now apply pre_eq]. }
  match goal with |- pre e (next f cv ?E2 i) => set (e2 := E2) end.
  assert (X2 : pre e e2).
  { unfold e2.
    destruct (is (st e1' i) SReady); [|exact X1'].
    set (er := set_state 7 e1' i SRunning). assert (Xr : pre e er) by (eapply pre_trans; [exact X1' | apply pre_set_state]).
    eapply pre_trans; [|apply pre_emit]. eapply pre_trans; [exact Xr|].
    destruct (kind er i).
    - destruct (normal_children _); [apply pre_set_state | apply pre_sched_nodes].
    - apply pre_refl.
    - apply pre_sched_nodes.
    - cbv zeta. eapply pre_trans; [|apply pre_sched_nodes].
      set (er0 := match sp_u (n_spec (tnode er i)) with UMsg => set_silent er i false | _ => er end).
      assert (X0 : pre er er0) by (unfold er0; destruct (sp_u _); try apply pre_refl; apply pre_tmod).
      set (er0' := if n_isset (tnode er0 i) then _ else er0).
      assert (X0' : pre er er0').
      { unfold er0'. destruct (n_isset _); [|exact X0]. eapply pre_trans; [exact X0|]. eapply pre_trans; [|apply pre_update_data]. apply pre_tmod. }
      eapply pre_trans; [exact X0'|].
      destruct (sp_u _); try apply pre_refl; try apply pre_build_acts.
      destruct (n_isset _); [apply pre_refl | apply pre_build_acts]. }
  eapply pre_trans; [exact X2 | apply pre_next].
Qed.
Lemma pre_step_queue e : pre e (step_queue e).
Proof.
  unfold step_queue. destruct (queue e) as [|i q]; [apply pre_refl|]. cbv zeta.
  set (e0 := add_ev (with_queue e q) (EPop i)). assert (X0 : pre e e0) by (unfold e0; eexists; reflexivity).
  destruct (is_completed _); [exact X0|]. eapply pre_trans; [exact X0|]. eapply pre_trans; [|apply pre_persist].
  unfold exec_or_fail. cbv zeta. destruct (exn _); [|apply pre_exec].
  eapply pre_trans; [apply pre_exec|]. eapply pre_trans; [|apply pre_emit_error]. eapply pre_trans; [|apply pre_set_err]. now apply pre_eq.
Qed.
Lemma pre_sched_pick e k : pre e (sched_pick e k).
Proof. unfold sched_pick. destruct (nth_error _ _); [|apply pre_refl]. eapply pre_trans; [|apply pre_step_queue]. now apply pre_eq. Qed.
Lemma pre_drain n : forall e, pre e (drain n e).
Proof. induction n as [|n IH]; intros e; cbn [drain]; [apply pre_refl|]. destruct (queue e); [apply pre_refl|]. eapply pre_trans; [apply pre_step_queue | apply IH]. Qed.
Lemma pre_do_tick e adv : pre e (do_tick e adv).
Proof.
  unfold do_tick. cbv zeta. destruct (is _ SRunning); [|now apply pre_eq]. eapply pre_trans; [|apply pre_persist].
  eapply pre_trans; [|apply pre_fold]; [now apply pre_eq|]. intros ee t. apply pre_fold. intros ee2 r.
  destruct (rule_fires _ _ _ _ _); [|apply pre_refl]. eapply pre_trans; [|apply pre_sched_nodes]. eapply pre_trans; [apply pre_add_ev | apply pre_tmod].
Qed.
Lemma pre_close_open site e l s : pre e (close_open site e l s).
Proof. unfold close_open. apply pre_fold. intros ee j. destruct (is_completed _); [apply pre_refl|]. eapply pre_trans; [apply pre_set_state | apply pre_emit]. Qed.
Lemma pre_abort_up f : forall e p, pre e (abort_up f e p).
Proof.
  induction f as [|f IH]; intros e p; cbn [abort_up]; [apply pre_refl|]. destruct p as [t|]; [|apply pre_refl].
  eapply pre_trans; [|apply IH].
  set (e1 := if is_completed (st e t) then e else emit (fuel_of e) (set_state 28 e t SAborted) t).
  assert (X1 : pre e e1) by (unfold e1; destruct (is_completed _); [apply pre_refl | eapply pre_trans; [apply pre_set_state | apply pre_emit]]).
  eapply pre_trans; [exact X1|]. apply pre_fold. intros ee c.
  destruct (is (st ee c) SPending); [eapply pre_trans; [apply pre_set_state | apply pre_emit]|].
  destruct (is (st ee c) SRunning); [eapply pre_trans; [apply pre_set_state | apply pre_emit] | apply pre_refl].
Qed.
Lemma pre_abort_sweep e skip : pre e (abort_sweep e skip).
Proof. unfold abort_sweep. apply pre_fold. intros ee t. destruct (_ || _); [apply pre_refl|]. eapply pre_trans; [apply pre_set_state | apply pre_emit]. Qed.
Lemma pre_redo e t : pre e (redo e t). Proof. unfold redo. destruct (t_prev _); [apply pre_sched | apply pre_refl]. Qed.
Lemma pre_mark_path e path : pre e (mark_path e path).
Proof.
  unfold mark_path. apply pre_fold. intros ee p. destruct (is (st ee p) SRunning); [eapply pre_trans; [apply pre_set_state | apply pre_emit]|].
  destruct (is (st ee p) SPending); [eapply pre_trans; [apply pre_set_state | apply pre_emit] | apply pre_refl].
Qed.
Lemma pre_undo_children f : forall e l, pre e (undo_children f e l).
Proof.
  induction f as [|f IH]; intros e l; cbn [undo_children]; [apply pre_refl|]. destruct l as [|x l]; [apply pre_refl|].
  match goal with |- pre e (let '(e', nexts) := ?F in _) => assert (XF : pre e (fst F)); [|destruct F as [e' nexts]; cbn [fst] in XF] end.
  { apply (fold_left_ind' (fun acc => pre e (fst acc))); [apply pre_refl|]. intros [ee nx] t Hacc. cbn [fst] in *.
    destruct (is_completed _); [exact Hacc|]. cbn [fst]. eapply pre_trans; [exact Hacc|]. eapply pre_trans; [apply pre_set_state | apply pre_emit]. }
  eapply pre_trans; [exact XF | apply IH].
Qed.
Lemma pre_ret_ok e e' : pre e e' -> pre e (ret_ok e').
Proof. intros H. unfold ret_ok. eapply pre_trans; [exact H|]. eapply pre_trans; [apply pre_persist | apply pre_add_ev]. Qed.
Lemma pre_ret_err e e' : pre e e' -> pre e (ret_err e'). Proof. intros H. eapply pre_trans; [exact H | apply pre_add_ev]. Qed.
Lemma pre_perform e i a cv : pre e (perform e i a cv).
Proof.
  unfold perform. cbv zeta. destruct a.
  - apply pre_ret_ok. eapply pre_trans; [apply pre_set_state | apply pre_next].
  - apply pre_ret_ok. eapply pre_trans; [apply pre_set_state | apply pre_next].
  - apply pre_ret_ok. eapply pre_trans; [apply pre_set_state | apply pre_next].
  - apply pre_ret_ok. eapply pre_trans; [apply pre_close_open|]. eapply pre_trans; [apply pre_set_state | apply pre_next].
  - apply pre_ret_ok. eapply pre_trans; [apply pre_close_open|].
    eapply pre_trans; [|apply pre_abort_up]. eapply pre_trans; [|apply pre_abort_sweep].
    eapply pre_trans; [|apply pre_emit]. eapply pre_trans; [apply pre_set_state | apply pre_tmod].
  - destruct code; [|apply pre_ret_err, pre_refl]. destruct (parent e i); [|apply pre_ret_err, pre_refl].
    apply pre_ret_ok. eapply pre_trans; [apply pre_close_open|]. eapply pre_trans; [|apply pre_emit_error].
    eapply pre_trans; [apply pre_set_err | apply pre_tmod].
  - destruct to; [|apply pre_ret_err, pre_refl]. destruct (backs _ _ _ _ _) as [[t|] path]; [|apply pre_ret_err, pre_refl].
    apply pre_ret_ok. eapply pre_trans; [apply pre_close_open|].
    eapply pre_trans; [|apply pre_redo]. eapply pre_trans; [|apply pre_mark_path].
    match goal with |- pre ?a (match climb_to _ ?e2 _ _ with _ => _ end) => assert (X2 : pre a e2) by (eapply pre_trans; [apply pre_set_state | apply pre_emit]) end.
    destruct (climb_to _ _ _ _); [|exact X2]. destruct (is_completed _); [exact X2|].
    eapply pre_trans; [exact X2|]. eapply pre_trans; [apply pre_set_state | apply pre_emit].
  - destruct (climb_step e i); [|apply pre_ret_err, pre_refl]. destruct (negb _); [apply pre_ret_err, pre_refl|].
    destruct (follows _ _ _ _) as [nexts path]. destruct nexts as [|nx0 nexts]; [apply pre_ret_err, pre_refl|].
    match goal with |- pre e (let '(e2, failed) := ?F in _) => assert (XF : pre e (fst F)); [|destruct F as [e2 failed]; cbn [fst] in XF] end.
    { apply (fold_left_ind' (fun acc => pre e (fst acc))); [apply pre_mark_path|]. intros [ee fl] nx Hacc. cbn [fst] in *.
      destruct fl; [exact Hacc|]. destruct (is_completed _); [exact Hacc|]. cbn [fst].
      eapply pre_trans; [exact Hacc|]. eapply pre_trans; [apply pre_undo_children|]. eapply pre_trans; [apply pre_set_state | apply pre_emit]. }
    destruct failed; [apply pre_ret_err; eapply pre_trans; [exact XF | apply pre_persist] | apply pre_ret_ok; eapply pre_trans; [exact XF | apply pre_redo]].
  - destruct (negb uses_ok); [apply pre_ret_err, pre_refl|]. destruct (is _ SNone); apply pre_ret_ok; [now apply pre_eq|].
    eapply pre_trans; [|apply pre_sched]. now apply pre_eq.
Qed.
Lemma pre_do_action e i a opts : pre e (do_action e i a opts).
Proof. unfold do_action. destruct (admission e i a opts) as [[cv a']|]; [apply pre_perform | apply pre_ret_err, pre_refl]. Qed.
Lemma pre_apply_op e o : pre e (apply_op e o).
Proof.
  destruct o; cbn [apply_op]; [apply pre_sched_pick | eapply pre_trans; [apply pre_drain | apply pre_add_ev] | apply pre_do_action | apply pre_do_tick].
Qed.
Theorem pre_ops ops : forall e, pre e (fold_left apply_op ops e).
Proof. induction ops as [|o ops IH]; intros e; cbn [fold_left]; [apply pre_refl|]. eapply pre_trans; [apply pre_apply_op | apply IH]. Qed.
