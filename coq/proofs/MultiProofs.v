From Coq Require Import List Arith ZArith Bool Lia.
Import ListNotations.
From Acts.Gen Require Import GenState.
From Acts.Model Require Import Engine Multi Serde.
From Acts.Proofs Require Import EngineBasics.

(* ---------- C13 ---------- *)
Lemma nth_map_apply (s : sys) o p : p < length s -> nth p (map (fun e => apply_op e o) s) deng = apply_op (nth p s deng) o.
Proof.
  revert p. induction s as [|e s IH]; intros p H; cbn in H; [lia|]. destruct p; cbn; [reflexivity|]. apply IH. lia.
Qed.
Lemma sstep_length s x : length (sstep s x) = length s.
Proof. destruct x; cbn; [apply upd_length | apply map_length]. Qed.
(* in a run of the product, every process ends exactly where it ends when it is run alone with the
   operations that concern it, whatever is interleaved *)
Theorem isolation xs : forall s p, p < length s -> nth p (srun s xs) deng = fold_left apply_op (proj p xs) (nth p s deng).
Proof.
  induction xs as [|x xs IH]; intros s p Hp; cbn [srun fold_left proj]; [reflexivity|].
  change (fold_left sstep xs (sstep s x)) with (srun (sstep s x) xs).
  rewrite IH by (rewrite sstep_length; exact Hp).
  destruct x as [q o|o]; cbn [sstep proj].
  - rewrite upd_nth. destruct (Nat.eqb_spec p q) as [->|N].
    + rewrite Nat.eqb_refl. apply Nat.ltb_lt in Hp. rewrite Hp. reflexivity.
    + destruct (Nat.eqb_spec q p); [congruence|]. reflexivity.
  - rewrite nth_map_apply by exact Hp. reflexivity.
Qed.
(* in particular the order of the other processes' operations is irrelevant *)
Corollary isolation_order xs ys s p : p < length s -> proj p xs = proj p ys -> nth p (srun s xs) deng = nth p (srun s ys) deng.
Proof. intros Hp E. rewrite !isolation by exact Hp. now rewrite E. Qed.

(* ---------- C15: what an accepted observation means ---------- *)
Theorem call_check_sound o : call_check o = [] -> co_missing o = false ->
  co_inputs_ok o = true /\
  match co_child_end o with
  | None => co_act_ends o = [] /\ co_parent_end o = None
  | Some (s, t) =>
      co_outs_ok o = true /\
      (co_act_ends o = [] -> co_quiescent o = false) /\
      (forall s' t', In (s', t') (co_act_ends o) -> co_act_ends o = [(s', t')] /\ s' = expected_end o s /\ (t <= t')%Z) /\
      (forall tp, co_parent_end o = Some tp -> (t <= tp)%Z)
  end.
Proof.
  unfold call_check. intros H Hm. rewrite Hm in H.
  apply app_eq_nil in H as [H1 H2].
  split; [destruct (co_inputs_ok o); [reflexivity | discriminate]|].
  destruct (co_child_end o) as [[s t]|].
  - apply app_eq_nil in H2 as [H2 H3]. apply app_eq_nil in H3 as [H3 H4].
    split; [destruct (co_outs_ok o); [reflexivity | discriminate]|].
    split; [|split].
    + intros E. rewrite E in H2. destruct (co_quiescent o); [discriminate | reflexivity].
    + intros s' t' Hin. destruct (co_act_ends o) as [|[s1 t1] [|x r]]; [destruct Hin | | discriminate].
      destruct Hin as [E | []]. inversion E; subst. apply app_eq_nil in H2 as [A B].
      split; [reflexivity|]. split.
      * destruct (TaskState_beq s' (expected_end o s)) eqn:Eb; [|discriminate]. now apply internal_TaskState_dec_bl.
      * destruct (Z.ltb_spec t' t); [discriminate | lia].
    + intros tp E. rewrite E in H4. destruct (Z.ltb_spec tp t); [discriminate | lia].
  - apply app_eq_nil in H2 as [H2 H3]. split.
    + destruct (co_act_ends o); [reflexivity | discriminate].
    + destruct (co_parent_end o); [discriminate | reflexivity].
Qed.
Theorem caught_check_sound o : caught_check o = [] ->
  co_inputs_ok o = true /\ exists t t1 t2, co_child_end o = Some (SError, t) /\ co_act_ends o = [(SError, t1); (SCompleted, t2)] /\
                                          (t <= t1)%Z /\ (t1 <= t2)%Z /\ co_act_open o = false.
Proof.
  unfold caught_check. intros H. apply app_eq_nil in H as [H1 H2].
  split; [destruct (co_inputs_ok o); [reflexivity | discriminate]|].
  destruct (co_child_end o) as [[s t]|]; [|discriminate]. destruct s; try discriminate.
  destruct (co_act_ends o) as [|[s1 t1] [|[s2 t2] [|x l]]]; try discriminate; destruct s1; try discriminate; destruct s2; try discriminate.
  destruct (Z.leb t t1 && Z.leb t1 t2 && negb (co_act_open o)) eqn:E; [|discriminate].
  apply andb_true_iff in E as [E E3]. apply andb_true_iff in E as [E1 E2]. apply Z.leb_le in E1, E2. apply negb_true_iff in E3.
  exists t, t1, t2. auto.
Qed.
Theorem forced_check_sound o : forced_check o = [] -> co_inputs_ok o = true /\ exists x, co_act_ends o = [x].
Proof.
  unfold forced_check. intros H. apply app_eq_nil in H as [H1 H2].
  split; [destruct (co_inputs_ok o); [reflexivity | discriminate]|].
  destruct (co_act_ends o) as [|x [|y r]]; try discriminate. now exists x.
Qed.
Theorem call_check_missing o : call_check o = [] -> co_missing o = true -> co_act_open o = false.
Proof. unfold call_check. intros H Hm. rewrite Hm in H. destruct (co_act_open o); [discriminate | reflexivity]. Qed.
(* the return mapping: error, abort and skip are passed on, every other ending completes the act *)
Theorem return_state_cases s :
  (s = SError -> return_state s = SError) /\ (s = SAborted -> return_state s = SAborted) /\ (s = SSkipped -> return_state s = SSkipped) /\
  (s <> SError -> s <> SAborted -> s <> SSkipped -> return_state s = SCompleted) /\ is_completed (return_state s) = true.
Proof. destruct s; cbn; repeat split; intros; try congruence; reflexivity. Qed.

(* ---------- C17 ---------- *)
Theorem ret_check_sound o : ret_check o = [] ->
  (ro_ended o = true -> ro_refused o = true /\
     (ro_keep o = false -> ro_procrow o = None /\ ro_taskrows o = 0) /\
     (ro_keep o = true -> (exists s, ro_procrow o = Some s /\ is_completed s = true) /\ ro_taskrows o = ro_created o /\ ro_openrows o = 0)) /\
  (ro_ended o = false -> (exists s, ro_procrow o = Some s /\ is_completed s = false) /\ ro_taskrows o = ro_created o).
Proof.
  unfold ret_check. intros H. destruct (ro_ended o); (split; [intros _ | intros X; discriminate X]) || (split; [intros X; discriminate X | intros _]).
  - apply app_eq_nil in H as [H1 H2]. split; [destruct (ro_refused o); [reflexivity | discriminate]|].
    destruct (ro_keep o); (split; [intros X; try discriminate X | intros X; try discriminate X]).
    + apply app_eq_nil in H2 as [A B]. apply app_eq_nil in B as [B C].
      split; [|split].
      * destruct (ro_procrow o) as [s|]; [|discriminate]. exists s. split; auto. destruct (is_completed s); [reflexivity | discriminate].
      * destruct (Nat.eqb_spec (ro_taskrows o) (ro_created o)); [assumption | discriminate].
      * destruct (Nat.eqb_spec (ro_openrows o) 0); [assumption | discriminate].
    + apply app_eq_nil in H2 as [A B]. split.
      * destruct (ro_procrow o); [discriminate | reflexivity].
      * destruct (Nat.eqb_spec (ro_taskrows o) 0); [assumption | discriminate].
  - apply app_eq_nil in H as [A B]. split.
    + destruct (ro_procrow o) as [s|]; [|discriminate]. exists s. split; auto. destruct (is_completed s); [discriminate | reflexivity].
    + destruct (Nat.eqb_spec (ro_taskrows o) (ro_created o)); [assumption | discriminate].
Qed.
(* deleting a model removes exactly its start events (model/Serde.v drm) *)
Theorem rm_model_events st id e :
  In e (ds_events (fst (drm st id))) <-> In e (ds_events st) /\ e_mid e <> id.
Proof.
  cbn [drm fst ds_events]. rewrite filter_In. split; intros [A B]; split; auto.
  - apply negb_true_iff in B. now apply Nat.eqb_neq.
  - apply negb_true_iff. now apply Nat.eqb_neq.
Qed.
Theorem rm_model_other_models st id j : j <> id -> mfind (ds_models (fst (drm st id))) j = mfind (ds_models st) j.
Proof.
  intros H. cbn [drm fst ds_models]. induction (ds_models st) as [|r l IH]; cbn; [reflexivity|].
  destruct (Nat.eqb_spec (m_id r) id) as [E|N]; cbn.
  - destruct (Nat.eqb_spec (m_id r) j); [congruence | exact IH].
  - destruct (Nat.eqb_spec (m_id r) j); [reflexivity | exact IH].
Qed.

Theorem expected_end_cases o s :
  (co_unsatisfied o = false -> expected_end o s = return_state s) /\
  (co_unsatisfied o = true -> expected_end o s = SError).
Proof. unfold expected_end. split; intros ->; reflexivity. Qed.

(* ---------- C17: retention in the product ---------- *)
From Acts.Proofs Require Import ImageProofs.
(* what the store holds of a process once it has ended, with keep_processes off: nothing *)
Definition dropped (e : eng) : Prop := is_completed (pstate e) = true -> rows e = [] /\ prow e = None.
Lemma retire_dropped e : dropped (retire false e).
Proof. unfold dropped, retire. destruct (is_completed (pstate e)) eqn:E; cbn; [auto | intros H; cbn in H; congruence]. Qed.
Lemma rstep_length keep s x : length (rstep keep s x) = length s.
Proof. destruct x; simpl; [apply upd_length | apply map_length]. Qed.
Lemma nth_map_retire keep (s : sys) o p : p < length s ->
  nth p (map (fun e => retire keep (apply_op e o)) s) deng = retire keep (apply_op (nth p s deng) o).
Proof.
  intros H. rewrite (nth_indep _ deng (retire keep (apply_op deng o))) by (rewrite map_length; exact H).
  exact (map_nth (fun e => retire keep (apply_op e o)) s deng p).
Qed.
Theorem retention_drop xs : forall s, (forall p, p < length s -> dropped (nth p s deng)) ->
  forall p, p < length (rrun false s xs) -> dropped (nth p (rrun false s xs) deng).
Proof.
  induction xs as [|x xs IH]; intros s H p Hp; cbn [rrun fold_left] in *; [now apply H|].
  apply IH; [|exact Hp]. intros q Hq. rewrite rstep_length in Hq. destruct x as [r o | o]; cbn [rstep].
  - rewrite upd_nth. destruct (Nat.eqb q r && Nat.ltb r (length s)); [apply retire_dropped | now apply H].
  - rewrite nth_map_retire by exact Hq. apply retire_dropped.
Qed.
(* with keep_processes on the rule does nothing: the product is the plain product, every component's store image
   stays complete (C11), whatever the other processes do *)
Lemma rrun_keep s xs : rrun true s xs = srun s xs.
Proof.
  assert (E : forall s' x, rstep true s' x = sstep s' x).
  { intros s' x. destruct x; cbn [rstep sstep retire]; [reflexivity|]. apply map_ext. reflexivity. }
  unfold rrun, srun. revert s; induction xs as [|x xs IH]; intros s; cbn [fold_left]; [reflexivity|].
  rewrite E. apply IH.
Qed.
Theorem retention_keep xs : forall s, (forall p, p < length s -> image_ok (nth p s deng)) ->
  forall p, p < length s -> image_ok (nth p (rrun true s xs) deng).
Proof.
  intros s H p Hp. rewrite rrun_keep, (isolation xs s p Hp).
  assert (G : forall ops e, image_ok e -> image_ok (fold_left apply_op ops e)).
  { induction ops as [|o ops IHo]; intros e He; cbn [fold_left]; [exact He | apply IHo, image_apply_op, He]. }
  apply G, H, Hp.
Qed.
(* removing one process touches no other: an operation on process r leaves every other component as it was *)
Theorem retention_others keep s r o q : q <> r -> nth q (rstep keep s (SOp r o)) deng = nth q s deng.
Proof. intros H. cbn [rstep]. rewrite upd_nth. destruct (Nat.eqb_spec q r); [contradiction | reflexivity]. Qed.
