(* the names of the state predicates of state.rs, as they appear in the decision code, to the predicates regenerated
   from state.rs (gen/GenState.v); a name that is not known blocks everything.  Definitions only. *)
From Coq Require Import List Bool String.
Import ListNotations.
From Acts.Gen Require Import GenState.
Open Scope string_scope.
Definition state_pred (n : string) : TaskState -> bool :=
  if String.eqb n "is_pending" then is_pending else if String.eqb n "is_running" then is_running
  else if String.eqb n "is_completed" then is_completed else if String.eqb n "is_created" then is_created
  else if String.eqb n "is_none" then is_none else if String.eqb n "is_error" then is_error
  else if String.eqb n "is_skip" then is_skip else if String.eqb n "is_success" then is_success
  else if String.eqb n "is_abort" then is_abort
  else fun _ => true.
Close Scope string_scope.
