(* C01 on a class of workflows, for every run: a workflow of steps whose acts are interactive (irq) acts -- no conditions,
   branches, catches, timeouts, setup, hooks or function acts -- driven by any schedule and by accepted or rejected
   complete / submit / remove / skip actions, is never stuck: whenever nothing is queued and the process has not ended, some act is
   waiting for a client.  No fuel hypothesis: in this class the review chain is at most act -> step -> workflow deep. *)
From Coq Require Import List Arith ZArith Bool Lia Permutation.
Import ListNotations.
From Acts.Gen Require Import GenState.
From Acts.Model Require Import Engine Class.
From Acts.Proofs Require Import Unfold EngineBasics C02Core C02Ops Findings.


(* ---------- what the engine functions look at, apart from data, rows, trace and clock ---------- *)
Definition key (t : task) := (t_nid t, t_state t, t_prev t, t_evproc t, t_hooks t).
Definition PS (e : eng) : Prop := is_completed (st e 0) = true -> is_completed (pstate e) = true.
Definition teq (e e' : eng) : Prop :=
  nodes e' = nodes e /\ queue e' = queue e /\ exn e' = exn e /\ oof e' = oof e /\ map key (tasks e') = map key (tasks e) /\ (PS e -> PS e').
Lemma teq_refl e : teq e e. Proof. repeat split; auto. Qed.
Lemma teq_trans a b c : teq a b -> teq b c -> teq a c.
Proof. intros (A1 & A2 & A3 & A4 & A5 & A6) (B1 & B2 & B3 & B4 & B5 & B6). repeat split; try congruence. auto. Qed.
Lemma teq_len e e' : teq e e' -> ntasks e' = ntasks e.
Proof. intros (_ & _ & _ & _ & H & _). unfold ntasks. rewrite <- (map_length key (tasks e')), H. apply map_length. Qed.
Lemma teq_key e e' t : teq e e' -> key (tk e' t) = key (tk e t).
Proof.
  intros (_ & _ & _ & _ & H & _). unfold tk. change (key (nth t (tasks e') dtask)) with (key (nth t (tasks e') dtask)).
  rewrite <- (map_nth key (tasks e') dtask t), <- (map_nth key (tasks e) dtask t). now rewrite H.
Qed.
Lemma teq_st e e' t : teq e e' -> st e' t = st e t.
Proof. intros H. apply (teq_key _ _ t) in H. unfold key in H. unfold st. congruence. Qed.
Lemma teq_prev e e' t : teq e e' -> t_prev (tk e' t) = t_prev (tk e t).
Proof. intros H. apply (teq_key _ _ t) in H. unfold key in H. congruence. Qed.
Lemma teq_nid e e' t : teq e e' -> t_nid (tk e' t) = t_nid (tk e t).
Proof. intros H. apply (teq_key _ _ t) in H. unfold key in H. congruence. Qed.
Lemma teq_evproc e e' t : teq e e' -> t_evproc (tk e' t) = t_evproc (tk e t).
Proof. intros H. apply (teq_key _ _ t) in H. unfold key in H. congruence. Qed.
Lemma teq_hooks e e' t : teq e e' -> t_hooks (tk e' t) = t_hooks (tk e t).
Proof. intros H. apply (teq_key _ _ t) in H. unfold key in H. congruence. Qed.
Lemma teq_tnode e e' t : teq e e' -> tnode e' t = tnode e t.
Proof. intros H. unfold tnode, nd. rewrite (teq_nid _ _ t H). destruct H as (-> & _). reflexivity. Qed.
Lemma teq_kind e e' t : teq e e' -> kind e' t = kind e t.
Proof. intros H. unfold kind. now rewrite (teq_tnode _ _ t H). Qed.
Lemma teq_parent_from e e' lvl : teq e e' -> forall f p, parent_from f e' lvl p = parent_from f e lvl p.
Proof.
  intros H. induction f as [|f IH]; intros p; [reflexivity|]. cbn [parent_from]. destruct p as [q|]; [|reflexivity].
  rewrite (teq_tnode _ _ q H), (teq_prev _ _ q H), IH. reflexivity.
Qed.
Lemma teq_parent e e' t : teq e e' -> parent e' t = parent e t.
Proof.
  intros H. unfold parent. rewrite (teq_tnode _ _ t H), (teq_prev _ _ t H), (teq_parent_from _ _ _ H).
  pose proof (teq_len _ _ H) as L. unfold ntasks in L. now rewrite L.
Qed.
Lemma teq_children e e' t : teq e e' -> children e' t = children e t.
Proof.
  intros H. unfold children. pose proof (teq_len _ _ H) as L. unfold ntasks in L. rewrite L.
  apply filter_ext. intros j. now rewrite (teq_prev _ _ j H).
Qed.

(* ---------- quiet steps ---------- *)
Definition nohooks (e : eng) : Prop := forall t, t_hooks (tk e t) = [] /\ t_evproc (tk e t) = false.
Lemma nohooks_teq e e' : teq e e' -> nohooks e -> nohooks e'.
Proof. intros H N t. rewrite (teq_hooks _ _ t H), (teq_evproc _ _ t H). apply N. Qed.
Lemma teq_add_ev e x : teq e (add_ev e x). Proof. repeat split; auto. Qed.
Lemma teq_upsert e i : teq e (upsert e i). Proof. repeat split; auto. Qed.
Lemma teq_persist e : teq e (persist e). Proof. repeat split; auto. Qed.
Lemma key_upd_same (l : list task) i x : key x = key (nth i l dtask) -> map key (upd l i x) = map key l.
Proof.
  revert i. induction l as [|h l IH]; intros i Hk; [reflexivity|]. destruct i as [|i]; cbn [upd map nth] in *; [now rewrite Hk|].
  now rewrite IH.
Qed.
Lemma teq_tmod e i f : (forall x, key (f x) = key x) -> teq e (tmod e i f).
Proof.
  intros K.
  assert (M : map key (tasks (tmod e i f)) = map key (tasks e)) by (unfold tmod; cbn [tasks with_tasks]; apply key_upd_same; apply K).
  split; [reflexivity|]. split; [reflexivity|]. split; [reflexivity|]. split; [reflexivity|]. split; [exact M|].
  unfold PS. intros H H0. change (pstate (tmod e i f)) with (pstate e). apply H.
  assert (E : key (tk (tmod e i f) 0) = key (tk e 0)).
  { unfold tk. rewrite <- (map_nth key (tasks (tmod e i f)) dtask 0), <- (map_nth key (tasks e) dtask 0). now rewrite M. }
  unfold st in *. unfold key in E. congruence.
Qed.
Lemma teq_set_data e i v : teq e (set_data e i v). Proof. apply teq_tmod. reflexivity. Qed.
Lemma teq_set_catches e i v : teq e (set_catches e i v). Proof. apply teq_tmod. reflexivity. Qed.
Lemma teq_set_timeouts e i v : teq e (set_timeouts e i v). Proof. apply teq_tmod. reflexivity. Qed.
Lemma teq_set_silent e i v : teq e (set_silent e i v). Proof. apply teq_tmod. reflexivity. Qed.
Lemma teq_fold {B} (g : eng -> B -> eng) l : (forall e b, teq e (g e b)) -> forall e, teq e (fold_left g l e).
Proof. intros H. induction l as [|b l IH]; intros e; cbn [fold_left]; [apply teq_refl|]. eapply teq_trans; [apply H | apply IH]. Qed.
Lemma teq_update_data e i v : teq e (update_data e i v).
Proof.
  unfold update_data. eapply teq_trans; [|apply teq_set_data].
  apply teq_fold. intros ee kv. destruct (pri_regex _); [apply teq_refl|]. destruct (find _ _); [apply teq_set_data | apply teq_refl].
Qed.
Lemma run_stmt_hooks_none e t ev i : t_hooks (tk e t) = [] -> run_stmt_hooks e t ev i = e.
Proof. intros H. unfold run_stmt_hooks. now rewrite H. Qed.

(* emitting a task that is not in error, when nobody has registered a hook: events, rows and the process state only *)
Lemma emit_teq f e i : nohooks e -> st e i <> SError -> (kind e i = KWorkflow -> i = 0) -> teq e (emit (S f) e i).
Proof.
  intros N He Hroot. rewrite emit_S.
  set (e1a := match kind e i with KWorkflow => if is_created (st e i) then add_ev e (EProc (pstate e) (outputs e i)) else e | _ => e end).
  assert (T1a : teq e e1a) by (unfold e1a; destruct (kind e i); try apply teq_refl; destruct (is_created _); [apply teq_add_ev | apply teq_refl]).
  set (e1 := upsert e1a i).
  assert (T1 : teq e e1) by (eapply teq_trans; [exact T1a | apply teq_upsert]).
  assert (N1 : nohooks e1) by (eapply nohooks_teq; eauto).
  assert (S1 : st e1 i = st e i) by (apply teq_st; exact T1).
  match goal with |- teq e (match kind e i with KWorkflow => if is_completed (st ?e3 i) then _ else _ | _ => _ end) => set (e3v := e3) end.
  assert (T3 : teq e e3v).
  { unfold e3v. match goal with |- teq e (if msg_allowed ?e2 i then _ else _) => set (e2v := e2) end.
    assert (T2 : teq e e2v).
    { unfold e2v. destruct (N1 i) as [_ Hev]. rewrite Hev.
      assert (Hh : forall x ev ee, teq e ee -> run_stmt_hooks ee x ev i = ee).
      { intros x ev ee Te. apply run_stmt_hooks_none. rewrite (teq_hooks _ _ x Te). apply N. }
      destruct (is_created (st e1 i)).
      - rewrite (Hh i LCreated e1 T1). destruct (nkind_beq (kind e i) KAct); [|exact T1].
        destruct (climb_step e1 i) as [sp|]; rewrite ?(Hh _ _ e1 T1); exact T1.
      - destruct (is_completed (st e1 i) && negb (is (st e1 i) SError)).
        + rewrite (Hh i LCompleted e1 T1). destruct (nkind_beq (kind e i) KAct).
          * destruct (climb_step e1 i) as [sp|]; rewrite ?(Hh _ _ e1 T1); exact T1.
          * destruct (nkind_beq (kind e i) KStep); rewrite ?(Hh _ _ e1 T1); exact T1.
        + assert (E : is (st e1 i) SError = false) by (rewrite S1; destruct (st e i); simpl; congruence).
          rewrite E. exact T1. }
    destruct (msg_allowed e2v i); [eapply teq_trans; [exact T2 | apply teq_add_ev] | exact T2]. }
  destruct (kind e i) eqn:Ek; try exact T3.
  destruct (is_completed (st e3v i)) eqn:Ec; [|exact T3].
  eapply teq_trans; [exact T3|]. eapply teq_trans; [|apply teq_add_ev].
  specialize (Hroot eq_refl). subst i.
  repeat split; auto. intros _ _. cbn [pstate with_pstate]. exact Ec.
Qed.

(* ---------- same structure: node table, task count, node ids and prev links ---------- *)
Definition sameS (e e' : eng) : Prop :=
  nodes e' = nodes e /\ ntasks e' = ntasks e /\ forall t, t_nid (tk e' t) = t_nid (tk e t) /\ t_prev (tk e' t) = t_prev (tk e t).
Lemma sameS_teq e e' : teq e e' -> sameS e e'.
Proof. intros H. split; [apply H|]. split; [now apply teq_len|]. intros t. split; [now apply teq_nid | now apply teq_prev]. Qed.
Lemma sameS_set_state site e i s : sameS e (set_state site e i s).
Proof.
  split; [|split].
  - unfold set_state. destruct (negb _); [reflexivity|]. destruct (_ && _); reflexivity.
  - apply ntasks_set_state.
  - intros t. rewrite tk_set_state. destruct (Nat.eqb_spec t i) as [->|]; cbn [andb]; [|auto]. destruct (Nat.ltb _ _); auto.
Qed.
Lemma sameS_tnode e e' t : sameS e e' -> tnode e' t = tnode e t.
Proof. intros (Hn & _ & H). unfold tnode, nd. destruct (H t) as [-> _]. now rewrite Hn. Qed.
Lemma sameS_kind e e' t : sameS e e' -> kind e' t = kind e t.
Proof. intros H. unfold kind. now rewrite (sameS_tnode _ _ t H). Qed.
Lemma sameS_parent_from e e' lvl : sameS e e' -> forall f p, parent_from f e' lvl p = parent_from f e lvl p.
Proof.
  intros H. induction f as [|f IH]; intros p; [reflexivity|]. cbn [parent_from]. destruct p as [q|]; [|reflexivity].
  rewrite (sameS_tnode _ _ q H), IH. destruct H as (_ & _ & H). destruct (H q) as [_ ->]. reflexivity.
Qed.
Lemma sameS_parent e e' t : sameS e e' -> parent e' t = parent e t.
Proof.
  intros H. unfold parent. rewrite (sameS_tnode _ _ t H), (sameS_parent_from _ _ _ H).
  destruct H as (_ & L & H). destruct (H t) as [_ ->]. unfold ntasks in L. now rewrite L.
Qed.
Lemma sameS_children e e' t : sameS e e' -> children e' t = children e t.
Proof.
  intros (_ & L & H). unfold children. unfold ntasks in L. rewrite L.
  apply filter_ext. intros j. destruct (H j) as [_ ->]. reflexivity.
Qed.

Lemma sameS_trans a b c : sameS a b -> sameS b c -> sameS a c.
Proof.
  intros (A1 & A2 & A3) (B1 & B2 & B3). split; [congruence|]. split; [congruence|]. intros t. destruct (A3 t), (B3 t). split; congruence.
Qed.
(* the parent is found on the prev chain, which goes down: the fuel and later tasks do not matter *)
Lemma pf_agree e e' lvl n : nodes e' = nodes e -> (forall q, q < n -> tk e' q = tk e q) ->
  (forall q, q < n -> match t_prev (tk e q) with Some p => p < q | None => True end) ->
  forall q, q < n -> forall f f', q < f -> q < f' -> parent_from f e' lvl (Some q) = parent_from f' e lvl (Some q).
Proof.
  intros Hn Hk HW. induction q as [q IH] using lt_wf_ind. intros Hq f f' Hf Hf'.
  destruct f as [|f]; [lia|]. destruct f' as [|f']; [lia|]. cbn [parent_from].
  unfold tnode, nd. rewrite (Hk q Hq), Hn. destruct (Nat.ltb _ _); [reflexivity|].
  specialize (HW q Hq). destruct (t_prev (tk e q)) as [p|].
  - apply IH; lia.
  - destruct f, f'; reflexivity.
Qed.

(* ---------- the invariants ---------- *)
Definition okst (s : TaskState) : bool :=
  match s with SNone | SReady | SRunning | SInterrupt | SCompleted | SSubmitted | SRemoved | SSkipped | SAborted => true | _ => false end.
Definition opn (e : eng) (t : nat) : Prop := is_completed (st e t) = false.
(* why an open task is not forgotten: it is queued, or it waits for a client, or it runs over an open task of its own *)
Definition clause (e : eng) (t : nat) : Prop :=
  In t (queue e) \/ st e t = SInterrupt \/ (st e t = SRunning /\ exists j, j < ntasks e /\ parent e j = Some t /\ opn e j).
Definition PX (X : nat -> Prop) (e : eng) : Prop := forall t, t < ntasks e -> opn e t -> X t \/ clause e t.
Definition none (_ : nat) : Prop := False.
Definition Prog (e : eng) : Prop := PX none e.

Record SIa (e : eng) : Prop := {
  sia_nodes : frag_nodes (nodes e) = true;
  sia_exn : exn e = false;
  sia_oof : oof e = false;
  sia_nh : nohooks e;
  sia_task : forall t, t < ntasks e -> okst (st e t) = true /\ t_nid (tk e t) < length (nodes e) /\
                                     (kind e t <> KAct -> st e t <> SSkipped) /\ (0 < t -> kind e t <> KWorkflow);
  sia_root : 0 < ntasks e /\ t_prev (tk e 0) = None /\ t_nid (tk e 0) = 0;
  sia_prev : forall t, 0 < t -> t < ntasks e -> exists q, t_prev (tk e t) = Some q /\ q < t /\ st e q <> SNone /\
               ((kind e q <> KAct /\ kind e t = child_kind (kind e q)) \/ (kind e t = kind e q /\ is_completed (st e q) = true));
  sia_queue : (forall t, In t (queue e) -> t < ntasks e /\ (st e t = SNone \/ is_completed (st e t) = true)) /\ NoDup (queue e);
  sia_ps : PS e }.

Lemma SIa_W e : SIa e -> W e.
Proof.
  intros H t Ht. destruct t as [|t].
  - destruct (sia_root e H) as (_ & -> & _). exact I.
  - destruct (sia_prev e H (S t) ltac:(lia) Ht) as (q & -> & Hq & _). exact Hq.
Qed.
Lemma frag_nth ns nid : frag_nodes ns = true -> nid < length ns -> frag_node ns (nth nid ns dnode) = true.
Proof.
  intros H Hn. unfold frag_nodes in H. apply andb_true_iff in H as [H _]. rewrite forallb_forall in H. apply H. now apply nth_In.
Qed.
Lemma SIa_fnode e t : SIa e -> t < ntasks e -> frag_node (nodes e) (tnode e t) = true.
Proof. intros H Ht. unfold tnode, nd. apply frag_nth; [apply H | apply (sia_task e H t Ht)]. Qed.
Lemma SIa_level e t : SIa e -> t < ntasks e -> n_level (tnode e t) = lvl_of (kind e t).
Proof.
  intros H Ht. pose proof (SIa_fnode e t H Ht) as F. unfold frag_node in F.
  repeat (apply andb_true_iff in F as [F ?]). unfold kind. now apply Nat.eqb_eq.
Qed.
Lemma SIa_root_kind e : SIa e -> kind e 0 = KWorkflow.
Proof.
  intros H. destruct (sia_root e H) as (_ & _ & Hn). unfold kind, tnode, nd. rewrite Hn.
  pose proof (sia_nodes e H) as F. unfold frag_nodes in F. apply andb_true_iff in F as [_ F].
  destruct (nodes e) as [|r l]; [discriminate|]. cbn [nth]. destruct (n_kind r); simpl in F; congruence.
Qed.

Lemma nkb_eq a b : nkind_beq a b = true -> a = b. Proof. destruct a, b; simpl; congruence. Qed.
Lemma nkb_refl a : nkind_beq a a = true. Proof. destruct a; reflexivity. Qed.

(* the parent of a task started as a child is its prev; of a task started through a next link, the parent of its prev *)
Lemma parent_child e t q : SIa e -> 0 < t -> t < ntasks e -> t_prev (tk e t) = Some q -> q < t ->
  kind e q <> KAct -> kind e t = child_kind (kind e q) -> parent e t = Some q.
Proof.
  intros H Ht0 Ht Hp Hq Hk Hc. unfold parent. rewrite Hp. cbn [parent_from].
  rewrite (SIa_level e t H Ht), (SIa_level e q H ltac:(lia)), Hc.
  destruct (kind e q); try contradiction; reflexivity.
Qed.
Lemma parent_nextlink e t q : SIa e -> 0 < t -> t < ntasks e -> t_prev (tk e t) = Some q -> q < t ->
  kind e t = kind e q -> parent e t = parent e q.
Proof.
  intros H Ht0 Ht Hp Hq Hk. unfold parent. rewrite Hp. cbn [parent_from].
  rewrite (SIa_level e t H Ht), (SIa_level e q H ltac:(lia)), Hk, Nat.ltb_irrefl.
  pose proof (SIa_W e H) as HW. pose proof (HW q ltac:(lia)) as Hpq.
  destruct (t_prev (tk e q)) as [r|].
  - unfold ntasks in *.
    exact (pf_agree e e (lvl_of (kind e q)) (length (tasks e)) eq_refl (fun _ _ => eq_refl) (fun x Hx => HW x Hx) r ltac:(lia)
             (length (tasks e)) (S (length (tasks e))) ltac:(lia) ltac:(lia)).
  - unfold ntasks in Ht. destruct (length (tasks e)); reflexivity.
Qed.
Lemma parent_level e t p : SIa e -> t < ntasks e -> parent e t = Some p -> p < t /\ lvl_of (kind e p) < lvl_of (kind e t).
Proof.
  intros H Ht Hp. pose proof (SIa_W e H) as HW. split; [eapply parent_lt; eauto|].
  assert (Hpt : p < t) by (eapply parent_lt; eauto).
  unfold parent in Hp. rewrite (SIa_level e t H Ht) in Hp.
  assert (G : forall f q, q < ntasks e -> parent_from f e (lvl_of (kind e t)) (Some q) = Some p -> lvl_of (kind e p) < lvl_of (kind e t)).
  { induction f as [|f IH]; intros q Hq Hf; cbn [parent_from] in Hf; [discriminate|].
    destruct (Nat.ltb_spec (n_level (tnode e q)) (lvl_of (kind e t))) as [Hl|Hl].
    - inversion Hf; subst q. rewrite (SIa_level e p H Hq) in Hl. exact Hl.
    - pose proof (HW q Hq) as Hpq. destruct (t_prev (tk e q)) as [r|]; [apply (IH r); [lia | exact Hf]|].
      destruct f; discriminate. }
  pose proof (HW t Ht) as Hpr. destruct (t_prev (tk e t)) as [q|]; [|cbn in Hp; discriminate].
  apply (G (S (length (tasks e))) q); [lia | exact Hp].
Qed.

(* ---------- the invariants across the primitive steps ---------- *)
Lemma clause_sameS e e' t : sameS e e' -> queue e' = queue e -> (forall x, st e' x = st e x) -> clause e t -> clause e' t.
Proof.
  intros HS HQ Hst [H | [H | (H & j & Hj & Hp & Ho)]].
  - left. now rewrite HQ.
  - right; left. now rewrite Hst.
  - right; right. split; [now rewrite Hst|]. exists j. pose proof HS as (A & B & C). split; [now rewrite B|].
    split; [rewrite (sameS_parent e e' j HS); exact Hp | unfold opn; now rewrite Hst].
Qed.
Lemma SIa_teq e e' : teq e e' -> SIa e -> SIa e'.
Proof.
  intros T H. pose proof (sameS_teq _ _ T) as HS. pose proof (teq_len _ _ T) as L.
  pose proof T as (Tn & Tq & Tx & To & Tk & Tp).
  constructor.
  - rewrite Tn. apply H.
  - rewrite Tx. apply H.
  - rewrite To. apply H.
  - eapply nohooks_teq; eauto. apply H.
  - intros t Ht. rewrite L in Ht. rewrite (teq_st _ _ t T), (teq_nid _ _ t T), (teq_kind _ _ t T), Tn. apply (sia_task e H t Ht).
  - rewrite L, (teq_prev _ _ 0 T), (teq_nid _ _ 0 T). apply H.
  - intros t Ht0 Ht. rewrite L in Ht. destruct (sia_prev e H t Ht0 Ht) as (q & A & B & C & D). exists q.
    rewrite (teq_prev _ _ t T), (teq_st _ _ q T), !(teq_kind _ _ _ T). auto.
  - rewrite Tq. split; [|apply H]. intros t Ht. rewrite L, (teq_st _ _ t T). apply H, Ht.
  - apply Tp, H.
Qed.
Lemma PX_teq X e e' : teq e e' -> PX X e -> PX X e'.
Proof.
  intros T H t Ht Ho. rewrite (teq_len _ _ T) in Ht. unfold opn in Ho. rewrite (teq_st _ _ t T) in Ho.
  destruct (H t Ht Ho) as [Hx | Hc]; [left; exact Hx | right].
  apply (clause_sameS e e'); auto; [now apply sameS_teq | apply T | intros x; now apply teq_st].
Qed.
Lemma PX_weaken (X X' : nat -> Prop) e : PX X e -> (forall t, X t -> t < ntasks e -> opn e t -> X' t \/ clause e t) -> PX X' e.
Proof. intros H HX t Ht Ho. destruct (H t Ht Ho) as [Hx | Hc]; [now apply HX | now right]. Qed.

Lemma st_ss site e i s t : i < ntasks e -> st (set_state site e i s) t = if Nat.eqb t i then s else st e t.
Proof.
  intros Hi. unfold st. rewrite tk_set_state. apply Nat.ltb_lt in Hi. unfold ntasks in Hi. rewrite Hi, andb_true_r.
  destruct (Nat.eqb t i); reflexivity.
Qed.
Lemma key_ss site e i s t : key (tk (set_state site e i s) t) =
  if Nat.eqb t i && Nat.ltb i (length (tasks e)) then (t_nid (tk e i), s, t_prev (tk e i), t_evproc (tk e i), t_hooks (tk e i)) else key (tk e t).
Proof. rewrite tk_set_state. destruct (_ && _); reflexivity. Qed.
Lemma pstate_ss site e i s : i < ntasks e -> pstate (set_state site e i s) = if is_completed s && Nat.eqb i 0 then s else pstate e.
Proof. intros Hi. unfold set_state. apply Nat.ltb_lt in Hi. unfold ntasks in Hi. rewrite Hi. cbn [negb]. destruct (_ && _); reflexivity. Qed.
Lemma misc_ss site e i s : nodes (set_state site e i s) = nodes e /\ exn (set_state site e i s) = exn e /\ oof (set_state site e i s) = oof e.
Proof. unfold set_state. destruct (negb _); [auto|]. destruct (_ && _); auto. Qed.

(* writing a state s to task i: the structural invariant, given what s may be *)
Lemma SIa_ss site e i s : SIa e -> i < ntasks e -> okst s = true -> s <> SNone ->
  (kind e i <> KAct -> s <> SSkipped) ->
  (is_completed s = false -> is_completed (st e i) = false /\ ~ In i (queue e)) ->
  SIa (set_state site e i s).
Proof.
  intros H Hi Hok Hnn Hsk Hopen. pose proof (sameS_set_state site e i s) as HS.
  destruct (misc_ss site e i s) as (Mn & Mx & Mo).
  constructor.
  - rewrite Mn. apply H.
  - rewrite Mx. apply H.
  - rewrite Mo. apply H.
  - intros t. rewrite tk_set_state. destruct (_ && _); [|apply (sia_nh e H t)]. cbn [t_hooks t_evproc]. apply (sia_nh e H i).
  - intros t Ht. rewrite ntasks_set_state in Ht. rewrite (sameS_kind _ _ t HS), Mn. destruct HS as (_ & _ & HS). destruct (HS t) as [-> _].
    rewrite (st_ss site e i s t Hi). destruct (sia_task e H t Ht) as (A & B & C & D).
    destruct (Nat.eqb_spec t i) as [->|]; auto.
  - rewrite ntasks_set_state. destruct HS as (_ & _ & HS). destruct (HS 0) as [-> ->]. apply H.
  - intros t Ht0 Ht. rewrite ntasks_set_state in Ht. destruct (sia_prev e H t Ht0 Ht) as (q & A & B & C & D). exists q.
    rewrite !(sameS_kind _ _ _ HS). destruct HS as (_ & _ & HS). destruct (HS t) as [_ ->].
    rewrite (st_ss site e i s q Hi). split; [exact A|]. split; [exact B|].
    destruct (Nat.eqb_spec q i) as [->|]; [|auto]. split; [exact Hnn|].
    destruct D as [D | [D1 D2]]; [left; exact D|]. right. split; [exact D1|].
    destruct (is_completed s) eqn:Es; [reflexivity|]. destruct (Hopen eq_refl) as [Ho _]. congruence.
  - rewrite queue_set_state. split; [|apply H]. intros t Ht. rewrite ntasks_set_state, (st_ss site e i s t Hi).
    destruct (proj1 (sia_queue e H) t Ht) as [A B]. split; [exact A|].
    destruct (Nat.eqb_spec t i) as [->|]; [|exact B].
    destruct (is_completed s) eqn:Es; [now right|]. destruct (Hopen eq_refl) as [_ Hq]. contradiction.
  - unfold PS. rewrite (st_ss site e i s 0 Hi), (pstate_ss site e i s Hi). pose proof (sia_ps e H) as P. unfold PS in P.
    destruct (Nat.eqb_spec 0 i) as [<-|Hne].
    + intros Hc. rewrite Hc. cbn. exact Hc.
    + intros Hc. replace (Nat.eqb i 0) with false by (symmetry; apply Nat.eqb_neq; lia). rewrite andb_false_r. now apply P.
Qed.

(* closing task i: only the clause of its running parent may be lost *)
Lemma PX_close site X e i s : PX X e -> i < ntasks e -> is_completed s = true ->
  PX (fun t => X t \/ (parent e i = Some t /\ st e t = SRunning)) (set_state site e i s).
Proof.
  intros H Hi Hs t Ht Ho. rewrite ntasks_set_state in Ht. unfold opn in Ho. rewrite (st_ss site e i s t Hi) in Ho.
  destruct (Nat.eqb_spec t i) as [->|Hne]; [congruence|].
  destruct (H t Ht Ho) as [Hx | [Hc | [Hc | (Hc & j & Hj & Hp & Hjo)]]]; [left; now left | right; left; now rewrite queue_set_state | |].
  - right; right; left. rewrite (st_ss site e i s t Hi). apply Nat.eqb_neq in Hne. now rewrite Hne.
  - destruct (Nat.eq_dec j i) as [->|Hji]; [left; right; auto|].
    right; right; right. rewrite (st_ss site e i s t Hi). apply Nat.eqb_neq in Hne. rewrite Hne. split; [exact Hc|].
    exists j. rewrite ntasks_set_state. split; [exact Hj|]. rewrite (sameS_parent _ _ j (sameS_set_state site e i s)). split; [exact Hp|].
    unfold opn. rewrite (st_ss site e i s j Hi). apply Nat.eqb_neq in Hji. now rewrite Hji.
Qed.
(* writing an open state to an excused task *)
Lemma PX_open site (X : nat -> Prop) e i s : PX X e -> i < ntasks e -> X i -> is_completed s = false ->
  PX X (set_state site e i s).
Proof.
  intros H Hi Hx Hs t Ht Ho. rewrite ntasks_set_state in Ht.
  destruct (Nat.eq_dec t i) as [->|Hne]; [now left|].
  unfold opn in Ho. rewrite (st_ss site e i s t Hi) in Ho. pose proof Hne as Hne'. apply Nat.eqb_neq in Hne'. rewrite Hne' in Ho.
  destruct (H t Ht Ho) as [Hx' | [Hc | [Hc | (Hc & j & Hj & Hp & Hjo)]]]; [now left | right; left; now rewrite queue_set_state | |].
  - right; right; left. rewrite (st_ss site e i s t Hi). now rewrite Hne'.
  - right; right; right. rewrite (st_ss site e i s t Hi), Hne'. split; [exact Hc|].
    exists j. rewrite ntasks_set_state. split; [exact Hj|]. rewrite (sameS_parent _ _ j (sameS_set_state site e i s)). split; [exact Hp|].
    unfold opn. rewrite (st_ss site e i s j Hi). destruct (Nat.eqb j i); auto.
Qed.

(* ---------- starting a task (Process::create_task + Runtime::push) ---------- *)
Lemma st_spawn v e nid p t : st (sched_v v e nid p) t = if Nat.eqb t (ntasks e) then SNone else st e t.
Proof. unfold st. rewrite tk_sched_v. unfold ntasks. destruct (Nat.eqb _ _); reflexivity. Qed.
Lemma kind_spawn v e nid p t : kind (sched_v v e nid p) t = if Nat.eqb t (ntasks e) then n_kind (nd e nid) else kind e t.
Proof. unfold kind, tnode. rewrite tk_sched_v. unfold ntasks. destruct (Nat.eqb _ _); reflexivity. Qed.
Lemma parent_spawn_old v e nid p t : W e -> t < ntasks e -> parent (sched_v v e nid p) t = parent e t.
Proof.
  intros HW Ht. unfold parent. set (e' := sched_v v e nid p).
  assert (Hk : forall q, q < ntasks e -> tk e' q = tk e q).
  { intros q Hq. unfold e'. rewrite tk_sched_v. unfold ntasks in Hq. destruct (Nat.eqb_spec q (length (tasks e))); [lia | reflexivity]. }
  assert (Hn : nodes e' = nodes e) by reflexivity.
  unfold tnode, nd. rewrite (Hk t Ht), Hn. pose proof (HW t Ht) as Hp. destruct (t_prev (tk e t)) as [q|]; [|reflexivity].
  pose proof (ntasks_sched_v v e nid p) as L. fold e' in L. unfold ntasks in *.
  exact (pf_agree e e' (n_level (nth (t_nid (tk e t)) (nodes e) dnode)) (length (tasks e)) Hn Hk (fun x Hx => HW x Hx) q ltac:(lia)
           (S (length (tasks e'))) (S (length (tasks e))) ltac:(lia) ltac:(lia)).
Qed.
Lemma SIa_spawn v e nid p : SIa e -> p < ntasks e -> nid < length (nodes e) -> st e p <> SNone ->
  ((kind e p <> KAct /\ n_kind (nd e nid) = child_kind (kind e p)) \/
   (n_kind (nd e nid) = kind e p /\ is_completed (st e p) = true /\ kind e p <> KWorkflow)) ->
  SIa (sched_v v e nid p).
Proof.
  intros H Hp Hnid Hst Halt. set (e' := sched_v v e nid p).
  assert (L : ntasks e' = S (ntasks e)) by apply ntasks_sched_v.
  assert (Hk : forall q, q < ntasks e -> tk e' q = tk e q).
  { intros q Hq. unfold e'. rewrite tk_sched_v. unfold ntasks in Hq. destruct (Nat.eqb_spec q (length (tasks e))); [lia | reflexivity]. }
  assert (Hnew : tk e' (ntasks e) = new_task nid (Some p)) by (unfold e'; rewrite tk_sched_v; unfold ntasks; now rewrite Nat.eqb_refl).
  assert (Hkd : forall q, q < ntasks e -> kind e' q = kind e q) by (intros q Hq; unfold e'; rewrite kind_spawn; destruct (Nat.eqb_spec q (ntasks e)); [lia | reflexivity]).
  assert (Hs : forall q, q < ntasks e -> st e' q = st e q) by (intros q Hq; unfold st; now rewrite Hk).
  assert (Hkn : kind e' (ntasks e) = n_kind (nd e nid)) by (unfold e'; rewrite kind_spawn; now rewrite Nat.eqb_refl).
  constructor.
  - apply H.
  - apply H.
  - apply H.
  - intros t. unfold e'. rewrite tk_sched_v. destruct (Nat.eqb _ _); [split; reflexivity | apply (sia_nh e H t)].
  - intros t Ht. rewrite L in Ht. destruct (Nat.eq_dec t (ntasks e)) as [->|Hne].
    + rewrite Hkn. unfold st. rewrite Hnew. cbn [new_task t_state t_nid]. split; [reflexivity|]. split; [exact Hnid|].
      split; [discriminate|]. intros _.
      destruct Halt as [[A B] | (B & _ & C)]; rewrite B; [destruct (kind e p); simpl; discriminate | exact C].
    + assert (Ht' : t < ntasks e) by lia. rewrite (Hkd t Ht'), (Hs t Ht'), (Hk t Ht'). apply (sia_task e H t Ht').
  - rewrite L. destruct (sia_root e H) as (A & B & C). rewrite (Hk 0 A). split; [lia | auto].
  - intros t Ht0 Ht. rewrite L in Ht. destruct (Nat.eq_dec t (ntasks e)) as [->|Hne].
    + exists p. rewrite Hnew. cbn [new_task t_prev]. split; [reflexivity|]. split; [exact Hp|].
      rewrite (Hs p Hp), (Hkd p Hp), Hkn. split; [exact Hst|].
      destruct Halt as [[A B] | (B & C & _)]; [left | right]; auto.
    + assert (Ht' : t < ntasks e) by lia. destruct (sia_prev e H t Ht0 Ht') as (q & A & B & C & D). exists q.
      rewrite (Hk t Ht'), (Hs q ltac:(lia)), (Hkd q ltac:(lia)), (Hkd t Ht'). auto.
  - change (queue e') with (queue e ++ [ntasks e]). destruct (sia_queue e H) as [Q1 Q2]. split.
    + intros t Ht. apply in_app_iff in Ht as [Ht | [<- | []]].
      * destruct (Q1 t Ht) as [A B]. rewrite L, (Hs t A). split; [lia | exact B].
      * rewrite L. split; [lia|]. left. unfold st. now rewrite Hnew.
    + assert (Hni : ~ In (ntasks e) (queue e)) by (intros Hin; destruct (Q1 _ Hin); lia).
      clear - Q2 Hni. induction (queue e) as [|x l IH]; cbn [app]; [constructor; [intros [] | constructor]|].
      inversion Q2; subst. constructor.
      * intros Hin. apply in_app_iff in Hin as [Hin | [<- | []]]; [contradiction | apply Hni; now left].
      * apply IH; auto. intros Hin. apply Hni. now right.
  - pose proof (sia_ps e H) as P. unfold PS in *. destruct (sia_root e H) as (A & _). rewrite (Hs 0 A). exact P.
Qed.
Lemma PX_spawn v X e nid p : SIa e -> PX X e -> PX X (sched_v v e nid p).
Proof.
  intros H HP t Ht Ho. rewrite ntasks_sched_v in Ht. unfold opn in Ho. rewrite st_spawn in Ho.
  change (queue (sched_v v e nid p)) with (queue e ++ [ntasks e]).
  destruct (Nat.eqb_spec t (ntasks e)) as [->|Hne].
  - right; left. apply in_app_iff. right. now left.
  - assert (Ht' : t < ntasks e) by lia.
    destruct (HP t Ht' Ho) as [Hx | [Hc | [Hc | (Hc & j & Hj & Hp & Hjo)]]]; [now left | right; left; apply in_app_iff; now left | |].
    + right; right; left. rewrite st_spawn. apply Nat.eqb_neq in Hne. now rewrite Hne.
    + right; right; right. rewrite st_spawn. apply Nat.eqb_neq in Hne. rewrite Hne. split; [exact Hc|].
      exists j. rewrite ntasks_sched_v. split; [lia|]. rewrite parent_spawn_old; [|now apply SIa_W | exact Hj]. split; [exact Hp|].
      unfold opn. rewrite st_spawn. destruct (Nat.eqb_spec j (ntasks e)); [lia | exact Hjo].
Qed.
Lemma clause_new e par j : j < ntasks e -> parent e j = Some par -> opn e j -> st e par = SRunning -> clause e par.
Proof. intros Hj Hp Ho Hr. right; right. split; [exact Hr|]. exists j. auto. Qed.

(* ---------- Scheduler::next takes a task from the queue ---------- *)
Lemma SIa_pop e i q x : SIa e -> queue e = i :: q -> SIa (add_ev (with_queue e q) x).
Proof.
  intros H Hq. constructor; try apply H.
  - change (queue (add_ev (with_queue e q) x)) with q. destruct (sia_queue e H) as [Q1 Q2]. rewrite Hq in Q1, Q2. split.
    + intros t Ht. apply (Q1 t). now right.
    + now inversion Q2.
Qed.
Lemma PX_pop X e i q x : PX X e -> queue e = i :: q -> PX (fun t => X t \/ t = i) (add_ev (with_queue e q) x).
Proof.
  intros H Hq t Ht Ho.
  assert (HS : sameS e (add_ev (with_queue e q) x)) by (split; [reflexivity | split; [reflexivity | intros y; split; reflexivity]]).
  destruct (H t Ht Ho) as [Hx | [Hc | [Hc | (Hc & j & Hj & Hp & Hjo)]]]; [left; now left | | right; right; left; exact Hc |].
  - rewrite Hq in Hc. destruct Hc as [<- | Hc]; [left; now right | right; left; exact Hc].
  - right; right; right. split; [exact Hc|]. exists j. split; [exact Hj|]. split; [|exact Hjo].
    rewrite (sameS_parent _ _ j HS). exact Hp.
Qed.


(* ---------- the hierarchy part of the invariant (C03 on the class): an open task's parent is running, and a parent has at
   most one open task at a time (tasks under one parent are started one after another) ---------- *)
Record SI (e : eng) : Prop := {
  si_a :> SIa e;
  si_up : forall j p, j < ntasks e -> parent e j = Some p -> opn e j -> st e p = SRunning;
  si_one : forall j1 j2 p, j1 < ntasks e -> j2 < ntasks e -> parent e j1 = Some p -> parent e j2 = Some p -> opn e j1 -> opn e j2 -> j1 = j2 }.
Definition si_nodes e (H : SI e) := sia_nodes e H.
Definition si_exn e (H : SI e) := sia_exn e H.
Definition si_oof e (H : SI e) := sia_oof e H.
Definition si_nh e (H : SI e) := sia_nh e H.
Definition si_task e (H : SI e) := sia_task e H.
Definition si_root e (H : SI e) := sia_root e H.
Definition si_prev e (H : SI e) := sia_prev e H.
Definition si_queue e (H : SI e) := sia_queue e H.
Definition si_ps e (H : SI e) := sia_ps e H.
Definition SI_W e (H : SI e) : W e := SIa_W e H.
Definition SI_fnode e t (H : SI e) := SIa_fnode e t H.
Definition SI_level e t (H : SI e) := SIa_level e t H.
Definition SI_root_kind e (H : SI e) := SIa_root_kind e H.
Definition nochild (e : eng) (p : nat) : Prop := forall j, j < ntasks e -> parent e j = Some p -> opn e j -> False.

Lemma SU_same e e' : sameS e e' -> (forall x, st e' x = st e x) -> SIa e' -> SI e -> SI e'.
Proof.
  intros HS Hst Ha H. pose proof HS as (_ & L & _). constructor; [exact Ha | |].
  - intros j p Hj Hp Ho. rewrite L in Hj. rewrite (sameS_parent _ _ j HS) in Hp. unfold opn in Ho. rewrite Hst in *. now apply (si_up e H j p).
  - intros j1 j2 p H1 H2 P1 P2 O1 O2. rewrite L in H1, H2. rewrite (sameS_parent _ _ j1 HS) in P1. rewrite (sameS_parent _ _ j2 HS) in P2. unfold opn in O1, O2. rewrite Hst in O1, O2.
    now apply (si_one e H j1 j2 p).
Qed.
Lemma SI_teq e e' : teq e e' -> SI e -> SI e'.
Proof. intros T H. apply (SU_same e e'); [now apply sameS_teq | intros x; now apply teq_st | apply (SIa_teq e e' T H) | exact H]. Qed.
Lemma SI_pop e i q x : SI e -> queue e = i :: q -> SI (add_ev (with_queue e q) x).
Proof.
  intros H Hq. apply (SU_same e); [split; [reflexivity | split; [reflexivity | intros y; split; reflexivity]] | reflexivity | apply (SIa_pop e i q x (si_a e H) Hq) | exact H].
Qed.
(* a parent is on the prev chain: it has a task started directly beneath it *)
Lemma parent_has_child e j p : parent e j = Some p -> children e p <> [] \/ ntasks e <= j.
Proof.
  intros Hp. destruct (Nat.lt_ge_cases j (ntasks e)) as [Hj|Hj]; [left | now right].
  unfold parent in Hp.
  assert (G : forall f c, c < ntasks e -> t_prev (tk e c) <> None -> parent_from f e (n_level (tnode e j)) (t_prev (tk e c)) = Some p ->
              exists c', c' < ntasks e /\ t_prev (tk e c') = Some p).
  { induction f as [|f IH]; intros c Hc Hn Hf; [discriminate|]. cbn [parent_from] in Hf. destruct (t_prev (tk e c)) as [q|] eqn:Eq; [|congruence].
    destruct (Nat.ltb _ _); [inversion Hf; subst q; exists c; auto|].
    destruct (Nat.lt_ge_cases q (ntasks e)) as [Hq|Hq].
    - destruct (t_prev (tk e q)) as [r|] eqn:Er; [|destruct f; discriminate]. apply (IH q Hq); [congruence | now rewrite Er].
    - unfold tk in Hf. rewrite (nth_overflow (tasks e) dtask Hq) in Hf. cbn in Hf. destruct f; discriminate. }
  destruct (t_prev (tk e j)) as [q|] eqn:Eq; [|cbn in Hp; discriminate].
  destruct (G _ j Hj ltac:(congruence) ltac:(rewrite Eq; exact Hp)) as (c & Hc & Hpc).
  intros Hnil. assert (Hin : In c (children e p)).
  { unfold children. apply filter_In. split; [apply in_seq; unfold ntasks in Hc; lia | rewrite Hpc; apply Nat.eqb_refl]. }
  rewrite Hnil in Hin. destruct Hin.
Qed.
Lemma nochild_nil e p : children e p = [] -> nochild e p.
Proof. intros Hn j Hj Hp _. destruct (parent_has_child e j p Hp) as [H | H]; [contradiction | lia]. Qed.
Lemma nochild_act e p : SIa e -> kind e p = KAct -> nochild e p.
Proof.
  intros H Hk j Hj Hp _. destruct (parent_level e j p H Hj Hp) as [_ Hl]. rewrite Hk in Hl. cbn [lvl_of] in Hl.
  destruct (kind e j); cbn [lvl_of] in Hl; lia.
Qed.
(* writing a state to task i *)
Lemma SI_ssR site e i s : SI e -> i < ntasks e -> okst s = true -> s <> SNone ->
  (kind e i <> KAct -> s <> SSkipped) ->
  (is_completed s = false -> is_completed (st e i) = false /\ ~ In i (queue e)) ->
  (s <> SRunning -> nochild e i) ->
  SI (set_state site e i s).
Proof.
  intros H Hi Hok Hnn Hsk Hopen Hkids. pose proof (sameS_set_state site e i s) as HS.
  assert (Ho : forall j, opn (set_state site e i s) j -> opn e j).
  { intros j. unfold opn. rewrite (st_ss site e i s j Hi). destruct (Nat.eqb_spec j i) as [->|]; [|auto]. intros Hs. now apply Hopen. }
  constructor; [apply SIa_ss; auto; apply (si_a e H) | |].
  - intros j p Hj Hp Hjo. rewrite ntasks_set_state in Hj. rewrite (sameS_parent _ _ j HS) in Hp. rewrite (st_ss site e i s p Hi).
    destruct (Nat.eqb_spec p i) as [->|Hne]; [|apply (si_up e H j p Hj Hp (Ho j Hjo))].
    destruct (TaskState_eq_dec s SRunning) as [->|Hns]; [reflexivity|]. exfalso. apply (Hkids Hns j Hj Hp (Ho j Hjo)).
  - intros j1 j2 p H1 H2 P1 P2 O1 O2. rewrite ntasks_set_state in H1, H2. rewrite (sameS_parent _ _ j1 HS) in P1. rewrite (sameS_parent _ _ j2 HS) in P2.
    apply (si_one e H j1 j2 p); auto.
Qed.
Lemma SI_ss site e i s : SI e -> i < ntasks e -> okst s = true -> s <> SNone ->
  (kind e i <> KAct -> s <> SSkipped) ->
  (is_completed s = false -> is_completed (st e i) = false /\ ~ In i (queue e)) ->
  (s <> SRunning -> nochild e i) ->
  SI (set_state site e i s).
Proof. intros H Hi Hok Hnn Hsk Hopen Hkids. now apply SI_ssR. Qed.
(* starting a task: the parent of the new task is running and has no other open task *)
Lemma SI_spawn v e nid p : SI e -> p < ntasks e -> nid < length (nodes e) -> st e p <> SNone ->
  ((kind e p <> KAct /\ n_kind (nd e nid) = child_kind (kind e p) /\ st e p = SRunning /\ nochild e p) \/
   (n_kind (nd e nid) = kind e p /\ is_completed (st e p) = true /\ kind e p <> KWorkflow /\
    forall pp, parent e p = Some pp -> st e pp = SRunning /\ nochild e pp)) ->
  SI (sched_v v e nid p).
Proof.
  intros H Hp Hnid Hst Halt. set (e' := sched_v v e nid p).
  assert (Ha : SIa e').
  { apply SIa_spawn; auto; [apply (si_a e H)|]. destruct Halt as [(A & B & _) | (A & B & C & _)]; [left | right]; auto. }
  assert (L : ntasks e' = S (ntasks e)) by apply ntasks_sched_v.
  assert (Hs : forall q, st e' q = if Nat.eqb q (ntasks e) then SNone else st e q) by (intros q; apply st_spawn).
  assert (Hpo : forall t, t < ntasks e -> parent e' t = parent e t) by (intros t Ht; apply parent_spawn_old; [apply (SI_W e H) | exact Ht]).
  assert (Hnewp : forall par, parent e' (ntasks e) = Some par -> st e par = SRunning /\ nochild e par /\ par < ntasks e).
  { intros par Hpar.
    assert (Hnewprev : t_prev (tk e' (ntasks e)) = Some p) by (unfold e'; rewrite tk_sched_v; unfold ntasks; now rewrite Nat.eqb_refl).
    assert (Hkn : kind e' (ntasks e) = n_kind (nd e nid)) by (unfold e'; rewrite kind_spawn; now rewrite Nat.eqb_refl).
    assert (Hkp : kind e' p = kind e p) by (unfold e'; rewrite kind_spawn; destruct (Nat.eqb_spec p (ntasks e)); [lia | reflexivity]).
    assert (Hlt : par < ntasks e) by (pose proof (parent_lt e' (ntasks e) par (SIa_W e' Ha) ltac:(lia) Hpar); lia).
    destruct Halt as [(A & B & C & D) | (A & B & C & D)].
    - rewrite (parent_child e' (ntasks e) p Ha) in Hpar; try lia; auto; [|now rewrite Hkp | now rewrite Hkn, Hkp].
      inversion Hpar; subst par. auto.
    - rewrite (parent_nextlink e' (ntasks e) p Ha) in Hpar; try lia; auto; [|now rewrite Hkn, Hkp].
      rewrite (Hpo p Hp) in Hpar. destruct (D par Hpar). auto. }
  constructor; [exact Ha | |].
  - intros j q Hj Hq Hjo. rewrite L in Hj. rewrite Hs.
    destruct (Nat.eq_dec j (ntasks e)) as [->|Hne].
    + destruct (Hnewp q Hq) as (A & _ & B). destruct (Nat.eqb_spec q (ntasks e)); [lia | exact A].
    + assert (Hj' : j < ntasks e) by lia. rewrite (Hpo j Hj') in Hq. unfold opn in Hjo. rewrite Hs in Hjo.
      destruct (Nat.eqb_spec j (ntasks e)); [lia|].
      pose proof (parent_lt e j q (SI_W e H) Hj' Hq). destruct (Nat.eqb_spec q (ntasks e)); [lia|]. apply (si_up e H j q Hj' Hq Hjo).
  - intros j1 j2 q H1 H2 P1 P2 O1 O2. rewrite L in H1, H2.
    assert (Hold : forall j, j < ntasks e -> opn e' j -> opn e j).
    { intros j Hj. unfold opn. rewrite Hs. destruct (Nat.eqb_spec j (ntasks e)); [lia | auto]. }
    destruct (Nat.eq_dec j1 (ntasks e)) as [->|N1], (Nat.eq_dec j2 (ntasks e)) as [->|N2]; auto.
    + exfalso. destruct (Hnewp q P1) as (_ & Hnc & _). assert (Hj : j2 < ntasks e) by lia. rewrite (Hpo j2 Hj) in P2. apply (Hnc j2 Hj P2 (Hold j2 Hj O2)).
    + exfalso. destruct (Hnewp q P2) as (_ & Hnc & _). assert (Hj : j1 < ntasks e) by lia. rewrite (Hpo j1 Hj) in P1. apply (Hnc j1 Hj P1 (Hold j1 Hj O1)).
    + assert (Hj1 : j1 < ntasks e) by lia. assert (Hj2 : j2 < ntasks e) by lia. rewrite (Hpo j1 Hj1) in P1. rewrite (Hpo j2 Hj2) in P2.
      apply (si_one e H j1 j2 q); auto.
Qed.
Lemma emit_teqS f e i : SI e -> st e i <> SError -> (kind e i = KWorkflow -> i = 0) -> teq e (emit (S f) e i).
Proof. intros H. apply emit_teq. apply (si_nh e H). Qed.

(* ---------- review: whoever is reviewed ends with a reason to be open, or closed ---------- *)
Definition Good (e : eng) : Prop := SI e /\ Prog e.
Lemma Good_teq e e' : teq e e' -> Good e -> Good e'.
Proof. intros T [A B]. split; [eapply SI_teq; eauto | eapply PX_teq; eauto]. Qed.
Lemma open_child_clause e p c : SI e -> p < ntasks e -> st e p = SRunning -> In c (children e p) -> opn e c -> clause e p.
Proof.
  intros H Hp Hr Hc Ho. pose proof (children_lt _ _ _ Hc) as Hcn. pose proof (children_prev _ _ _ Hc) as Hpr.
  pose proof (children_gt _ _ _ (SI_W e H) Hc) as Hgt.
  destruct (si_prev e H c ltac:(lia) Hcn) as (q & A & B & C & D). rewrite Hpr in A. inversion A; subst q.
  destruct D as [[D1 D2] | [_ D2]]; [|rewrite Hr in D2; discriminate].
  apply (clause_new e p c); auto. apply (parent_child e c p (si_a e H)); auto; lia.
Qed.
Lemma is_refl s : is s s = true. Proof. destruct s; reflexivity. Qed.
Lemma okst_open s : okst s = true -> is s SPending = false /\ is s SError = false.
Proof. destruct s; simpl; intros; try discriminate; auto. Qed.

Lemma nochild_teq e e' p : teq e e' -> nochild e p -> nochild e' p.
Proof.
  intros T H j Hj Hp Ho. rewrite (teq_len _ _ T) in Hj. rewrite (teq_parent _ _ j T) in Hp. unfold opn in Ho. rewrite (teq_st _ _ j T) in Ho.
  exact (H j Hj Hp Ho).
Qed.
(* after task i (open, with parent pp) has been closed, pp is running and has no open task left *)
Lemma after_close site e i s pp : SI e -> i < ntasks e -> opn e i -> is_completed s = true -> parent e i = Some pp ->
  st (set_state site e i s) pp = SRunning /\ nochild (set_state site e i s) pp.
Proof.
  intros H Hi Ho Hs Hp. pose proof (parent_lt e i pp (SI_W e H) Hi Hp) as Hlt. split.
  - rewrite (st_ss site e i s pp Hi). destruct (Nat.eqb_spec pp i); [lia|]. apply (si_up e H i pp Hi Hp Ho).
  - intros j Hj Hpj Hjo. rewrite ntasks_set_state in Hj. rewrite (sameS_parent _ _ j (sameS_set_state site e i s)) in Hpj.
    unfold opn in Hjo. rewrite (st_ss site e i s j Hi) in Hjo. destruct (Nat.eqb_spec j i) as [->|Hne]; [congruence|].
    apply Hne. apply (si_one e H j i pp); auto.
Qed.
Lemma review_good : forall F cv from e p, SI e -> PX (fun t => t = p /\ st e t = SRunning) e -> nochild e p -> p < ntasks e ->
  kind e p <> KAct -> lvl_of (kind e p) + 2 <= F -> Good (review F cv from e p).
Proof.
  induction F as [|f IH]; intros cv from e p H HP Hnc Hp Hna HF; [lia|].
  rewrite review_S. destruct (si_nh e H from) as [_ Hev]. rewrite Hev.
  set (e0 := update_data e p (outputs e from)).
  assert (T0 : teq e e0) by apply teq_update_data.
  assert (H0 : SI e0) by (eapply SI_teq; eauto).
  assert (HP0 : PX (fun t => t = p /\ st e t = SRunning) e0) by (eapply PX_teq; eauto).
  assert (Hnc0 : nochild e0 p) by (eapply nochild_teq; eauto).
  assert (L0 : ntasks e0 = ntasks e) by (now apply teq_len).
  assert (Hp0 : p < ntasks e0) by lia.
  assert (S0 : forall t, st e0 t = st e t) by (intros t; now apply teq_st).
  assert (K0 : kind e0 p = kind e p) by (now apply teq_kind).
  destruct (si_task e0 H0 p Hp0) as (Hok & Hnid & Hact & Hwf).
  destruct (okst_open _ Hok) as (Epend & Eerr).
  assert (Eskip : is (st e0 p) SSkipped = false).
  { destruct (si_task e0 H0 p Hp0) as (_ & _ & Hsk & _). rewrite K0 in Hsk. specialize (Hsk Hna). destruct (st e0 p); simpl; congruence. }
  (* when p is not running nothing is excused *)
  assert (Hnr : st e p <> SRunning -> Good e0).
  { intros Hn. split; [exact H0|]. apply (PX_weaken _ _ _ HP0). intros t [-> Hr] _ _. contradiction. }
  destruct (TaskState_eq_dec (st e p) SRunning) as [Hr | Hn].
  2:{ assert (Er : is (st e0 p) SRunning = false) by (rewrite S0; destruct (st e p); simpl; congruence).
      destruct (kind e0 p); rewrite Er, ?Eskip; cbn [fst snd]; rewrite is_refl, andb_false_r; now apply Hnr. }
  assert (Hr0 : st e0 p = SRunning) by (now rewrite S0).
  assert (Er : is (st e0 p) SRunning = true) by (rewrite Hr0; reflexivity). rewrite Er.
  assert (Hf : exists f', f = S f') by (destruct f; [lia | eauto]). destruct Hf as [f' ->].
  assert (Hfalse : forall (g : nat -> bool), forallb g (children e0 p) = false -> (forall c, g c = false -> opn e0 c) -> Good e0).
  { intros g Hg Hgo. split; [exact H0|]. apply (PX_weaken _ _ _ HP0). intros t [-> _] _ _. right.
    assert (Hex : exists c, In c (children e0 p) /\ g c = false).
    { clear - Hg. induction (children e0 p) as [|c l IHl]; [discriminate|]. cbn [forallb] in Hg. destruct (g c) eqn:Ec.
      - destruct (IHl Hg) as (c' & A & B). exists c'. split; [now right | exact B].
      - exists c. split; [now left | exact Ec]. }
    destruct Hex as (c & Hc & Hgc). apply (open_child_clause e0 p c); auto. }
  (* closing p at `site`, then the emission and the walk up *)
  assert (Hclose : forall site, let e1 := set_state site e0 p SCompleted in
            SI e1 /\ PX (fun t => parent e0 p = Some t /\ st e0 t = SRunning) e1 /\ st e1 p = SCompleted).
  { intros site e1. assert (H1 : SI e1).
    { apply SI_ss; auto; try discriminate. }
    split; [exact H1|]. split.
    - apply (PX_weaken _ _ _ (PX_close site _ e0 p SCompleted HP0 Hp0 eq_refl)).
      intros t [[-> _] | Hx] Ht Ho; [|now left]. unfold opn in Ho. unfold e1 in Ho. rewrite (st_ss site e0 p SCompleted p Hp0), Nat.eqb_refl in Ho. discriminate.
    - unfold e1. now rewrite (st_ss site e0 p SCompleted p Hp0), Nat.eqb_refl. }
  destruct (kind e0 p) eqn:Ek.
  - (* workflow: p is the root *)
    assert (p = 0) by (destruct p; [reflexivity | exfalso; apply Hwf; [lia | reflexivity]]). subst p.
    destruct (forallb _ (children e0 0)) eqn:Ed; cbn [fst snd].
    + destruct (Hclose 14) as (H1 & P1 & S1). set (e1 := set_state 14 e0 0 SCompleted) in *.
      rewrite S1, Hr0. cbn [is_completed is andb negb TaskState_beq].
      assert (T2 : teq e1 (emit (S f') e1 0)) by (apply emit_teqS; [exact H1 | rewrite S1; discriminate | auto]).
      assert (Par1 : parent e1 0 = parent e0 0) by (apply sameS_parent, sameS_set_state).
      rewrite (teq_parent _ _ 0 T2), Par1.
      assert (Hpar : parent e0 0 = None) by (unfold parent; destruct (si_root e0 H0) as (_ & -> & _); reflexivity).
      rewrite Hpar. apply (Good_teq _ _ T2). split; [exact H1|]. apply (PX_weaken _ _ _ P1). intros t [Hx _]. congruence.
    + rewrite Hr0. cbn [is_completed andb]. apply (Hfalse _ Ed). intros c Hc. apply orb_false_iff in Hc as [Hc _]. exact Hc.
  - (* branch: not in this class *)
    exfalso. pose proof (SI_fnode e0 p H0 Hp0) as Fn. unfold frag_node in Fn. repeat (apply andb_true_iff in Fn as [Fn ?]).
    unfold kind in Ek. rewrite Ek in *. discriminate.
  - (* step *)
    match goal with |- context [ (fix scan (l : list nat) (ee : eng) {struct l} : option eng * eng := @?body scan l ee) ] =>
      set (scan := (fix scan (l : list nat) (ee : eng) {struct l} : option eng * eng := body scan l ee))
    end.
    assert (HS : forall l, (forall j, In j l -> j < ntasks e0) -> scan l e0 = (None, e0)).
    { induction l as [|j l IHl]; intros Hl; [reflexivity|]. cbn [scan].
      destruct (si_task e0 H0 j (Hl j (or_introl eq_refl))) as (Hokj & _). destruct (okst_open _ Hokj) as (-> & _).
      apply IHl. intros; apply Hl; now right. }
    rewrite HS by (intros j Hj; eapply children_lt; eauto).
    destruct (forallb _ (children e0 p)) eqn:Ed; cbn [fst snd].
    + rewrite Hr0. cbn [is_completed negb].
      destruct (Hclose 16) as (H1 & P1 & S1). set (e1 := set_state 16 e0 p SCompleted) in *.
      assert (Tn1 : tnode e1 p = tnode e0 p) by (apply sameS_tnode, sameS_set_state). rewrite Tn1.
      assert (Hp1 : p < ntasks e1) by (unfold e1; now rewrite ntasks_set_state).
      assert (Par1 : parent e1 p = parent e0 p) by (apply sameS_parent, sameS_set_state).
      destruct (n_next (tnode e0 p)) as [nx|] eqn:Enx; cbn [fst snd].
      * (* the successor is started: the parent has an open task again *)
        pose proof (SI_fnode e0 p H0 Hp0) as Fn. unfold frag_node in Fn. rewrite Enx in Fn.
        apply andb_true_iff in Fn as [_ Fn]. apply andb_true_iff in Fn as [Fn Fw]. apply andb_true_iff in Fn as [Fl Fk].
        apply Nat.ltb_lt in Fl. apply nkb_eq in Fk. apply negb_true_iff in Fw.
        assert (Hnodes1 : nodes e1 = nodes e0) by (apply (sameS_set_state 16 e0 p SCompleted)).
        assert (Kp1 : kind e1 p = kind e0 p) by (apply sameS_kind, sameS_set_state).
        set (e2 := sched_next e1 nx p).
        assert (H2 : SI e2).
        { apply SI_spawn; auto; [now rewrite Hnodes1 | rewrite S1; discriminate|].
          right. unfold nd. rewrite Hnodes1, Kp1. unfold kind at 1. split; [exact Fk|]. rewrite S1. split; [reflexivity|].
          split; [unfold kind; intros Hk; rewrite Hk in Fw; discriminate|].
          intros pp Hpp. rewrite Par1 in Hpp. apply (after_close 16 e0 p SCompleted pp H0 Hp0); auto. unfold opn. now rewrite Hr0. }
        assert (P2 : PX (fun t => parent e0 p = Some t /\ st e0 t = SRunning) e2) by (apply PX_spawn; auto; apply (si_a e1 H1)).
        assert (S2p : st e2 p = SCompleted) by (unfold e2, sched_next; rewrite st_spawn; destruct (Nat.eqb_spec p (ntasks e1)); [lia | exact S1]).
        assert (G2 : Good e2).
        { split; [exact H2|]. apply (PX_weaken _ _ _ P2). intros t [Hpt Hrt] Ht Ho. right.
          assert (Hlt : t < p) by (apply (parent_lt e0 p t (SI_W e0 H0) Hp0 Hpt)).
          assert (Hnew : ntasks e1 < ntasks e2) by (unfold e2, sched_next; rewrite ntasks_sched_v; lia).
          apply (clause_new e2 t (ntasks e1)); auto.
          - rewrite (parent_nextlink e2 (ntasks e1) p (si_a e2 H2)); auto; try lia.
            + unfold e2, sched_next. rewrite parent_spawn_old; [now rewrite Par1 | now apply SI_W | exact Hp1].
            + unfold e2, sched_next. rewrite tk_sched_v. unfold ntasks. now rewrite Nat.eqb_refl.
            + unfold e2, sched_next. rewrite !kind_spawn, Nat.eqb_refl. destruct (Nat.eqb_spec p (ntasks e1)); [lia|].
              unfold nd. rewrite Hnodes1, Kp1. exact Fk.
          - unfold opn, e2, sched_next. rewrite st_spawn, Nat.eqb_refl. reflexivity.
          - unfold e2, sched_next. rewrite st_spawn. destruct (Nat.eqb_spec t (ntasks e1)); [lia|].
            unfold e1. rewrite (st_ss 16 e0 p SCompleted t Hp0). destruct (Nat.eqb_spec t p); [lia | exact Hrt]. }
        rewrite S2p. cbn [is_completed is andb negb TaskState_beq].
        apply (Good_teq e2); [|exact G2]. apply emit_teqS; [exact H2 | rewrite S2p; discriminate|].
        intros Hk. exfalso. unfold e2, sched_next in Hk. rewrite kind_spawn in Hk. destruct (Nat.eqb_spec p (ntasks e1)); [lia|].
        rewrite Kp1, Ek in Hk. discriminate.
      * rewrite S1. cbn [is_completed is andb negb TaskState_beq].
        assert (T2 : teq e1 (emit (S f') e1 p)).
        { apply emit_teqS; [exact H1 | rewrite S1; discriminate|]. intros Hk. assert (Kp1 : kind e1 p = kind e0 p) by (apply sameS_kind, sameS_set_state). rewrite Kp1, Ek in Hk. discriminate. }
        set (e2 := emit (S f') e1 p) in *.
        assert (H2 : SI e2) by (eapply SI_teq; eauto).
        assert (P2 : PX (fun t => parent e0 p = Some t /\ st e0 t = SRunning) e2) by (eapply PX_teq; eauto).
        rewrite (teq_parent _ _ p T2), Par1.
        destruct (parent e0 p) as [pp|] eqn:Epp.
        -- destruct (parent_level e0 p pp H0 Hp0 Epp) as [Hlt Hlv].
           assert (Spp : st e2 pp = st e0 pp).
           { rewrite (teq_st _ _ pp T2). unfold e1. rewrite (st_ss 16 e0 p SCompleted pp Hp0). destruct (Nat.eqb_spec pp p); [lia | reflexivity]. }
           assert (Kpp0 : kind e2 pp = kind e0 pp).
           { assert (Kpp : kind e1 pp = kind e0 pp) by (apply sameS_kind, sameS_set_state). now rewrite (teq_kind _ _ pp T2), Kpp. }
           apply IH; [exact H2 | | | | |].
           ++ apply (PX_weaken _ _ _ P2). intros t [Ht1 Ht2] _ _. left. inversion Ht1; subst t. split; [reflexivity | now rewrite Spp].
           ++ apply (nochild_teq e1 e2 pp T2). apply (after_close 16 e0 p SCompleted pp H0 Hp0); auto. unfold opn. now rewrite Hr0.
           ++ rewrite (teq_len _ _ T2). lia.
           ++ rewrite Kpp0. intros Hka. rewrite Hka, Ek in Hlv. cbn [lvl_of] in Hlv. lia.
           ++ assert (Kpp : kind e1 pp = kind e0 pp) by (apply sameS_kind, sameS_set_state). rewrite (teq_kind _ _ pp T2), Kpp. rewrite <- K0 in HF. rewrite Ek in Hlv. cbn [lvl_of] in *. lia.
        -- split; [exact H2|]. apply (PX_weaken _ _ _ P2). intros t [Hx _]. discriminate.
    + rewrite Hr0. cbn [is_completed andb]. apply (Hfalse _ Ed). intros c Hc. exact Hc.
  - (* act: never running *)
    exfalso. apply Hna. now rewrite <- K0.
Qed.

(* ---------- the end of `next` for a task that has just been closed: start the successor, or review the parent ---------- *)
Definition tail (f : nat) (cv : vars) (e : eng) (i : nat) (nxo : option nat) : eng :=
  let '(isn, e1) := match nxo with Some nx => (true, sched_next e nx i) | None => (false, e) end in
  let e2 := emit f (update_data e1 i cv) i in
  if negb isn && negb (t_evproc (tk e2 i)) then match parent e2 i with Some p => review f cv i e2 p | None => e2 end else e2.
Lemma tail_good f cv e i nxo : SI e -> i < ntasks e -> is_completed (st e i) = true -> kind e i <> KWorkflow ->
  PX (fun t => parent e i = Some t /\ st e t = SRunning) e ->
  (forall pp, parent e i = Some pp -> st e pp = SRunning /\ nochild e pp) ->
  (nxo = None \/ nxo = n_next (tnode e i)) -> lvl_of (kind e i) + 1 <= f ->
  Good (tail f cv e i nxo).
Proof.
  intros H Hi Hc Hk HP Hpar Hnx Hf. unfold tail.
  assert (Hf' : exists f', f = S f') by (destruct f; [lia | eauto]). destruct Hf' as [f' ->].
  assert (Hne : st e i <> SError) by (destruct (si_task e H i Hi) as (Hok & _); destruct (st e i); simpl in *; congruence).
  destruct nxo as [nx|].
  - destruct Hnx as [Hnx | Hnx]; [discriminate|]. symmetry in Hnx.
    pose proof (SI_fnode e i H Hi) as Fn. unfold frag_node in Fn. rewrite Hnx in Fn.
    apply andb_true_iff in Fn as [_ Fn]. apply andb_true_iff in Fn as [Fn Fw]. apply andb_true_iff in Fn as [Fl Fk].
    apply Nat.ltb_lt in Fl. apply nkb_eq in Fk.
    set (e1 := sched_next e nx i).
    assert (H1 : SI e1).
    { apply SI_spawn; [exact H | exact Hi | exact Fl | intros Hn; rewrite Hn in Hc; discriminate | right; split; [exact Fk | split; [exact Hc | split; [exact Hk | exact Hpar]]]]. }
    assert (P1 : PX (fun t => parent e i = Some t /\ st e t = SRunning) e1) by (apply PX_spawn; auto; apply (si_a e H)).
    assert (Hnew : ntasks e1 = S (ntasks e)) by (apply ntasks_sched_v).
    assert (S1 : forall t, t < ntasks e -> st e1 t = st e t).
    { intros t Ht. unfold e1, sched_next. rewrite st_spawn. destruct (Nat.eqb_spec t (ntasks e)); [lia | reflexivity]. }
    assert (G1 : Good e1).
    { split; [exact H1|]. apply (PX_weaken _ _ _ P1). intros t [Hpt Hrt] Ht Ho. right.
      assert (Hlt : t < i) by (apply (parent_lt e i t (SI_W e H) Hi Hpt)).
      apply (clause_new e1 t (ntasks e)); auto; [lia | | |].
      - rewrite (parent_nextlink e1 (ntasks e) i (si_a e1 H1)); auto; try lia.
        + unfold e1, sched_next. rewrite parent_spawn_old; [exact Hpt | now apply SI_W | exact Hi].
        + unfold e1, sched_next. rewrite tk_sched_v. unfold ntasks. now rewrite Nat.eqb_refl.
        + unfold e1, sched_next. rewrite !kind_spawn, Nat.eqb_refl. destruct (Nat.eqb_spec i (ntasks e)); [lia | exact Fk].
      - unfold opn, e1, sched_next. rewrite st_spawn, Nat.eqb_refl. reflexivity.
      - rewrite S1 by lia. exact Hrt. }
    cbn [negb andb]. eapply Good_teq; [|exact G1]. eapply teq_trans; [apply teq_update_data|].
    apply emit_teq.
    + eapply nohooks_teq; [apply teq_update_data | apply H1].
    + rewrite (teq_st _ _ i (teq_update_data e1 i cv)), S1; auto.
    + rewrite (teq_kind _ _ i (teq_update_data e1 i cv)). unfold e1, sched_next. rewrite kind_spawn.
      destruct (Nat.eqb_spec i (ntasks e)); [lia|]. intros Hk'. contradiction.
  - set (e2 := emit (S f') (update_data e i cv) i).
    assert (T2 : teq e e2).
    { eapply teq_trans; [apply teq_update_data|]. apply emit_teq.
      - eapply nohooks_teq; [apply teq_update_data | apply H].
      - now rewrite (teq_st _ _ i (teq_update_data e i cv)).
      - rewrite (teq_kind _ _ i (teq_update_data e i cv)). intros Hk'. contradiction. }
    assert (H2 : SI e2) by (eapply SI_teq; eauto).
    assert (P2 : PX (fun t => parent e i = Some t /\ st e t = SRunning) e2) by (eapply PX_teq; eauto).
    destruct (si_nh e2 H2 i) as [_ ->]. cbn [negb andb]. rewrite (teq_parent _ _ i T2).
    destruct (parent e i) as [p|] eqn:Ep.
    + destruct (parent_level e i p H Hi Ep) as [Hlt Hlv].
      apply review_good; [exact H2 | | | | |].
      * apply (PX_weaken _ _ _ P2). intros t [Ht1 Ht2] _ _. left. inversion Ht1; subst t. split; [reflexivity | now rewrite (teq_st _ _ p T2)].
      * apply (nochild_teq e e2 p T2). apply (Hpar p eq_refl).
      * rewrite (teq_len _ _ T2). lia.
      * rewrite (teq_kind _ _ p T2). intros Hka. rewrite Hka in Hlv. cbn [lvl_of] in Hlv. destruct (kind e i); cbn [lvl_of] in Hlv; lia.
      * rewrite (teq_kind _ _ p T2). lia.
    + split; [exact H2|]. apply (PX_weaken _ _ _ P2). intros t [Hx _]. discriminate.
Qed.

(* ---------- a client closes an act ---------- *)
Lemma next_closed_act F cv e i : SI e -> i < ntasks e -> kind e i = KAct ->
  (st e i = SCompleted \/ st e i = SSubmitted \/ st e i = SRemoved \/ st e i = SSkipped) ->
  PX (fun t => parent e i = Some t /\ st e t = SRunning) e ->
  (forall pp, parent e i = Some pp -> st e pp = SRunning /\ nochild e pp) -> 4 <= F -> Good (next F cv e i).
Proof.
  intros H Hi Hk Hs HP Hpar HF. destruct F as [|f]; [lia|]. rewrite next_S. rewrite Hk.
  assert (Hc : is_completed (st e i) = true) by (destruct Hs as [-> | [-> | [-> | ->]]]; reflexivity).
  assert (Hkw : kind e i <> KWorkflow) by (rewrite Hk; discriminate).
  assert (Hlv : lvl_of (kind e i) + 1 <= f) by (rewrite Hk; cbn [lvl_of]; lia).
  assert (Tnone : Good (tail f cv e i None)) by (apply tail_good; auto).
  unfold tail in Tnone. cbv beta iota zeta in Tnone.
  assert (Hnext : forall sx, st e i = sx -> (sx = SCompleted \/ sx = SSkipped) ->
            Good (let '(isn, e1) := match n_next (tnode e i) with Some nx => (true, sched_next e nx i) | None => (false, e) end in
                  if is_completed (st e1 i)
                  then let e2 := emit f (update_data e1 i cv) i in
                       if negb isn && negb (t_evproc (tk e2 i)) then match parent e2 i with Some p => review f cv i e2 p | None => e2 end else e2
                  else e1)).
  { intros sx Hsx1 Hsx. destruct (n_next (tnode e i)) as [nx|] eqn:Enx.
    + assert (T : Good (tail f cv e i (Some nx))) by (apply tail_good; auto).
      unfold tail in T. cbv beta iota zeta in T. cbv beta iota zeta.
      assert (E : is_completed (st (sched_next e nx i) i) = true).
      { unfold sched_next. rewrite st_spawn. destruct (Nat.eqb_spec i (ntasks e)); [lia | exact Hc]. }
      rewrite E. exact T.
    + cbv beta iota zeta. rewrite Hc. exact Tnone. }
  destruct Hs as [Hs | [Hs | [Hs | Hs]]]; [| | | rewrite Hs; cbn [is_next is_skip is_running is_removed is_success orb is TaskState_beq nkind_beq andb]; apply (Hnext SSkipped Hs); auto];
  rewrite Hs in *; cbn [is_next is_skip is_running is_removed is_success orb is TaskState_beq nkind_beq andb].
  - destruct (n_next (tnode e i)) as [nx|] eqn:Enx.
    + assert (T : Good (tail f cv e i (Some nx))) by (apply tail_good; auto; rewrite Hs; reflexivity).
      unfold tail in T. cbv beta iota zeta in T. cbv beta iota zeta.
      assert (E : is_completed (st (sched_next e nx i) i) = true).
      { unfold sched_next. rewrite st_spawn. destruct (Nat.eqb_spec i (ntasks e)); [lia | now rewrite Hs]. }
      rewrite E. exact T.
    + cbv beta iota zeta. rewrite Hs. cbn [is_completed]. exact Tnone.
  - cbv beta iota zeta. rewrite Hs. cbn [is_completed]. exact Tnone.
  - cbv beta iota zeta. rewrite Hs. cbn [is_completed]. exact Tnone.
Qed.

Lemma Prog_close_act site e i s : Good e -> i < ntasks e -> opn e i -> kind e i = KAct ->
  is_completed s = true -> okst s = true ->
  let e1 := set_state site e i s in
  SI e1 /\ PX (fun t => parent e1 i = Some t /\ st e1 t = SRunning) e1 /\ st e1 i = s /\ kind e1 i = KAct /\ i < ntasks e1 /\
  (forall pp, parent e1 i = Some pp -> st e1 pp = SRunning /\ nochild e1 pp).
Proof.
  intros [H P] Hi Ho Hk Hc Hok e1.
  assert (HS : sameS e e1) by apply sameS_set_state.
  assert (H1 : SI e1).
  { apply SI_ss; auto.
    - intros ->. discriminate.
    - intros Hf. congruence.
    - intros _. apply nochild_act; [apply (si_a e H) | exact Hk]. }
  split; [exact H1|]. split; [|split; [|split; [|split]]].
  - apply (PX_weaken _ _ _ (PX_close site _ e i s P Hi Hc)). intros t [[] | [Hp Hr]] Ht Ho'. left.
    rewrite (sameS_parent _ _ i HS). split; [exact Hp|]. unfold e1. rewrite (st_ss site e i s t Hi).
    destruct (Nat.eqb_spec t i) as [->|]; [|exact Hr]. apply (parent_lt e i i (SI_W e H) Hi) in Hp. lia.
  - unfold e1. now rewrite (st_ss site e i s i Hi), Nat.eqb_refl.
  - now rewrite (sameS_kind _ _ i HS).
  - unfold e1. now rewrite ntasks_set_state.
  - intros pp Hpp. rewrite (sameS_parent _ _ i HS) in Hpp. now apply (after_close site e i s pp H Hi Ho Hc).
Qed.
(* skip closes the open siblings first: in this class there are none (one open task per parent) *)
Lemma siblings_closed e i : SI e -> i < ntasks e -> opn e i -> forall j, In j (siblings e i) -> is_completed (st e j) = true.
Proof.
  intros H Hi Ho j Hj. unfold siblings in Hj. destruct (parent e i) as [p|] eqn:Ep; [|destruct Hj].
  apply filter_In in Hj as [Hc Hne]. apply negb_true_iff in Hne. apply Nat.eqb_neq in Hne.
  destruct (is_completed (st e j)) eqn:Eo; [reflexivity|]. exfalso.
  pose proof (si_up e H i p Hi Ep Ho) as Hr.
  pose proof (children_lt _ _ _ Hc) as Hcn. pose proof (children_prev _ _ _ Hc) as Hpr. pose proof (children_gt _ _ _ (SI_W e H) Hc) as Hgt.
  destruct (si_prev e H j ltac:(lia) Hcn) as (q & A & B & C & D). rewrite Hpr in A. inversion A; subst q.
  destruct D as [[D1 D2] | [_ D2]]; [|rewrite Hr in D2; discriminate].
  assert (Hpj : parent e j = Some p) by (apply (parent_child e j p (si_a e H)); auto; lia).
  apply Hne. apply (si_one e H j i p); auto.
Qed.
Lemma close_open_noop site e l s : (forall j, In j l -> is_completed (st e j) = true) -> close_open site e l s = e.
Proof.
  intros Hl. unfold close_open. induction l as [|a l IH]; cbn [fold_left]; [reflexivity|].
  rewrite (Hl a (or_introl eq_refl)). apply IH. intros; apply Hl; now right.
Qed.
Lemma has_parent e j : SIa e -> 0 < j -> j < ntasks e -> exists p, parent e j = Some p.
Proof.
  intros H Hj0 Hj. unfold parent.
  assert (Hl : 1 <= n_level (tnode e j)).
  { rewrite (SIa_level e j H Hj). destruct (sia_task e H j Hj) as (_ & _ & _ & Hwf). specialize (Hwf Hj0). destruct (kind e j); cbn [lvl_of]; try lia. congruence. }
  assert (G : forall q f, q < f -> q < ntasks e -> exists p, parent_from f e (n_level (tnode e j)) (Some q) = Some p).
  { induction q as [q IH] using lt_wf_ind. intros f Hf Hq. destruct f as [|f]; [lia|]. cbn [parent_from].
    destruct (Nat.ltb_spec (n_level (tnode e q)) (n_level (tnode e j))) as [Hlt|Hge]; [eauto|].
    destruct q as [|q].
    - exfalso. rewrite (SIa_level e 0 H Hq), (SIa_root_kind e H) in Hge. cbn [lvl_of] in Hge. lia.
    - destruct (sia_prev e H (S q) ltac:(lia) Hq) as (r & -> & Hr & _). apply IH; lia. }
  destruct (sia_prev e H j Hj0 Hj) as (q & -> & Hq & _). apply G; unfold ntasks in *; lia.
Qed.
(* ---------- abort: the act, then its step, then the workflow are closed; nothing else is open ---------- *)
Lemma act_parent_step e i pp : SIa e -> i < ntasks e -> kind e i = KAct -> parent e i = Some pp -> kind e pp = KStep.
Proof.
  intros H Hi Hk Hp. unfold parent in Hp. rewrite (SIa_level e i H Hi), Hk in Hp. cbn [lvl_of] in Hp.
  assert (G : forall f c, c < ntasks e -> kind e c = KAct -> parent_from f e 2 (t_prev (tk e c)) = Some pp -> kind e pp = KStep).
  { induction f as [|f IH]; intros c Hc Hkc Hf; [discriminate|].
    assert (Hc0 : 0 < c). { destruct c; [|lia]. rewrite (SIa_root_kind e H) in Hkc. discriminate. }
    destruct (sia_prev e H c Hc0 Hc) as (q & Hq & Hlt & _ & Halt). rewrite Hq in Hf. cbn [parent_from] in Hf.
    assert (Hqn : q < ntasks e) by lia. rewrite (SIa_level e q H Hqn) in Hf.
    destruct Halt as [[A B] | [A _]].
    - rewrite Hkc in B. destruct (kind e q) eqn:Ekq; cbn [child_kind] in B; try discriminate; try contradiction.
      + exfalso. pose proof (SIa_fnode e q H Hqn) as F. unfold frag_node in F. repeat (apply andb_true_iff in F as [F ?]).
        unfold kind in Ekq. rewrite Ekq in *. discriminate.
      + cbn [lvl_of] in Hf. change (1 <? 2) with true in Hf. inversion Hf; subst q. exact Ekq.
    - rewrite Hkc in A. rewrite <- A in Hf. cbn [lvl_of] in Hf. change (2 <? 2) with false in Hf. apply (IH q Hqn); auto. }
  apply (G _ i Hi Hk Hp).
Qed.
Lemma step_parent_root e p g : SIa e -> p < ntasks e -> kind e p = KStep -> parent e p = Some g -> g = 0.
Proof.
  intros H Hp Hk Hg. destruct (parent_level e p g H Hp Hg) as [Hlt Hlv]. rewrite Hk in Hlv. cbn [lvl_of] in Hlv.
  destruct (Nat.eq_dec g 0) as [->|Hn]; [reflexivity|]. exfalso.
  destruct (sia_task e H g ltac:(lia)) as (_ & _ & _ & Hwf). specialize (Hwf ltac:(lia)).
  destruct (kind e g); cbn [lvl_of] in Hlv; try lia. congruence.
Qed.
(* what is open besides a just-closed act: its step and the workflow *)
Lemma open_after_act_closed e i pp : SI e -> i < ntasks e -> kind e i = KAct -> is_completed (st e i) = true -> parent e i = Some pp ->
  st e pp = SRunning -> nochild e pp -> forall t, t < ntasks e -> opn e t -> t = pp \/ t = 0.
Proof.
  intros H Hi Hk Hc Hp Hr Hnc.
  assert (Kpp : kind e pp = KStep) by (apply (act_parent_step e i pp H Hi Hk Hp)).
  assert (Hpp : pp < ntasks e) by (pose proof (parent_lt e i pp (SI_W e H) Hi Hp); lia).
  assert (Hpp0 : 0 < pp) by (destruct pp; [rewrite (SI_root_kind e H) in Kpp; discriminate | lia]).
  destruct (has_parent e pp H Hpp0 Hpp) as (g & Hg). pose proof (step_parent_root e pp g H Hpp Kpp Hg). subst g.
  assert (Opp : opn e pp) by (unfold opn; rewrite Hr; reflexivity).
  assert (Hstep : forall t, t < ntasks e -> opn e t -> kind e t = KStep -> t = pp).
  { intros t Ht Ho Kt. assert (Ht0 : 0 < t) by (destruct t; [rewrite (SI_root_kind e H) in Kt; discriminate | lia]).
    destruct (has_parent e t H Ht0 Ht) as (g & Hg'). pose proof (step_parent_root e t g H Ht Kt Hg'). subst g.
    apply (si_one e H t pp 0); auto. }
  intros t Ht Ho. destruct (kind e t) eqn:Kt.
  - right. destruct (Nat.eq_dec t 0) as [->|Hn]; [reflexivity|]. exfalso. destruct (si_task e H t Ht) as (_ & _ & _ & Hwf). apply Hwf; [lia | exact Kt].
  - exfalso. pose proof (SI_fnode e t H Ht) as F. unfold frag_node in F. repeat (apply andb_true_iff in F as [F ?]). unfold kind in Kt. rewrite Kt in *. discriminate.
  - left. now apply Hstep.
  - exfalso. assert (Ht0 : 0 < t) by (destruct t; [rewrite (SI_root_kind e H) in Kt; discriminate | lia]).
    destruct (has_parent e t H Ht0 Ht) as (q & Hq). pose proof (act_parent_step e t q H Ht Kt Hq) as Kq.
    assert (Hqn : q < ntasks e) by (pose proof (parent_lt e t q (SI_W e H) Ht Hq); lia).
    pose proof (si_up e H t q Ht Hq Ho) as Hqr. assert (Oq : opn e q) by (unfold opn; rewrite Hqr; reflexivity).
    pose proof (Hstep q Hqn Oq Kq). subst q. apply (Hnc t Ht Hq Ho).
Qed.
Lemma fuel_ge e : exists f, fuel_of e = S (S (S (S f))). Proof. unfold fuel_of. eexists. cbn [Nat.add]. reflexivity. Qed.
Lemma teq_ret_ok e : teq e (ret_ok e). Proof. unfold ret_ok. eapply teq_trans; [apply teq_persist | apply teq_add_ev]. Qed.
Lemma children_closed e t : SI e -> t < ntasks e -> st e t = SRunning -> nochild e t ->
  forall c, In c (children e t) -> is_completed (st e c) = true.
Proof.
  intros H Ht Hr Hnc c Hc. destruct (is_completed (st e c)) eqn:Eo; [reflexivity|]. exfalso.
  pose proof (children_lt _ _ _ Hc) as Hcn. pose proof (children_prev _ _ _ Hc) as Hpr. pose proof (children_gt _ _ _ (SI_W e H) Hc) as Hgt.
  destruct (si_prev e H c ltac:(lia) Hcn) as (q & A & B & C & D). rewrite Hpr in A. inversion A; subst q.
  destruct D as [[D1 D2] | [_ D2]]; [|rewrite Hr in D2; discriminate].
  apply (Hnc c Hcn); [apply (parent_child e c t (si_a e H)); auto; lia | exact Eo].
Qed.
Lemma sweep_noop e skip : (forall t, t < ntasks e -> is_completed (st e t) = true \/ In t skip) -> abort_sweep e skip = e.
Proof.
  intros Hall. unfold abort_sweep.
  assert (G : forall l, (forall t, In t l -> t < ntasks e) ->
            fold_left (fun ee t => if is_completed (st ee t) || existsb (Nat.eqb t) skip then ee
                                   else emit (fuel_of ee) (set_state 30 ee t (if is (st ee t) SRunning then SAborted else SSkipped)) t) l e = e).
  { induction l as [|t l IH]; intros Hl; cbn [fold_left]; [reflexivity|].
    assert (E : is_completed (st e t) || existsb (Nat.eqb t) skip = true).
    { destruct (Hall t (Hl t (or_introl eq_refl))) as [Hc | Hin]; [now rewrite Hc|]. apply orb_true_iff. right. apply existsb_exists. exists t. split; [exact Hin | apply Nat.eqb_refl]. }
    rewrite E. apply IH. intros; apply Hl; now right. }
  apply G. intros t Ht. apply in_seq in Ht. unfold ntasks. lia.
Qed.
Lemma abort_children_noop e l : (forall c, In c l -> is_completed (st e c) = true) ->
  fold_left (fun ee c => if is (st ee c) SPending then emit (fuel_of ee) (set_state 29 ee c SSkipped) c
                         else if is (st ee c) SRunning then emit (fuel_of ee) (set_state 29 ee c SAborted) c else ee) l e = e.
Proof.
  intros Hl. induction l as [|c l IH]; cbn [fold_left]; [reflexivity|].
  pose proof (Hl c (or_introl eq_refl)) as Hc.
  assert (E1 : is (st e c) SPending = false) by (destruct (st e c); simpl in *; congruence).
  assert (E2 : is (st e c) SRunning = false) by (destruct (st e c); simpl in *; congruence).
  rewrite E1, E2. apply IH. intros; apply Hl; now right.
Qed.
(* abort_up on one task: a running step / workflow with nothing open beneath it is written aborted and emitted *)
Lemma close_up_good site X e t : SI e -> PX X e -> t < ntasks e -> st e t = SRunning -> kind e t <> KAct -> nochild e t ->
  let e1 := emit (fuel_of e) (set_state site e t SAborted) t in
  SI e1 /\ PX (fun x => X x \/ (parent e t = Some x /\ st e x = SRunning)) e1 /\ sameS e e1 /\
  (forall x, st e1 x = if Nat.eqb x t then SAborted else st e x) /\
  (forall g, parent e t = Some g -> st e1 g = SRunning /\ nochild e1 g).
Proof.
  intros H P Ht Hr Hk Hnc e1. set (es := set_state site e t SAborted) in *.
  assert (Hs : SI es) by (apply SI_ss; auto; try discriminate).
  assert (Ps : PX (fun x => X x \/ (parent e t = Some x /\ st e x = SRunning)) es) by (apply PX_close; auto).
  assert (HSs : sameS e es) by apply sameS_set_state.
  assert (Ss : forall x, st es x = if Nat.eqb x t then SAborted else st e x) by (intros x; apply (st_ss site e t SAborted x Ht)).
  destruct (fuel_ge e) as [f Hf]. unfold e1. rewrite Hf.
  assert (T : teq es (emit (S (S (S (S f)))) es t)).
  { apply emit_teqS; [exact Hs | rewrite Ss, Nat.eqb_refl; discriminate|]. intros Hkw. destruct (Nat.eq_dec t 0) as [->|Hn]; [reflexivity|].
    exfalso. destruct (si_task es Hs t ltac:(unfold es; rewrite ntasks_set_state; exact Ht)) as (_ & _ & _ & Hwf). apply Hwf; [lia | exact Hkw]. }
  split; [eapply SI_teq; eauto|]. split; [eapply PX_teq; eauto|]. split; [apply (sameS_trans e es); [exact HSs | now apply sameS_teq]|].
  split; [intros x; rewrite (teq_st _ _ x T); apply Ss|].
  intros g Hg. assert (Ho : opn e t) by (unfold opn; rewrite Hr; reflexivity).
  destruct (after_close site e t SAborted g H Ht Ho eq_refl Hg) as [A B]. fold es in A, B.
  split; [rewrite (teq_st _ _ g T); exact A | eapply nochild_teq; eauto].
Qed.
Lemma abort_up_level f e t : SI e -> t < ntasks e -> st e t = SRunning -> nochild e t ->
  let e1 := emit (fuel_of e) (set_state 28 e t SAborted) t in
  sameS e e1 -> (forall x, st e1 x = if Nat.eqb x t then SAborted else st e x) ->
  abort_up (S f) e (Some t) = abort_up f e1 (parent e t).
Proof.
  intros H Ht Hr Hnc e1 HS Hst. rewrite abort_up_S. rewrite Hr. change (is_completed SRunning) with false. cbv iota. fold e1.
  rewrite (abort_children_noop e1 (children e1 t)).
  - now rewrite (sameS_parent _ _ t HS).
  - intros c Hc. rewrite (sameS_children _ _ t HS) in Hc. rewrite Hst. destruct (Nat.eqb c t); [reflexivity|].
    apply (children_closed e t H Ht Hr Hnc c Hc).
Qed.
(* abort, part 1: what `perform` computes, as an equation *)
Lemma perform_abort_eq e i cv :
  perform e i AAbort cv =
  (let e1 := close_open 26 e (siblings e i) SSkipped in
   let e2 := emit (fuel_of e1) (set_data (set_state 27 e1 i SAborted) i cv) i in
   let e3 := abort_sweep e2 (ancestors (S (length (tasks e2))) e2 (parent e2 i)) in
   ret_ok (abort_up (S (length (tasks e3))) e3 (parent e3 i))).
Proof. reflexivity. Qed.


(* abort, part 2: from the state in which the act has been written aborted and emitted (only its step is excused) *)
Lemma abort_stage2 e2 i pp : SI e2 -> i < ntasks e2 -> kind e2 i = KAct -> is_completed (st e2 i) = true -> parent e2 i = Some pp ->
  st e2 pp = SRunning -> nochild e2 pp -> PX (fun t => t = pp) e2 ->
  Good (ret_ok (abort_up (S (length (tasks (abort_sweep e2 (ancestors (S (length (tasks e2))) e2 (parent e2 i))))))
                         (abort_sweep e2 (ancestors (S (length (tasks e2))) e2 (parent e2 i)))
                         (parent (abort_sweep e2 (ancestors (S (length (tasks e2))) e2 (parent e2 i))) i))).
Proof.
  intros H2 Hi2 K2 C2 Hpp Rpp Ncpp P2.
  assert (Kpp : kind e2 pp = KStep) by (apply (act_parent_step e2 i pp H2 Hi2 K2 Hpp)).
  assert (Hppn : pp < ntasks e2) by (pose proof (parent_lt e2 i pp (SI_W e2 H2) Hi2 Hpp); lia).
  assert (Hpp0 : 0 < pp) by (destruct pp; [rewrite (SI_root_kind e2 H2) in Kpp; discriminate | lia]).
  destruct (has_parent e2 pp H2 Hpp0 Hppn) as (g & Hg). pose proof (step_parent_root e2 pp g H2 Hppn Kpp Hg). subst g.
  assert (Hpar0 : parent e2 0 = None) by (unfold parent; destruct (si_root e2 H2) as (_ & -> & _); reflexivity).
  assert (Hlen : exists m, length (tasks e2) = S (S m)) by (unfold ntasks in *; destruct (length (tasks e2)) as [|[|m]]; [lia | lia | eauto]).
  destruct Hlen as [m Hlen].
  assert (Hanc : ancestors (S (length (tasks e2))) e2 (parent e2 i) = [pp; 0]).
  { rewrite Hpp, Hlen. cbn [ancestors]. rewrite Hg. cbn [ancestors]. rewrite Hpar0. reflexivity. }
  assert (Hsweep : abort_sweep e2 (ancestors (S (length (tasks e2))) e2 (parent e2 i)) = e2).
  { apply sweep_noop. intros t Ht. destruct (is_completed (st e2 t)) eqn:Ec; [now left|]. right. rewrite Hanc.
    destruct (open_after_act_closed e2 i pp H2 Hi2 K2 C2 Hpp Rpp Ncpp t Ht Ec) as [-> | ->]; [now left | right; now left]. }
  rewrite Hsweep, Hpp, Hlen.
  destruct (close_up_good 28 (fun t => t = pp) e2 pp H2 P2 Hppn Rpp ltac:(rewrite Kpp; discriminate) Ncpp) as (H3 & P3 & HS3 & S3 & Q3).
  rewrite (abort_up_level (S (S m)) e2 pp H2 Hppn Rpp Ncpp HS3 S3), Hg.
  generalize dependent (emit (fuel_of e2) (set_state 28 e2 pp SAborted) pp). intros e3 H3 P3 HS3 S3 Q3.
  destruct (Q3 0 Hg) as [R0 Nc0].
  assert (H0n : 0 < ntasks e3) by (destruct HS3 as (_ & L & _); rewrite L; lia).
  assert (K0 : kind e3 0 <> KAct) by (rewrite (sameS_kind _ _ 0 HS3), (SI_root_kind e2 H2); discriminate).
  assert (Hpar3 : parent e3 0 = None) by (rewrite (sameS_parent _ _ 0 HS3); exact Hpar0).
  destruct (close_up_good 28 _ e3 0 H3 P3 H0n R0 K0 Nc0) as (H4 & P4 & HS4 & S4 & Q4).
  rewrite (abort_up_level (S m) e3 0 H3 H0n R0 Nc0 HS4 S4), Hpar3.
  generalize dependent (emit (fuel_of e3) (set_state 28 e3 0 SAborted) 0). intros e4 H4 P4 HS4 S4 Q4.
  assert (Hend : forall k, abort_up k e4 None = e4) by (intros [|k]; reflexivity). rewrite Hend.
  apply (Good_teq _ _ (teq_ret_ok _)). split; [exact H4|].
  apply (PX_weaken _ _ _ P4). intros t [[Hx | Hx] | Hx] Ht Ho.
  - subst t. unfold opn in Ho. rewrite S4 in Ho. destruct (Nat.eqb pp 0); [discriminate|]. rewrite S3, Nat.eqb_refl in Ho. discriminate.
  - destruct Hx as [Hx _]. rewrite Hg in Hx. inversion Hx; subst t. unfold opn in Ho. rewrite S4, Nat.eqb_refl in Ho. discriminate.
  - destruct Hx as [Hx _]. rewrite Hpar3 in Hx. discriminate.
Qed.
Lemma abort_good e i cv : Good e -> i < ntasks e -> opn e i -> kind e i = KAct -> Good (perform e i AAbort cv).
Proof.
  intros G Hi Eo Ek. pose proof G as [H P]. rewrite perform_abort_eq.
  rewrite (close_open_noop 26 e (siblings e i) SSkipped) by (apply siblings_closed; auto). cbv zeta.
  destruct (Prog_close_act 27 e i SAborted G Hi Eo Ek eq_refl eq_refl) as (H1 & P1 & S1 & K1 & L1 & Q1).
  set (x2 := emit (fuel_of e) (set_data (set_state 27 e i SAborted) i cv) i).
  assert (T2 : teq (set_state 27 e i SAborted) x2).
  { eapply teq_trans; [apply teq_set_data|]. destruct (fuel_ge e) as [f Hf]. unfold x2. rewrite Hf. apply emit_teq.
    - eapply nohooks_teq; [apply teq_set_data | apply (si_nh _ H1)].
    - rewrite (teq_st _ _ i (teq_set_data _ i cv)), S1. discriminate.
    - rewrite (teq_kind _ _ i (teq_set_data _ i cv)), K1. discriminate. }
  assert (H2 : SI x2) by (eapply SI_teq; eauto).
  assert (Hi2 : i < ntasks x2) by (rewrite (teq_len _ _ T2); exact L1).
  assert (K2 : kind x2 i = KAct) by (now rewrite (teq_kind _ _ i T2)).
  assert (C2 : is_completed (st x2 i) = true) by (now rewrite (teq_st _ _ i T2), S1).
  assert (Hi0 : 0 < i) by (destruct i; [rewrite (SI_root_kind e H) in Ek; discriminate | lia]).
  destruct (has_parent x2 i H2 Hi0 Hi2) as (pp & Hpp).
  assert (Hppa : parent (set_state 27 e i SAborted) i = Some pp) by (now rewrite <- (teq_parent _ _ i T2)).
  destruct (Q1 pp Hppa) as [Rpa Nca].
  assert (Rpp : st x2 pp = SRunning) by (now rewrite (teq_st _ _ pp T2)).
  assert (Ncpp : nochild x2 pp) by (eapply nochild_teq; eauto).
  assert (P2 : PX (fun t => t = pp) x2).
  { apply (PX_weaken _ _ _ (PX_teq _ _ _ T2 P1)). intros t [Ht1 _] _ _. left. rewrite Hppa in Ht1. now inversion Ht1. }
  clearbody x2. now apply (abort_stage2 x2 i pp).
Qed.
Lemma action_good e i a opts : Good e -> allowed a = true -> Good (do_action e i a opts).
Proof.
  intros G Ha. unfold do_action. destruct (admission e i a opts) as [[cv a']|] eqn:Ead.
  2:{ apply (Good_teq e); [apply teq_add_ev | exact G]. }
  unfold admission in Ead.
  destruct (is_completed (pstate e)); [discriminate|].
  destruct (Nat.leb_spec (length (tasks e)) i) as [|Hi]; [discriminate|].
  assert (Hpush : (match a with APush _ => true | _ => false end) = false) by (destruct a; simpl in Ha; try discriminate; reflexivity).
  rewrite Hpush in Ead. cbn [andb negb] in Ead.
  destruct (nkind_beq (kind e i) KAct) eqn:Ek; [|discriminate]. apply nkb_eq in Ek. cbn [negb] in Ead.
  destruct (n_outs (tnode e i) && _); [discriminate|].
  assert (Ea : (if n_outs (tnode e i) then match a with AError _ => AError None | ABack _ => ABack None | APush _ => APush false | x => x end else a) = a)
    by (destruct (n_outs _); destruct a; simpl in Ha; try discriminate; reflexivity).
  rewrite Ea in Ead.
  assert (Hcan : is_cancel a = false) by (destruct a; simpl in Ha; try discriminate; reflexivity). rewrite Hcan in Ead. cbn [negb andb] in Ead.
  destruct (is_completed (st e i)) eqn:Eo; [discriminate|]. inversion Ead; subst a'. clear Ead.
  unfold perform. destruct (fuel_ge e) as [f Hf].
  destruct a; simpl in Ha; try discriminate.
  - destruct (Prog_close_act 22 e i SCompleted G Hi Eo Ek eq_refl eq_refl) as (H1 & P1 & S1 & K1 & L1 & Q1).
    apply (Good_teq _ _ (teq_ret_ok _)). apply next_closed_act; [exact H1 | exact L1 | exact K1 | rewrite S1; auto | exact P1 | exact Q1 | rewrite Hf; lia].
  - destruct (Prog_close_act 23 e i SSubmitted G Hi Eo Ek eq_refl eq_refl) as (H1 & P1 & S1 & K1 & L1 & Q1).
    apply (Good_teq _ _ (teq_ret_ok _)). apply next_closed_act; [exact H1 | exact L1 | exact K1 | rewrite S1; auto | exact P1 | exact Q1 | rewrite Hf; lia].
  - destruct (Prog_close_act 24 e i SRemoved G Hi Eo Ek eq_refl eq_refl) as (H1 & P1 & S1 & K1 & L1 & Q1).
    apply (Good_teq _ _ (teq_ret_ok _)). apply next_closed_act; [exact H1 | exact L1 | exact K1 | rewrite S1; auto | exact P1 | exact Q1 | rewrite Hf; lia].
  - rewrite (close_open_noop 26 e (siblings e i) SSkipped) by (apply siblings_closed; [apply G | exact Hi | exact Eo]).
    destruct (Prog_close_act 25 e i SSkipped G Hi Eo Ek eq_refl eq_refl) as (H1 & P1 & S1 & K1 & L1 & Q1).
    apply (Good_teq _ _ (teq_ret_ok _)). apply next_closed_act; [exact H1 | exact L1 | exact K1 | rewrite S1; auto | exact P1 | exact Q1 | rewrite Hf; lia].
  - now apply abort_good.
Qed.

(* ---------- the scheduler runs a queued task ---------- *)
Lemma filter_nil {A} (g : A -> bool) l : (forall x, In x l -> g x = false) -> filter g l = [].
Proof. induction l as [|x l IH]; intros Hl; [reflexivity|]. cbn [filter]. rewrite (Hl x (or_introl eq_refl)). apply IH. intros; apply Hl; now right. Qed.
Lemma no_children e i : SI e -> st e i = SNone -> children e i = [].
Proof.
  intros H Hs. unfold children. apply filter_nil. intros j Hj. apply in_seq in Hj. destruct (t_prev (tk e j)) as [q|] eqn:Ep; [|reflexivity].
  apply Nat.eqb_neq. intros ->. destruct j as [|j]; [destruct (si_root e H) as (_ & Hr & _); congruence|].
  destruct (si_prev e H (S j) ltac:(lia) ltac:(unfold ntasks; lia)) as (q & A & _ & C & _). rewrite Ep in A. inversion A; subst q. contradiction.
Qed.
Lemma children_spawn v e nid p x : children (sched_v v e nid p) x = children e x ++ (if Nat.eqb p x then [ntasks e] else []).
Proof.
  unfold children. pose proof (ntasks_sched_v v e nid p) as L. unfold ntasks in *. rewrite L.
  rewrite seq_S, filter_app. cbn [Nat.add filter]. f_equal.
  - apply filter_ext_in. intros j Hj. apply in_seq in Hj. rewrite tk_sched_v. destruct (Nat.eqb_spec j (length (tasks e))); [lia | reflexivity].
  - rewrite tk_sched_v, Nat.eqb_refl. cbn [new_task t_prev]. destruct (Nat.eqb p x); reflexivity.
Qed.
Lemma spawn_children X i : forall l e, SI e -> PX X e -> i < ntasks e -> st e i = SRunning -> kind e i <> KAct ->
  (forall c, In c l -> c < length (nodes e) /\ n_kind (nd e c) = child_kind (kind e i)) ->
  children e i = [] -> length l <= 1 ->
  let e' := sched_nodes e l i in
  SI e' /\ PX X e' /\ st e' i = SRunning /\ kind e' i = kind e i /\ i < ntasks e' /\ tnode e' i = tnode e i /\
  (forall j, In j (children e' i) -> st e' j = SNone) /\ (l <> [] -> children e' i <> []).
Proof.
  intros l e H P Hi Hr Hk Hl Hch Hlen e'. destruct l as [|c [|c2 l]]; [| |cbn in Hlen; lia].
  - unfold e', sched_nodes. cbn [fold_left]. refine (conj H (conj P (conj Hr (conj eq_refl (conj Hi (conj eq_refl (conj _ _))))))).
    + intros j Hj. rewrite Hch in Hj. destruct Hj.
    + intros Hx. now destruct Hx.
  - unfold e', sched_nodes. cbn [fold_left].
    destruct (Hl c (or_introl eq_refl)) as [Hc1 Hc2].
    set (e1 := sched e c i).
    assert (H1 : SI e1).
    { apply SI_spawn; auto; [rewrite Hr; discriminate|]. left. split; [exact Hk|]. split; [exact Hc2|]. split; [exact Hr | now apply nochild_nil]. }
    assert (P1 : PX X e1) by (apply PX_spawn; auto; apply (si_a e H)).
    assert (L1 : ntasks e1 = S (ntasks e)) by apply ntasks_sched_v.
    assert (S1 : st e1 i = SRunning) by (unfold e1, sched; rewrite st_spawn; destruct (Nat.eqb_spec i (ntasks e)); [lia | exact Hr]).
    assert (K1 : kind e1 i = kind e i) by (unfold e1, sched; rewrite kind_spawn; destruct (Nat.eqb_spec i (ntasks e)); [lia | reflexivity]).
    assert (T1 : tnode e1 i = tnode e i) by (unfold tnode, e1, sched; rewrite tk_sched_v; unfold ntasks in Hi; destruct (Nat.eqb_spec i (length (tasks e))); [lia | reflexivity]).
    assert (C1 : children e1 i = [ntasks e]) by (unfold e1, sched; rewrite children_spawn, Nat.eqb_refl, Hch; reflexivity).
    refine (conj H1 (conj P1 (conj S1 (conj K1 (conj _ (conj T1 (conj _ _))))))); [lia | |].
    + intros j Hj. rewrite C1 in Hj. destruct Hj as [<- | []]. unfold e1, sched. rewrite st_spawn, Nat.eqb_refl. reflexivity.
    + intros _. rewrite C1. discriminate.
Qed.

Lemma filter_len {A} (g : A -> bool) l : length (filter g l) <= length l.
Proof. induction l as [|x l IH]; cbn [filter length]; [lia|]. destruct (g x); cbn [length]; lia. Qed.
Lemma frag_facts e t : SI e -> t < ntasks e ->
  let n := tnode e t in
  n_if n = None /\ n_setup n = [] /\ n_kind n <> KBranch /\ length (normal_children n) <= 1 /\
  (n_kind n = KAct -> (sp_u (n_spec n) = UIrq \/ sp_u (n_spec n) = UMsg) /\ n_children n = [] /\ n_isset n = false) /\
  (forall c, In c (normal_children n) -> c < length (nodes e) /\ n_kind (nd e c) = child_kind (n_kind n)).
Proof.
  intros H Ht n. pose proof (SI_fnode e t H Ht) as F. fold n in F. unfold frag_node in F.
  repeat (apply andb_true_iff in F as [F ?]).
  split; [destruct (n_if n); [discriminate | reflexivity]|].
  split; [destruct (n_setup n); [reflexivity | discriminate]|].
  split; [intros Hk; rewrite Hk in *; discriminate|].
  split.
  { match goal with Hx : Nat.leb (length (n_children n)) 1 = true |- _ => apply Nat.leb_le in Hx; rename Hx into Hlen end.
    unfold normal_children, children_in. rewrite map_length. pose proof (filter_len (fun c => okind_beq (fst c) ONormal) (n_children n)). lia. }
  split.
  - intros Hk. rewrite Hk in *. cbn [nkind_beq] in *. match goal with Hx : _ && _ && _ = true |- _ => apply andb_true_iff in Hx as [A B]; apply andb_true_iff in A as [A A2] end.
    split; [destruct (sp_u _); try discriminate; auto|]. split; [destruct (n_children n); [reflexivity | discriminate] | now apply negb_true_iff in B].
  - intros c Hc. unfold normal_children, children_in in Hc. apply in_map_iff in Hc as ([k c'] & <- & Hc). apply filter_In in Hc as [Hc _].
    match goal with Hx : forallb _ (n_children n) = true |- _ => rewrite forallb_forall in Hx; specialize (Hx _ Hc) end.
    cbn [fst snd] in *. repeat match goal with Hx : _ && _ = true |- _ => apply andb_true_iff in Hx as [Hx ?] end.
    split; [now apply Nat.ltb_lt | unfold nd; now apply nkb_eq].
Qed.

(* exec in stages (definitional) *)
Definition exec_init (f : nat) (e : eng) (i : nat) : eng :=
  let ea := kind_init (set_state 1 (set_data e i (inputs e i)) i SReady) i in
  if exn ea then ea else if negb (is_completed (st ea i)) then emit f ea i else ea.
Definition exec_run (f : nat) (e : eng) (i : nat) : eng :=
  let er := set_state 7 e i SRunning in
  let er2 := match kind er i with
             | KWorkflow => match normal_children (tnode er i) with [] => set_state 8 er i SCompleted | ch => sched_nodes er ch i end
             | KStep => sched_nodes er (normal_children (tnode er i)) i
             | _ => er end in
  emit f er2 i.
Lemma kind_init_W a i : n_kind (tnode a i) = KWorkflow -> n_setup (tnode a i) = [] -> kind_init a i = a.
Proof. intros Hk Hs. unfold kind_init. rewrite Hk, Hs. reflexivity. Qed.
Lemma kind_init_S a i : n_kind (tnode a i) = KStep -> n_if (tnode a i) = None -> n_setup (tnode a i) = [] ->
  kind_init a i = set_timeouts (set_catches a i (n_catches (tnode a i))) i (n_timeouts (tnode a i)).
Proof. intros Hk Hi Hs. unfold kind_init. rewrite Hk, Hi, Hs. reflexivity. Qed.
Lemma kind_init_A a i : n_kind (tnode a i) = KAct -> n_if (tnode a i) = None -> n_setup (tnode a i) = [] -> sp_u (n_spec (tnode a i)) = UIrq ->
  kind_init a i = set_state 4 (set_timeouts (set_catches a i (n_catches (tnode a i))) i (n_timeouts (tnode a i))) i SInterrupt.
Proof. intros Hk Hi Hs Hu. unfold kind_init. rewrite Hk, Hi, Hs, Hu. reflexivity. Qed.

(* the rest of exec, after init (the text of the model; exec_eq ties it to exec by conversion) *)
Definition exec_rest (f : nat) (cv : vars) (e1 : eng) (i : nat) : eng :=
      if exn e1 then e1 else
      (* a pending branch whose siblings are already decided is resumed at once *)
      let e1' := if is (st e1 i) SPending then
                   let '(rdy, ea) := is_ready e1 i in
                   if rdy then emit f (set_state 6 ea i SRunning) i else ea
                 else e1 in
      (* run: a package that fails when it is executed leaves the act running, nothing else has happened; the scheduler's
         error path takes over (exec_or_fail) *)
      if nkind_beq (kind e1' i) KAct && is (st e1' i) SReady && is_fail (sp_u (n_spec (tnode e1' i)))
      then with_exn (set_state 7 e1' i SRunning) true else
      let e2 :=
        if is (st e1' i) SReady then
          let er := set_state 7 e1' i SRunning in
          let er2 := match kind er i with
                     | KWorkflow => match normal_children (tnode er i) with
                                    | [] => set_state 8 er i SCompleted
                                    | ch => sched_nodes er ch i
                                    end
                     | KStep => sched_nodes er (normal_children (tnode er i)) i
                     | KAct =>
                         let sp := n_spec (tnode er i) in
                         let nid := t_nid (tk er i) in
                         let blk := ASpec UBlock 0 true None (sp_acts sp) in
                         let er0 := match sp_u sp with UMsg => set_silent er i false | _ => er end in
                         let er0 := if n_isset (tnode er0 i) then
                                      let ps := n_params (tnode er0 i) in
                                      update_data (set_exposed er0 i (map fst (filter (fun kv => negb (is_private_key (fst kv))) ps))) i ps
                                    else er0 in
                         let er1 := match sp_u sp with
                                    | UBlock => if n_isset (tnode er0 i) then er0 else build_acts er0 nid (sp_acts sp) (sp_sq sp)
                                    | UParallel => build_acts er0 nid (repeat blk (sp_n sp)) false
                                    | USequence => build_acts er0 nid (repeat blk (sp_n sp)) true
                                    | _ => er0 end in
                         sched_nodes er1 (normal_children (tnode er1 i)) i
                     | KBranch => er
                     end in
          emit f er2 i
        else e1' in
      next f cv e2 i.
Lemma exec_eq f cv e i : exec f cv e i =
  if is_completed (st e i) then with_exn e true else exec_rest f cv (if is (st e i) SNone then exec_init f e i else e) i.
Proof. unfold exec, exec_rest, exec_init. destruct (is_completed (st e i)); [reflexivity|]. destruct (is (st e i) SNone); lazy zeta; reflexivity. Qed.
Lemma exec_rest_ready f cv e1 i k : (k = KWorkflow \/ k = KStep) ->
  exn e1 = false -> st e1 i = SReady -> kind e1 i = k -> kind (set_state 7 e1 i SRunning) i = k ->
  exec_rest f cv e1 i = next f cv (exec_run f e1 i) i.
Proof.
  intros Hk Hx Hst Hk1 Hk2. unfold exec_rest, exec_run. rewrite Hx, Hst. change (is SReady SPending) with false. cbv iota. cbv zeta.
  rewrite Hst, Hk1, Hk2. change (is SReady SReady) with true.
  destruct Hk as [-> | ->]; reflexivity.
Qed.
Lemma exec_rest_irq f cv e1 i : exn e1 = false -> st e1 i = SInterrupt -> exec_rest f cv e1 i = next f cv e1 i.
Proof.
  intros Hx Hst. unfold exec_rest. rewrite Hx, Hst. change (is SInterrupt SPending) with false. cbv iota. cbv zeta.
  rewrite Hst. change (is SInterrupt SReady) with false. rewrite andb_false_r. reflexivity.
Qed.
Lemma kind_init_M a i : n_kind (tnode a i) = KAct -> n_if (tnode a i) = None -> n_setup (tnode a i) = [] -> sp_u (n_spec (tnode a i)) = UMsg ->
  kind_init a i = set_state 5 (set_silent (set_timeouts (set_catches a i (n_catches (tnode a i))) i (n_timeouts (tnode a i))) i true) i SReady.
Proof. intros Hk Hi Hs Hu. unfold kind_init. rewrite Hk, Hi, Hs, Hu. reflexivity. Qed.
(* running a message act: it has nothing to start, its message goes out *)
Lemma exec_rest_msg f cv e1 i : exn e1 = false -> st e1 i = SReady -> kind e1 i = KAct ->
  let er := set_state 7 e1 i SRunning in
  kind er i = KAct -> sp_u (n_spec (tnode e1 i)) = UMsg -> sp_u (n_spec (tnode er i)) = UMsg ->
  n_isset (tnode (set_silent er i false) i) = false -> normal_children (tnode (set_silent er i false) i) = [] ->
  exec_rest f cv e1 i = next f cv (emit f (set_silent er i false) i) i.
Proof.
  intros Hx Hst Hk1 er Hk2 Hu1 Hu2 His Hnc. unfold exec_rest. rewrite Hx, Hst. change (is SReady SPending) with false. cbv iota. cbv zeta.
  rewrite Hst, Hk1, Hu1. change (is SReady SReady) with true. cbn [nkind_beq is_fail andb]. cbv iota.
  fold er. rewrite Hk2, Hu2. cbv iota. rewrite His. cbv iota. rewrite Hnc. unfold sched_nodes. cbn [fold_left]. reflexivity.
Qed.


(* the state after Task::init's first write, with what is needed of it *)
Lemma init_state e i : SI e -> PX (fun t => t = i) e -> i < ntasks e -> st e i = SNone -> ~ In i (queue e) ->
  let a := set_state 1 (set_data e i (inputs e i)) i SReady in
  SI a /\ PX (fun t => t = i) a /\ st a i = SReady /\ sameS e a /\ i < ntasks a /\ ~ In i (queue a) /\ children a i = [].
Proof.
  intros H P Hi Hs Hq.
  set (ed := set_data e i (inputs e i)). intros a.
  assert (Td : teq e ed) by apply teq_set_data.
  assert (Hd : SI ed) by (eapply SI_teq; eauto).
  assert (Pd : PX (fun t => t = i) ed) by (eapply PX_teq; eauto).
  assert (Hid : i < ntasks ed) by (rewrite (teq_len _ _ Td); exact Hi).
  assert (Qd : queue ed = queue e) by apply Td.
  assert (HS : sameS e a) by (apply (sameS_trans e ed a); [now apply sameS_teq | apply sameS_set_state]).
  split; [|split; [|split; [|split; [|split; [|split]]]]].
  - apply SI_ss; auto; try discriminate.
    + intros _. split; [rewrite (teq_st _ _ i Td), Hs; reflexivity | rewrite Qd; exact Hq].
    + intros _. apply nochild_nil. rewrite (teq_children _ _ i Td). apply no_children; [exact H | exact Hs].
  - apply PX_open; auto.
  - unfold a. now rewrite (st_ss 1 ed i SReady i Hid), Nat.eqb_refl.
  - exact HS.
  - unfold a. now rewrite ntasks_set_state.
  - unfold a. rewrite queue_set_state, Qd. exact Hq.
  - rewrite (sameS_children _ _ i HS). now apply no_children.
Qed.
(* running a workflow or step task: its node's children are started *)
Lemma run_state f e1 i k : (k = KWorkflow \/ k = KStep) -> SI e1 -> PX (fun t => t = i) e1 -> i < ntasks e1 -> st e1 i = SReady ->
  kind e1 i = k -> ~ In i (queue e1) -> children e1 i = [] ->
  let e2 := exec_run (S f) e1 i in
  SI e2 /\ i < ntasks e2 /\ kind e2 i = k /\ tnode e2 i = tnode e1 i /\
  ((st e2 i = SRunning /\ children e2 i <> [] /\ (forall j, In j (children e2 i) -> st e2 j = SNone) /\ PX (fun t => t = i) e2) \/
   (st e2 i = SRunning /\ children e2 i = [] /\ k = KStep /\ PX (fun t => t = i) e2) \/
   (st e2 i = SCompleted /\ k = KWorkflow /\ Prog e2)).
Proof.
  intros Hk H1 P1 Hi1 S1 K1 Q1 C1 e2. unfold e2, exec_run.
  set (er := set_state 7 e1 i SRunning).
  assert (Hr : SI er) by (apply SI_ss; auto; try discriminate; [intros _; rewrite S1; auto | intros Hx; now destruct Hx]).
  assert (Pr : PX (fun t => t = i) er) by (apply PX_open; auto).
  assert (Sr : st er i = SRunning) by (unfold er; now rewrite (st_ss 7 e1 i SRunning i Hi1), Nat.eqb_refl).
  assert (HSr : sameS e1 er) by apply sameS_set_state.
  assert (Kr : kind er i = k) by (now rewrite (sameS_kind _ _ i HSr)).
  assert (Tnr : tnode er i = tnode e1 i) by (now apply sameS_tnode).
  assert (Hir : i < ntasks er) by (unfold er; now rewrite ntasks_set_state).
  assert (Cr : children er i = []) by (now rewrite (sameS_children _ _ i HSr)).
  destruct (frag_facts er i Hr Hir) as (_ & _ & _ & Flen & _ & Fch). cbv zeta in Fch, Flen.
  clearbody er. cbv zeta. rewrite Kr.
  assert (Hspawn : forall l, l = normal_children (tnode er i) -> l <> [] ->
            let er2 := sched_nodes er l i in let e2 := emit (S f) er2 i in
            SI e2 /\ i < ntasks e2 /\ kind e2 i = k /\ tnode e2 i = tnode e1 i /\
            st e2 i = SRunning /\ children e2 i <> [] /\ (forall j, In j (children e2 i) -> st e2 j = SNone) /\ PX (fun t => t = i) e2).
  { intros l Hl Hne er2 e2'.
    destruct (spawn_children (fun t => t = i) i l er Hr Pr Hir Sr ltac:(destruct Hk as [-> | ->]; rewrite Kr; discriminate)) as (A & B & C & D & E & F & G & Hne').
    { intros c Hc. rewrite Hl in Hc. destruct (Fch c Hc) as [X1 X2]. split; [exact X1|]. exact X2. }
    { exact Cr. }
    { rewrite Hl. exact Flen. }
    fold er2 in A, B, C, D, E, F, G, Hne'.
    assert (T2 : teq er2 e2').
    { apply emit_teqS; [exact A | rewrite C; discriminate|]. intros Hkw. destruct (Nat.eq_dec i 0) as [->|Hn0]; [reflexivity|].
      exfalso. destruct (si_task er2 A i E) as (_ & _ & _ & Hwf). apply Hwf; [lia | exact Hkw]. }
    split; [eapply SI_teq; eauto|]. split; [rewrite (teq_len _ _ T2); exact E|]. split; [rewrite (teq_kind _ _ i T2); congruence|].
    split; [rewrite (teq_tnode _ _ i T2); congruence|]. split; [rewrite (teq_st _ _ i T2); exact C|].
    split; [rewrite (teq_children _ _ i T2); now apply Hne'|].
    split; [intros j Hj; rewrite (teq_children _ _ i T2) in Hj; rewrite (teq_st _ _ j T2); now apply G | eapply PX_teq; eauto]. }
  destruct Hk as [-> | ->].
  - destruct (normal_children (tnode er i)) as [|c ch] eqn:Ech.
    + set (er2 := set_state 8 er i SCompleted).
      assert (i = 0) by (destruct (Nat.eq_dec i 0) as [->|Hn0]; [reflexivity | exfalso; destruct (si_task er Hr i Hir) as (_ & _ & _ & Hwf); apply Hwf; [lia | exact Kr]]). subst i.
      assert (Hr2 : SI er2) by (apply SI_ss; auto; try discriminate; intros _; now apply nochild_nil).
      assert (Pr2 : Prog er2).
      { apply (PX_weaken _ _ _ (PX_close 8 _ er 0 SCompleted Pr Hir eq_refl)). intros t [-> | [Hp _]] Ht Ho.
        - unfold opn, er2 in Ho. rewrite (st_ss 8 er 0 SCompleted 0 Hir) in Ho. discriminate.
        - unfold parent in Hp. destruct (si_root er Hr) as (_ & Hp0 & _). rewrite Hp0 in Hp. discriminate. }
      assert (Sr2 : st er2 0 = SCompleted) by (unfold er2; now rewrite (st_ss 8 er 0 SCompleted 0 Hir)).
      assert (HS2 : sameS er er2) by apply sameS_set_state.
      assert (T2 : teq er2 (emit (S f) er2 0)) by (apply emit_teqS; [exact Hr2 | rewrite Sr2; discriminate | auto]).
      split; [eapply SI_teq; eauto|]. split; [rewrite (teq_len _ _ T2); unfold er2; now rewrite ntasks_set_state|].
      split; [rewrite (teq_kind _ _ 0 T2), (sameS_kind _ _ 0 HS2); exact Kr|].
      split; [rewrite (teq_tnode _ _ 0 T2), (sameS_tnode _ _ 0 HS2); exact Tnr|].
      right; right. split; [rewrite (teq_st _ _ 0 T2); exact Sr2|]. split; [reflexivity | eapply PX_teq; eauto].
    + destruct (Hspawn (c :: ch) eq_refl ltac:(discriminate)) as (A & B & C & D & E & F & G & I0).
      split; [exact A|]. split; [exact B|]. split; [exact C|]. split; [exact D|]. left. auto.
  - destruct (normal_children (tnode er i)) as [|c ch] eqn:Ech.
    + unfold sched_nodes. cbn [fold_left].
      assert (T2 : teq er (emit (S f) er i)).
      { apply emit_teqS; [exact Hr | rewrite Sr; discriminate|]. intros Hkw. rewrite Kr in Hkw. discriminate. }
      split; [eapply SI_teq; eauto|]. split; [rewrite (teq_len _ _ T2); exact Hir|]. split; [rewrite (teq_kind _ _ i T2); exact Kr|].
      split; [rewrite (teq_tnode _ _ i T2); exact Tnr|]. right; left.
      split; [rewrite (teq_st _ _ i T2); exact Sr|]. split; [rewrite (teq_children _ _ i T2); exact Cr|]. split; [reflexivity | eapply PX_teq; eauto].
    + destruct (Hspawn (c :: ch) eq_refl ltac:(discriminate)) as (A & B & C & D & E & F & G & I0).
      split; [exact A|]. split; [exact B|]. split; [exact C|]. split; [exact D|]. left. auto.
Qed.

Lemma next_after_run f e2 i k : (k = KWorkflow \/ k = KStep) -> SI e2 -> i < ntasks e2 -> kind e2 i = k ->
  ((st e2 i = SRunning /\ children e2 i <> [] /\ (forall j, In j (children e2 i) -> st e2 j = SNone) /\ PX (fun t => t = i) e2) \/
   (st e2 i = SRunning /\ children e2 i = [] /\ k = KStep /\ PX (fun t => t = i) e2) \/
   (st e2 i = SCompleted /\ k = KWorkflow /\ Prog e2)) ->
  Good (next (S (S (S (S f)))) [] e2 i).
Proof.
  intros Hk H2 Hi K2 Hcase. rewrite next_S.
  destruct Hcase as [(S2 & Hne & Hall & P2) | [(S2 & Hnil & -> & P2) | (S2 & -> & P2)]].
  - (* children started: the task runs over them *)
    assert (G2 : Good e2).
    { split; [exact H2|]. apply (PX_weaken _ _ _ P2). intros t -> Ht Ho. right.
      destruct (children e2 i) as [|j l] eqn:Ec; [congruence|].
      apply (open_child_clause e2 i j); auto; [rewrite Ec; now left|]. unfold opn. rewrite (Hall j (or_introl eq_refl)). reflexivity. }
    rewrite S2. change (is_next SRunning) with true. cbv iota. rewrite K2.
    destruct Hk as [-> | ->].
    + cbv beta iota zeta. rewrite S2. exact G2.
    + change (is SRunning SRunning) with true. cbv iota.
      match goal with |- context [fold_left ?g (children e2 i) (false, e2)] => set (G := g) end.
      assert (Hfold : forall l fl, (forall j, In j l -> st e2 j = SNone) -> l <> [] -> fold_left G l (fl, e2) = (true, e2)).
      { induction l as [|j l IHl]; intros fl Hl Hn; [congruence|]. cbn [fold_left].
        assert (E : G (fl, e2) j = (true, e2)) by (unfold G; cbv beta iota zeta; rewrite (Hl j (or_introl eq_refl)); reflexivity).
        rewrite E. destruct l as [|j' l']; [reflexivity|]. apply IHl; [intros; apply Hl; now right | discriminate]. }
      rewrite (Hfold _ false Hall Hne). cbv beta iota zeta.
      assert (Ef : forallb (fun j => is_completed (st e2 j)) (children e2 i) = false).
      { destruct (children e2 i) as [|j l] eqn:Ec; [congruence|]. cbn [forallb]. rewrite (Hall j (or_introl eq_refl)). reflexivity. }
      rewrite Ef. cbv beta iota zeta. rewrite S2. exact G2.
  - (* a step without acts completes at once *)
    rewrite S2. change (is_next SRunning) with true. cbv iota. rewrite K2. change (is SRunning SRunning) with true. cbv iota.
    rewrite Hnil. cbn [fold_left]. cbv beta iota zeta. rewrite ?Hnil. cbn [forallb]. cbv beta iota zeta. rewrite S2. cbn [is_completed negb].
    set (e3 := set_state 12 e2 i SCompleted).
    assert (H3 : SI e3) by (apply SI_ss; auto; try discriminate; intros _; now apply nochild_nil).
    assert (S3 : st e3 i = SCompleted) by (unfold e3; now rewrite (st_ss 12 e2 i SCompleted i Hi), Nat.eqb_refl).
    assert (HS3 : sameS e2 e3) by apply sameS_set_state.
    assert (Hi3 : i < ntasks e3) by (unfold e3; now rewrite ntasks_set_state).
    assert (K3 : kind e3 i = KStep) by (now rewrite (sameS_kind _ _ i HS3)).
    assert (P3 : PX (fun t => parent e3 i = Some t /\ st e3 t = SRunning) e3).
    { apply (PX_weaken _ _ _ (PX_close 12 _ e2 i SCompleted P2 Hi eq_refl)). intros t [-> | [Hp Hr]] Ht Ho.
      - unfold opn in Ho. fold e3 in Ho. rewrite S3 in Ho. discriminate.
      - left. rewrite (sameS_parent _ _ i HS3). split; [exact Hp|]. unfold e3. rewrite (st_ss 12 e2 i SCompleted t Hi).
        destruct (Nat.eqb_spec t i) as [->|]; [|exact Hr]. apply (parent_lt e2 i i (SI_W e2 H2) Hi) in Hp. lia. }
    assert (T : Good (tail (S (S (S f))) [] e3 i (n_next (tnode e3 i)))).
    { apply tail_good; auto; [now rewrite S3 | rewrite K3; discriminate | | rewrite K3; cbn [lvl_of]; lia].
      intros pp Hpp. rewrite (sameS_parent _ _ i HS3) in Hpp. apply (after_close 12 e2 i SCompleted pp H2 Hi); auto. unfold opn. now rewrite S2. }
    unfold tail in T. clearbody e3.
    destruct (n_next (tnode e3 i)) as [nx|]; cbv beta iota zeta in T |- *.
    + assert (E : is_completed (st (sched_next e3 nx i) i) = true).
      { unfold sched_next. rewrite st_spawn. destruct (Nat.eqb_spec i (ntasks e3)); [lia | now rewrite S3]. }
      rewrite E. exact T.
    + rewrite S3. cbn [is_completed]. exact T.
  - (* a workflow without steps has completed *)
    rewrite S2. change (is_next SCompleted) with true. cbv iota. rewrite K2. cbv beta iota zeta. rewrite S2. cbn [is_completed].
    assert (i = 0) by (destruct (Nat.eq_dec i 0) as [->|Hn0]; [reflexivity | exfalso; destruct (si_task e2 H2 i Hi) as (_ & _ & _ & Hwf); apply Hwf; [lia | exact K2]]). subst i.
    set (e3 := emit (S (S (S f))) (update_data e2 0 []) 0).
    assert (T3 : teq e2 e3).
    { eapply teq_trans; [apply teq_update_data|]. apply emit_teq; [eapply nohooks_teq; [apply teq_update_data | apply H2] | | auto].
      rewrite (teq_st _ _ 0 (teq_update_data e2 0 [])), S2. discriminate. }
    assert (G3 : Good e3) by (apply (Good_teq e2); [exact T3 | split; assumption]).
    assert (Par3 : parent e3 0 = None) by (unfold parent; destruct (si_root e3 (proj1 G3)) as (_ & -> & _); reflexivity).
    clearbody e3. destruct (negb _ && negb _); rewrite ?Par3; exact G3.
Qed.

(* a running message act has nothing beneath it: it completes at once, starts its successor or hands over to its step *)
Lemma next_msg_act f e2 i : SI e2 -> i < ntasks e2 -> kind e2 i = KAct -> st e2 i = SRunning -> children e2 i = [] ->
  PX (fun t => t = i) e2 -> Good (next (S (S (S (S f)))) [] e2 i).
Proof.
  intros H2 Hi K2 S2 Hnil P2. rewrite next_S.
  rewrite S2. change (is_next SRunning) with true. cbv iota. rewrite K2. change (is SRunning SRunning) with true. cbv iota.
  rewrite Hnil. cbn [fold_left]. cbv beta iota zeta. rewrite ?Hnil. cbn [forallb]. cbv beta iota zeta. rewrite S2. cbn [is_completed negb].
  set (e3 := set_state 12 e2 i SCompleted).
  assert (H3 : SI e3) by (apply SI_ssR; auto; try discriminate; intros _; now apply nochild_nil).
  assert (S3 : st e3 i = SCompleted) by (unfold e3; now rewrite (st_ss 12 e2 i SCompleted i Hi), Nat.eqb_refl).
  assert (HS3 : sameS e2 e3) by apply sameS_set_state.
  assert (Hi3 : i < ntasks e3) by (unfold e3; now rewrite ntasks_set_state).
  assert (K3 : kind e3 i = KAct) by (now rewrite (sameS_kind _ _ i HS3)).
  assert (P3 : PX (fun t => parent e3 i = Some t /\ st e3 t = SRunning) e3).
  { apply (PX_weaken _ _ _ (PX_close 12 _ e2 i SCompleted P2 Hi eq_refl)). intros t [-> | [Hp Hr]] Ht Ho.
    - unfold opn in Ho. fold e3 in Ho. rewrite S3 in Ho. discriminate.
    - left. rewrite (sameS_parent _ _ i HS3). split; [exact Hp|]. unfold e3. rewrite (st_ss 12 e2 i SCompleted t Hi).
      destruct (Nat.eqb_spec t i) as [->|]; [|exact Hr]. apply (parent_lt e2 i i (SI_W e2 H2) Hi) in Hp. lia. }
  assert (T : Good (tail (S (S (S f))) [] e3 i (n_next (tnode e3 i)))).
  { apply tail_good; auto; [now rewrite S3 | rewrite K3; discriminate | | rewrite K3; cbn [lvl_of]; lia].
    intros pp Hpp. rewrite (sameS_parent _ _ i HS3) in Hpp. apply (after_close 12 e2 i SCompleted pp H2 Hi); auto. unfold opn. now rewrite S2. }
  unfold tail in T. clearbody e3.
  destruct (n_next (tnode e3 i)) as [nx|]; cbv beta iota zeta in T |- *.
  - assert (E : is_completed (st (sched_next e3 nx i) i) = true).
    { unfold sched_next. rewrite st_spawn. destruct (Nat.eqb_spec i (ntasks e3)); [lia | now rewrite S3]. }
    rewrite E. exact T.
  - rewrite S3. cbn [is_completed]. exact T.
Qed.

Lemma exec_good e i : SI e -> PX (fun t => t = i) e -> i < ntasks e -> st e i = SNone -> ~ In i (queue e) ->
  Good (exec (fuel_of e) [] e i).
Proof.
  intros H P Hi Hs Hq. destruct (fuel_ge e) as [f Hf]. rewrite Hf, exec_eq, Hs.
  change (is_completed SNone) with false. change (is SNone SNone) with true. cbv iota.
  destruct (init_state e i H P Hi Hs Hq) as (Ha & Pa & Sa & HSa & Hia & Qa & Ca).
  destruct (frag_facts e i H Hi) as (Fif & Fsetup & Fnb & _ & Fact & _). cbv zeta in Fif, Fsetup, Fnb, Fact.
  unfold exec_init. set (a := set_state 1 (set_data e i (inputs e i)) i SReady) in *.
  assert (Tna : tnode a i = tnode e i) by (now apply sameS_tnode).
  assert (Ka : kind a i = kind e i) by (now apply sameS_kind).
  clearbody a. rewrite <- Tna in Fif, Fsetup, Fnb, Fact.
  assert (Hroot : forall x, teq a x -> kind x i = KWorkflow -> i = 0).
  { intros x Tx Hk. destruct (Nat.eq_dec i 0) as [->|Hn0]; [reflexivity|]. exfalso. destruct (si_task a Ha i Hia) as (_ & _ & _ & Hwf).
    apply Hwf; [lia|]. now rewrite <- (teq_kind _ _ i Tx). }
  destruct (n_kind (tnode a i)) eqn:Ekn.
  - (* workflow *)
    rewrite (kind_init_W a i Ekn Fsetup). cbv zeta. rewrite (si_exn a Ha), Sa. change (negb (is_completed SReady)) with true. cbv iota.
    set (e1 := emit (S (S (S (S f)))) a i).
    assert (T1 : teq a e1) by (apply emit_teqS; [exact Ha | rewrite Sa; discriminate | apply (Hroot a (teq_refl a))]).
    assert (H1 : SI e1) by (eapply SI_teq; eauto).
    assert (P1 : PX (fun t => t = i) e1) by (eapply PX_teq; eauto).
    assert (S1 : st e1 i = SReady) by (now rewrite (teq_st _ _ i T1)).
    assert (K1 : kind e1 i = KWorkflow) by (rewrite (teq_kind _ _ i T1); exact Ekn).
    assert (Hi1 : i < ntasks e1) by (rewrite (teq_len _ _ T1); exact Hia).
    assert (Q1 : ~ In i (queue e1)) by (destruct T1 as (_ & -> & _); exact Qa).
    assert (C1 : children e1 i = []) by (now rewrite (teq_children _ _ i T1)).
    clearbody e1.
    rewrite (exec_rest_ready _ [] e1 i KWorkflow); auto; [|apply H1 | rewrite (sameS_kind _ _ i (sameS_set_state 7 e1 i SRunning)); exact K1].
    destruct (run_state (S (S (S f))) e1 i KWorkflow ltac:(auto) H1 P1 Hi1 S1 K1 Q1 C1) as (A & B & C & _ & D).
    apply (next_after_run f _ i KWorkflow); auto.
  - exfalso. now apply Fnb.
  - (* step *)
    rewrite (kind_init_S a i Ekn Fif Fsetup). cbv zeta.
    set (a' := set_timeouts (set_catches a i (n_catches (tnode a i))) i (n_timeouts (tnode a i))).
    assert (Ta : teq a a') by (eapply teq_trans; [apply teq_set_catches | apply teq_set_timeouts]).
    assert (Ha' : SI a') by (eapply SI_teq; eauto).
    assert (Sa' : st a' i = SReady) by (now rewrite (teq_st _ _ i Ta)).
    clearbody a'. rewrite (si_exn a' Ha'), Sa'. change (negb (is_completed SReady)) with true. cbv iota.
    set (e1 := emit (S (S (S (S f)))) a' i).
    assert (Ka' : kind a' i = KStep) by (rewrite (teq_kind _ _ i Ta); exact Ekn).
    assert (T1' : teq a' e1) by (apply emit_teqS; [exact Ha' | rewrite Sa'; discriminate | rewrite Ka'; discriminate]).
    assert (T1 : teq a e1) by (eapply teq_trans; eauto).
    assert (H1 : SI e1) by (eapply SI_teq; eauto).
    assert (P1 : PX (fun t => t = i) e1) by (eapply PX_teq; eauto).
    assert (S1 : st e1 i = SReady) by (now rewrite (teq_st _ _ i T1)).
    assert (K1 : kind e1 i = KStep) by (rewrite (teq_kind _ _ i T1); exact Ekn).
    assert (Hi1 : i < ntasks e1) by (rewrite (teq_len _ _ T1); exact Hia).
    assert (Q1 : ~ In i (queue e1)) by (destruct T1 as (_ & -> & _); exact Qa).
    assert (C1 : children e1 i = []) by (now rewrite (teq_children _ _ i T1)).
    clearbody e1.
    rewrite (exec_rest_ready _ [] e1 i KStep); auto; [|apply H1 | rewrite (sameS_kind _ _ i (sameS_set_state 7 e1 i SRunning)); exact K1].
    destruct (run_state (S (S (S f))) e1 i KStep ltac:(auto) H1 P1 Hi1 S1 K1 Q1 C1) as (A & B & C & _ & D).
    apply (next_after_run f _ i KStep); auto.
  - destruct (Fact eq_refl) as [[Fu | Fu] [Fch Fis]].
    2:{ (* a message act: ready, running, its message, completed *)
    rewrite (kind_init_M a i Ekn Fif Fsetup Fu). cbv zeta.
    set (a' := set_silent (set_timeouts (set_catches a i (n_catches (tnode a i))) i (n_timeouts (tnode a i))) i true).
    assert (Ta : teq a a') by (eapply teq_trans; [eapply teq_trans; [apply teq_set_catches | apply teq_set_timeouts] | apply teq_set_silent]).
    assert (Ha' : SI a') by (eapply SI_teq; eauto).
    assert (Pa' : PX (fun t => t = i) a') by (eapply PX_teq; eauto).
    assert (Sa' : st a' i = SReady) by (now rewrite (teq_st _ _ i Ta)).
    assert (Hia' : i < ntasks a') by (rewrite (teq_len _ _ Ta); exact Hia).
    assert (Qa' : ~ In i (queue a')) by (destruct Ta as (_ & -> & _); exact Qa).
    assert (Ka' : kind a' i = KAct) by (rewrite (teq_kind _ _ i Ta); exact Ekn).
    assert (Tn' : tnode a' i = tnode a i) by (now apply teq_tnode).
    assert (Ca' : children a' i = []) by (now rewrite (teq_children _ _ i Ta)).
    clearbody a'.
    set (b := set_state 5 a' i SReady).
    assert (Hb : SI b) by (apply SI_ssR; auto; try discriminate; [intros _; rewrite Sa'; auto | intros _; now apply nochild_nil]).
    assert (Pb : PX (fun t => t = i) b) by (apply PX_open; auto).
    assert (Sb : st b i = SReady) by (unfold b; now rewrite (st_ss 5 a' i SReady i Hia'), Nat.eqb_refl).
    assert (HSb : sameS a' b) by apply sameS_set_state.
    assert (Kb : kind b i = KAct) by (now rewrite (sameS_kind _ _ i HSb)).
    assert (Tnb : tnode b i = tnode a i) by (now rewrite (sameS_tnode _ _ i HSb)).
    assert (Hib : i < ntasks b) by (unfold b; now rewrite ntasks_set_state).
    assert (Qb : ~ In i (queue b)) by (unfold b; now rewrite queue_set_state).
    assert (Cb : children b i = []) by (now rewrite (sameS_children _ _ i HSb)).
    clearbody b. rewrite (si_exn b Hb), Sb. change (negb (is_completed SReady)) with true. cbv iota.
    set (e1 := emit (S (S (S (S f)))) b i).
    assert (T1 : teq b e1) by (apply emit_teqS; [exact Hb | rewrite Sb; discriminate | rewrite Kb; discriminate]).
    assert (H1 : SI e1) by (eapply SI_teq; eauto).
    assert (P1 : PX (fun t => t = i) e1) by (eapply PX_teq; eauto).
    assert (S1 : st e1 i = SReady) by (now rewrite (teq_st _ _ i T1)).
    assert (K1 : kind e1 i = KAct) by (now rewrite (teq_kind _ _ i T1)).
    assert (Tn1 : tnode e1 i = tnode a i) by (now rewrite (teq_tnode _ _ i T1)).
    assert (Hi1 : i < ntasks e1) by (rewrite (teq_len _ _ T1); exact Hib).
    assert (Q1 : ~ In i (queue e1)) by (destruct T1 as (_ & -> & _); exact Qb).
    assert (C1 : children e1 i = []) by (now rewrite (teq_children _ _ i T1)).
    clearbody e1.
    set (er := set_state 7 e1 i SRunning).
    assert (Hr : SI er) by (apply SI_ssR; auto; try discriminate; [intros _; rewrite S1; auto | intros Hx; now destruct Hx]).
    assert (Pr : PX (fun t => t = i) er) by (apply PX_open; auto).
    assert (Sr : st er i = SRunning) by (unfold er; now rewrite (st_ss 7 e1 i SRunning i Hi1), Nat.eqb_refl).
    assert (HSr : sameS e1 er) by apply sameS_set_state.
    assert (Kr : kind er i = KAct) by (now rewrite (sameS_kind _ _ i HSr)).
    assert (Tnr : tnode er i = tnode a i) by (now rewrite (sameS_tnode _ _ i HSr)).
    assert (Hir : i < ntasks er) by (unfold er; now rewrite ntasks_set_state).
    assert (Cr : children er i = []) by (now rewrite (sameS_children _ _ i HSr)).
    set (er0 := set_silent er i false).
    assert (T0 : teq er er0) by apply teq_set_silent.
    assert (Tn0 : tnode er0 i = tnode a i) by (now rewrite (teq_tnode _ _ i T0)).
    assert (E : exec_rest (S (S (S (S f)))) [] e1 i = next (S (S (S (S f)))) [] (emit (S (S (S (S f)))) er0 i) i).
    { apply exec_rest_msg; auto; [apply (si_exn e1 H1) | now rewrite Tn1 | fold er; now rewrite Tnr | fold er er0; now rewrite Tn0 |].
      fold er er0. rewrite Tn0. unfold normal_children, children_in. now rewrite Fch. }
    rewrite E.
    assert (H0 : SI er0) by (eapply SI_teq; eauto).
    set (e2 := emit (S (S (S (S f)))) er0 i).
    assert (T2 : teq er0 e2).
    { apply emit_teqS; [exact H0 | rewrite (teq_st _ _ i T0), Sr; discriminate | rewrite (teq_kind _ _ i T0), Kr; discriminate]. }
    assert (T02 : teq er e2) by (eapply teq_trans; eauto).
    apply next_msg_act.
    - eapply SI_teq; eauto.
    - rewrite (teq_len _ _ T02). exact Hir.
    - now rewrite (teq_kind _ _ i T02).
    - now rewrite (teq_st _ _ i T02).
    - now rewrite (teq_children _ _ i T02).
    - eapply PX_teq; eauto. }
    (* an interactive act: it waits for a client *)
    rewrite (kind_init_A a i Ekn Fif Fsetup Fu). cbv zeta.
    set (a' := set_timeouts (set_catches a i (n_catches (tnode a i))) i (n_timeouts (tnode a i))).
    assert (Ta : teq a a') by (eapply teq_trans; [apply teq_set_catches | apply teq_set_timeouts]).
    assert (Ha' : SI a') by (eapply SI_teq; eauto).
    assert (Pa' : PX (fun t => t = i) a') by (eapply PX_teq; eauto).
    assert (Sa' : st a' i = SReady) by (now rewrite (teq_st _ _ i Ta)).
    assert (Hia' : i < ntasks a') by (rewrite (teq_len _ _ Ta); exact Hia).
    assert (Qa' : ~ In i (queue a')) by (destruct Ta as (_ & -> & _); exact Qa).
    assert (Ka' : kind a' i = KAct) by (rewrite (teq_kind _ _ i Ta); exact Ekn).
    clearbody a'.
    set (b := set_state 4 a' i SInterrupt).
    assert (Hb : SI b) by (apply SI_ss; auto; try discriminate; [intros _; rewrite Sa'; auto | intros _; apply nochild_act; [apply (si_a a' Ha') | exact Ka']]).
    assert (Pb : PX (fun t => t = i) b) by (apply PX_open; auto).
    assert (Sb : st b i = SInterrupt) by (unfold b; now rewrite (st_ss 4 a' i SInterrupt i Hia'), Nat.eqb_refl).
    assert (Kb : kind b i = KAct) by (unfold b; rewrite (sameS_kind _ _ i (sameS_set_state 4 a' i SInterrupt)); exact Ka').
    clearbody b. rewrite (si_exn b Hb), Sb. change (negb (is_completed SInterrupt)) with true. cbv iota.
    set (e1 := emit (S (S (S (S f)))) b i).
    assert (T1 : teq b e1) by (apply emit_teqS; [exact Hb | rewrite Sb; discriminate | rewrite Kb; discriminate]).
    assert (H1 : SI e1) by (eapply SI_teq; eauto).
    assert (P1 : PX (fun t => t = i) e1) by (eapply PX_teq; eauto).
    assert (S1 : st e1 i = SInterrupt) by (now rewrite (teq_st _ _ i T1)).
    clearbody e1.
    rewrite (exec_rest_irq _ [] e1 i (si_exn e1 H1) S1). rewrite next_S, S1. change (is_next SInterrupt) with false. cbv beta iota zeta.
    rewrite S1. change (is_completed SInterrupt) with false. cbv iota.
    split; [exact H1|]. apply (PX_weaken _ _ _ P1). intros t -> _ _. right. right; left. exact S1.
Qed.

(* ---------- the operations ---------- *)
Lemma Good_queue e q' : Good e -> Permutation (queue e) q' -> Good (with_queue e q').
Proof.
  intros [H P] Hp.
  assert (HS : sameS e (with_queue e q')) by (split; [reflexivity | split; [reflexivity | intros y; split; reflexivity]]).
  split.
  - apply (SU_same e); [exact HS | reflexivity | | exact H].
    constructor; try apply (si_a e H).
    change (queue (with_queue e q')) with q'. destruct (si_queue e H) as [Q1 Q2]. split.
    + intros t Ht. apply (Q1 t). eapply Permutation_in; [apply Permutation_sym; exact Hp | exact Ht].
    + eapply Permutation_NoDup; eauto.
  - intros t Ht Ho. destruct (P t Ht Ho) as [[] | [Hc | [Hc | (Hc & j & Hj & Hpj & Hjo)]]]; right.
    + left. change (queue (with_queue e q')) with q'. eapply Permutation_in; eauto.
    + right; left. exact Hc.
    + right; right. split; [exact Hc|]. exists j. split; [exact Hj|]. split; [|exact Hjo]. rewrite (sameS_parent _ _ j HS). exact Hpj.
Qed.
Lemma pick_perm {A} (l : list A) : forall k i, nth_error l k = Some i -> Permutation l (i :: firstn k l ++ skipn (S k) l).
Proof.
  induction l as [|x l IH]; intros k i Hk; destruct k as [|k]; cbn in Hk; try discriminate.
  - inversion Hk; subst. cbn. apply Permutation_refl.
  - cbn [firstn skipn app]. eapply Permutation_trans; [apply perm_skip, (IH k i Hk)|]. apply perm_swap.
Qed.
Lemma step_good e : Good e -> Good (step_queue e).
Proof.
  intros G. unfold step_queue. destruct (queue e) as [|i q] eqn:Eq; [exact G|]. destruct G as [H P].
  set (e0 := add_ev (with_queue e q) (EPop i)).
  assert (H0 : SI e0) by (eapply SI_pop; eauto).
  assert (P0 : PX (fun t => none t \/ t = i) e0) by (eapply PX_pop; eauto).
  destruct (si_queue e H) as [Q1 Q2]. rewrite Eq in Q1, Q2. destruct (Q1 i (or_introl eq_refl)) as [Hi Hst].
  assert (S0 : st e0 i = st e i) by reflexivity.
  destruct (is_completed (st e0 i)) eqn:Ec.
  - split; [exact H0|]. apply (PX_weaken _ _ _ P0). intros t [[] | ->] _ Ho. unfold opn in Ho. congruence.
  - rewrite S0 in Ec. destruct Hst as [Hst | Hst]; [|congruence].
    assert (G1 : Good (exec (fuel_of e0) [] e0 i)).
    { apply exec_good; auto.
      - apply (PX_weaken _ _ _ P0). intros t [[] | ->] _ _. now left.
      - change (queue e0) with q. now inversion Q2. }
    unfold exec_or_fail. rewrite (si_exn _ (proj1 G1)). apply (Good_teq _ _ (teq_persist _)). exact G1.
Qed.
Lemma drain_good n : forall e, Good e -> Good (drain n e).
Proof. induction n as [|n IH]; intros e G; cbn [drain]; [exact G|]. destruct (queue e); [exact G|]. apply IH. now apply step_good. Qed.
(* ---------- a tick: in this class timeout rules have no steps, a firing starts nothing ---------- *)
Lemma teq_with_clock e c : teq e (with_clock e c). Proof. repeat split; auto. Qed.
Lemma no_timeout_children e t k : SI e -> t < ntasks e -> children_in (tnode e t) (OTimeout k) = [].
Proof.
  intros H Ht. pose proof (SI_fnode e t H Ht) as F. unfold frag_node in F. repeat (apply andb_true_iff in F as [F ?]).
  unfold children_in. rewrite filter_nil; [reflexivity|]. intros [kd c] Hc.
  match goal with Hx : forallb _ (n_children (tnode e t)) = true |- _ => rewrite forallb_forall in Hx; specialize (Hx _ Hc) end.
  cbn [fst snd] in *. repeat match goal with Hx : _ && _ = true |- _ => apply andb_true_iff in Hx as [Hx ?] end.
  destruct kd as [|[o|]|k']; cbn in *; try discriminate; reflexivity.
Qed.
Lemma tick_good e adv : Good e -> Good (do_tick e adv).
Proof.
  intros G. unfold do_tick. set (e0 := with_clock e (clock e + adv)%Z).
  assert (T0 : teq e e0) by apply teq_with_clock.
  destruct (is (pstate e0) SRunning); [|exact (Good_teq _ _ T0 G)].
  apply (Good_teq e); [|exact G]. eapply teq_trans; [|apply teq_persist].
  set (ts := sort_by _ _).
  assert (Hts : forall t, In t ts -> t < ntasks e).
  { intros t Ht. unfold ts in Ht. apply In_sort_by in Ht. apply filter_In in Ht as [Ht _]. apply in_seq in Ht. unfold ntasks. cbn in Ht. cbn [length tasks with_clock e0] in Ht. exact (proj2 Ht). }
  clearbody ts.
  assert (Hfold : forall l ee, (forall t, In t l -> t < ntasks e) -> teq e ee ->
            teq e (fold_left (fun ee t => fold_left (fun ee2 (r : nat * Z) =>
                     if rule_fires (clock ee2) (t_start (tk ee2 t)) (t_tmo_done (tk ee2 t)) (is_completed (st ee2 t)) r
                     then sched_nodes (add_tmo_done (add_ev ee2 (EFire t (fst r) (clock ee2) (t_start (tk ee2 t)) (snd r))) t (fst r))
                                      (children_in (tnode ee2 t) (OTimeout (fst r))) t
                     else ee2) (t_timeouts (tk ee t)) ee) l ee)).
  { induction l as [|t l IHl]; intros ee Hl Te; cbn [fold_left]; [exact Te|]. apply IHl; [intros; apply Hl; now right|].
    assert (Ht : t < ntasks e) by (apply Hl; now left).
    generalize (t_timeouts (tk ee t)). intros rules. revert ee Te.
    induction rules as [|r rules IHr]; intros ee Te; cbn [fold_left]; [exact Te|]. apply IHr.
    destruct (rule_fires _ _ _ _ r); [|exact Te].
    assert (Hnc : children_in (tnode ee t) (OTimeout (fst r)) = []).
    { rewrite (teq_tnode _ _ t Te). apply no_timeout_children; [apply G | exact Ht]. }
    rewrite Hnc. unfold sched_nodes. cbn [fold_left]. eapply teq_trans; [exact Te|].
    eapply teq_trans; [apply teq_add_ev|]. unfold add_tmo_done. apply teq_tmod. reflexivity. }
  apply Hfold; [exact Hts | exact T0].
Qed.
Lemma op_good e o : Good e -> frag_op o = true -> Good (apply_op e o).
Proof.
  intros G Ho. destruct o as [k | | i a opts | adv]; cbn [apply_op frag_op] in *; try discriminate; [| | | now apply tick_good].
  - unfold sched_pick. destruct (nth_error (queue e) k) as [i|] eqn:Ek; [|exact G]. apply step_good. apply Good_queue; [exact G | now apply pick_perm].
  - apply (Good_teq _ _ (teq_add_ev _ _)). now apply drain_good.
  - now apply action_good.
Qed.
Lemma start_good ns c0 : frag_nodes ns = true -> Good (start ns c0).
Proof.
  intros F. unfold start.
  set (e := {| nodes := ns; tasks := [new_task 0 None]; rows := [Some (new_task 0 None)]; queue := [0]; trace := []; oof := false; exn := false;
               pstate := SRunning; prow := Some SRunning; clock := c0 |}).
  apply (Good_teq e); [apply teq_add_ev|].
  assert (Hns : 0 < length ns) by (unfold frag_nodes in F; apply andb_true_iff in F as [_ F]; destruct ns; [discriminate | cbn; lia]).
  assert (Htk : forall t, tk e t = if Nat.eqb t 0 then new_task 0 None else dtask) by (intros [|[|t]]; reflexivity).
  assert (Hpar0 : forall j, j < ntasks e -> parent e j = None).
  { intros j Hj. assert (j = 0) by (unfold ntasks in Hj; cbn in Hj; lia). subst j. reflexivity. }
  split.
  - constructor; [| intros j p Hj Hp; rewrite (Hpar0 j Hj) in Hp; discriminate | intros j1 j2 p H1 H2 P1; rewrite (Hpar0 j1 H1) in P1; discriminate].
    constructor; try reflexivity; try exact F.
    + intros t. rewrite Htk. destruct (Nat.eqb t 0); split; reflexivity.
    + intros t Ht. assert (t = 0) by (unfold ntasks in Ht; cbn in Ht; lia). subst t. split; [reflexivity|]. split; [exact Hns|]. split; [discriminate | lia].
    + split; [unfold ntasks; cbn; lia | split; reflexivity].
    + intros t Ht0 Ht. unfold ntasks in Ht; cbn in Ht; lia.
    + split; [|repeat constructor; intros []]. intros t [<- | []]. split; [unfold ntasks; cbn; lia | now left].
    + unfold PS. cbn. discriminate.
  - intros t Ht Ho. assert (t = 0) by (unfold ntasks in Ht; cbn in Ht; lia). subst t. right; left. now left.
Qed.
Theorem run_good ns c0 ops : frag_nodes ns = true -> forallb frag_op ops = true -> Good (run ns c0 ops).
Proof.
  intros F Hops. unfold run. assert (G : Good (start ns c0)) by (now apply start_good). revert G Hops. generalize (start ns c0).
  induction ops as [|o ops IH]; intros e G Hops; cbn [fold_left]; [exact G|]. cbn [forallb] in Hops. apply andb_true_iff in Hops as [Ho Hops].
  apply IH; [now apply op_good | exact Hops].
Qed.

(* ---------- the conclusion: at rest and unfinished, some act waits for a client ---------- *)
Lemma descend e : SI e -> Prog e -> queue e = [] -> forall m t, t < ntasks e -> ntasks e - t <= m -> opn e t ->
  exists u, u < ntasks e /\ st e u = SInterrupt.
Proof.
  intros H P Hq. induction m as [|m IH]; intros t Ht Hm Ho; [lia|].
  destruct (P t Ht Ho) as [[] | [Hc | [Hc | (Hc & j & Hj & Hp & Hjo)]]].
  - rewrite Hq in Hc. destruct Hc.
  - exists t. auto.
  - assert (t < j) by (apply (parent_lt e j t (SI_W e H) Hj Hp)). apply (IH j); auto. lia.
Qed.
Theorem good_not_stuck e : Good e -> stuck e = false.
Proof.
  intros [H P]. unfold stuck. destruct (queue e) as [|x q] eqn:Eq; [|reflexivity]. cbn [andb].
  rewrite (si_oof e H). cbn [negb andb]. destruct (is_completed (pstate e)) eqn:Ep; [reflexivity|]. cbn [negb andb].
  assert (Ho : opn e 0).
  { unfold opn. destruct (is_completed (st e 0)) eqn:E0; [|reflexivity]. pose proof (si_ps e H E0). congruence. }
  destruct (si_root e H) as (Hn & _).
  destruct (descend e H P Eq (ntasks e) 0 Hn ltac:(lia) Ho) as (u & Hu & Hsu).
  apply not_true_is_false. intros Hall. rewrite forallb_forall in Hall.
  specialize (Hall u ltac:(unfold all_tasks; apply in_seq; unfold ntasks in Hu; lia)). rewrite Hsu in Hall. discriminate.
Qed.
Theorem sequential_interactive_never_stuck ns c0 ops :
  frag_nodes ns = true -> forallb frag_op ops = true -> stuck (run ns c0 ops) = false.
Proof. intros F Hops. apply good_not_stuck. now apply run_good. Qed.

(* ---------- the class is not empty, and its runs are not trivial ---------- *)
(* two steps, the first with an interactive act, a message act and an interactive act with outputs, the second with one act *)
Definition w_seq := wf [Tree.Step 1 None None [] [] [] [] [Tree.Act 2 None irq [] [] None [] [] []; Tree.Act 6 None (ASpec UMsg 0 true None []) [] [] None [] [] []; Tree.Act 3 None irq [] [(5, VNull)] None [] [] []] [] [];
                        Tree.Step 4 None None [] [] [] [] [Tree.Act 5 None irq [] [] None [] [] []] [] []].
Lemma w_seq_in_class : option_map frag_nodes (Tree.build_tree 30 w_seq) = Some true.
Proof. vm_compute. reflexivity. Qed.
Definition ops_seq := [OAct 2 ANext []; ODrain; OAct 4 ASubmit [(5, VNum 7)]; OSched 0; OAct 6 ASkip []; ODrain].
Lemma ops_seq_in_class : forallb frag_op ops_seq = true. Proof. reflexivity. Qed.
(* at rest after the start: unfinished, act 2 waits; after the whole history the process has completed *)
Lemma w_seq_runs :
  option_map (fun e => (queue e, pstate e, st e 2)) (go w_seq []) = Some ([], SRunning, SInterrupt) /\
  option_map (fun e => (queue e, pstate e, map (fun t => st e t) (all_tasks e))) (go w_seq ops_seq)
    = Some ([], SCompleted, [SCompleted; SCompleted; SCompleted; SCompleted; SSubmitted; SCompleted; SSkipped]).
Proof. split; vm_compute; reflexivity. Qed.
Theorem go_never_stuck w ops : option_map frag_nodes (Tree.build_tree 30 w) = Some true -> forallb frag_op ops = true ->
  option_map stuck (go w ops) = Some false.
Proof.
  intros F Hops. unfold go. destruct (Tree.build_tree 30 w) as [t|]; [|discriminate]. cbn [option_map] in *. inversion F as [F'].
  f_equal. apply sequential_interactive_never_stuck; [exact F' | cbn [forallb frag_op andb]; exact Hops].
Qed.

(* ---------- C03 on the class: hierarchical completion ---------- *)
Theorem good_hierarchy e : SI e ->
  open_under_completed e = false /\ (is_completed (st e 0) = true -> forall j, j < ntasks e -> is_completed (st e j) = true).
Proof.
  intros H. split.
  - unfold open_under_completed. apply not_true_is_false. intros Hex. apply existsb_exists in Hex as (c & Hc & Hb).
    apply andb_true_iff in Hb as [Ho Hp]. apply negb_true_iff in Ho. apply in_seq in Hc.
    destruct (parent e c) as [p|] eqn:Ep; [|discriminate].
    rewrite (si_up e H c p ltac:(unfold ntasks; lia) Ep Ho) in Hp. discriminate.
  - intros H0 j. induction j as [j IH] using lt_wf_ind. intros Hj.
    destruct j as [|j]; [exact H0|]. destruct (is_completed (st e (S j))) eqn:Eo; [reflexivity|]. exfalso.
    destruct (has_parent e (S j) H ltac:(lia) Hj) as (p & Hp).
    pose proof (parent_lt e (S j) p (SI_W e H) Hj Hp) as Hlt.
    pose proof (si_up e H (S j) p Hj Hp Eo) as Hr. pose proof (IH p Hlt ltac:(lia)) as Hcp. rewrite Hr in Hcp. discriminate.
Qed.
Theorem sequential_interactive_hierarchy ns c0 ops : frag_nodes ns = true -> forallb frag_op ops = true ->
  let e := run ns c0 ops in
  open_under_completed e = false /\ (is_completed (st e 0) = true -> forall j, j < ntasks e -> is_completed (st e j) = true).
Proof. intros F Hops e. apply good_hierarchy. apply (run_good ns c0 ops F Hops). Qed.

(* the fuel of the model is never exhausted on the class, and no operation ends in the scheduler's error path *)
Theorem class_runs_total ns c0 ops : frag_nodes ns = true -> forallb frag_op ops = true ->
  oof (run ns c0 ops) = false /\ exn (run ns c0 ops) = false.
Proof. intros F Hops. destruct (run_good ns c0 ops F Hops) as [H _]. split; [apply (si_oof _ H) | apply (si_exn _ H)]. Qed.

(* ... and an abort of the waiting act closes its step and the workflow *)
Lemma w_seq_abort : option_map (fun e => (queue e, pstate e, map (fun t => st e t) (all_tasks e), forallb frag_op [OAct 2 AAbort []; ODrain]))
                               (go w_seq [OAct 2 AAbort []; ODrain])
  = Some ([], SAborted, [SAborted; SAborted; SAborted], true).
Proof. vm_compute. reflexivity. Qed.
