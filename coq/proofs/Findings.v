(* Engine properties that do not hold of the (validated) engine model: concrete workflows and
   histories, checked by evaluation.  Each witness replays on the implementation (the same cases are
   in corpus/engine-findings.jsonl and are listed in known_findings.txt). *)
From Coq Require Import List Arith ZArith Bool.
Import ListNotations.
From Acts.Gen Require Import GenState.
From Acts.Model Require Import Engine Tree.

Definition irq := ASpec UIrq 0 true None [].
Definition wf steps := {| w_id := 100; w_steps := steps; w_ins := []; w_outs := []; w_setup := [] |}.
Definition go (w : workflow) (ops : list op) : option eng :=
  match build_tree 30 w with Some t => Some (run t 1000 (ODrain :: ops)) | None => None end.
Definition all_tasks e := seq 0 (length (tasks e)).

(* C01: nothing queued, the process has not ended, no open interrupt act and no timeout rule anywhere *)
Definition stuck (e : eng) : bool :=
  match queue e with [] => true | _ => false end && negb (oof e) && negb (is_completed (pstate e))
  && forallb (fun t => negb (is (st e t) SInterrupt) && match t_timeouts (tk e t) with [] => true | _ => false end) (all_tasks e).
(* C03: a task is completed while a task whose parent it is is still open *)
Definition open_under_completed (e : eng) : bool :=
  existsb (fun c => negb (is_completed (st e c)) &&
                    match parent e c with Some p => is (st e p) SCompleted | None => false end) (all_tasks e).
(* C08: number of messages of task t with state s *)
Definition msgs (e : eng) (t : nat) (s : TaskState) : nat :=
  length (filter (fun x => match x with EMsg t' s' _ _ => Nat.eqb t t' && is s s' | _ => false end) (trace e)).

(* two branches that need each other: both stay pending for ever *)
Definition w_cycle := wf [Step 1 None None [] [] [] [Branch 2 None false [3] []; Branch 3 None false [2] []] [] [] []].
Lemma stuck_needs_cycle : option_map stuck (go w_cycle []) = Some true.
Proof. vm_compute. reflexivity. Qed.
(* a step whose only child is a `created` hook act: answering the act wakes nobody *)
Definition w_hook := wf [Step 1 None None [] [] [ASpec UIrq 0 true (Some LCreated) []] [] [] [] []].
Lemma stuck_hook_act : option_map stuck (go w_hook [OAct 2 ANext []; ODrain]) = Some true.
Proof. vm_compute. reflexivity. Qed.
(* an act pushed into a step with two sequential acts: when the pushed act is submitted the step (and
   the process) completes while the second act is still waiting *)
Definition w_push := wf [Step 1 None None [] [] [] [] [Act 2 None irq [] [] None [] [] []; Act 3 None irq [] [] None [] [] []] [] []].
Definition ops_push := [OAct 1 (APush true) []; ODrain; OAct 2 ANext []; ODrain; OAct 3 ASubmit []; ODrain].
Lemma completed_over_open_act :
  option_map (fun e => (open_under_completed e, pstate e)) (go w_push ops_push) = Some (true, SCompleted).
Proof. vm_compute. reflexivity. Qed.
(* a needs-branch resumed from inside the step's review: the step's completed message is sent twice *)
Definition w_twice := wf [Step 1 None None [] [] [] [Branch 2 None false [3] []; Branch 3 (Some BFalse) false [] []] [] [] []].
Lemma terminal_message_twice : option_map (fun e => msgs e 1 SCompleted) (go w_twice []) = Some 2.
Proof. vm_compute. reflexivity. Qed.

(* the same facts in existential form *)
Lemma refute (w : workflow) (ops : list op) {A} (f : eng -> A) (a : A) :
  option_map f (go w ops) = Some a -> exists e, go w ops = Some e /\ f e = a.
Proof. destruct (go w ops) as [e|]; cbn [option_map]; intros H; [|discriminate]. exists e. split; [reflexivity | now inversion H]. Qed.
Lemma needs_cycle_refutes : exists w ops e, go w ops = Some e /\ stuck e = true.
Proof. exists w_cycle, []. exact (refute _ _ _ _ stuck_needs_cycle). Qed.
Lemma hook_act_refutes : exists w ops e, go w ops = Some e /\ stuck e = true.
Proof. exists w_hook, [OAct 2 ANext []; ODrain]. exact (refute _ _ _ _ stuck_hook_act). Qed.
Lemma completed_over_open_refutes : exists w ops e, go w ops = Some e /\ open_under_completed e = true /\ pstate e = SCompleted.
Proof.
  exists w_push, ops_push. destruct (refute _ _ _ _ completed_over_open_act) as (e & E & H). exists e. split; [exact E|].
  now inversion H.
Qed.
Lemma message_twice_refutes : exists w ops e t, go w ops = Some e /\ msgs e t SCompleted = 2.
Proof. exists w_twice, []. destruct (refute _ _ _ _ terminal_message_twice) as (e & E & H). exists e, 1. auto. Qed.

(* C03, one terminal event: a workflow without steps completes in its own run (workflow.rs run, site 8), is emitted there and
   once more by Task::next, which emits every task it finds completed: the terminal process event is delivered twice *)
Definition terminal_events (e : eng) : nat :=
  length (filter (fun x => match x with EProc s _ => is_completed s | _ => false end) (trace e)).
Definition w_empty := wf [].
Lemma empty_workflow_two_terminal_events : option_map terminal_events (go w_empty []) = Some 2.
Proof. vm_compute. reflexivity. Qed.
Lemma terminal_twice_refutes : exists w ops e, go w ops = Some e /\ terminal_events e = 2.
Proof. exists w_empty, []. exact (refute _ _ _ _ empty_workflow_two_terminal_events). Qed.
