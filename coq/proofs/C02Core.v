(* C02: every state write of every run is a legal forward transition, or the revival of an errored
   task by its catch; for all node tables, operation sequences and schedules. *)
From Coq Require Import List Arith ZArith Bool Lia.
Import ListNotations.
From Acts.Gen Require Import GenState.
From Acts.Model Require Import Engine Oracles.
From Acts.Proofs Require Import EngineBasics TimeoutInv ReviveInv LogInv.

Definition legal_ev (x : ev) : bool :=
  match x with ETrans _ o n _ _ => legal o n || revive o n | _ => true end.
Definition P (e : eng) : Prop := forallb legal_ev (trace e) = true.
(* an error is only ever stored together with the error state *)
Definition Q (e : eng) : Prop := forall t, t_err (tk e t) <> None -> st e t = SError.
Definition Inv (e : eng) : Prop := P e /\ Q e /\ W e /\ T e /\ R e /\ L e.
(* inside one engine operation, after the initialisation phase, no failure is pending *)
Definition J (e : eng) : Prop := Inv e /\ exn e = false /\ QR e.

Lemma legal_ev_nontrans x : is_trans x = false -> legal_ev x = true.
Proof. destruct x; simpl; auto; discriminate. Qed.
Lemma forallb_nontrans l : forallb (fun x => negb (is_trans x)) l = true -> forallb legal_ev l = true.
Proof.
  induction l as [|x l IH]; simpl; auto. intros H. apply andb_true_iff in H as [H1 H2].
  rewrite IH by assumption. rewrite legal_ev_nontrans; auto. now destruct (is_trans x).
Qed.

Lemma Inv_ext e e' : ext e e' -> Inv e -> Inv e'.
Proof.
  intros X (HP & HQ & HW & HT & HR & HL). split; [|split; [|split; [|split; [|split]]]].
  - destruct X as (_ & (l & Tl & F & _) & _). unfold P. rewrite Tl, forallb_app, HP. simpl. now apply forallb_nontrans.
  - intros t Ht. rewrite (ext_st _ _ t X). apply HQ. now rewrite <- (ext_err _ _ t X).
  - eapply W_ext; eauto.
  - eapply T_ext; eauto.
  - eapply R_ext; eauto.
  - eapply L_ext; eauto.
Qed.
Definition xext (e e' : eng) : Prop := ext e e' /\ exn e' = exn e.
Lemma J_xext e e' : xext e e' -> J e -> J e'.
Proof. intros [X E] (HI & HX & HQ). split; [eapply Inv_ext; eauto | split; [congruence | eapply QR_ext; eauto]]. Qed.

Lemma legal_to_terminal o n : is_completed o = false -> is_completed n = true -> legal o n = true.
Proof. destruct o, n; simpl; intros; try discriminate; reflexivity. Qed.
Lemma is_eq a b : is a b = true -> a = b.
Proof. apply internal_TaskState_dec_bl. Qed.

Lemma Inv_set_state_gen site e i s : Inv e -> legal (st e i) s || revive (st e i) s = true ->
  (revive (st e i) s = false \/ (t_catch_done (tk e i) = true /\ ~ In i (revivals (trace e)))) -> Inv (set_state site e i s).
Proof.
  intros (HP & HQ & HW & HT & HR & HL) L Hrev. split; [|split; [|split; [|split; [|split]]]].
  - destruct (Nat.lt_ge_cases i (length (tasks e))) as [Hlt | Hge]; [|now rewrite (set_state_oob _ _ _ _ Hge)].
    unfold P. rewrite trace_set_state, forallb_app, HP by assumption. simpl. now rewrite L.
  - intros t Ht. unfold st in *. rewrite tk_set_state in *.
    destruct (Nat.eqb t i && Nat.ltb i (length (tasks e))) eqn:E; [|now apply HQ].
    simpl in *. destruct (is s SError) eqn:ES; [now apply is_eq in ES | congruence].
  - now apply W_set_state.
  - now apply T_set_state.
  - destruct Hrev as [Hn | [Hcd Hnew]]; [now apply R_set_state | now apply R_set_state_revive].
  - now apply L_set_state.
Qed.
(* every write but the revival: a legal forward transition *)
Lemma Inv_set_state site e i s : Inv e -> legal (st e i) s = true -> Inv (set_state site e i s).
Proof. intros H L. apply Inv_set_state_gen; auto; [now rewrite L | left; now apply legal_not_revive]. Qed.
(* the revival: only for a task that carries the mark and was never revived before *)
Lemma Inv_revive site e i : Inv e -> st e i = SError -> t_catch_done (tk e i) = true -> ~ In i (revivals (trace e)) ->
  Inv (set_state site e i SRunning).
Proof. intros H Hs Hcd Hnew. apply Inv_set_state_gen; auto. now rewrite Hs. Qed.
Lemma exn_set_state site e i s : exn (set_state site e i s) = exn e.
Proof. unfold set_state. destruct (negb _); [reflexivity|]. destruct (_ && _); reflexivity. Qed.
Lemma J_set_state site e i s : J e -> legal (st e i) s = true -> J (set_state site e i s).
Proof.
  intros (HI & HX & HQ) L. split; [now apply Inv_set_state | split; [now rewrite exn_set_state|]].
  intros j Hj. rewrite queue_set_state in Hj. rewrite ntasks_set_state. now apply HQ.
Qed.
Lemma J_revive site e i : J e -> st e i = SError -> t_catch_done (tk e i) = true -> ~ In i (revivals (trace e)) ->
  J (set_state site e i SRunning).
Proof.
  intros (HI & HX & HQ) Hs Hcd Hnew. split; [now apply Inv_revive | split; [now rewrite exn_set_state|]].
  intros j Hj. rewrite queue_set_state in Hj. rewrite ntasks_set_state. now apply HQ.
Qed.

Lemma W_tmod e i f : (forall x, t_prev (f x) = t_prev x) -> W e -> W (tmod e i f).
Proof.
  intros K HW t Ht. rewrite ntasks_tmod in Ht. rewrite tk_tmod.
  destruct (Nat.eqb_spec t i); simpl; [subst|now apply HW].
  destruct (Nat.ltb _ _); [rewrite K|]; now apply HW.
Qed.
Lemma Inv_set_err site e i c : Inv e -> legal (st e i) SError = true -> Inv (set_err site e i c).
Proof.
  intros (HP & HQ & HW & HT & HR & HL) L. unfold set_err.
  assert (Hs : st (tmod e i (fun t => tset_err t (Some c))) i = st e i).
  { unfold st. rewrite tk_tmod. destruct (_ && _); reflexivity. }
  split; [|split; [|split; [|split; [|split]]]].
  - destruct (Nat.lt_ge_cases i (length (tasks (tmod e i (fun t => tset_err t (Some c)))))) as [Hlt | Hge];
      [|rewrite (set_state_oob _ _ _ _ Hge); exact HP].
    unfold P. rewrite trace_set_state by assumption.
    rewrite Hs. cbn [trace tmod with_tasks]. rewrite forallb_app, HP. simpl. now rewrite L.
  - intros t Ht. unfold st in *. rewrite tk_set_state in *.
    destruct (Nat.eqb t i && Nat.ltb i (length (tasks (tmod e i (fun t0 => tset_err t0 (Some c)))))) eqn:E; [reflexivity|].
    rewrite tk_tmod in *. unfold tmod in E; cbn [tasks with_tasks] in E. rewrite upd_length in E. rewrite E in *. now apply HQ.
  - apply W_set_state. apply W_tmod; auto.
  - apply T_set_state. apply T_tmod; auto.
  - apply R_set_state; [apply R_tmod; auto|]. rewrite Hs. now apply legal_not_revive.
  - apply L_set_state. apply L_tmod; auto.
Qed.
Lemma exn_set_err site e i c : exn (set_err site e i c) = exn e.
Proof. unfold set_err. now rewrite exn_set_state. Qed.
Lemma J_set_err site e i c : J e -> legal (st e i) SError = true -> J (set_err site e i c).
Proof.
  intros (HI & HX & HQ) L. split; [now apply Inv_set_err | split; [now rewrite exn_set_err|]].
  intros j Hj. unfold set_err in *. rewrite queue_set_state in Hj. rewrite ntasks_set_state, ntasks_tmod. now apply HQ.
Qed.

(* ---- exn is untouched by everything but with_exn ---- *)
Ltac xt := split; [ | reflexivity].
Lemma xext_refl e : xext e e. Proof. split; [apply ext_refl | reflexivity]. Qed.
Lemma xext_trans a b c : xext a b -> xext b c -> xext a c.
Proof. intros [X1 E1] [X2 E2]. split; [eapply ext_trans; eauto | congruence]. Qed.
Lemma exn_tmod e i f : exn (tmod e i f) = exn e. Proof. reflexivity. Qed.
Lemma exn_sched e n p : exn (sched e n p) = exn e. Proof. reflexivity. Qed.
Lemma xext_fold {B} (g : eng -> B -> eng) l e : (forall e b, xext e (g e b)) -> xext e (fold_left g l e).
Proof. intros H. revert e; induction l as [|b l IH]; intros e; simpl; [apply xext_refl|]. eapply xext_trans; [apply H | apply IH]. Qed.
Lemma xext_sched e n p : p < ntasks e -> xext e (sched e n p). Proof. intros H. split; [now apply ext_sched | reflexivity]. Qed.
Lemma xext_sched_next e n p : p < ntasks e -> is_completed (st e p) = true -> xext e (sched_next e n p).
Proof. intros H Hc. split; [now apply ext_sched_next | reflexivity]. Qed.
Lemma st_complete_if site e i : i < ntasks e -> is_completed (st (if negb (is_completed (st e i)) then set_state site e i SCompleted else e) i) = true.
Proof.
  intros H. destruct (is_completed (st e i)) eqn:E; simpl; [exact E|].
  destruct (st_set_state_same site e i SCompleted) as [-> | [H' _]]; [reflexivity | unfold ntasks in H; lia].
Qed.
Lemma skip_or_done s b : is s SSkipped || (b && is s SCompleted) = true -> is_completed s = true.
Proof. destruct s; simpl; try reflexivity; destruct b; simpl; discriminate. Qed.
Lemma exn_sched_nodes e l i : exn (sched_nodes e l i) = exn e.
Proof. unfold sched_nodes. revert e; induction l as [|c l IH]; intros e; simpl; auto. now rewrite IH. Qed.
Lemma xext_sched_nodes e l i : i < ntasks e -> xext e (sched_nodes e l i).
Proof. intros H. split; [now apply ext_sched_nodes | apply exn_sched_nodes]. Qed.
Lemma xext_add_ev e x : is_trans x = false -> msg_ok e x = true -> xext e (add_ev e x).
Proof. intros H M. split; [now apply ext_add_ev | reflexivity]. Qed.
Lemma msg_allowed_ok e i a b : msg_allowed e i = true -> msg_ok e (EMsg i (st e i) a b) = true.
Proof.
  unfold msg_allowed, msg_ok. intros H. apply andb_true_iff in H as [H _]. apply andb_true_iff in H as [H1 H2].
  assert (E : is (st e i) (st e i) = true) by (destruct (st e i); reflexivity). now rewrite E, H1, H2.
Qed.
Lemma xext_upsert e i : xext e (upsert e i). Proof. split; [apply ext_upsert | reflexivity]. Qed.
Lemma xext_persist e : xext e (persist e). Proof. split; [apply ext_persist | reflexivity]. Qed.
Lemma xext_tmod e i f : keeps f -> xext e (tmod e i f). Proof. intros K. split; [now apply ext_tmod | reflexivity]. Qed.
Lemma xext_set_data e i v : xext e (set_data e i v). Proof. apply xext_tmod; intros y; repeat split; reflexivity. Qed.
Lemma xext_set_silent e i b : xext e (set_silent e i b). Proof. apply xext_tmod; intros y; repeat split; reflexivity. Qed.
Lemma xext_set_exposed e i b : xext e (set_exposed e i b). Proof. apply xext_tmod; intros y; repeat split; reflexivity. Qed.
Lemma xext_set_catch_done e i : ext e (set_catch_done e i) -> xext e (set_catch_done e i).
Proof. intros H; split; [exact H | reflexivity]. Qed.
Lemma exn_build_acts e pn acts sq : exn (build_acts e pn acts sq) = exn e.
Proof.
  unfold build_acts.
  assert (H : forall l (acc : eng * nat), exn (fst (fold_left (fun (acc : eng * nat) sp =>
         let '(ee, prev) := acc in
         let nid := length (nodes ee) in
         let ee1 := with_nodes ee (nodes ee ++ [mk_dyn (S (n_level (nd e pn))) sp]) in
         if sq then
           if Nat.eqb (n_level (nd ee1 prev)) (S (n_level (nd e pn))) then (set_next ee1 prev nid, nid)
           else (add_child ee1 pn nid, nid)
         else (add_child ee1 pn nid, prev)) l acc)) = exn (fst acc)).
  { induction l as [|sp l IH]; intros [ee prev]; simpl; [reflexivity|]. rewrite IH.
    destruct sq; [destruct (Nat.eqb _ _)|]; reflexivity. }
  apply (H acts (e, pn)).
Qed.
Lemma xext_build_acts e pn acts sq : xext e (build_acts e pn acts sq).
Proof. split; [apply ext_build_acts | apply exn_build_acts]. Qed.
Lemma xext_dispatch_setup e i s : xext e (dispatch_setup e i s).
Proof.
  split; [apply ext_dispatch_setup|]. unfold dispatch_setup. destruct s; [reflexivity|]. now rewrite exn_build_acts.
Qed.
Lemma exn_dispatch_hook e i sp : exn (dispatch_hook e i sp) = exn e.
Proof. unfold dispatch_hook. destruct (is _ _); reflexivity. Qed.
Lemma xext_dispatch_hook e i sp : i < ntasks e -> xext e (dispatch_hook e i sp).
Proof. intros H. split; [now apply ext_dispatch_hook | apply exn_dispatch_hook]. Qed.
Lemma exn_run_stmt_hooks e t ev i : exn (run_stmt_hooks e t ev i) = exn e.
Proof.
  unfold run_stmt_hooks. generalize (t_hooks (tk e t)) as l. intros l; revert e; induction l as [|h l IH]; intros e; simpl; auto.
  rewrite IH. destruct (levt_beq _ _); [apply exn_dispatch_hook | reflexivity].
Qed.
Lemma xext_run_stmt_hooks e t ev i : i < ntasks e -> xext e (run_stmt_hooks e t ev i).
Proof. intros H. split; [now apply ext_run_stmt_hooks | apply exn_run_stmt_hooks]. Qed.
Lemma xext_update_data e i v : xext e (update_data e i v).
Proof.
  unfold update_data. eapply xext_trans; [|apply xext_set_data].
  apply xext_fold. intros e0 kv. destruct (pri_regex _); [apply xext_refl|].
  destruct (find _ _); [apply xext_set_data | apply xext_refl].
Qed.
Lemma xext_redo e t : W e -> t < ntasks e -> xext e (redo e t).
Proof. intros HW Ht. split; [now apply ext_redo|]. unfold redo. destruct (t_prev _); reflexivity. Qed.
Lemma xext_oof e : xext e (out_of_fuel e). Proof. split; [apply ext_oof | reflexivity]. Qed.
Lemma xext_with_pstate e s : xext e (with_pstate e s). Proof. split; [apply ext_with_pstate | reflexivity]. Qed.
Lemma xext_with_nodes e s : xext e (with_nodes e s). Proof. split; [apply ext_with_nodes | reflexivity]. Qed.
Lemma xext_with_clock e s : xext e (with_clock e s). Proof. split; [apply ext_with_clock | reflexivity]. Qed.

(* ---- is_ready ---- *)
Lemma is_ready_true e i e' : is_ready e i = (true, e') -> e' = e.
Proof.
  unfold is_ready. destruct (n_kind _); try (now inversion 1).
  destruct (negb _); [now inversion 1|].
  destruct (n_else _); [|now inversion 1].
  destruct (forallb _ _); [now inversion 1|].
  destruct (existsb _ _); now inversion 1.
Qed.
Lemma J_is_ready e i : J e -> st e i = SPending -> J (snd (is_ready e i)).
Proof.
  intros H Hs; unfold is_ready.
  destruct (n_kind (tnode e i)); simpl; auto.
  destruct (negb _); simpl; auto.
  destruct (n_else _); simpl; auto.
  destruct (forallb _ _); simpl; auto.
  destruct (existsb _ _); simpl; auto.
  apply J_set_state; auto. rewrite Hs; reflexivity.
Qed.

(* ---- kind_init: from ready (or a dangling index) ---- *)
Definition fresh_state (s : TaskState) : Prop := s = SReady \/ s = SNone.
Lemma legal_fresh o n : fresh_state o -> (n = SSkipped \/ n = SPending \/ n = SInterrupt \/ n = SReady) -> legal o n = true.
Proof. intros [-> | ->] [-> | [-> | [-> | ->]]]; reflexivity. Qed.

(* kind_init either fails (the condition throws) leaving the task's state alone, or keeps J *)
Lemma kind_init_spec e i : J e -> fresh_state (st e i) ->
  (exn (kind_init e i) = true /\ Inv (kind_init e i) /\ QR (kind_init e i) /\ fresh_state (st (kind_init e i) i)) \/ J (kind_init e i).
Proof.
  intros HJ Hs. pose proof HJ as (HI & HX & HQR).
  assert (Hif : forall (c : cond) (k : eng -> eng), (forall e0, xext e e0 -> J (k e0)) ->
            (exn (eval_if e i c k) = true /\ Inv (eval_if e i c k) /\ QR (eval_if e i c k) /\ fresh_state (st (eval_if e i c k) i)) \/ J (eval_if e i c k)).
  { intros c k Hk. unfold eval_if. destruct c as [b|]; [|right; apply Hk, xext_refl].
    destruct (eval_cond e i b) as [[|]|].
    - right; apply Hk, xext_refl.
    - right. apply J_set_state; auto. apply legal_fresh; auto.
    - left. split; [reflexivity|]. split; [eapply Inv_ext; [apply ext_with_exn | exact HI] | split; [exact HQR | exact Hs]]. }
  unfold kind_init. destruct (n_kind (tnode e i)).
  - right. eapply J_xext; [apply xext_dispatch_setup | exact HJ].
  - (* branch *)
    assert (HJ' : J (set_silent e i true)) by (eapply J_xext; [apply xext_set_silent | exact HJ]).
    assert (Hs' : fresh_state (st (set_silent e i true) i)) by (rewrite (ext_st _ _ i (ext_set_silent e i true)); exact Hs).
    destruct (negb (Nat.eqb (length (n_needs (tnode e i))) 0)).
    + right. apply J_set_state; auto. apply legal_fresh; auto.
    + destruct (n_if (tnode e i)) as [b|].
      * destruct (eval_cond (set_silent e i true) i b) as [[|]|].
        -- right; exact HJ'.
        -- right. apply J_set_state; auto. apply legal_fresh; auto.
        -- left. destruct HJ' as (HI' & _ & HQR'). split; [reflexivity|]. split; [eapply Inv_ext; [apply ext_with_exn | exact HI'] | split; [exact HQR' | exact Hs']].
      * destruct (negb (n_else (tnode e i))).
        -- right. apply J_set_state; auto. apply legal_fresh; auto.
        -- destruct (Nat.ltb 1 _); [|right; exact HJ'].
           right. apply J_set_state; auto. apply legal_fresh; auto.
  - (* step *)
    apply Hif. intros e0 X. eapply J_xext; [|eapply J_xext; [exact X | exact HJ]].
    eapply xext_trans; [|apply xext_dispatch_setup].
    eapply xext_trans; apply xext_tmod; intros y; repeat split; reflexivity.
  - (* act *)
    apply Hif. intros e0 X.
    set (e1 := dispatch_setup (set_timeouts (set_catches e0 i (n_catches (tnode e i))) i (n_timeouts (tnode e i))) i (n_setup (tnode e i))).
    assert (X1 : xext e e1).
    { eapply xext_trans; [exact X|]. unfold e1. eapply xext_trans; [|apply xext_dispatch_setup].
      eapply xext_trans; apply xext_tmod; intros y; repeat split; reflexivity. }
    assert (J1 : J e1) by (eapply J_xext; eauto).
    assert (S1 : fresh_state (st e1 i)) by (rewrite (ext_st _ _ i (proj1 X1)); exact Hs).
    destruct (sp_u (n_spec (tnode e i))).
    + apply J_set_state; auto. apply legal_fresh; auto.
    + apply J_set_state; [eapply J_xext; [apply xext_set_silent | exact J1]|].
      rewrite (ext_st _ _ i (ext_set_silent e1 i true)). apply legal_fresh; auto.
    + apply J_set_state; [eapply J_xext; [apply xext_set_silent | exact J1]|].
      rewrite (ext_st _ _ i (ext_set_silent e1 i true)). apply legal_fresh; auto.
    + apply J_set_state; [eapply J_xext; [apply xext_set_silent | exact J1]|].
      rewrite (ext_st _ _ i (ext_set_silent e1 i true)). apply legal_fresh; auto.
    + apply J_set_state; [eapply J_xext; [apply xext_set_silent | exact J1]|].
      rewrite (ext_st _ _ i (ext_set_silent e1 i true)). apply legal_fresh; auto.
    + apply J_set_state; [eapply J_xext; [apply xext_set_silent | exact J1]|].
      rewrite (ext_st _ _ i (ext_set_silent e1 i true)). apply legal_fresh; auto.
Qed.

(* ---------------------------------------------------------------------------------------------
   structure: prev links point backwards, so parents and children are in range
   --------------------------------------------------------------------------------------------- *)
Lemma parent_from_le e lvl : W e -> forall f q p, q < ntasks e -> parent_from f e lvl (Some q) = Some p -> p <= q.
Proof.
  intros HW. induction f as [|f IH]; intros q p Hq H; simpl in H; [discriminate|].
  destruct (Nat.ltb _ _); [inversion H; lia|].
  specialize (HW q Hq). destruct (t_prev (tk e q)) as [r|].
  - assert (p <= r) by (apply IH; [lia | exact H]). lia.
  - destruct f; discriminate.
Qed.
Lemma parent_lt e i p : W e -> i < ntasks e -> parent e i = Some p -> p < i.
Proof.
  intros HW Hi H. unfold parent in H. pose proof (HW i Hi) as Hp.
  destruct (t_prev (tk e i)) as [q|]; [|simpl in H; discriminate].
  assert (p <= q) by (eapply parent_from_le; eauto; lia). lia.
Qed.
Lemma children_lt e i j : In j (children e i) -> j < ntasks e.
Proof. unfold children. intros H. apply filter_In in H as [H _]. apply in_seq in H. unfold ntasks. lia. Qed.
Lemma siblings_lt e i j : In j (siblings e i) -> j < ntasks e.
Proof.
  unfold siblings. destruct (parent e i); [|intros []]. intros H. apply filter_In in H as [H _]. eapply children_lt; eauto.
Qed.
Lemma siblings_ne e i j : In j (siblings e i) -> j <> i.
Proof.
  unfold siblings. destruct (parent e i); [|intros []]. intros H. apply filter_In in H as [_ H].
  apply negb_true_iff in H. now apply Nat.eqb_neq in H.
Qed.
Lemma climb_to_lt e pred : W e -> forall f p r, (forall q, p = Some q -> q < ntasks e) -> climb_to f e p pred = Some r -> r < ntasks e.
Proof.
  intros HW. induction f as [|f IH]; intros p r Hp H; simpl in H; [discriminate|].
  destruct p as [q|]; [|discriminate]. specialize (Hp q eq_refl).
  destruct (pred q); [inversion H; subst; exact Hp|].
  eapply IH; [|exact H]. intros q' Hq'. apply parent_lt in Hq'; auto. lia.
Qed.
Lemma climb_step_lt e i r : W e -> i < ntasks e -> climb_step e i = Some r -> r < ntasks e.
Proof.
  intros HW Hi H. unfold climb_step in H. eapply climb_to_lt; eauto.
  intros q Hq. apply parent_lt in Hq; auto. lia.
Qed.

(* ---------------------------------------------------------------------------------------------
   emit on a task that is not in error only appends (hooks, message, process event)
   --------------------------------------------------------------------------------------------- *)
Lemma emit_xext f e j : j < ntasks e -> st e j <> SError -> xext e (emit f e j).
Proof.
  intros Hj Hs. destruct f as [|f]; [apply xext_oof|]. cbn [emit].
  set (k := kind e j).
  set (e1a := match k with KWorkflow => if is_created (st e j) then add_ev e (EProc (pstate e) (outputs e j)) else e | _ => e end).
  assert (X1a : xext e e1a).
  { unfold e1a. destruct k; try apply xext_refl. destruct (is_created _); [now apply xext_add_ev | apply xext_refl]. }
  set (e1 := upsert e1a j).
  assert (X1 : xext e e1) by (eapply xext_trans; [exact X1a | apply xext_upsert]).
  assert (R1 : j < ntasks e1) by (pose proof (ext_len _ _ (proj1 X1)); lia).
  assert (S1 : st e1 j = st e j) by apply (ext_st _ _ j (proj1 X1)).
  match goal with |- xext e (match k with KWorkflow => if is_completed (st ?e3 j) then _ else _ | _ => _ end) => set (e3v := e3) end.
  assert (X3 : xext e e3v).
  { unfold e3v.
    match goal with |- xext e (if msg_allowed ?e2 j then _ else _) => set (e2v := e2) end.
    assert (X2 : xext e1 e2v).
    { unfold e2v. destruct (t_evproc (tk e1 j)); [apply xext_refl|].
      assert (Hh : forall ea t ev, xext e1 ea -> xext e1 (run_stmt_hooks ea t ev j)).
      { intros ea t ev Xa. eapply xext_trans; [exact Xa|]. apply xext_run_stmt_hooks. pose proof (ext_len _ _ (proj1 Xa)); lia. }
      destruct (is_created (st e1 j)).
      - destruct (nkind_beq k KAct); [|apply Hh, xext_refl].
        apply Hh. destruct (climb_step _ _); [apply Hh|]; apply Hh, xext_refl.
      - destruct (is_completed (st e1 j) && negb (is (st e1 j) SError)).
        + destruct (nkind_beq k KAct).
          * apply Hh. destruct (climb_step _ _); [apply Hh|]; apply Hh, xext_refl.
          * destruct (nkind_beq k KStep); [apply Hh, Hh, Hh, xext_refl | apply Hh, xext_refl].
        + destruct (is (st e1 j) SError) eqn:E; [|apply xext_refl].
          apply is_eq in E. congruence. }
    assert (X2' : xext e e2v) by (eapply xext_trans; eauto).
    destruct (msg_allowed e2v j) eqn:Ema; [eapply xext_trans; [exact X2' | apply xext_add_ev; [reflexivity | now apply msg_allowed_ok]] | exact X2']. }
  destruct k; try exact X3.
  destruct (is_completed (st e3v j)); [|exact X3].
  eapply xext_trans; [exact X3|]. eapply xext_trans; [apply xext_with_pstate | now apply xext_add_ev].
Qed.
(* an errored task none of whose catches takes the error: emitting it writes no state either *)
Definition uncaught (e : eng) (j : nat) : Prop :=
  match t_err (tk e j) with
  | None => True
  | Some code => t_catch_done (tk e j) = true \/
                 forallb (fun c : option nat => negb (match c with Some x => Nat.eqb x code | None => true end)) (t_catches (tk e j)) = true
  end.
Lemma emit_xext_uncaught f e j : j < ntasks e -> st e j = SError -> uncaught e j -> xext e (emit f e j).
Proof.
  intros Hj Hs Hu. destruct f as [|f]; [apply xext_oof|]. cbn [emit].
  set (k := kind e j).
  set (e1a := match k with KWorkflow => if is_created (st e j) then add_ev e (EProc (pstate e) (outputs e j)) else e | _ => e end).
  assert (X1a : xext e e1a).
  { unfold e1a. destruct k; try apply xext_refl. destruct (is_created _); [now apply xext_add_ev | apply xext_refl]. }
  set (e1 := upsert e1a j).
  assert (X1 : xext e e1) by (eapply xext_trans; [exact X1a | apply xext_upsert]).
  assert (R1 : j < ntasks e1) by (pose proof (ext_len _ _ (proj1 X1)); lia).
  assert (S1 : st e1 j = st e j) by apply (ext_st _ _ j (proj1 X1)).
  match goal with |- xext e (match k with KWorkflow => if is_completed (st ?e3 j) then _ else _ | _ => _ end) => set (e3v := e3) end.
  assert (X3 : xext e e3v).
  { unfold e3v.
    match goal with |- xext e (if msg_allowed ?e2 j then _ else _) => set (e2v := e2) end.
    assert (X2 : xext e1 e2v).
    { unfold e2v. destruct (t_evproc (tk e1 j)); [apply xext_refl|].
      assert (Hh : forall ea t ev, xext e1 ea -> xext e1 (run_stmt_hooks ea t ev j)).
      { intros ea t ev Xa. eapply xext_trans; [exact Xa|]. apply xext_run_stmt_hooks. pose proof (ext_len _ _ (proj1 Xa)); lia. }
      destruct (is_created (st e1 j)).
      - destruct (nkind_beq k KAct); [|apply Hh, xext_refl].
        apply Hh. destruct (climb_step _ _); [apply Hh|]; apply Hh, xext_refl.
      - destruct (is_completed (st e1 j) && negb (is (st e1 j) SError)).
        + destruct (nkind_beq k KAct).
          * apply Hh. destruct (climb_step _ _); [apply Hh|]; apply Hh, xext_refl.
          * destruct (nkind_beq k KStep); [apply Hh, Hh, Hh, xext_refl | apply Hh, xext_refl].
        + destruct (is (st e1 j) SError) eqn:E; [|apply xext_refl].
          assert (Ht : tk e1 j = tk e j) by (unfold e1, e1a; destruct k; try reflexivity; destruct (is_created _); reflexivity).
          rewrite Ht. unfold uncaught in Hu.
          assert (Hfold : forall cs ee, tk ee j = tk e j ->
                    (match t_err (tk e j) with Some code => t_catch_done (tk e j) = true \/ forallb (fun c : option nat => negb (match c with Some x => Nat.eqb x code | None => true end)) cs = true | None => True end) ->
                    fold_left (fun ee (c : option nat) =>
                      match t_err (tk ee j) with
                      | None => ee
                      | Some code => if t_catch_done (tk ee j) then ee
                                     else if match c with None => true | Some x => Nat.eqb x code end
                                          then let ee1 := set_state 19 (set_catch_done ee j) j SRunning in
                                               match children_in (tnode ee1 j) (OCatch c) with [] => review f [] j ee1 j | ch => sched_nodes ee1 ch j end
                                          else ee
                      end) cs ee = ee).
          { induction cs as [|c cs IH]; intros ee Hee Hc; cbn [fold_left]; [reflexivity|].
            rewrite Hee. destruct (t_err (tk e j)) as [code|] eqn:Ee; [|now apply IH].
            destruct Hc as [Hc | Hc].
            - rewrite Hc. apply IH; auto.
            - cbn [forallb] in Hc. apply andb_true_iff in Hc as [Hc1 Hc2]. apply negb_true_iff in Hc1.
              destruct (t_catch_done (tk e j)); [apply IH; auto|].
              assert (Em : match c with None => true | Some x => Nat.eqb x code end = false) by (destruct c; exact Hc1).
              rewrite Em. apply IH; auto. }
          rewrite Hfold; [apply xext_refl | exact Ht | exact Hu]. }
    assert (X2' : xext e e2v) by (eapply xext_trans; eauto).
    destruct (msg_allowed e2v j) eqn:Ema; [eapply xext_trans; [exact X2' | apply xext_add_ev; [reflexivity | now apply msg_allowed_ok]] | exact X2']. }
  destruct k; try exact X3.
  destruct (is_completed (st e3v j)); [|exact X3].
  eapply xext_trans; [exact X3|]. eapply xext_trans; [apply xext_with_pstate | now apply xext_add_ev].
Qed.

(* ---------------------------------------------------------------------------------------------
   the engine's mutually recursive core keeps J; the task list only grows
   --------------------------------------------------------------------------------------------- *)
Definition G (e e' : eng) : Prop := J e' /\ ntasks e <= ntasks e'.
Lemma G_refl e : J e -> G e e. Proof. intros H; split; [exact H | lia]. Qed.
Lemma G_trans a b c : G a b -> G b c -> G a c.
Proof. intros [_ L1] [H2 L2]. split; [exact H2 | lia]. Qed.
Lemma G_xext e e' : J e -> xext e e' -> G e e'.
Proof. intros H X. split; [eapply J_xext; eauto | apply (ext_len _ _ (proj1 X))]. Qed.
Lemma G_persist e e' : G e e' -> G e (persist e').
Proof. intros H. eapply G_trans; [exact H|]. apply G_xext; [apply H | apply xext_persist]. Qed.
Lemma G_set_state site e i s : J e -> legal (st e i) s = true -> G e (set_state site e i s).
Proof. intros H L. split; [now apply J_set_state | rewrite ntasks_set_state; lia]. Qed.
Lemma G_set_err site e i c : J e -> legal (st e i) SError = true -> G e (set_err site e i c).
Proof. intros H L. split; [now apply J_set_err | unfold set_err; rewrite ntasks_set_state, ntasks_tmod; lia]. Qed.
Lemma G_complete site e i : J e -> G e (if negb (is_completed (st e i)) then set_state site e i SCompleted else e).
Proof.
  intros H. destruct (is_completed (st e i)) eqn:E; simpl; [now apply G_refl|].
  apply G_set_state; auto. rewrite legal_to_terminal; auto.
Qed.
Lemma ntasks_is_ready e i : ntasks (snd (is_ready e i)) = ntasks e.
Proof.
  unfold is_ready. destruct (n_kind _); auto. destruct (negb _); auto. destruct (n_else _); auto.
  destruct (forallb _ _); auto. destruct (existsb _ _); auto. simpl. apply ntasks_set_state.
Qed.
Lemma G_fold {B} (g : eng -> B -> eng) (l : list B) (Pb : B -> Prop) e0 e :
  (forall ee b, Pb b -> G e0 ee -> G e0 (g ee b)) -> (forall b, In b l -> Pb b) -> G e0 e -> G e0 (fold_left g l e).
Proof.
  intros H. revert e; induction l as [|b l IH]; intros e Hl H0; simpl; auto.
  apply IH; [intros; apply Hl; now right|]. apply H; auto. apply Hl; now left.
Qed.

Lemma st_set_catch_done e i t : st (set_catch_done e i) t = st e t /\ t_err (tk (set_catch_done e i) t) = t_err (tk e t).
Proof.
  unfold st, set_catch_done. rewrite tk_tmod. destruct (Nat.eqb_spec t i); simpl; [subst|auto].
  destruct (Nat.ltb _ _); auto.
Qed.
Lemma J_set_catch_done e i : J e -> J (set_catch_done e i).
Proof.
  intros ((HP & HQ & HW & HT & HR & HL) & HX & HQR). split; [split; [|split; [|split; [|split; [|split]]]]|split].
  - exact HP.
  - intros t Ht. destruct (st_set_catch_done e i t) as [-> E]. apply HQ. now rewrite <- E.
  - apply W_tmod; auto.
  - apply T_tmod; auto.
  - apply R_tmod; auto.
  - apply L_tmod; auto.
  - exact HX.
  - intros j Hj. unfold set_catch_done. rewrite ntasks_tmod. now apply HQR.
Qed.

Lemma main f :
  (forall e i, J e -> i < ntasks e -> G e (emit f e i)) /\
  (forall e i, J e -> i < ntasks e -> G e (emit_error f e i)) /\
  (forall cv e i, J e -> i < ntasks e -> G e (next f cv e i)) /\
  (forall cv from e i, J e -> i < ntasks e -> from < ntasks e -> G e (review f cv from e i)).
Proof.
  induction f as [|f (IHe & IHee & IHn & IHr)].
  { split; [|split; [|split]]; intros; simpl; (apply G_xext; [assumption | apply xext_oof]). }
  (* resume of a pending child, used by next and review *)
  assert (Hresume : forall cv e0 ee j, G e0 ee -> j < ntasks e0 -> st ee j = SPending ->
            G e0 (next f cv (emit f (set_state 11 ee j SRunning) j) j) /\ G e0 (next f cv (emit f (set_state 13 ee j SRunning) j) j)).
  { intros cv e0 ee j [HJ HL] Hj Hs.
    assert (H11 : forall site, G e0 (next f cv (emit f (set_state site ee j SRunning) j) j)).
    { intros site.
      assert (G1 : G ee (set_state site ee j SRunning)) by (apply G_set_state; auto; rewrite Hs; reflexivity).
      assert (G2 : G (set_state site ee j SRunning) (emit f (set_state site ee j SRunning) j)).
      { apply IHe; [apply G1 | destruct G1 as [_ L]; lia]. }
      assert (G3 : G (emit f (set_state site ee j SRunning) j) (next f cv (emit f (set_state site ee j SRunning) j) j)).
      { apply IHn; [apply G2 | destruct G1 as [_ L1], G2 as [_ L2]; lia]. }
      eapply G_trans; [split; [exact HJ | exact HL]|]. eapply G_trans; [exact G1|]. eapply G_trans; eauto. }
    split; apply H11. }
  split; [|split; [|split]].
  - (* emit *)
    intros e i HJ Hi. cbn [emit].
    set (k := kind e i).
    set (e1a := match k with KWorkflow => if is_created (st e i) then add_ev e (EProc (pstate e) (outputs e i)) else e | _ => e end).
    assert (X1a : xext e e1a).
    { unfold e1a. destruct k; try apply xext_refl. destruct (is_created _); [now apply xext_add_ev | apply xext_refl]. }
    set (e1 := upsert e1a i).
    assert (X1 : xext e e1) by (eapply xext_trans; [exact X1a | apply xext_upsert]).
    assert (G1 : G e e1) by (apply G_xext; auto).
    assert (R1 : i < ntasks e1) by (destruct G1; lia).
    match goal with |- G e (match k with KWorkflow => if is_completed (st ?e3 i) then _ else _ | _ => _ end) => set (e3v := e3) end.
    assert (G3 : G e e3v).
    { unfold e3v.
      match goal with |- G e (if msg_allowed ?e2 i then _ else _) => set (e2v := e2) end.
      assert (G2 : G e1 e2v).
      { unfold e2v. destruct (t_evproc (tk e1 i)); [apply G_refl, G1|].
        assert (Hh : forall ea t ev, G e1 ea -> G e1 (run_stmt_hooks ea t ev i)).
        { intros ea t ev Ga. eapply G_trans; [exact Ga|]. apply G_xext; [apply Ga|]. apply xext_run_stmt_hooks. destruct Ga; lia. }
        assert (G11 : G e1 e1) by apply G_refl, G1.
        destruct (is_created (st e1 i)).
        - destruct (nkind_beq k KAct); [|apply Hh, G11].
          apply Hh. destruct (climb_step _ _); [apply Hh|]; apply Hh, G11.
        - destruct (is_completed (st e1 i) && negb (is (st e1 i) SError)).
          + destruct (nkind_beq k KAct).
            * apply Hh. destruct (climb_step _ _); [apply Hh|]; apply Hh, G11.
            * destruct (nkind_beq k KStep); [apply Hh, Hh, Hh, G11 | apply Hh, G11].
          + destruct (is (st e1 i) SError); [|exact G11].
            (* the catches *)
            apply (G_fold _ _ (fun _ => True)); [|auto|exact G11].
            intros ee c _ Gee. destruct (t_err (tk ee i)) as [code|] eqn:Eerr; [|exact Gee].
            destruct (t_catch_done (tk ee i)) eqn:Ecd; [exact Gee|].
            destruct (match c with Some x => Nat.eqb x code | None => true end); [|exact Gee].
            pose proof Gee as [Jee Lee].
            assert (Herr : st ee i = SError).
            { destruct Jee as ((_ & HQ & _ & _) & _). apply HQ. congruence. }
            assert (Jcd : J (set_catch_done ee i)) by (apply J_set_catch_done; exact Jee).
            assert (Scd : st (set_catch_done ee i) i = SError).
            { rewrite (proj1 (st_set_catch_done ee i i)). exact Herr. }
            set (ee1 := set_state 19 (set_catch_done ee i) i SRunning).
            assert (G19 : G e1 ee1).
            { eapply G_trans; [exact Gee|]. split.
              - apply J_revive; auto.
                + unfold set_catch_done. rewrite tk_tmod, Nat.eqb_refl. simpl.
                  destruct (Nat.ltb_spec i (length (tasks ee))) as [Hlt | Hge]; [reflexivity|].
                  exfalso. apply st_oob in Hge. congruence.
                + cbn [trace set_catch_done tmod with_tasks]. intros Hin.
                  destruct Jee as ((_ & _ & _ & _ & (_ & HR2) & _) & _). apply HR2 in Hin. congruence.
              - unfold ee1. rewrite ntasks_set_state. unfold set_catch_done. rewrite ntasks_tmod. lia. }
            assert (R19 : i < ntasks ee1) by (destruct G19; lia).
            destruct (children_in (tnode ee1 i) (OCatch c)) as [|c0 cs].
            * eapply G_trans; [exact G19|]. apply IHr; auto. apply G19.
            * eapply G_trans; [exact G19|]. apply G_xext; [apply G19|]. now apply xext_sched_nodes. }
      assert (G2' : G e e2v) by (eapply G_trans; eauto).
      destruct (msg_allowed e2v i) eqn:Ema; [|exact G2'].
      eapply G_trans; [exact G2'|]. apply G_xext; [apply G2'|]. apply xext_add_ev; [reflexivity | now apply msg_allowed_ok]. }
    destruct k; try exact G3.
    destruct (is_completed (st e3v i)); [|exact G3].
    eapply G_trans; [exact G3|]. apply G_xext; [apply G3|].
    eapply xext_trans; [apply xext_with_pstate | now apply xext_add_ev].
  - (* emit_error *)
    intros e i HJ Hi. cbn [emit_error].
    destruct (is (st e i) SError); [|now apply G_refl].
    pose proof (IHe e i HJ Hi) as G1.
    destruct (is (st (emit f e i) i) SError); [|exact G1].
    destruct (t_err (tk (emit f e i) i)) as [code|]; [|exact G1].
    destruct (parent (emit f e i) i) as [p|] eqn:Ep; [|exact G1].
    destruct (is_completed (st (emit f e i) p)) eqn:Ec; [exact G1|].
    assert (Hp : p < ntasks (emit f e i)).
    { destruct G1 as [((_ & _ & HW & _) & _) L]. apply parent_lt in Ep; auto; lia. }
    assert (G2 : G (emit f e i) (set_err 20 (emit f e i) p code)).
    { apply G_set_err; [apply G1|]. apply legal_to_terminal; auto. }
    eapply G_trans; [exact G1|]. eapply G_trans; [exact G2|].
    apply IHee; [apply G2 | destruct G2; lia].
  - (* next *)
    intros cv e i HJ Hi. cbn [next].
    match goal with |- G e (let '(isn, e1) := ?X in _) => assert (HX : G e (snd X)); [|destruct X as [isn e1]] end.
    { destruct (is_next (st e i)); [|now apply G_refl].
      assert (Hloop : G e (snd (
         let '(flag, e') :=
           fold_left (fun (acc : bool * eng) j =>
             let '(fl, ee) := acc in
             let sj := st ee j in
             if is sj SNone || is sj SRunning then (true, ee)
             else if is sj SPending then
               let '(rdy, ee1) := is_ready ee j in
               if rdy then (true, next f cv (emit f (set_state 11 ee1 j SRunning) j) j) else (fl, ee1)
             else (fl, ee)) (children e i) (false, e) in
         if forallb (fun j => is_completed (st e' j)) (children e' i) then
           let e'' := if negb (is_completed (st e' i)) then set_state 12 e' i SCompleted else e' in
           match n_next (tnode e'' i) with
           | Some nx => (true, sched_next e'' nx i)
           | None => (flag, e'')
           end
         else (flag, e')))).
      { match goal with |- G e (snd (let '(flag, e') := fold_left ?g ?l ?a in _)) =>
          assert (HF : G e (snd (fold_left g l a)));
          [|destruct (fold_left g l a) as [flag e']] end.
        { assert (HFg : forall l0 acc, (forall j, In j l0 -> j < ntasks e) -> G e (snd acc) ->
             G e (snd (fold_left (fun (acc : bool * eng) j =>
             let '(fl, ee) := acc in
             let sj := st ee j in
             if is sj SNone || is sj SRunning then (true, ee)
             else if is sj SPending then
               let '(rdy, ee1) := is_ready ee j in
               if rdy then (true, next f cv (emit f (set_state 11 ee1 j SRunning) j) j) else (fl, ee1)
             else (fl, ee)) l0 acc))).
          { induction l0 as [|j l0 IHl]; intros [fl ee] Hl Hacc; simpl; [exact Hacc|].
            apply IHl; [intros; apply Hl; now right|]. simpl in Hacc.
            destruct (is (st ee j) SNone || is (st ee j) SRunning); [exact Hacc|].
            destruct (is (st ee j) SPending) eqn:EP; [|exact Hacc].
            apply is_eq in EP.
            destruct (is_ready ee j) as [rdy ee1] eqn:ER.
            destruct rdy; simpl.
            - apply is_ready_true in ER; subst ee1. apply (Hresume cv e ee j); auto. apply Hl; now left.
            - eapply G_trans; [exact Hacc|]. split.
              + change ee1 with (snd (false, ee1)); rewrite <- ER. apply J_is_ready; auto. apply Hacc.
              + change ee1 with (snd (false, ee1)); rewrite <- ER. rewrite ntasks_is_ready. lia. }
          apply HFg; [intros j Hj; eapply children_lt; eauto | now apply G_refl]. }
        simpl in HF. simpl.
        destruct (forallb _ _); simpl; [|exact HF].
        assert (GC : G e (if negb (is_completed (st e' i)) then set_state 12 e' i SCompleted else e')).
        { eapply G_trans; [exact HF|]. apply G_complete. apply HF. }
        destruct (n_next _); simpl; [|exact GC].
        eapply G_trans; [exact GC|]. apply G_xext; [apply GC|]. apply xext_sched_next; [destruct GC; lia | apply st_complete_if; destruct HF; lia]. }
      destruct (kind e i) eqn:K.
      - simpl. now apply G_refl.
      - destruct (is (st e i) SRunning) eqn:ER; [|now apply G_refl].
        apply is_eq in ER.
        destruct (normal_children (tnode e i)) as [|c cs]; simpl.
        + apply G_set_state; auto. rewrite ER; reflexivity.
        + apply G_xext; auto. now apply (xext_sched_nodes e (c :: cs) i).
      - (* step *)
        cbv zeta. destruct (is (st e i) SRunning); [exact Hloop|].
        destruct (is (st e i) SSkipped || (nkind_beq KStep KAct && is (st e i) SCompleted)) eqn:Esk; [|now apply G_refl].
        destruct (n_next (tnode e i)); simpl; [|now apply G_refl]. apply G_xext; auto. apply xext_sched_next; [exact Hi | eapply skip_or_done; exact Esk].
      - (* act *)
        cbv zeta. destruct (is (st e i) SRunning); [exact Hloop|].
        destruct (is (st e i) SSkipped || (nkind_beq KAct KAct && is (st e i) SCompleted)) eqn:Esk; [|now apply G_refl].
        destruct (n_next (tnode e i)); simpl; [|now apply G_refl]. apply G_xext; auto. apply xext_sched_next; [exact Hi | eapply skip_or_done; exact Esk]. }
    simpl in HX.
    destruct (is_completed (st e1 i)); [|exact HX].
    assert (GU : G e (update_data e1 i cv)).
    { eapply G_trans; [exact HX|]. apply G_xext; [apply HX | apply xext_update_data]. }
    assert (GE : G e (emit f (update_data e1 i cv) i)).
    { eapply G_trans; [exact GU|]. apply IHe; [apply GU | destruct GU; lia]. }
    destruct (negb isn && negb (t_evproc (tk (emit f (update_data e1 i cv) i) i))); [|exact GE].
    destruct (parent (emit f (update_data e1 i cv) i) i) as [p|] eqn:Ep; [|exact GE].
    eapply G_trans; [exact GE|].
    assert (Ri : i < ntasks (emit f (update_data e1 i cv) i)) by (destruct GE; lia).
    apply IHr; [apply GE | | exact Ri].
    destruct GE as [((_ & _ & HW & _) & _) _]. apply parent_lt in Ep; auto; lia.
  - (* review *)
    intros cv from e i HJ Hi Hfrom. cbn [review].
    destruct (t_evproc (tk e from)); [now apply G_refl|].
    set (e0 := update_data e i (outputs e from)).
    assert (G0 : G e e0) by (apply G_xext; [exact HJ | apply xext_update_data]).
    assert (R0 : i < ntasks e0) by (destruct G0; lia).
    match goal with |- G e (let '(isr, e1) := ?X in _) => assert (HX : G e (snd X)); [|destruct X as [isr e1]] end.
    { destruct (kind e0 i).
      - destruct (is (st e0 i) SRunning) eqn:ER; simpl; [|exact G0].
        destruct (forallb _ _); simpl; [|exact G0].
        apply is_eq in ER. eapply G_trans; [exact G0|]. apply G_set_state; [apply G0|]. rewrite ER; reflexivity.
      - destruct (is (st e0 i) SRunning) eqn:ER; simpl.
        + destruct (forallb _ _); simpl; [|exact G0].
          apply is_eq in ER. eapply G_trans; [exact G0|]. apply G_set_state; [apply G0|]. rewrite ER; reflexivity.
        + destruct (is (st e0 i) SSkipped); exact G0.
      - (* step *)
        destruct (is (st e0 i) SRunning) eqn:ER; simpl.
        + match goal with |- context [ (fix scan (l : list nat) (ee : eng) {struct l} : option eng * eng := @?body scan l ee) ] =>
            set (scan := (fix scan (l : list nat) (ee : eng) {struct l} : option eng * eng := body scan l ee))
          end.
          assert (HS : forall l ee, (forall j, In j l -> j < ntasks e0) -> G e ee -> ntasks e0 <= ntasks ee ->
                        G e (snd (scan l ee)) /\ (forall e', fst (scan l ee) = Some e' -> G e e')).
          { induction l as [|j l IHl]; intros ee Hl Gee Lee; simpl.
            - split; auto; discriminate.
            - destruct (is (st ee j) SPending) eqn:EP; [|apply IHl; auto; intros; apply Hl; now right].
              apply is_eq in EP.
              destruct (is_ready ee j) as [rdy ee1] eqn:ER2.
              assert (Gee1 : G e ee1 /\ ntasks e0 <= ntasks ee1).
              { change ee1 with (snd (rdy, ee1)); rewrite <- ER2. split; [|rewrite ntasks_is_ready; lia].
                eapply G_trans; [exact Gee|]. split; [apply J_is_ready; auto; apply Gee | rewrite ntasks_is_ready; lia]. }
              destruct rdy; simpl; [|apply IHl; [intros; apply Hl; now right | apply Gee1 | apply Gee1]].
              split; [apply Gee1|]. intros e' Heq; inversion Heq; subst.
              apply is_ready_true in ER2; subst ee1.
              assert (Hj : j < ntasks e0) by (apply Hl; now left).
              assert (Gee' : G ee ee) by (apply G_refl, Gee).
              destruct (Hresume cv ee ee j Gee' ltac:(lia) EP) as [_ H13].
              eapply G_trans; [exact Gee | exact H13]. }
          destruct (HS (children e0 i) e0 ltac:(intros j Hj; eapply children_lt; eauto) G0 ltac:(lia)) as [HS1 HS2].
          destruct (scan (children e0 i) e0) as [[e'|] e''] eqn:ES; simpl in *.
          * apply HS2; reflexivity.
          * destruct (forallb _ _); simpl; [|exact HS1].
            assert (GC : G e (if negb (is_completed (st e'' i)) then set_state 16 e'' i SCompleted else e'')).
            { eapply G_trans; [exact HS1|]. apply G_complete. apply HS1. }
            destruct (n_next _); simpl; [|exact GC].
            eapply G_trans; [exact GC|]. apply G_xext; [apply GC|]. apply xext_sched_next; [destruct GC; lia | apply st_complete_if; destruct HS1; lia].
        + destruct (is (st e0 i) SSkipped) eqn:Esk; simpl; [|exact G0].
          destruct (n_next (tnode e0 i)); simpl; [|exact G0].
          eapply G_trans; [exact G0|]. apply G_xext; [apply G0|]. apply xext_sched_next; [exact R0 | apply is_eq in Esk; now rewrite Esk].
      - (* act *)
        destruct (is (st e0 i) SRunning) eqn:ER; simpl; [|exact G0]. apply is_eq in ER.
        destruct (act_scan e0 (children e0 i) 0); simpl; [exact G0| |].
        + eapply G_trans; [exact G0|]. apply G_set_state; [apply G0|]. rewrite ER; reflexivity.
        + destruct (Nat.eqb _ _); simpl; [|exact G0].
          assert (GC : G e (if negb (is_completed (st e0 i)) then set_state 18 e0 i SCompleted else e0)).
          { eapply G_trans; [exact G0|]. apply G_complete. apply G0. }
          destruct (n_next _); simpl; [|exact GC].
          eapply G_trans; [exact GC|]. apply G_xext; [apply GC|]. apply xext_sched_next; [destruct GC; lia | apply st_complete_if; exact R0]. }
    simpl in HX.
    assert (GE : G e (if is_completed (st e1 i) && negb (is (st e0 i) (st e1 i)) then emit f e1 i else e1)).
    { destruct (_ && _); [|exact HX]. eapply G_trans; [exact HX|]. apply IHe; [apply HX | destruct HX; lia]. }
    destruct isr; [|exact GE].
    match goal with |- G e (match parent ?x i with _ => _ end) => set (e2 := x) in * end.
    destruct (parent e2 i) as [p|] eqn:Ep; [|exact GE].
    eapply G_trans; [exact GE|].
    assert (Ri : i < ntasks e2) by (destruct GE; lia).
    apply IHr; [apply GE | | exact Ri].
    destruct GE as [((_ & _ & HW & _) & _) _]. apply parent_lt in Ep; auto; lia.
Qed.

(* ---------------------------------------------------------------------------------------------
   the operations built on the core
   --------------------------------------------------------------------------------------------- *)
Definition mainE f := proj1 (main f).
Definition mainEE f := proj1 (proj2 (main f)).
Definition mainN f := proj1 (proj2 (proj2 (main f))).
Definition mainR f := proj2 (proj2 (proj2 (main f))).

Lemma J_with_queue e q : J e -> (forall x, In x q -> In x (queue e)) -> J (with_queue e q).
Proof.
  intros (HI & HX & HQR) Hq. split; [exact HI | split; [exact HX|]]. intros j Hj. apply HQR, Hq, Hj.
Qed.
Lemma J_with_exn_false e : Inv e -> QR e -> J (with_exn e false).
Proof. intros HI HQ. split; [eapply Inv_ext; [apply ext_with_exn | exact HI] | split; [reflexivity | exact HQ]]. Qed.

Lemma ntasks_dispatch_setup x j s : ntasks (dispatch_setup x j s) = ntasks x.
Proof.
  unfold dispatch_setup. destruct s; auto. unfold ntasks, build_acts.
  match goal with |- length (tasks (fst (fold_left ?g ?l ?a))) = _ =>
    assert (Hg : forall l0 acc, length (tasks (fst (fold_left g l0 acc))) = length (tasks (fst acc))) end.
  { induction l0 as [|sp l0 IHl]; intros [ee pv]; simpl; auto. rewrite IHl.
    destruct (Nat.eqb _ _); reflexivity. }
  rewrite Hg. simpl. apply upd_length.
Qed.
Lemma ntasks_kind_init e0 i0 : ntasks (kind_init e0 i0) = ntasks e0.
Proof.
  unfold kind_init.
  assert (Hif : forall c k, (forall x, ntasks (k x) = ntasks x) -> ntasks (eval_if e0 i0 c k) = ntasks e0).
  { intros c k Hk0. unfold eval_if. destruct c; auto. destruct (eval_cond _ _ _) as [[|]|]; auto. apply ntasks_set_state. }
  destruct (n_kind (tnode e0 i0)).
  - apply ntasks_dispatch_setup.
  - destruct (negb _); [rewrite ntasks_set_state; apply ntasks_tmod|].
    destruct (n_if _).
    + destruct (eval_cond _ _ _) as [[|]|]; [apply ntasks_tmod | rewrite ntasks_set_state; apply ntasks_tmod | apply ntasks_tmod].
    + destruct (negb _); [rewrite ntasks_set_state; apply ntasks_tmod|].
      destruct (Nat.ltb _ _); [rewrite ntasks_set_state|]; apply ntasks_tmod.
  - apply Hif. intros x. rewrite ntasks_dispatch_setup. unfold set_timeouts, set_catches. now rewrite !ntasks_tmod.
  - apply Hif. intros x. destruct (sp_u _); rewrite ntasks_set_state; try (unfold set_silent; rewrite ntasks_tmod);
      rewrite ntasks_dispatch_setup; unfold set_timeouts, set_catches; now rewrite !ntasks_tmod.
Qed.

(* exec, entered from the scheduler on a task that is not completed: it keeps J, or the
   initialisation failed and the task is still ready *)
Definition failed (e e' : eng) (i : nat) : Prop :=
  exn e' = true /\ Inv e' /\ QR e' /\ is_completed (st e' i) = false /\ ntasks e <= ntasks e'.
Lemma exec_spec f cv e i : J e -> i < ntasks e -> is_completed (st e i) = false ->
  G e (exec f cv e i) \/ failed e (exec f cv e i) i.
Proof.
  intros HJ Hi Hc. unfold exec. rewrite Hc.
  (* init *)
  set (e1 := if is (st e i) SNone
             then let ea := kind_init (set_state 1 (set_data e i (inputs e i)) i SReady) i in
                  if exn ea then ea else if negb (is_completed (st ea i)) then emit f ea i else ea
             else e).
  assert (H1 : G e e1 \/ failed e e1 i).
  { unfold e1. destruct (is (st e i) SNone) eqn:EN; [|left; now apply G_refl]. apply is_eq in EN.
    assert (Gd : G e (set_data e i (inputs e i))) by (apply G_xext; auto; apply xext_set_data).
    assert (Sd : st (set_data e i (inputs e i)) i = SNone) by (rewrite (ext_st _ _ i (ext_set_data e i _)); exact EN).
    assert (Gs : G e (set_state 1 (set_data e i (inputs e i)) i SReady)).
    { eapply G_trans; [exact Gd|]. apply G_set_state; [apply Gd|]. rewrite Sd; reflexivity. }
    assert (Fs : fresh_state (st (set_state 1 (set_data e i (inputs e i)) i SReady) i)).
    { destruct (st_set_state_same 1 (set_data e i (inputs e i)) i SReady) as [-> | [_ ->]]; [left; reflexivity | right; exact Sd]. }
    assert (Lk : ntasks e <= ntasks (kind_init (set_state 1 (set_data e i (inputs e i)) i SReady) i)).
    { rewrite ntasks_kind_init. apply Gs. }
    destruct (kind_init_spec _ i (proj1 Gs) Fs) as [(Hx & HIx & HQx & Hfx) | HJk].
    - right. cbv zeta. rewrite Hx. unfold failed. split; [exact Hx | split; [exact HIx | split; [exact HQx | split; [|exact Lk]]]].
      destruct Hfx as [E | E]; rewrite E; reflexivity.
    - left. cbv zeta. pose proof HJk as (HIk & HXk & HQk). rewrite HXk.
      set (ea := kind_init (set_state 1 (set_data e i (inputs e i)) i SReady) i) in *.
      assert (Ga : G e ea) by (split; [exact HJk | exact Lk]).
      destruct (negb (is_completed (st ea i))); [|exact Ga].
      eapply G_trans; [exact Ga|]. apply mainE; [apply Ga | lia]. }
  destruct H1 as [G1 | (Hx & HI1 & HQ1 & Hf1 & HL1)]; [|right; rewrite Hx; unfold failed; auto].
  pose proof G1 as ((_ & HX1 & _) & _). rewrite HX1.
  assert (R1 : i < ntasks e1) by (destruct G1; lia).
  (* wake-up *)
  set (e1' := if is (st e1 i) SPending then let '(rdy, ea) := is_ready e1 i in if rdy then emit f (set_state 6 ea i SRunning) i else ea else e1).
  assert (G1' : G e e1').
  { unfold e1'. destruct (is (st e1 i) SPending) eqn:EP; [|exact G1]. apply is_eq in EP.
    destruct (is_ready e1 i) as [rdy ea] eqn:ER. destruct rdy.
    - apply is_ready_true in ER; subst ea.
      assert (Gs : G e1 (set_state 6 e1 i SRunning)) by (apply G_set_state; [apply G1 | rewrite EP; reflexivity]).
      eapply G_trans; [exact G1|]. eapply G_trans; [exact Gs|]. apply mainE; [apply Gs | destruct Gs; lia].
    - eapply G_trans; [exact G1|]. change ea with (snd (false, ea)); rewrite <- ER.
      split; [apply J_is_ready; auto; apply G1 | rewrite ntasks_is_ready; lia]. }
  assert (R1' : i < ntasks e1') by (destruct G1'; lia).
  (* run: a failing package *)
  destruct (nkind_beq (kind e1' i) KAct && is (st e1' i) SReady && is_fail (sp_u (n_spec (tnode e1' i)))) eqn:Efail.
  { right. apply andb_true_iff in Efail as [Ef _]. apply andb_true_iff in Ef as [_ ER]. apply is_eq in ER.
    assert (Gr : G e1' (set_state 7 e1' i SRunning)) by (apply G_set_state; [apply G1' | rewrite ER; reflexivity]).
    destruct Gr as [(HIr & HXr & HQr) Lr]. unfold failed. split; [reflexivity|]. split; [exact HIr|]. split; [exact HQr|]. split.
    - cbn [with_exn]. change (is_completed (st (set_state 7 e1' i SRunning) i) = false).
      destruct (st_set_state_same 7 e1' i SRunning) as [-> | [Ho _]]; [reflexivity | unfold ntasks in R1'; lia].
    - change (ntasks e <= ntasks (set_state 7 e1' i SRunning)). destruct G1'; lia. }
  left. clear Efail.
  match goal with |- G e (next f cv ?e2 i) => set (e2v := e2) end.
  assert (G2 : G e e2v).
  { unfold e2v. destruct (is (st e1' i) SReady) eqn:ER; [|exact G1']. apply is_eq in ER.
    set (er := set_state 7 e1' i SRunning).
    assert (Gr : G e1' er) by (apply G_set_state; [apply G1' | rewrite ER; reflexivity]).
    assert (Rr : i < ntasks er) by (destruct Gr; lia).
    match goal with |- G e (emit f ?x i) => set (er2 := x) end.
    assert (Gr2 : G er er2).
    { unfold er2. destruct (kind er i).
      - destruct (normal_children (tnode er i)) as [|c cs].
        + apply G_set_state; [apply Gr|].
          unfold er. destruct (st_set_state_same 7 e1' i SRunning) as [-> | [Ho _]]; [reflexivity | unfold ntasks in R1'; lia].
        + apply G_xext; [apply Gr | now apply xext_sched_nodes].
      - now apply G_refl, Gr.
      - apply G_xext; [apply Gr | now apply xext_sched_nodes].
      - cbv zeta.
        match goal with |- G er (sched_nodes ?x _ i) => set (er1 := x) end.
        assert (X1 : xext er er1).
        { unfold er1.
          match goal with |- xext er (match _ with UBlock => if _ then ?y else _ | _ => _ end) => set (er0 := y) end.
          assert (X0 : xext er er0).
          { unfold er0.
            match goal with |- xext er (if _ then _ else ?z) => set (era := z) end.
            assert (Xa : xext er era) by (unfold era; destruct (sp_u _); try apply xext_refl; apply xext_set_silent).
            destruct (n_isset _); [|exact Xa].
            eapply xext_trans; [exact Xa|]. eapply xext_trans; [apply xext_set_exposed | apply xext_update_data]. }
          destruct (sp_u _); try exact X0.
          - destruct (n_isset _); [exact X0|]. eapply xext_trans; [exact X0 | apply xext_build_acts].
          - eapply xext_trans; [exact X0 | apply xext_build_acts].
          - eapply xext_trans; [exact X0 | apply xext_build_acts]. }
        assert (G1r : G er er1) by (apply G_xext; [apply Gr | exact X1]).
        eapply G_trans; [exact G1r|]. apply G_xext; [apply G1r|]. apply xext_sched_nodes. destruct G1r; lia. }
    eapply G_trans; [exact G1'|]. eapply G_trans; [exact Gr|]. eapply G_trans; [exact Gr2|].
    apply mainE; [apply Gr2 | destruct Gr2; lia]. }
  eapply G_trans; [exact G2|]. apply mainN; [apply G2 | destruct G2; lia].
Qed.

Lemma step_queue_J e : J e -> G e (step_queue e).
Proof.
  intros HJ. unfold step_queue. destruct (queue e) as [|i q] eqn:Eq; [now apply G_refl|].
  assert (Hi : i < ntasks e) by (destruct HJ as (_ & _ & HQ); apply HQ; rewrite Eq; now left).
  set (e0 := add_ev (with_queue e q) (EPop i)).
  assert (Jq : J (with_queue e q)) by (apply J_with_queue; auto; intros x Hx; rewrite Eq; now right).
  assert (G0 : G e e0).
  { unfold e0. eapply G_trans; [split; [exact Jq | unfold ntasks; simpl; lia]|].
    apply G_xext; [exact Jq | now apply xext_add_ev]. }
  assert (R0 : i < ntasks e0) by (destruct G0; lia).
  destruct (is_completed (st e0 i)) eqn:Ec; [exact G0|].
  apply G_persist. unfold exec_or_fail. cbv zeta.
  destruct (exec_spec (fuel_of e0) [] e0 i (proj1 G0) R0 Ec) as [G1 | (Hx & HI1 & HQ1 & Hf1 & HL1)].
  - pose proof G1 as ((_ & HX1 & _) & _). rewrite HX1. exact (G_trans _ _ _ G0 G1).
  - rewrite Hx. set (e1 := exec (fuel_of e0) [] e0 i) in *.
    assert (J2 : J (with_exn e1 false)) by (apply J_with_exn_false; auto).
    assert (Gs : G (with_exn e1 false) (set_err 21 (with_exn e1 false) i 0)).
    { apply G_set_err; auto.
      assert (Hs : st (with_exn e1 false) i = st e1 i) by reflexivity. rewrite Hs.
      now apply legal_to_terminal. }
    eapply G_trans; [exact G0|]. eapply G_trans; [split; [exact J2 | unfold ntasks in *; simpl; exact HL1]|].
    eapply G_trans; [exact Gs|]. apply mainEE; [apply Gs|]. destruct Gs as [_ L]. unfold set_err in *. rewrite ntasks_set_state, ntasks_tmod in *. unfold ntasks in *. cbn [with_exn tasks] in *. lia.
Qed.

