From Coq Require Import List String Bool Arith Lia.
Import ListNotations.
From Acts.Gen Require Import GenModelFields.
From Acts.Model Require Import Serde.
Open Scope string_scope.

Section Rec.
Variable V : Type.
Variable dflt : string -> V.

Lemma existsb_eqb_In x l : existsb (String.eqb x) l = true <-> In x l.
Proof. rewrite existsb_exists; split; [intros (y & Hy & E); apply String.eqb_eq in E; subst; auto | intros H; exists x; split; auto; apply String.eqb_refl]. Qed.
Lemma snodup_NoDup l : snodup l = true -> NoDup l.
Proof.
  induction l as [|x t IH]; simpl; [constructor|]. intros H. apply andb_true_iff in H as [H1 H2].
  constructor; auto. intros Hin. apply existsb_eqb_In in Hin. rewrite Hin in H1. discriminate.
Qed.
Lemma sassoc_map (fs : list sfield) (r : string -> V) f :
  NoDup (map ser_name fs) -> In f fs -> sassoc V (ser_name f) (map (fun g => (ser_name g, r (f_name g))) fs) = Some (r (f_name f)).
Proof.
  induction fs as [|g fs IH]; simpl; intros Hn Hin; [tauto|]. inversion Hn; subst.
  destruct Hin as [-> | Hin]; [now rewrite String.eqb_refl|].
  destruct (String.eqb_spec (ser_name f) (ser_name g)) as [E|]; [|auto].
  exfalso. apply H1. rewrite <- E. apply in_map. exact Hin.
Qed.
(* a struct whose table is ok is read back field by field exactly as it was written *)
Theorem roundtrip s (r : string -> V) f :
  struct_ok s = true -> In f (s_fields s) -> decode_field V dflt (encode V s r) f = Some (r (f_name f)).
Proof.
  unfold struct_ok. intros H Hf. apply andb_true_iff in H as [H1 H2]. apply snodup_NoDup in H1.
  unfold decode_field, encode.
  assert (E : filter (fun g => negb (f_skip g)) (s_fields s) = s_fields s).
  { clear - H2. induction (s_fields s) as [|g l IH]; simpl in *; auto. apply andb_true_iff in H2 as [Ha Hb]. rewrite Ha. f_equal. auto. }
  rewrite E. now rewrite sassoc_map.
Qed.
End Rec.

Lemma all_structs_ok : forallb struct_ok model_structs = true.
Proof. vm_compute. reflexivity. Qed.
Theorem model_roundtrip (V : Type) (dflt : string -> V) s (r : string -> V) f :
  In s model_structs -> In f (s_fields s) -> decode_field V dflt (encode V s r) f = Some (r (f_name f)).
Proof.
  intros Hs Hf. apply roundtrip; auto. pose proof all_structs_ok as A. rewrite forallb_forall in A. now apply A.
Qed.

(* ---- deployment ---- *)
Lemma mfind_mput_same s r : mfind (mput s r) (m_id r) = Some r.
Proof.
  induction s as [|x t IH]; simpl; [now rewrite Nat.eqb_refl|].
  destruct (Nat.eqb_spec (m_id x) (m_id r)); simpl; [now rewrite Nat.eqb_refl|].
  destruct (Nat.eqb_spec (m_id x) (m_id r)); [contradiction | exact IH].
Qed.
Lemma mfind_mput_other s r j : j <> m_id r -> mfind (mput s r) j = mfind s j.
Proof.
  intros Hne. induction s as [|x t IH]; simpl.
  - destruct (Nat.eqb_spec (m_id r) j); [congruence | reflexivity].
  - destruct (Nat.eqb_spec (m_id x) (m_id r)) as [E|E]; simpl.
    + destruct (Nat.eqb_spec (m_id r) j); [congruence|]. destruct (Nat.eqb_spec (m_id x) j); [congruence | reflexivity].
    + destruct (Nat.eqb_spec (m_id x) j); auto.
Qed.
(* deploy stores exactly the given model and raises the version by one per deploy (1 for a new id) *)
Theorem deploy_stores s id text :
  exists r, mfind (deploy s id text) id = Some r /\ m_text r = text /\
            m_ver r = match mfind s id with Some old => S (m_ver old) | None => 1 end.
Proof.
  unfold deploy. destruct (mfind s id) as [old|]; eexists; (split; [apply (mfind_mput_same s {| m_id := id; m_ver := _; m_text := text |}) | split; reflexivity]).
Qed.
Theorem deploy_frame s id text j : j <> id -> mfind (deploy s id text) j = mfind s j.
Proof. intros H. unfold deploy. destruct (mfind s id); now apply mfind_mput_other. Qed.
(* n deploys of one id give version n *)
Lemma last_cons {A} (ts : list A) : forall t t0, last (t :: ts) t0 = last ts t.
Proof. induction ts as [|x ts IH]; intros t t0; [reflexivity|]. change (last (t :: x :: ts) t0) with (last (x :: ts) t0). rewrite !IH. reflexivity. Qed.
Lemma deploy_more id ts : forall s1 r t0, mfind s1 id = Some r -> m_text r = t0 ->
  exists r', mfind (fold_left (fun st t => deploy st id t) ts s1) id = Some r' /\ m_ver r' = m_ver r + List.length ts /\ m_text r' = last ts t0.
Proof.
  induction ts as [|t ts IH]; intros s1 r t0 Hr Ht; cbn [fold_left List.length].
  - exists r. split; [exact Hr|]. split; [lia | exact Ht].
  - destruct (deploy_stores s1 id t) as (r1 & H1 & H2 & H3). rewrite Hr in H3.
    destruct (IH (deploy s1 id t) r1 t H1 H2) as (r' & Hr' & Hv' & Ht').
    exists r'. split; [exact Hr'|]. split; [lia|]. rewrite Ht'. symmetry. apply last_cons.
Qed.
Theorem deploy_n_times s id t0 ts : mfind s id = None ->
  exists r, mfind (fold_left (fun st t => deploy st id t) (t0 :: ts) s) id = Some r /\ m_ver r = List.length (t0 :: ts) /\ m_text r = last (t0 :: ts) 0.
Proof.
  intros Hn. cbn [fold_left]. destruct (deploy_stores s id t0) as (r & Hr & Ht & Hv). rewrite Hn in Hv.
  destruct (deploy_more id ts _ r t0 Hr Ht) as (r' & Hr' & Hv' & Ht').
  exists r'. split; [exact Hr'|]. split; [cbn [List.length]; lia|]. rewrite Ht'. symmetry. apply last_cons.
Qed.

(* ---- deployment with start events ---- *)
Definition has_event (evs : list erow) (mid a : nat) : nat := List.length (filter (fun e => ekey e mid a) evs).
Definition ev_unique (evs : list erow) : Prop := forall mid a, has_event evs mid a <= 1.
Lemma ekey_other e mid a mid' a' ver : (mid', a') <> (mid, a) -> ekey e mid' a' = true ->
  ekey (if ekey e mid a then (if Nat.eqb (e_ver e) ver then e else {| e_mid := mid; e_act := a; e_ver := ver |}) else e) mid' a' = true.
Proof.
  intros Hne Hk. destruct (ekey e mid a) eqn:E; auto. unfold ekey in *.
  apply andb_true_iff in E as [E1 E2]. apply andb_true_iff in Hk as [K1 K2].
  apply Nat.eqb_eq in E1, E2, K1, K2. exfalso. apply Hne. congruence.
Qed.
Lemma has_event_eput_same evs mid a ver : has_event evs mid a <= 1 -> has_event (eput evs mid a ver) mid a = 1.
Proof.
  unfold has_event. induction evs as [|e t IH]; cbn [eput filter List.length]; intros H.
  - unfold ekey; cbn. rewrite !Nat.eqb_refl. reflexivity.
  - destruct (ekey e mid a) eqn:E.
    + cbn [filter]. assert (Ek : ekey (if Nat.eqb (e_ver e) ver then e else {| e_mid := mid; e_act := a; e_ver := ver |}) mid a = true).
      { destruct (Nat.eqb (e_ver e) ver); auto. unfold ekey; cbn. now rewrite !Nat.eqb_refl. }
      rewrite Ek. cbn [List.length] in *. lia.
    + cbn [filter]. rewrite E. apply IH. exact H.
Qed.
Lemma has_event_eput_other evs mid a ver mid' a' : (mid', a') <> (mid, a) -> has_event (eput evs mid a ver) mid' a' = has_event evs mid' a'.
Proof.
  intros Hne. unfold has_event. induction evs as [|e t IH]; cbn [eput filter List.length].
  - assert (ekey {| e_mid := mid; e_act := a; e_ver := ver |} mid' a' = false) as ->; [|reflexivity].
    unfold ekey; cbn. destruct (Nat.eqb_spec mid mid'), (Nat.eqb_spec a a'); auto. subst. exfalso; apply Hne; reflexivity.
  - destruct (ekey e mid a) eqn:E.
    + cbn [filter]. assert (ekey (if Nat.eqb (e_ver e) ver then e else {| e_mid := mid; e_act := a; e_ver := ver |}) mid' a' = ekey e mid' a') as Ek.
      { destruct (Nat.eqb (e_ver e) ver); auto. unfold ekey in *; cbn.
        apply andb_true_iff in E as [E1 E2]. apply Nat.eqb_eq in E1, E2. rewrite E1, E2.
        destruct (Nat.eqb_spec mid mid'), (Nat.eqb_spec a a'); auto. }
      rewrite Ek. destruct (ekey e mid' a'); reflexivity.
    + cbn [filter]. destruct (ekey e mid' a'); cbn [List.length]; rewrite IH; reflexivity.
Qed.
Lemma eput_unique evs mid a ver : ev_unique evs -> ev_unique (eput evs mid a ver).
Proof.
  intros H mid' a'. destruct (Nat.eq_dec mid' mid) as [->|Hm]; [destruct (Nat.eq_dec a' a) as [->|Ha]|].
  - rewrite has_event_eput_same; auto.
  - rewrite has_event_eput_other; [apply H | congruence].
  - rewrite has_event_eput_other; [apply H | congruence].
Qed.
Lemma eputs_unique mid ver on : forall evs, ev_unique evs -> ev_unique (fold_left (fun evs a => eput evs mid a ver) on evs).
Proof. induction on as [|a on IH]; intros evs H; cbn [fold_left]; auto. apply IH. now apply eput_unique. Qed.
Lemma eputs_has mid ver on : forall evs a, ev_unique evs -> In a on -> has_event (fold_left (fun evs a => eput evs mid a ver) on evs) mid a = 1.
Proof.
  induction on as [|b on IH]; intros evs a Hu Hin; [destruct Hin|]. cbn [fold_left].
  destruct (in_dec Nat.eq_dec a on) as [Hi|Hn]; [apply IH; auto; now apply eput_unique|].
  destruct Hin as [->|Hin]; [|contradiction].
  assert (G : forall l evs0, ~ In a l -> has_event (fold_left (fun evs a0 => eput evs mid a0 ver) l evs0) mid a = has_event evs0 mid a).
  { induction l as [|c l IHl]; intros evs0 Hc; cbn [fold_left]; auto. rewrite IHl; [|intros X; apply Hc; now right].
    apply has_event_eput_other. intros X. inversion X; subst. apply Hc. now left. }
  rewrite G; auto. apply has_event_eput_same. apply Hu.
Qed.
Lemma filter_unique evs g : ev_unique evs -> ev_unique (filter g evs).
Proof.
  intros H mid a. specialize (H mid a). unfold has_event in *.
  assert (L : forall l, List.length (filter (fun e => ekey e mid a) (filter g l)) <= List.length (filter (fun e => ekey e mid a) l)).
  { induction l as [|e l IHl]; cbn [filter]; auto. destruct (g e); cbn [filter]; destruct (ekey e mid a); cbn [List.length]; lia. }
  specialize (L evs). lia.
Qed.
(* invariant of every operation sequence: at most one start event per (model, act) *)
Theorem events_unique ops : ev_unique (ds_events (drun ops dinit)).
Proof.
  unfold drun. assert (H0 : ev_unique (ds_events dinit)) by (intros mid a; cbn; lia).
  revert H0. generalize dinit. induction ops as [|o ops IH]; intros st H; cbn [fold_left]; auto.
  apply IH. destruct o as [d|id|id]; cbn [dstep fst]; auto.
  - unfold ddeploy. destruct (d_valid d); cbn [negb fst ds_events]; auto. now apply eputs_unique.
  - cbn [drm fst ds_events]. now apply filter_unique.
Qed.
(* an accepted deploy stores exactly the given model with the next version and leaves exactly one
   start event for every `on` act of it; a model whose tree cannot be built changes nothing *)
Theorem ddeploy_accepted st d : ev_unique (ds_events st) -> d_valid d = true ->
  snd (ddeploy st d) = true /\
  (exists r, mfind (ds_models (fst (ddeploy st d))) (d_id d) = Some r /\ m_text r = d_text d /\
             m_ver r = match mfind (ds_models st) (d_id d) with Some old => S (m_ver old) | None => 1 end) /\
  (forall j, j <> d_id d -> mfind (ds_models (fst (ddeploy st d))) j = mfind (ds_models st) j) /\
  (forall a, In a (d_on d) -> has_event (ds_events (fst (ddeploy st d))) (d_id d) a = 1).
Proof.
  intros Hu Hv. unfold ddeploy. rewrite Hv. cbn [negb fst snd ds_models ds_events].
  split; [reflexivity|]. split; [apply deploy_stores|]. split; [intros j Hj; now apply deploy_frame|].
  intros a Ha. now apply eputs_has.
Qed.
Theorem ddeploy_rejected st d : d_valid d = false -> ddeploy st d = (st, false).
Proof. intros Hv. unfold ddeploy. now rewrite Hv. Qed.
Theorem start_unknown st id : mfind (ds_models st) id = None -> dstart st id = false.
Proof. intros H. unfold dstart. now rewrite H. Qed.
Theorem start_never_deployed ops id :
  (forall d, In (DDeploy d) ops -> d_id d <> id) -> dstart (drun ops dinit) id = false.
Proof.
  intros H. apply start_unknown. unfold drun.
  assert (H0 : mfind (ds_models dinit) id = None) by reflexivity. revert H H0. generalize dinit.
  induction ops as [|o ops IH]; intros st H H0; cbn [fold_left]; auto.
  apply IH; [intros d Hd; apply H; now right|].
  destruct o as [d|j|j]; cbn [dstep fst]; auto.
  - unfold ddeploy. destruct (d_valid d); cbn [negb fst ds_models]; auto.
    rewrite deploy_frame; auto. intros E. apply (H d); [now left | auto].
  - cbn [drm fst ds_models]. clear -H0. induction (ds_models st) as [|r l IHl]; cbn in *; auto.
    destruct (Nat.eqb_spec (m_id r) id); [discriminate|]. destruct (Nat.eqb (m_id r) j); cbn; auto.
    destruct (Nat.eqb_spec (m_id r) id); [contradiction | auto].
Qed.
