(* The trace is a faithful log: replaying its state writes from `none` gives, at every position, the state
   each task has at that moment -- so every write's `old` state is the task's state just before it, every
   message reports the state its task has when it is sent (never pending or running), and the replay of the
   whole trace is the task states of the engine. *)
From Coq Require Import List Arith ZArith Bool Lia.
Import ListNotations.
From Acts.Gen Require Import GenState.
From Acts.Model Require Import Engine Oracles.
From Acts.Proofs Require Import EngineBasics TimeoutInv.

Definition cstep (c : nat -> TaskState) (x : ev) : nat -> TaskState :=
  match x with ETrans t _ n _ _ => fun t' => if Nat.eqb t' t then n else c t' | _ => c end.
Definition evok (c : nat -> TaskState) (x : ev) : bool :=
  match x with
  | ETrans t o _ _ _ => is o (c t)
  | EMsg t s _ _ => is s (c t) && negb (is s SPending) && negb (is s SRunning)
  | ENew _ _ (Some p) _ VNext => is_completed (c p)
  | _ => true
  end.
Fixpoint logok (c : nat -> TaskState) (tr : list ev) : bool :=
  match tr with [] => true | x :: r => evok c x && logok (cstep c x) r end.
Fixpoint cur (c : nat -> TaskState) (tr : list ev) : nat -> TaskState :=
  match tr with [] => c | x :: r => cur (cstep c x) r end.
Definition c_none : nat -> TaskState := fun _ => SNone.
Definition L (e : eng) : Prop := logok c_none (trace e) = true /\ forall t, cur c_none (trace e) t = st e t.

Lemma is_refl s : is s s = true. Proof. destruct s; reflexivity. Qed.
Lemma is_true_eq a b : is a b = true -> a = b. Proof. apply internal_TaskState_dec_bl. Qed.
Lemma cstep_ext c c' x : (forall t, c t = c' t) -> forall t, cstep c x t = cstep c' x t.
Proof. intros H t. destruct x; simpl; auto. now rewrite H. Qed.
Lemma evok_ext c c' x : (forall t, c t = c' t) -> evok c x = evok c' x.
Proof. intros H. destruct x as [? ? [p|] ? [|] | | | | | | |]; simpl; auto; now rewrite H. Qed.
Lemma logok_ext tr : forall c c', (forall t, c t = c' t) -> logok c tr = logok c' tr.
Proof.
  induction tr as [|x tr IH]; simpl; auto. intros c c' H. rewrite (evok_ext c c' x H).
  now rewrite (IH _ _ (cstep_ext c c' x H)).
Qed.
Lemma cur_ext tr : forall c c', (forall t, c t = c' t) -> forall t, cur c tr t = cur c' tr t.
Proof. induction tr as [|x tr IH]; simpl; auto. intros c c' H. apply IH. now apply cstep_ext. Qed.
Lemma logok_app a : forall c b, logok c (a ++ b) = logok c a && logok (cur c a) b.
Proof. induction a as [|x a IH]; simpl; auto. intros c b. now rewrite IH, andb_assoc. Qed.
Lemma cur_app a : forall c b t, cur c (a ++ b) t = cur (cur c a) b t.
Proof. induction a as [|x a IH]; simpl; auto. Qed.

(* events that are no state writes, with messages that report the current state: nothing moves *)
Lemma quiet_log e l : forall c, (forall t, c t = st e t) ->
  forallb (fun x => negb (is_trans x)) l = true -> forallb (msg_ok e) l = true ->
  logok c l = true /\ forall t, cur c l t = c t.
Proof.
  induction l as [|x l IH]; simpl; auto. intros c Hc F M.
  apply andb_true_iff in F as [F1 F2]. apply andb_true_iff in M as [M1 M2].
  assert (Hs : forall t, cstep c x t = c t) by (destruct x; simpl in *; auto; discriminate).
  destruct (IH (cstep c x)) as [I1 I2]; auto; [intros t; now rewrite Hs|].
  split.
  - rewrite I1, andb_true_r. destruct x as [? ? [p|] ? [|] | | | | | | |]; simpl in *; auto; try discriminate; now rewrite Hc.
  - intros t. now rewrite I2.
Qed.

Lemma L_ext e e' : ext e e' -> L e -> L e'.
Proof.
  intros X (H1 & H2). pose proof X as (_ & (l & Tl & Fl & Ml) & _).
  destruct (quiet_log e l (cur c_none (trace e)) H2 Fl Ml) as [Q1 Q2]. split.
  - rewrite Tl, logok_app, H1, Q1. reflexivity.
  - intros t. rewrite Tl, cur_app, Q2, H2. symmetry. apply (ext_st _ _ t X).
Qed.
Lemma L_set_state site e i s : L e -> L (set_state site e i s).
Proof.
  intros (H1 & H2).
  destruct (Nat.lt_ge_cases i (length (tasks e))) as [Hlt | Hge]; [|rewrite (set_state_oob _ _ _ _ Hge); now split].
  split.
  - rewrite trace_set_state, logok_app, H1 by assumption. simpl. now rewrite H2, is_refl.
  - intros t. rewrite trace_set_state, cur_app by assumption. simpl.
    assert (E : st (set_state site e i s) t = if Nat.eqb t i then s else st e t).
    { unfold st. rewrite tk_set_state. apply Nat.ltb_lt in Hlt. rewrite Hlt, andb_true_r. destruct (Nat.eqb t i); reflexivity. }
    rewrite E. destruct (Nat.eqb t i); [reflexivity | apply H2].
Qed.
(* task edits that leave the state alone *)
Lemma L_tmod e i f : (forall x, t_state (f x) = t_state x) -> L e -> L (tmod e i f).
Proof.
  intros K (H1 & H2). split; [exact H1|]. intros t. cbn [trace tmod with_tasks]. rewrite H2.
  unfold st. rewrite tk_tmod. destruct (Nat.eqb t i && Nat.ltb i (length (tasks e))) eqn:E; [|reflexivity].
  apply andb_true_iff in E as [E _]. apply Nat.eqb_eq in E. subst. now rewrite K.
Qed.
(* an event that is neither a state write nor a message *)
Lemma L_add_ev e x : (match x with ETrans _ _ _ _ _ => false | EMsg _ _ _ _ => false | ENew _ _ _ _ _ => false | _ => true end) = true -> L e -> L (add_ev e x).
Proof.
  intros Hx (H1 & H2). split; cbn [trace add_ev with_trace].
  - rewrite logok_app, H1. simpl. destruct x; simpl in *; auto; discriminate.
  - intros t. rewrite cur_app. simpl. transitivity (cur c_none (trace e) t); [destruct x; simpl in *; auto; discriminate | rewrite H2; reflexivity].
Qed.

(* positions *)
Lemma logok_at c l1 x l2 : logok c (l1 ++ x :: l2) = true -> evok (cur c l1) x = true.
Proof. rewrite logok_app. simpl. intros H. apply andb_true_iff in H as [_ H]. now apply andb_true_iff in H as [H _]. Qed.
