From Coq Require Import List Arith ZArith Bool String.
Import ListNotations.
From Acts.Gen Require Import GenState GenReady.
From Acts.Model Require Import Engine.
From Acts.Proofs Require Import StatePred.

(* Task::is_ready: the model's branch release is the source's, read through the regenerated state predicates *)
Definition ready_of_source (e : eng) (i : nat) : bool * eng :=
  let n := tnode e i in
  match n_kind n with
  | KBranch =>
      let sib := siblings e i in
      if negb (Nat.eqb (List.length (n_needs n)) 0) then
        (existsb (fun j => state_pred ready_needs_pred (st e j) && existsb (Nat.eqb (n_id (tnode e j))) (n_needs n)) sib, e)
      else if n_else n then
        if forallb (fun j => state_pred ready_else_all (st e j)) sib then (true, e)
        else if existsb (fun j => existsb (fun p => state_pred p (st e j)) ready_else_any) sib
             then (false, set_state 9 e i ready_else_write)
             else (false, e)
      else (false, e)
  | _ => (true, e)
  end.
Lemma existsb_ext_l {A} (f g : A -> bool) l : (forall x, f x = g x) -> existsb f l = existsb g l.
Proof. intros H. induction l as [|x l IH]; [reflexivity|]. cbn [existsb]. now rewrite H, IH. Qed.
Lemma forallb_ext_l {A} (f g : A -> bool) l : (forall x, f x = g x) -> forallb f l = forallb g l.
Proof. intros H. induction l as [|x l IH]; [reflexivity|]. cbn [forallb]. now rewrite H, IH. Qed.
Lemma ready_match e i : is_ready e i = ready_of_source e i.
Proof.
  unfold is_ready, ready_of_source. cbv zeta. destruct (n_kind (tnode e i)); try reflexivity.
  destruct (negb (Nat.eqb (List.length (n_needs (tnode e i))) 0)).
  - reflexivity.
  - destruct (n_else (tnode e i)); [|reflexivity].
    rewrite (forallb_ext_l (fun j => is (st e j) SSkipped) (fun j => state_pred ready_else_all (st e j))) by (intros j; destruct (st e j); reflexivity).
    rewrite (existsb_ext_l (fun j => match st e j with SError | SCompleted | SAborted => true | _ => false end)
                           (fun j => existsb (fun p => state_pred p (st e j)) ready_else_any)) by (intros j; destruct (st e j); reflexivity).
    reflexivity.
Qed.
