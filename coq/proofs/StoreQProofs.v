From Coq Require Import List Arith ZArith Bool Lia Sorting.Permutation Sorting.Sorted.
Import ListNotations.
From Acts.Model Require Import StoreQ.

(* ---------- sets as lists ---------- *)
Lemma mem_spec x l : mem x l = true <-> In x l.
Proof. unfold mem; rewrite existsb_exists; split.
  - intros (y & Hy & E); apply Nat.eqb_eq in E; subst; auto.
  - intros H; exists x; split; auto; apply Nat.eqb_refl. Qed.
Lemma inter_spec x a b : In x (inter a b) <-> In x a /\ In x b.
Proof. unfold inter; rewrite filter_In, mem_spec; tauto. Qed.
Lemma union_spec x a b : In x (union a b) <-> In x a \/ In x b.
Proof. unfold union; rewrite in_app_iff, filter_In, negb_true_iff; split.
  - intros [H | [H _]]; auto.
  - intros [H | H]; auto. destruct (mem x a) eqn:E; [left; now apply mem_spec | right; auto]. Qed.

Definition keys (d : db) := map fst d.
(* record ids are unique (the collection is a map) *)
Definition wf_db (d : db) := NoDup (keys d).

Lemma ids_of_spec d e k :
  In k (ids_of d e) <-> exists r, In (k, r) d /\ sat_expr r e = true.
Proof.
  unfold ids_of; rewrite in_map_iff; split.
  - intros ((k', r) & E & H); simpl in E; subst. apply filter_In in H as [H1 H2]. eauto.
  - intros (r & H1 & H2). exists (k, r); split; auto. apply filter_In; auto.
Qed.

Lemma wf_unique d k r r' : wf_db d -> In (k, r) d -> In (k, r') d -> r = r'.
Proof.
  unfold wf_db, keys; induction d as [|(k0, r0) d IH]; simpl; intros W H1 H2; [tauto|].
  inversion W as [|? ? Hn W']; subst.
  destruct H1 as [E1 | H1], H2 as [E2 | H2].
  - congruence.
  - inversion E1; subst. exfalso; apply Hn. apply in_map_iff. exists (k, r'); auto.
  - inversion E2; subst. exfalso; apply Hn. apply in_map_iff. exists (k, r); auto.
  - auto.
Qed.

Lemma ids_of_row d e k r : wf_db d -> In (k, r) d -> (In k (ids_of d e) <-> sat_expr r e = true).
Proof.
  intros W Hk. rewrite ids_of_spec; split.
  - intros (r' & H1 & H2). now rewrite (wf_unique d k r r' W Hk H1).
  - eauto.
Qed.

Lemma cond_fold_and d k (es : list expr) acc :
  In k (fold_left (fun a e => cond_calc CAnd a (ids_of d e)) es acc)
  <-> In k acc /\ forall e, In e es -> In k (ids_of d e).
Proof.
  revert acc; induction es as [|e es IH]; intros acc; simpl.
  - split; [intros H; split; [exact H | intros e []] | intros [H _]; exact H].
  - rewrite IH, inter_spec. split.
    + intros [[H1 H2] H3]; split; auto. intros x [<- | Hx]; auto.
    + intros [H1 H2]; repeat split; auto.
Qed.
Lemma cond_fold_or d k (es : list expr) acc :
  In k (fold_left (fun a e => cond_calc COr a (ids_of d e)) es acc)
  <-> In k acc \/ exists e, In e es /\ In k (ids_of d e).
Proof.
  revert acc; induction es as [|e es IH]; intros acc; simpl.
  - split; [intros H; left; exact H | intros [H | (e & [] & _)]; exact H].
  - rewrite IH, union_spec. split.
    + intros [[H | H] | (x & Hx & H)]; [left; auto | right; exists e; auto | right; exists x; auto].
    + intros [H | (x & [<- | Hx] & H)]; [left; left; auto | left; right; auto | right; exists x; auto].
Qed.

Lemma cond_result_spec d c k r : wf_db d -> In (k, r) d -> live_cond c = true ->
  (In k (cond_result d c) <-> sat_cond r c = true).
Proof.
  intros W Hk Hl. unfold cond_result, sat_cond, live_cond in *.
  pose proof (fun e => ids_of_row d e k r W Hk) as Hid.
  destruct (c_exprs c) as [|e es]; [destruct (c_type c); [discriminate | simpl; split; [intros [] | discriminate]]|]. simpl.
  destruct (c_type c); simpl.
  - rewrite cond_fold_and, andb_true_iff, forallb_forall. rewrite Hid.
    split; intros [H1 H2]; split; auto; intros x Hx; apply Hid, H2, Hx.
  - rewrite cond_fold_or, orb_true_iff, existsb_exists. rewrite Hid.
    split; (intros [H | (x & Hx & H)]; [auto | right; exists x; split; auto; now apply Hid]).
Qed.

Lemma cond_result_in_db d c k : In k (cond_result d c) -> exists r, In (k, r) d.
Proof.
  unfold cond_result. destruct (c_exprs c) as [|e es]; [intros []|].
  destruct (c_type c).
  - rewrite cond_fold_and. intros [H _]. apply ids_of_spec in H as (r & H & _); eauto.
  - rewrite cond_fold_or. intros [H | (x & _ & H)]; apply ids_of_spec in H as (r & H & _); eauto.
Qed.

Lemma query_fold d k (cs : list cond) acc :
  In k (match fold_left (fun a c => match a with None => Some (cond_result d c)
                                              | Some a' => Some (inter a' (cond_result d c)) end) cs (Some acc)
        with Some l => l | None => [] end)
  <-> In k acc /\ forall c, In c cs -> In k (cond_result d c).
Proof.
  revert acc; induction cs as [|c cs IH]; intros acc; simpl.
  - split; [intros H; split; [exact H | intros c []] | intros [H _]; exact H].
  - rewrite IH, inter_spec. split.
    + intros [[H1 H2] H3]; split; auto. intros x [<- | Hx]; auto.
    + intros [H1 H2]; repeat split; auto.
Qed.

Lemma is_cond_filter cs : is_cond cs = true <-> filter live_cond cs <> [].
Proof.
  unfold is_cond. induction cs as [|c cs IH]; simpl; [split; [discriminate | congruence]|].
  destruct (live_cond c); simpl; [split; [discriminate | reflexivity] | exact IH].
Qed.

Lemma sat_dead r c : live_cond c = false -> sat_cond r c = true.
Proof. unfold live_cond, sat_cond. destruct (c_exprs c), (c_type c); simpl; auto; discriminate. Qed.
Lemma sat_query_live r cs : sat_query r cs = forallb (sat_cond r) (filter live_cond cs).
Proof.
  unfold sat_query; induction cs as [|c cs IH]; simpl; auto.
  destruct (live_cond c) eqn:E; simpl; rewrite IH; auto. now rewrite (sat_dead r c E).
Qed.

(* an existing id is selected iff its document satisfies the filter *)
Lemma query_calc_spec d cs k r : wf_db d -> is_cond cs = true -> In (k, r) d ->
  (In k (query_calc d cs) <-> sat_query r cs = true).
Proof.
  intros W Hc Hk. rewrite sat_query_live. unfold query_calc.
  apply is_cond_filter in Hc.
  assert (Hl : forall c, In c (filter live_cond cs) -> live_cond c = true) by (intros c H; now apply filter_In in H).
  destruct (filter live_cond cs) as [|c l]; [congruence|]. simpl.
  rewrite query_fold, andb_true_iff, forallb_forall.
  rewrite (cond_result_spec d c k r W Hk) by (apply Hl; simpl; auto).
  split; intros [H1 H2]; split; auto; intros x Hx.
  - apply (cond_result_spec d x k r W Hk); [apply Hl; simpl; auto | apply H2, Hx].
  - apply (cond_result_spec d x k r W Hk); [apply Hl; simpl; auto | apply H2, Hx].
Qed.

Lemma sat_query_no_cond r cs : is_cond cs = false -> sat_query r cs = true.
Proof.
  rewrite sat_query_live; intros H. assert (E : filter live_cond cs = []).
  { destruct (filter live_cond cs) eqn:F; auto.
    assert (is_cond cs = true) by (apply is_cond_filter; congruence). congruence. }
  now rewrite E.
Qed.

(* the rows the memory store selects are exactly the rows satisfying the filter, in id order *)
Theorem select_is_filter d cs : wf_db d ->
  select d cs = filter (fun kr => sat_query (snd kr) cs) d.
Proof.
  intros W. unfold select. destruct (is_cond cs) eqn:Hc.
  - apply filter_ext_in. intros (k, r) Hk; simpl.
    destruct (mem k (query_calc d cs)) eqn:Em, (sat_query r cs) eqn:Es; auto.
    + apply mem_spec in Em. apply (query_calc_spec d cs k r W Hc Hk) in Em. congruence.
    + apply (query_calc_spec d cs k r W Hc Hk), mem_spec in Es. congruence.
  - symmetry. rewrite <- (filter_ext_in (fun _ => true)).
    + induction d as [|x d IH]; simpl; auto. f_equal. apply IH. now inversion W.
    + intros (k, r) _; simpl. now rewrite sat_query_no_cond.
Qed.

Corollary select_spec d cs k r : wf_db d ->
  (In (k, r) (select d cs) <-> In (k, r) d /\ sat_query r cs = true).
Proof. intros W. rewrite select_is_filter by assumption. rewrite filter_In; simpl; tauto. Qed.

(* ---------- ordering ---------- *)
Lemma jv_cmp_antisym a b : jv_cmp b a = CompOpp (jv_cmp a b).
Proof.
  destruct a as [|[]|x|x], b as [|[]|y|y]; simpl; auto.
  - apply Z.compare_antisym.
  - apply Nat.compare_antisym.
Qed.
Lemma row_cmp_antisym ord a b : row_cmp ord b a = CompOpp (row_cmp ord a b).
Proof.
  induction ord as [|(k, rev) t IH]; simpl; auto.
  destruct rev.
  - rewrite (jv_cmp_antisym (fget b k) (fget a k)).
    destruct (jv_cmp (fget b k) (fget a k)); simpl; auto.
  - rewrite (jv_cmp_antisym (fget a k) (fget b k)).
    destruct (jv_cmp (fget a k) (fget b k)); simpl; auto.
Qed.

Definition le_rows ord (x y : nat * row) : Prop := row_cmp ord (snd x) (snd y) <> Gt.

Lemma insert_sorted_perm ord x l : Permutation (x :: l) (insert_sorted ord x l).
Proof.
  induction l as [|y t IH]; simpl; auto.
  destruct (row_cmp ord (snd x) (snd y)); auto.
  eapply perm_trans; [apply perm_swap|]. now apply perm_skip.
Qed.
Lemma sort_rows_perm ord l : Permutation l (sort_rows ord l).
Proof.
  induction l as [|x l IH]; simpl; auto.
  eapply perm_trans; [apply perm_skip, IH | apply insert_sorted_perm].
Qed.

Lemma insert_sorted_hd ord x l z : HdRel (le_rows ord) z l -> le_rows ord z x -> HdRel (le_rows ord) z (insert_sorted ord x l).
Proof.
  destruct l as [|y t]; simpl; intros H Hx; [constructor; auto|].
  destruct (row_cmp ord (snd x) (snd y)); constructor; auto; now inversion H.
Qed.
Lemma insert_sorted_sorted ord x l : Sorted (le_rows ord) l -> Sorted (le_rows ord) (insert_sorted ord x l).
Proof.
  induction l as [|y t IH]; simpl; intros S; [repeat constructor|].
  inversion S as [|? ? S' Hd]; subst.
  destruct (row_cmp ord (snd x) (snd y)) eqn:E.
  - constructor; auto. constructor. unfold le_rows; rewrite E; discriminate.
  - constructor; auto. constructor. unfold le_rows; rewrite E; discriminate.
  - constructor; [apply IH; auto|]. apply insert_sorted_hd; auto.
    unfold le_rows. rewrite row_cmp_antisym, E. discriminate.
Qed.
Theorem sort_rows_sorted ord l : Sorted (le_rows ord) (sort_rows ord l).
Proof. induction l as [|x l IH]; simpl; [constructor | now apply insert_sorted_sorted]. Qed.

(* numbers are ordered numerically *)
Lemma le_rows_num k x y a b :
  fget (snd x) k = JNum a -> fget (snd y) k = JNum b ->
  (le_rows [(k, false)] x y <-> (a <= b)%Z) /\ (le_rows [(k, true)] x y <-> (b <= a)%Z).
Proof.
  intros Ha Hb; unfold le_rows; simpl; rewrite Ha, Hb; simpl.
  split; (destruct (Z.compare_spec a b), (Z.compare_spec b a); split; intros; try lia; try discriminate; try congruence).
Qed.

(* ---------- the whole query ---------- *)
Theorem run_query_spec d q : wf_db d ->
  let sel := filter (fun kr => sat_query (snd kr) (q_conds q)) d in
  let p := run_query d q in
  p_count p = length sel /\
  p_page_size p = q_limit q /\
  (exists all, Permutation sel all /\ (q_order q <> [] -> Sorted (le_rows (q_order q)) all) /\
               (q_order q = [] -> all = sel) /\
               p_rows p = firstn (q_limit q) (skipn (q_offset q) all)).
Proof.
  intros W sel p. unfold p, run_query. rewrite select_is_filter by assumption. fold sel.
  destruct (q_order q) as [|o os] eqn:Eo; simpl.
  - repeat split; auto. exists sel. repeat split; auto. congruence.
  - split; [|split; auto].
    + symmetry. apply Permutation_length, sort_rows_perm.
    + exists (sort_rows (o :: os) sel). repeat split.
      * apply sort_rows_perm.
      * intros _. apply sort_rows_sorted.
      * discriminate.
Qed.

(* ---------- create / find / update / delete ---------- *)
Fixpoint sorted_keys (d : db) : Prop :=
  match d with
  | [] => True
  | (k, _) :: t => (forall k', In k' (keys t) -> k < k') /\ sorted_keys t
  end.
Lemma sorted_wf d : sorted_keys d -> wf_db d.
Proof.
  unfold wf_db; induction d as [|(k, r) t IH]; simpl; intros H; [constructor|].
  destruct H as [H1 H2]. constructor; auto. intros Hin. specialize (H1 k Hin). lia.
Qed.
Lemma keys_insert d k r x : In x (keys (db_insert d k r)) <-> x = k \/ In x (keys d).
Proof.
  unfold keys; induction d as [|(k', r') t IH]; simpl; [intuition|].
  destruct (Nat.ltb_spec k k'); simpl; [intuition|].
  destruct (Nat.eqb_spec k k'); simpl; [subst; intuition|]. rewrite IH. intuition.
Qed.
Lemma sorted_insert d k r : sorted_keys d -> sorted_keys (db_insert d k r).
Proof.
  induction d as [|(k', r') t IH]; simpl; intros H; [split; [intros ? []|auto]|].
  destruct H as [H1 H2].
  destruct (Nat.ltb_spec k k'); simpl.
  - split; [|split; auto]. intros x [<- | Hx]; auto. specialize (H1 x Hx). lia.
  - destruct (Nat.eqb_spec k k'); simpl; [subst; split; auto|].
    split; [|auto]. intros x Hx. apply keys_insert in Hx as [-> | Hx]; [lia | auto].
Qed.
Lemma find_insert_same d k r : db_find (db_insert d k r) k = Some r.
Proof.
  induction d as [|(k', r') t IH]; simpl; [now rewrite Nat.eqb_refl|].
  destruct (Nat.ltb_spec k k'); simpl; [now rewrite Nat.eqb_refl|].
  destruct (Nat.eqb_spec k k'); simpl; [now rewrite Nat.eqb_refl|].
  destruct (Nat.eqb_spec k k'); [contradiction | exact IH].
Qed.
Lemma find_insert_other d k r j : j <> k -> db_find (db_insert d k r) j = db_find d j.
Proof.
  intros Hne. induction d as [|(k', r') t IH]; simpl.
  - destruct (Nat.eqb_spec j k); [contradiction | reflexivity].
  - destruct (Nat.ltb_spec k k'); simpl.
    + destruct (Nat.eqb_spec j k); [contradiction | reflexivity].
    + destruct (Nat.eqb_spec k k'); simpl.
      * subst. destruct (Nat.eqb_spec j k'); [contradiction | reflexivity].
      * destruct (Nat.eqb_spec j k'); auto.
Qed.
Lemma find_update_same d k r : db_find d k <> None -> db_find (db_update d k r) k = Some r.
Proof.
  unfold db_update; induction d as [|(k', r') t IH]; simpl; [congruence|].
  destruct (Nat.eqb_spec k' k); simpl.
  - subst. now rewrite Nat.eqb_refl.
  - destruct (Nat.eqb_spec k k'); [congruence | exact IH].
Qed.
Lemma find_update_other d k r j : j <> k -> db_find (db_update d k r) j = db_find d j.
Proof.
  intros Hne; unfold db_update; induction d as [|(k', r') t IH]; simpl; auto.
  destruct (Nat.eqb_spec k' k); simpl.
  - subst. destruct (Nat.eqb_spec j k); [contradiction|]. exact IH.
  - destruct (Nat.eqb_spec j k'); auto.
Qed.
Lemma keys_update d k r : keys (db_update d k r) = keys d.
Proof.
  unfold keys, db_update. rewrite map_map. apply map_ext_in. intros (k', r') _; simpl.
  destruct (Nat.eqb_spec k' k); simpl; auto.
Qed.
Lemma find_delete_same d k : db_find (db_delete d k) k = None.
Proof.
  unfold db_delete; induction d as [|(k', r') t IH]; simpl; auto.
  destruct (Nat.eqb_spec k' k); simpl; auto.
  destruct (Nat.eqb_spec k k'); [congruence | exact IH].
Qed.
Lemma find_delete_other d k j : j <> k -> db_find (db_delete d k) j = db_find d j.
Proof.
  intros Hne; unfold db_delete; induction d as [|(k', r') t IH]; simpl; auto.
  destruct (Nat.eqb_spec k' k); simpl.
  - subst. destruct (Nat.eqb_spec j k); [contradiction | exact IH].
  - destruct (Nat.eqb_spec j k'); auto.
Qed.
Lemma sorted_keys_ext d d' : keys d' = keys d -> sorted_keys d -> sorted_keys d'.
Proof.
  revert d'; induction d as [|(k, r) t IH]; intros [|(k', r') t']; simpl; try discriminate; auto.
  intros E [H1 H2]. inversion E; subst. split; [now rewrite H0 in * || (intros x Hx; apply H1; congruence)|].
  apply IH; auto.
Qed.
Lemma sorted_delete d k : sorted_keys d -> sorted_keys (db_delete d k).
Proof.
  unfold db_delete; induction d as [|(k', r') t IH]; simpl; auto.
  intros [H1 H2]. destruct (Nat.eqb k' k); simpl; auto.
  split; auto. intros x Hx. apply H1. unfold keys in *. apply in_map_iff in Hx as (y & E & Hy).
  apply filter_In in Hy as [Hy _]. apply in_map_iff; eauto.
Qed.

(* every reachable collection is a map ordered by id *)
Theorem srun_sorted ops d : sorted_keys d -> sorted_keys (fst (srun d ops)).
Proof.
  revert d; induction ops as [|o ops IH]; intros d H; simpl; auto.
  destruct (sstep d o) as [d1 r] eqn:E1. destruct (srun d1 ops) as [d2 rs] eqn:E2. simpl.
  change d2 with (fst (d2, rs)); rewrite <- E2. apply IH.
  destruct o; simpl in E1; try (inversion E1; subst; auto using sorted_insert, sorted_delete; fail).
  - destruct (has d k); inversion E1; subst; auto using sorted_insert.
  - inversion E1; subst. eapply sorted_keys_ext; [apply keys_update | exact H].
Qed.
