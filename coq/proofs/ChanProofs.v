From Coq Require Import List Arith Bool Lia.
Import ListNotations.
From Acts.Model Require Import Chan.

(* `*` alone matches every string *)
Lemma star_matches s : forall fuel, length s + 2 <= fuel -> gmatch fuel [GStar] s = true.
Proof.
  induction s as [|x s IH]; intros fuel H.
  - destruct fuel as [|[|fuel]]; simpl in *; try lia; auto.
  - destruct fuel as [|fuel]; simpl in *; [lia|].
    rewrite IH by lia. now rewrite orb_true_r.
Qed.
Lemma glob_star s : glob [GStar] s = true.
Proof. unfold glob. apply star_matches. simpl. lia. Qed.
(* a channel with default options receives everything *)
Theorem default_matches_all m : is_match default_opts m = true.
Proof. unfold is_match, default_opts; simpl. now rewrite !glob_star. Qed.

Definition ids (e : emitter) := map fst e.
Lemma ids_register e id o x : In x (ids (register e id o)) <-> x = id \/ In x (ids e).
Proof.
  induction e as [|(id', o') r IH]; simpl; [intuition|].
  destruct (Nat.eqb_spec id id'); simpl; [subst; intuition|]. rewrite IH. intuition.
Qed.
Lemma register_nodup e id o : NoDup (ids e) -> NoDup (ids (register e id o)).
Proof.
  induction e as [|(id', o') r IH]; simpl; intros H; [constructor; [intros []|constructor]|].
  inversion H; subst. destruct (Nat.eqb_spec id id'); simpl.
  - subst. constructor; auto.
  - constructor; auto. intros Hin. apply ids_register in Hin as [-> | Hin]; auto.
Qed.
Lemma remove_nodup e id : NoDup (ids e) -> NoDup (ids (remove e id)).
Proof.
  unfold remove, ids. induction e as [|(id', o') r IH]; simpl; intros H; [constructor|].
  inversion H; subst. destruct (Nat.eqb id' id); simpl; auto. constructor; auto.
  intros Hin. apply H2. apply in_map_iff in Hin as (y & E & Hy). apply filter_In in Hy as [Hy _]. apply in_map_iff; eauto.
Qed.
(* every reachable emitter holds at most one handler per channel id *)
Theorem reachable_nodup ops e : NoDup (ids e) -> NoDup (ids (fst (crun e ops))).
Proof.
  revert e; induction ops as [|o ops IH]; intros e H; simpl; auto.
  destruct (cstep e o) as [e1 d] eqn:E1. destruct (crun e1 ops) as [e2 ds] eqn:E2. simpl.
  change e2 with (fst (e2, ds)); rewrite <- E2. apply IH.
  destruct o; simpl in E1; inversion E1; subst; auto using register_nodup, remove_nodup.
Qed.

Fixpoint lookup (e : emitter) (id : nat) : option copts :=
  match e with [] => None | (id', o) :: r => if Nat.eqb id id' then Some o else lookup r id end.
Lemma lookup_register_same e id o : lookup (register e id o) id = Some o.
Proof.
  induction e as [|(id', o') r IH]; simpl; [now rewrite Nat.eqb_refl|].
  destruct (Nat.eqb_spec id id'); simpl; [now rewrite Nat.eqb_refl|].
  destruct (Nat.eqb_spec id id'); [contradiction | exact IH].
Qed.
Lemma lookup_register_other e id o j : j <> id -> lookup (register e id o) j = lookup e j.
Proof.
  intros Hne. induction e as [|(id', o') r IH]; simpl.
  - destruct (Nat.eqb_spec j id); [contradiction | reflexivity].
  - destruct (Nat.eqb_spec id id'); simpl.
    + subst. destruct (Nat.eqb_spec j id'); [contradiction | reflexivity].
    + destruct (Nat.eqb_spec j id'); auto.
Qed.
Lemma lookup_remove_same e id : lookup (remove e id) id = None.
Proof.
  unfold remove. induction e as [|(id', o') r IH]; simpl; auto.
  destruct (Nat.eqb_spec id' id); simpl; auto. destruct (Nat.eqb_spec id id'); [congruence | exact IH].
Qed.
Lemma lookup_remove_other e id j : j <> id -> lookup (remove e id) j = lookup e j.
Proof.
  intros Hne. unfold remove. induction e as [|(id', o') r IH]; simpl; auto.
  destruct (Nat.eqb_spec id' id); simpl.
  - subst. destruct (Nat.eqb_spec j id); [contradiction | exact IH].
  - destruct (Nat.eqb_spec j id'); auto.
Qed.

(* a channel's handler is invoked for a message iff the channel is registered and its patterns match *)
Theorem dispatch_iff e m id : NoDup (ids e) ->
  (In id (dispatch e m) <-> exists o, lookup e id = Some o /\ is_match o m = true).
Proof.
  unfold dispatch. induction e as [|(id', o') r IH]; simpl; intros Hn.
  - split; [intros [] | intros (o & H & _); discriminate].
  - inversion Hn as [|? ? Hni Hn']; subst. destruct (is_match o' m) eqn:Em; simpl.
    + split.
      * intros [<- | Hin]; [exists o'; now rewrite Nat.eqb_refl|].
        apply IH in Hin as (o & Hl & Hm); auto. exists o. destruct (Nat.eqb_spec id id'); [|auto].
        subst. exfalso. apply Hni. clear - Hl. induction r as [|(a, b) r IHr]; simpl in *; [discriminate|].
        destruct (Nat.eqb_spec id' a); [left; auto | right; auto].
      * intros (o & Hl & Hm). destruct (Nat.eqb_spec id id'); [left; auto | right; apply IH; eauto].
    + split.
      * intros Hin. apply IH in Hin as (o & Hl & Hm); auto. exists o. destruct (Nat.eqb_spec id id'); [|auto].
        subst. exfalso. apply Hni. clear - Hl. induction r as [|(a, b) r IHr]; simpl in *; [discriminate|].
        destruct (Nat.eqb_spec id' a); [left; auto | right; auto].
      * intros (o & Hl & Hm). destruct (Nat.eqb_spec id id'); [inversion Hl; subst; congruence | apply IH; eauto].
Qed.
(* nothing is delivered twice to one channel *)
Theorem dispatch_nodup e m : NoDup (ids e) -> NoDup (dispatch e m).
Proof.
  unfold dispatch, ids. induction e as [|(id', o') r IH]; simpl; intros Hn; [constructor|].
  inversion Hn; subst. destruct (is_match o' m); simpl; auto. constructor; auto.
  intros Hin. apply H1. apply in_map_iff in Hin as (y & E & Hy). apply filter_In in Hy as [Hy _]. apply in_map_iff; eauto.
Qed.

Theorem invoked_iff ops m id : let e := fst (crun [] ops) in
  In id (dispatch e m) <-> exists o, lookup e id = Some o /\ is_match o m = true.
Proof. intros e. apply dispatch_iff. apply (reachable_nodup ops []). constructor. Qed.
Theorem no_duplicate_delivery ops m : NoDup (dispatch (fst (crun [] ops)) m).
Proof. apply dispatch_nodup. apply (reachable_nodup ops []). constructor. Qed.

(* ---------- the four handler families ---------- *)
Definition hub_ok (h : hub) : Prop := forall k, NoDup (ids (hget h k)).
Lemma hget_hset_same h k v : hget (hset h k v) k = v. Proof. destruct k; reflexivity. Qed.
Lemma hget_hset_other h k k' v : k' <> k -> hget (hset h k v) k' = hget h k'.
Proof. destruct k, k'; simpl; intros H; try reflexivity; contradiction. Qed.
Lemma hget_hremove h id k : hget (hremove h id) k = remove (hget h k) id. Proof. destruct k; reflexivity. Qed.
Lemma hkind_dec (a b : hkind) : {a = b} + {a <> b}. Proof. decide equality. Qed.
Lemma hstep_ok h o : hub_ok h -> hub_ok (fst (hstep h o)).
Proof.
  intros H. destruct o as [k id opts | id | k m]; simpl; auto.
  - intros k'. destruct (hkind_dec k' k) as [-> | Hne]; [rewrite hget_hset_same; now apply register_nodup | rewrite hget_hset_other; auto].
  - intros k. rewrite hget_hremove. now apply remove_nodup.
Qed.
Theorem hub_reachable_ok ops : forall h, hub_ok h -> hub_ok (fst (hrun h ops)).
Proof.
  induction ops as [|o ops IH]; intros h H; simpl; auto.
  destruct (hstep h o) as [h1 d] eqn:E1. destruct (hrun h1 ops) as [h2 ds] eqn:E2. simpl.
  change h2 with (fst (h2, ds)); rewrite <- E2. apply IH. change h1 with (fst (h1, d)); rewrite <- E1. now apply hstep_ok.
Qed.
Lemma hub0_ok : hub_ok hub0. Proof. intros k; destruct k; constructor. Qed.
(* in every family: invoked iff registered in that family and matching; never twice *)
Theorem hub_invoked_iff ops k m id : let h := fst (hrun hub0 ops) in
  In id (dispatch (hget h k) m) <-> exists o, lookup (hget h k) id = Some o /\ is_match o m = true.
Proof. intros h. apply dispatch_iff. apply (hub_reachable_ok ops hub0 hub0_ok). Qed.
Theorem hub_no_duplicate ops k m : NoDup (dispatch (hget (fst (hrun hub0 ops)) k) m).
Proof. apply dispatch_nodup. apply (hub_reachable_ok ops hub0 hub0_ok). Qed.
(* closing a channel removes it from every family, and touches no other channel in any family *)
Theorem hub_close_removes h id k : lookup (hget (hremove h id) k) id = None.
Proof. rewrite hget_hremove. apply lookup_remove_same. Qed.
Theorem hub_close_frame h id j k : j <> id -> lookup (hget (hremove h id) k) j = lookup (hget h k) j.
Proof. intros H. rewrite hget_hremove. now apply lookup_remove_other. Qed.
(* so after a close no event of any kind reaches the channel, whatever was registered for it *)
Theorem hub_closed_is_silent h id k m : hub_ok h -> ~ In id (dispatch (hget (hremove h id) k) m).
Proof.
  intros H Hin. assert (Hok : NoDup (ids (hget (hremove h id) k))) by (rewrite hget_hremove; apply remove_nodup, H).
  apply (dispatch_iff _ m id Hok) in Hin as (o & Hl & _). rewrite hub_close_removes in Hl. discriminate.
Qed.
(* registering a handler of one kind leaves the handlers of the other kinds alone *)
Theorem hub_register_other_kinds h k id o k' : k' <> k -> hget (fst (hstep h (HOn k id o))) k' = hget h k'.
Proof. intros H. simpl. now apply hget_hset_other. Qed.
