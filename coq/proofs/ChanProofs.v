From Coq Require Import List Arith Bool Lia.
Import ListNotations.
From Acts.Model Require Import Chan.

(* `*` alone matches every string *)
Lemma star_matches s : forall fuel, length s + 2 <= fuel -> gmatch fuel [GStar] s = true.
Proof.
  induction s as [|x s IH]; intros fuel H.
  - destruct fuel as [|[|fuel]]; simpl in *; try lia; auto.
  - destruct fuel as [|fuel]; simpl in *; [lia|].
    rewrite IH by lia. now rewrite orb_true_r.
Qed.
Lemma glob_star s : glob [GStar] s = true.
Proof. unfold glob. apply star_matches. simpl. lia. Qed.
(* a channel with default options receives everything *)
Theorem default_matches_all m : is_match default_opts m = true.
Proof. unfold is_match, default_opts; simpl. now rewrite !glob_star. Qed.

Definition ids (e : emitter) := map fst e.
Lemma ids_register e id o x : In x (ids (register e id o)) <-> x = id \/ In x (ids e).
Proof.
  induction e as [|(id', o') r IH]; simpl; [intuition|].
  destruct (Nat.eqb_spec id id'); simpl; [subst; intuition|]. rewrite IH. intuition.
Qed.
Lemma register_nodup e id o : NoDup (ids e) -> NoDup (ids (register e id o)).
Proof.
  induction e as [|(id', o') r IH]; simpl; intros H; [constructor; [intros []|constructor]|].
  inversion H; subst. destruct (Nat.eqb_spec id id'); simpl.
  - subst. constructor; auto.
  - constructor; auto. intros Hin. apply ids_register in Hin as [-> | Hin]; auto.
Qed.
Lemma remove_nodup e id : NoDup (ids e) -> NoDup (ids (remove e id)).
Proof.
  unfold remove, ids. induction e as [|(id', o') r IH]; simpl; intros H; [constructor|].
  inversion H; subst. destruct (Nat.eqb id' id); simpl; auto. constructor; auto.
  intros Hin. apply H2. apply in_map_iff in Hin as (y & E & Hy). apply filter_In in Hy as [Hy _]. apply in_map_iff; eauto.
Qed.
(* every reachable emitter holds at most one handler per channel id *)
Theorem reachable_nodup ops e : NoDup (ids e) -> NoDup (ids (fst (crun e ops))).
Proof.
  revert e; induction ops as [|o ops IH]; intros e H; simpl; auto.
  destruct (cstep e o) as [e1 d] eqn:E1. destruct (crun e1 ops) as [e2 ds] eqn:E2. simpl.
  change e2 with (fst (e2, ds)); rewrite <- E2. apply IH.
  destruct o; simpl in E1; inversion E1; subst; auto using register_nodup, remove_nodup.
Qed.

Fixpoint lookup (e : emitter) (id : nat) : option copts :=
  match e with [] => None | (id', o) :: r => if Nat.eqb id id' then Some o else lookup r id end.
Lemma lookup_register_same e id o : lookup (register e id o) id = Some o.
Proof.
  induction e as [|(id', o') r IH]; simpl; [now rewrite Nat.eqb_refl|].
  destruct (Nat.eqb_spec id id'); simpl; [now rewrite Nat.eqb_refl|].
  destruct (Nat.eqb_spec id id'); [contradiction | exact IH].
Qed.
Lemma lookup_register_other e id o j : j <> id -> lookup (register e id o) j = lookup e j.
Proof.
  intros Hne. induction e as [|(id', o') r IH]; simpl.
  - destruct (Nat.eqb_spec j id); [contradiction | reflexivity].
  - destruct (Nat.eqb_spec id id'); simpl.
    + subst. destruct (Nat.eqb_spec j id'); [contradiction | reflexivity].
    + destruct (Nat.eqb_spec j id'); auto.
Qed.
Lemma lookup_remove_same e id : lookup (remove e id) id = None.
Proof.
  unfold remove. induction e as [|(id', o') r IH]; simpl; auto.
  destruct (Nat.eqb_spec id' id); simpl; auto. destruct (Nat.eqb_spec id id'); [congruence | exact IH].
Qed.
Lemma lookup_remove_other e id j : j <> id -> lookup (remove e id) j = lookup e j.
Proof.
  intros Hne. unfold remove. induction e as [|(id', o') r IH]; simpl; auto.
  destruct (Nat.eqb_spec id' id); simpl.
  - subst. destruct (Nat.eqb_spec j id); [contradiction | exact IH].
  - destruct (Nat.eqb_spec j id'); auto.
Qed.

(* a channel's handler is invoked for a message iff the channel is registered and its patterns match *)
Theorem dispatch_iff e m id : NoDup (ids e) ->
  (In id (dispatch e m) <-> exists o, lookup e id = Some o /\ is_match o m = true).
Proof.
  unfold dispatch. induction e as [|(id', o') r IH]; simpl; intros Hn.
  - split; [intros [] | intros (o & H & _); discriminate].
  - inversion Hn as [|? ? Hni Hn']; subst. destruct (is_match o' m) eqn:Em; simpl.
    + split.
      * intros [<- | Hin]; [exists o'; now rewrite Nat.eqb_refl|].
        apply IH in Hin as (o & Hl & Hm); auto. exists o. destruct (Nat.eqb_spec id id'); [|auto].
        subst. exfalso. apply Hni. clear - Hl. induction r as [|(a, b) r IHr]; simpl in *; [discriminate|].
        destruct (Nat.eqb_spec id' a); [left; auto | right; auto].
      * intros (o & Hl & Hm). destruct (Nat.eqb_spec id id'); [left; auto | right; apply IH; eauto].
    + split.
      * intros Hin. apply IH in Hin as (o & Hl & Hm); auto. exists o. destruct (Nat.eqb_spec id id'); [|auto].
        subst. exfalso. apply Hni. clear - Hl. induction r as [|(a, b) r IHr]; simpl in *; [discriminate|].
        destruct (Nat.eqb_spec id' a); [left; auto | right; auto].
      * intros (o & Hl & Hm). destruct (Nat.eqb_spec id id'); [inversion Hl; subst; congruence | apply IH; eauto].
Qed.
(* nothing is delivered twice to one channel *)
Theorem dispatch_nodup e m : NoDup (ids e) -> NoDup (dispatch e m).
Proof.
  unfold dispatch, ids. induction e as [|(id', o') r IH]; simpl; intros Hn; [constructor|].
  inversion Hn; subst. destruct (is_match o' m); simpl; auto. constructor; auto.
  intros Hin. apply H1. apply in_map_iff in Hin as (y & E & Hy). apply filter_In in Hy as [Hy _]. apply in_map_iff; eauto.
Qed.

Theorem invoked_iff ops m id : let e := fst (crun [] ops) in
  In id (dispatch e m) <-> exists o, lookup e id = Some o /\ is_match o m = true.
Proof. intros e. apply dispatch_iff. apply (reachable_nodup ops []). constructor. Qed.
Theorem no_duplicate_delivery ops m : NoDup (dispatch (fst (crun [] ops)) m).
Proof. apply dispatch_nodup. apply (reachable_nodup ops []). constructor. Qed.
