#!/usr/bin/env python3
"""Applies the cfg(acts_verif) hooks to a checkout of yaojianpin/acts (add-only).
Kept for reference: the hooks live in /repo as their own commit."""
import sys
root = sys.argv[1]
def sub(path, old, new, count=1):
    p = root + '/' + path
    s = open(p).read()
    assert old in s, (path, old[:60])
    assert s.count(old) >= count
    s = s.replace(old, new, count)
    open(p, 'w').write(s)

open(root + '/acts/src/verif.rs', 'w').write(r'''//! verification hooks, compiled only with `--cfg acts_verif`
//!
//! nothing in here changes the behaviour of the engine unless one of the
//! switches (virtual clock, scheduler gate, manual tick) is turned on by the
//! verification harness.
use std::sync::Mutex;
use std::sync::atomic::{AtomicBool, AtomicI64, Ordering};

// ---- in-flight counter: queued signals, spawned dispatches, launches ----
static INFLIGHT: AtomicI64 = AtomicI64::new(0);
pub fn inc() {
    INFLIGHT.fetch_add(1, Ordering::SeqCst);
}
pub fn dec() {
    INFLIGHT.fetch_sub(1, Ordering::SeqCst);
}
pub fn inflight() -> i64 {
    INFLIGHT.load(Ordering::SeqCst)
}
/// counts one unit of in-flight work from creation until drop
pub struct InFlight;
impl InFlight {
    #[allow(clippy::new_without_default)]
    pub fn new() -> Self {
        inc();
        InFlight
    }
}
impl Drop for InFlight {
    fn drop(&mut self) {
        dec();
    }
}

// ---- trace log ----
static LOG_ON: AtomicBool = AtomicBool::new(false);
static LOG: Mutex<Vec<String>> = Mutex::new(Vec::new());
pub fn log_enable(on: bool) {
    LOG_ON.store(on, Ordering::SeqCst);
}
pub fn log_on() -> bool {
    LOG_ON.load(Ordering::SeqCst)
}
pub fn log(s: String) {
    if log_on() {
        LOG.lock().unwrap().push(s);
    }
}
pub fn take_log() -> Vec<String> {
    std::mem::take(&mut *LOG.lock().unwrap())
}

// ---- virtual clock: when enabled, time_millis() returns VCLOCK and every
//      Task::set_state advances it by one ----
static VENABLED: AtomicBool = AtomicBool::new(false);
static VCLOCK: AtomicI64 = AtomicI64::new(0);
pub fn clock_enable(start: i64) {
    VCLOCK.store(start, Ordering::SeqCst);
    VENABLED.store(true, Ordering::SeqCst);
}
pub fn clock_disable() {
    VENABLED.store(false, Ordering::SeqCst);
}
pub fn clock_now() -> Option<i64> {
    if VENABLED.load(Ordering::SeqCst) {
        Some(VCLOCK.load(Ordering::SeqCst))
    } else {
        None
    }
}
pub fn clock_advance(ms: i64) {
    VCLOCK.fetch_add(ms, Ordering::SeqCst);
}
pub fn clock_bump() {
    if VENABLED.load(Ordering::SeqCst) {
        VCLOCK.fetch_add(1, Ordering::SeqCst);
    }
}

// ---- manual tick: the interval loop stops emitting ticks ----
static MANUAL_TICK: AtomicBool = AtomicBool::new(false);
pub fn manual_tick(on: bool) {
    MANUAL_TICK.store(on, Ordering::SeqCst);
}
pub fn is_manual_tick() -> bool {
    MANUAL_TICK.load(Ordering::SeqCst)
}

// ---- scheduler gate: while closed the scheduler loop does not pop ----
static GATE_CLOSED: AtomicBool = AtomicBool::new(false);
pub fn gate_close() {
    GATE_CLOSED.store(true, Ordering::SeqCst);
}
pub fn gate_open() {
    GATE_CLOSED.store(false, Ordering::SeqCst);
}
pub async fn gate_wait() {
    while GATE_CLOSED.load(Ordering::SeqCst) {
        tokio::time::sleep(std::time::Duration::from_micros(50)).await;
    }
}
''')

sub('acts/src/lib.rs', 'mod utils;\n', 'mod utils;\n#[cfg(acts_verif)]\npub mod verif;\n')
sub('acts/Cargo.toml', '[features]\ndefault = []\n',
    '[features]\ndefault = []\n\n[lints.rust]\nunexpected_cfgs = { level = "warn", check-cfg = [\'cfg(acts_verif)\'] }\n')

# queue: one unit per queued signal
sub('acts/src/scheduler/queue/queue.rs', '        let sig = sig.clone();\n',
    '        let sig = sig.clone();\n        #[cfg(acts_verif)]\n        crate::verif::inc();\n')
# scheduler: gate, pop log, unit released when the popped signal has been handled
sub('acts/src/scheduler/scheduler.rs',
    '    pub async fn next(self: &Arc<Self>) -> bool {\n        if let Some(signal) = self.queue.next().await {\n',
    '    pub async fn next(self: &Arc<Self>) -> bool {\n        #[cfg(acts_verif)]\n        crate::verif::gate_wait().await;\n'
    '        if let Some(signal) = self.queue.next().await {\n            #[cfg(acts_verif)]\n            crate::verif::gate_wait().await;\n')
sub('acts/src/scheduler/scheduler.rs', '                Signal::Task(task) => {\n',
    '                Signal::Task(task) => {\n                    #[cfg(acts_verif)]\n                    let _verif_unit = crate::verif::InFlight;\n'
    '                    #[cfg(acts_verif)]\n                    crate::verif::log(format!("X {} {}", task.pid, task.id));\n')
sub('acts/src/scheduler/scheduler.rs', '                Signal::Terminal => {\n',
    '                Signal::Terminal => {\n                    #[cfg(acts_verif)]\n                    crate::verif::dec();\n')
# emitter: one unit per spawned dispatch
for pat in ('for handle in handlers.iter() {', 'for (_, handle) in handlers.iter() {'):
    sub('acts/src/event/emitter.rs',
        '        let handles = $fn.$event_name.clone();\n        Handle::current().spawn(async move {\n            let handlers = handles.read().unwrap();\n            ' + pat,
        '        let handles = $fn.$event_name.clone();\n        #[cfg(acts_verif)]\n        let _verif_unit = crate::verif::InFlight::new();\n'
        '        Handle::current().spawn(async move {\n            #[cfg(acts_verif)]\n            let _verif_unit = _verif_unit;\n'
        '            let handlers = handles.read().unwrap();\n            ' + pat)
sub('acts/src/event/emitter.rs', '        debug!("emit_proc_event: {}", proc.id());\n',
    '        debug!("emit_proc_event: {}", proc.id());\n        #[cfg(acts_verif)]\n        if crate::verif::log_on() {\n'
    '            crate::verif::log(format!(\n                "P {} {} {}",\n                proc.id(),\n                proc.state(),\n'
    '                proc.outputs().to_string().replace(\' \', "\\u{1}")\n            ));\n        }\n')
sub('acts/src/event/emitter.rs', '        debug!("emit_message: {:?}", msg);\n',
    '        debug!("emit_message: {:?}", msg);\n        #[cfg(acts_verif)]\n        if crate::verif::log_on() {\n'
    '            crate::verif::log(format!(\n                "M {} {} {}",\n                msg.pid,\n                msg.tid,\n'
    '                serde_json::to_string(msg).unwrap_or_default().replace(\' \', "\\u{1}")\n            ));\n        }\n')
# runtime: launch / return_to_act are spawned
sub('acts/src/scheduler/runtime.rs', '        let proc = proc.clone();\n        tokio::spawn(async move {\n            proc.start();\n',
    '        let proc = proc.clone();\n        #[cfg(acts_verif)]\n        let _verif_unit = crate::verif::InFlight::new();\n'
    '        tokio::spawn(async move {\n            #[cfg(acts_verif)]\n            let _verif_unit = _verif_unit;\n            proc.start();\n')
sub('acts/src/scheduler/runtime.rs', '        let scher = self.clone();\n        tokio::spawn(async move {\n            let _ = scher\n                .do_action(&action)',
    '        let scher = self.clone();\n        #[cfg(acts_verif)]\n        let _verif_unit = crate::verif::InFlight::new();\n'
    '        tokio::spawn(async move {\n            #[cfg(acts_verif)]\n            let _verif_unit = _verif_unit;\n            let _ = scher\n                .do_action(&action)')
sub('acts/src/scheduler/runtime.rs', '                    intv.tick().await;\n',
    '                    intv.tick().await;\n                    #[cfg(acts_verif)]\n                    if crate::verif::is_manual_tick() {\n                        continue;\n                    }\n')
# task: every state write
sub('acts/src/scheduler/process/task.rs', '    pub fn set_state(&self, state: TaskState) {\n',
    '    pub fn set_state(&self, state: TaskState) {\n        #[cfg(acts_verif)]\n        crate::verif::clock_bump();\n        #[cfg(acts_verif)]\n'
    '        crate::verif::log(format!(\n            "T {} {} {} {}",\n            self.pid,\n            self.id,\n            self.state(),\n            state\n        ));\n')
# process: task creation
sub('acts/src/scheduler/process/process.rs', '        self.push_task(task.clone());\n        task\n',
    '        #[cfg(acts_verif)]\n        crate::verif::log(format!(\n            "N {} {} {} {} {}",\n            self.id,\n            task.id,\n            node.id(),\n'
    '            node.kind(),\n            task.prev().unwrap_or("-".to_string())\n        ));\n        self.push_task(task.clone());\n        task\n')
# clock
sub('acts/src/utils/time.rs', 'pub fn time_millis() -> i64 {\n',
    'pub fn time_millis() -> i64 {\n    #[cfg(acts_verif)]\n    if let Some(t) = crate::verif::clock_now() {\n        return t;\n    }\n')
# cache
sub('acts/src/cache/cache.rs', '    fn get_proc(&self, pid: &str) -> Option<Arc<Process>> {\n',
    '    #[cfg(acts_verif)]\n    pub fn verif_uncache(&self, pid: &str) {\n        self.procs.remove(pid);\n    }\n\n'
    '    #[cfg(acts_verif)]\n    pub fn verif_cached(&self, pid: &str) -> Option<Arc<Process>> {\n        self.procs.get(pid)\n    }\n\n'
    '    fn get_proc(&self, pid: &str) -> Option<Arc<Process>> {\n')
# engine accessors
sub('acts/src/engine.rs', '    pub fn is_running(&self) -> bool {\n', r'''    /// the six registered store collections
    #[cfg(acts_verif)]
    pub fn verif_store(&self) -> Arc<crate::store::Store> {
        self.runtime.cache().store().clone()
    }

    /// live (cached) view of one process, without triggering a reload:
    /// (state, env, err, [(tid, nid, kind, state, prev, data, err, start, end, hooks)])
    #[cfg(acts_verif)]
    #[allow(clippy::type_complexity)]
    pub fn verif_live(
        &self,
        pid: &str,
    ) -> Option<(
        String,
        String,
        Option<String>,
        Vec<(
            String,
            String,
            String,
            String,
            Option<String>,
            String,
            Option<String>,
            i64,
            i64,
            String,
        )>,
    )> {
        let p = self.runtime.cache().verif_cached(pid)?;
        let mut tasks = p.tasks();
        tasks.sort_by(|a, b| a.timestamp.cmp(&b.timestamp));
        let v = tasks
            .iter()
            .map(|t| {
                (
                    t.id.clone(),
                    t.node().id().to_string(),
                    t.node().kind().to_string(),
                    t.state().to_string(),
                    t.prev(),
                    t.data().to_string(),
                    t.err().map(|e| e.to_string()),
                    t.start_time(),
                    t.end_time(),
                    serde_json::to_string(&t.hooks()).unwrap_or_default(),
                )
            })
            .collect();
        Some((
            p.state().to_string(),
            p.env().to_string(),
            p.err().map(|e| e.to_string()),
            v,
        ))
    }

    /// drop a process from the cache (the store rows stay)
    #[cfg(acts_verif)]
    pub fn verif_evict(&self, pid: &str) {
        self.runtime.cache().verif_uncache(pid);
    }

    /// emit one tick now
    #[cfg(acts_verif)]
    pub fn verif_tick(&self) {
        self.runtime.emitter().emit_tick();
    }

    pub fn is_running(&self) -> bool {
''')
print("hooks applied to", root)
