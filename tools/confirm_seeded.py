"""development aid: confirm a kept seeded change in a scratch worktree of /repo (never in /repo itself):
the demonstration fails with the change and passes without it, and the existing test suite passes with it.
usage: confirm_seeded.py <seeded-id> <worktree> ; writes the outcome into seeded/<id>/meta.json ("confirmed")"""
import json, os, re, subprocess, sys, shutil
sid, wt = sys.argv[1], sys.argv[2]
d = f"/verif/seeded/{sid}"
md = open(f"{d}/demonstration.md").read()
lines = md.splitlines()
files = {}
i = 0
while i < len(lines):
    m = re.search(r'`((?:acts|store)/[\w/\.]+\.rs)`', lines[i]) if not lines[i].startswith('```') else None
    if m:
        # the next rust block within a few lines
        for j in range(i + 1, min(i + 12, len(lines))):
            if lines[j].startswith('```rust'):
                k = j + 1
                while k < len(lines) and not lines[k].startswith('```'):
                    k += 1
                files.setdefault(m.group(1), "\n".join(lines[j + 1:k]) + "\n")
                i = k
                break
    i += 1
files = {p: c for p, c in files.items() if '/tests/' in p or '/examples/' in p}
if not files:
    print(sid, "NO-DEMO-FILE-FOUND"); sys.exit(2)
env = dict(os.environ, CARGO_NET_OFFLINE='true', CARGO_TARGET_DIR=f"{wt}/target", RUST_BACKTRACE='0')
def run(cmd, timeout=2400):
    try:
        r = subprocess.run(cmd, cwd=wt, env=env, capture_output=True, text=True, timeout=timeout)
        return r.returncode, r.stdout + r.stderr
    except subprocess.TimeoutExpired as e:
        return 124, 'timeout'
def demo_cmds():
    out = []
    for p in files:
        crate = 'acts' if p.startswith('acts/') else 'acts-store-sqlite'
        name = os.path.basename(p)[:-3]
        if name == 'mod':
            continue
        if '/examples/' in p:
            out.append(['cargo', 'run', '-q', '-p', crate, '--example', name, '--offline'])
        else:
            out.append(['cargo', 'test', '-p', crate, '--test', name, '--offline', '--', '--test-threads=1'])
    return out
def put():
    for p, c in files.items():
        os.makedirs(os.path.dirname(f"{wt}/{p}"), exist_ok=True)
        open(f"{wt}/{p}", 'w').write(c)
def take():
    for p in files:
        if os.path.exists(f"{wt}/{p}"):
            os.remove(f"{wt}/{p}")
subprocess.run(['git', 'checkout', '-q', '--', '.'], cwd=wt)
subprocess.run(['git', 'clean', '-qfd', 'acts/tests', 'acts/examples', 'store/sqlite/tests'], cwd=wt)
subprocess.run(['git', 'checkout', '-q', '--', '.'], cwd=wt)
r = subprocess.run(['git', 'apply', f"{d}/patch.diff"], cwd=wt, capture_output=True, text=True)
if r.returncode:
    print(sid, "APPLY-FAILED", r.stderr[:300]); sys.exit(2)
put()
w = [run(c) for c in demo_cmds()]
take()
rc, suite = run(['cargo', 'test', '--workspace', '--no-fail-fast', '--offline'], 2400)
passed = sum(int(m.group(1)) for m in re.finditer(r'^test result: \w+\. (\d+) passed', suite, re.M))
failed = sum(int(m.group(1)) for m in re.finditer(r'^test result: \w+\. \d+ passed; (\d+) failed', suite, re.M))
failing = sorted(set(re.findall(r'^test (\S+) \.\.\. FAILED', suite, re.M)))
subprocess.run(['git', 'checkout', '-q', '--', '.'], cwd=wt)
put()
wo = [run(c) for c in demo_cmds()]
take()
res = {'demo_files': sorted(files), 'demo_with_change': ['fails' if x[0] else 'passes' for x in w], 'demo_without_change': ['fails' if x[0] else 'passes' for x in wo],
       'suite_with_change': f"{passed} passed, {failed} failed", 'suite_failing': failing, 'worktree_base': subprocess.run(['git', 'rev-parse', '--short', 'HEAD'], cwd=wt, capture_output=True, text=True).stdout.strip()}
res['ok'] = all(x[0] for x in w) and not any(x[0] for x in wo) and (failed == 0 or set(failing) <= {'tests::engine_build_log_dir', 'tests::engine_build_config_default'}) and passed >= 600
meta = json.load(open(f"{d}/meta.json"))
meta['confirmed'] = res
json.dump(meta, open(f"{d}/meta.json", 'w'), indent=1)
print(sid, json.dumps(res))
if not res['ok']:
    open(f"/tmp/mut/confirm-{sid}.with.log", 'w').write("\n".join(x[1][-3000:] for x in w))
    open(f"/tmp/mut/confirm-{sid}.without.log", 'w').write("\n".join(x[1][-3000:] for x in wo))
    open(f"/tmp/mut/confirm-{sid}.suite.log", 'w').write(suite[-6000:])
