"""apply a seeded change to /repo, run the given checks, undo it; keeps the change under /verif/seeded/<name>/"""
import json, os, shutil, subprocess, sys
src, name, props = sys.argv[1], sys.argv[2], sys.argv[3:]
out = f"/verif/seeded/{name}"
os.makedirs(out, exist_ok=True)
n = os.path.basename(src).replace('patch', '').replace('.diff', '')
shutil.copy(src, f"{out}/patch.diff")
d = os.path.dirname(src)
for f, t in ((f"demo{n}.md", "demonstration.md"),):
    if os.path.exists(f"{d}/{f}"):
        shutil.copy(f"{d}/{f}", f"{out}/{t}")
meta = {}
if os.path.exists(f"{d}/meta.json"):
    try:
        m = json.load(open(f"{d}/meta.json"))
        meta = next((p for p in m.get('patches', []) if p.get('file') == os.path.basename(src)), m)
    except Exception as e:
        meta = {'error': str(e)}
assert subprocess.run(['git', '-C', '/repo', 'status', '--porcelain', '--untracked-files=no'], capture_output=True, text=True).stdout.strip() == '', "repo not clean"
r = subprocess.run(['git', '-C', '/repo', 'apply', src], capture_output=True, text=True)
if r.returncode != 0:
    print("APPLY FAILED", r.stderr); sys.exit(2)
results = {}
try:
    for p in props:
        tier = os.environ.get('TIER', 'quick')
        r = subprocess.run(['./check', p, tier], cwd='/verif', capture_output=True, text=True, timeout=3600)
        lines = [l for l in r.stdout.splitlines() if l.startswith(('VIOLATION', 'OK ', 'BROKEN'))]
        detail = [l for l in r.stdout.splitlines() if not l.startswith(('KNOWN-FINDING', 'VIOLATION', 'OK '))][-3:]
        results[p] = {'exit': r.returncode, 'verdict': lines[-1] if lines else '?', 'detail': [x[:400] for x in detail]}
        print(name, p, r.returncode, lines[-1] if lines else '?')
        for x in detail: print('    ', x[:300])
finally:
    subprocess.run(['git', '-C', '/repo', 'checkout', '--', '.'])
meta['checks_run'] = results
meta['detected_by'] = [p for p, v in results.items() if v['exit'] != 0]
json.dump(meta, open(f"{out}/meta.json", 'w'), indent=1)
