"""development aid: smallest generated case per violation class (not used by the checks)"""
import sys, json
sys.path.insert(0, '/verif/lib')
import engine_props, engine
prop, tier, seed = sys.argv[1], sys.argv[2], int(sys.argv[3])
want = sys.argv[4] if len(sys.argv) > 4 else None
r = engine_props.run(prop, tier, seed)
best = {}
for v in r['violations']:
    c = v['case']['case']
    size = len(json.dumps(c))
    if v['class'] not in best or size < best[v['class']][0]:
        best[v['class']] = (size, v)
res = engine.build(tier, seed) if prop != 'C19' else None
m = engine.split_cases(res['model'])
for cls, (size, v) in sorted(best.items()):
    if want and want not in cls:
        continue
    c = v['case']['case']
    print('=====', cls, v['detail'][:200])
    print(json.dumps(c['wf']))
    print(json.dumps(c['ops']))
    for l in m[c['id']]:
        if not l.startswith(('MF', 'RT', 'RP', 'X ')):
            print('   ', l)
