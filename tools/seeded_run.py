"""apply a kept seeded change (/verif/seeded/<id>/patch.diff) to /repo, run the given checks, undo it;
records verdicts in seeded/<id>/meta.json.  usage: seeded_run.py <id> <prop> [<prop> ...]   (env TIER=quick|thorough)"""
import json, os, subprocess, sys
sid, props = sys.argv[1], sys.argv[2:]
d = f"/verif/seeded/{sid}"
meta = json.load(open(f"{d}/meta.json"))
assert subprocess.run(['git', '-C', '/repo', 'status', '--porcelain', '--untracked-files=no'], capture_output=True, text=True).stdout.strip() == '', "repo not clean"
r = subprocess.run(['git', '-C', '/repo', 'apply', f"{d}/patch.diff"], capture_output=True, text=True)
if r.returncode != 0:
    print(sid, "APPLY FAILED", r.stderr[:300]); sys.exit(2)
results = meta.get('checks_run', {})
tier = os.environ.get('TIER', 'quick')
try:
    for p in props:
        try:
            r = subprocess.run(['./check', p, tier], cwd='/verif', capture_output=True, text=True, timeout=3600)
            out, rc = r.stdout, r.returncode
        except subprocess.TimeoutExpired:
            out, rc = 'TIMEOUT', 124
        lines = [l for l in out.splitlines() if l.startswith(('VIOLATION', 'OK ', 'BROKEN'))]
        detail = [l for l in out.splitlines() if not l.startswith(('KNOWN-FINDING', 'VIOLATION', 'OK '))][-3:]
        results[p] = {'exit': rc, 'tier': tier, 'verdict': lines[-1] if lines else '?', 'detail': [x[:400] for x in detail]}
        print(sid, p, rc, (lines[-1] if lines else '?')[:150], flush=True)
        for x in detail: print('    ', x[:300], flush=True)
finally:
    subprocess.run(['git', '-C', '/repo', 'checkout', '--', '.'])
    # the evidence files written while the change was applied are not evidence of the unchanged tree
    subprocess.run(['git', '-C', '/verif', 'checkout', '--', 'evidence'])
meta['checks_run'] = results
meta['detected_by'] = sorted(p for p, v in results.items() if v['exit'] not in (0, 124))
json.dump(meta, open(f"{d}/meta.json", 'w'), indent=1)
