"""development aid: copy a sub-agent's deliverables into /verif/seeded/<prop>-<n>/ (patch.diff, demonstration.md, meta.json)"""
import json, os, shutil, sys
prop = sys.argv[1]
src = f"/tmp/mut/{prop}.out"
m = json.load(open(f"{src}/meta.json"))
for p in m['patches']:
    n = p['file'].replace('patch', '').replace('.diff', '')
    out = f"/verif/seeded/{prop}-{n}"
    os.makedirs(out, exist_ok=True)
    shutil.copy(f"{src}/{p['file']}", f"{out}/patch.diff")
    if os.path.exists(f"{src}/demo{n}.md"):
        shutil.copy(f"{src}/demo{n}.md", f"{out}/demonstration.md")
    meta = dict(p)
    meta['property'] = prop
    if os.path.exists(f"{out}/meta.json"):
        old = json.load(open(f"{out}/meta.json"))
        for k in ('confirmed', 'checks_run', 'detected_by'):
            if k in old: meta[k] = old[k]
    json.dump(meta, open(f"{out}/meta.json", 'w'), indent=1)
    print(out)
