"""development aid: run checks under several seeds and list every verdict that is not OK (robustness of the
known-finding classes against other seeds); usage: sweep.py <tier> <seed,seed,...> <prop> [<prop> ...]"""
import os, subprocess, sys, json
tier, seeds, props = sys.argv[1], [int(x) for x in sys.argv[2].split(',')], sys.argv[3:]
for s in seeds:
    for p in props:
        r = subprocess.run(['./check', p, tier], cwd='/verif', env=dict(os.environ, VERIF_SEED=str(s), VERIF_TIER=tier), capture_output=True, text=True)
        last = [l for l in r.stdout.splitlines() if l.startswith(('OK ', 'VIOLATION'))]
        kn = sorted(set(l.split(' ')[2] for l in r.stdout.splitlines() if l.startswith('KNOWN-FINDING')))
        det = [l for l in r.stdout.splitlines() if not l.startswith(('KNOWN-FINDING', 'OK ', 'VIOLATION'))][-2:]
        print(f"seed={s} {p} rc={r.returncode} {last[-1][:160] if last else '?'} known={len(kn)}", flush=True)
        if r.returncode != 0:
            for d in det: print('     ', d[:400], flush=True)
            try:
                rp = json.load(open(f'/verif/replay/{p}-violation.json'))
                print('      class:', rp.get('class'), 'others:', [o.get('class') for o in rp.get('others', [])][:8], flush=True)
            except Exception as e:
                pass
