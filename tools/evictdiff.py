"""development aid: run A (cached corpus) vs run B (evict before every op)"""
import sys, os, shutil, re, json
sys.path.insert(0, '/verif/lib')
import engine
from collections import Counter
tier = sys.argv[1] if len(sys.argv) > 1 else 'quick'
res = engine.build(tier, 1)
wd = '/verif/.build/run/evict-test'
shutil.rmtree(wd, ignore_errors=True); os.makedirs(wd)
out = os.path.join(wd, 'impl.txt')
errs = engine.run_harness(res['cases'], out, wd, ('extra', 'evict'))
a = engine.split_cases(res['impl']); b = engine.split_cases(out)
kinds = {'T', 'M', 'P', 'A', 'D', 'N'}
f = lambda l: re.sub(r' \d{4,}$', '', l) if l[0] in 'NT' else l
bad = 0; firsts = Counter(); ex = {}
for cid in a:
    x = [f(l) for l in a[cid] if l.split(' ')[0] in kinds]
    y = [f(l) for l in b.get(cid, []) if l.split(' ')[0] in kinds]
    if x != y:
        bad += 1
        k = 0
        while k < min(len(x), len(y)) and x[k] == y[k]: k += 1
        key = (x[k].split(' ')[0] if k < len(x) else 'END', y[k].split(' ')[0] if k < len(y) else 'END')
        firsts[key] += 1
        ex.setdefault(key, []).append((cid, k, x[k] if k < len(x) else None, y[k] if k < len(y) else None))
print('bad', bad, 'of', len(a), firsts)
for k, v in ex.items():
    for e in v[:3]: print(k, e)
