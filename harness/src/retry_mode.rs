//! C09: acknowledged delivery.  One engine per case (the retry limit is engine configuration);
//! N parallel interrupt acts give N messages on an acknowledging channel; ops: tick / ack /
//! action / redo / clear.  Per op: the clock, the new deliveries (message index, retry_times)
//! and the status of every message row.
use acts::{ChannelOptions, EngineBuilder, Vars, Workflow};
use serde_json::{Value, json};
use std::io::{BufRead, Write};
use std::sync::{Arc, Mutex};

use crate::util::quiesce;

pub fn main(cases: &str, out: &str, workdir: &str, backend: &str) {
    let rt = tokio::runtime::Builder::new_current_thread().enable_all().build().unwrap();
    rt.block_on(run(cases, out, workdir, backend));
}

async fn run(cases: &str, out: &str, workdir: &str, backend: &str) {
    acts::verif::manual_tick(true);
    let f = std::fs::File::open(cases).unwrap();
    let mut w = std::io::BufWriter::new(std::fs::File::create(out).unwrap());
    for line in std::io::BufReader::new(f).lines() {
        let line = line.unwrap();
        if line.trim().is_empty() {
            continue;
        }
        let v: Value = serde_json::from_str(&line).unwrap();
        let cid = v["id"].as_str().unwrap().to_string();
        let n = v["n"].as_u64().unwrap() as usize;
        let max = v["max"].as_i64().unwrap();
        let interval = v["interval_s"].as_i64().unwrap();
        let keep = v["keep"].as_bool().unwrap_or(true);
        let mut cfg = format!("tick_interval_secs = {interval}\nkeep_processes = {keep}\nmax_message_retry_times = {max}\n");
        if backend == "sqlite" {
            let db = format!("{workdir}/retry-{cid}.db");
            let _ = std::fs::remove_file(&db);
            cfg += &format!("[sqlite]\ndatabase_url = \"sqlite://{db}\"\n");
        }
        let cfgp = crate::util::write_config(workdir, &format!("retry-{cid}.toml"), &cfg);
        let mut b = EngineBuilder::new().set_config_source(&cfgp);
        if backend == "sqlite" {
            b = b.add_plugin(&acts_store_sqlite::SqliteStore);
        }
        acts::verif::clock_enable(10_000);
        let engine = b.build().await.unwrap().start();
        let ex = engine.executor();
        // the acknowledging channel: created messages of acts
        let log: Arc<Mutex<Vec<(String, String, i32)>>> = Arc::new(Mutex::new(Vec::new()));
        let chan = engine.channel_with_options(&ChannelOptions {
            id: "chan1".to_string(),
            ack: true,
            r#type: "act".to_string(),
            state: "created".to_string(),
            ..Default::default()
        });
        // messages acknowledged from inside the handler, at their first delivery (leading `ack` operations marked `early`)
        let early: Vec<usize> = v["ops"].as_array().unwrap().iter().filter(|o| o.get("early").is_some()).filter_map(|o| o["ack"].as_u64().map(|x| x as usize)).collect();
        {
            let log = log.clone();
            let store = engine.verif_store();
            let missing = Arc::new(Mutex::new(0usize));
            let firsts = Arc::new(Mutex::new(0usize));
            let exh = engine.executor();
            chan.on_message(move |e| {
                if e.retry_times == 0 {
                    let k = {
                        let mut f = firsts.lock().unwrap();
                        *f += 1;
                        *f - 1
                    };
                    if early.contains(&k) {
                        let _ = exh.msg().ack(&e.id);
                    }
                }
                // the record must exist when the handler runs
                if store.messages().find(&e.id).is_err() {
                    *missing.lock().unwrap() += 1;
                    log.lock().unwrap().push((format!("MISSING:{}", e.id), e.tid.clone(), e.retry_times));
                } else {
                    log.lock().unwrap().push((e.id.clone(), e.tid.clone(), e.retry_times));
                }
            });
        }
        // another acknowledging channel with the same filter (it never acknowledges anything): both are handed every message
        let chan3 = engine.channel_with_options(&ChannelOptions {
            id: "chan3".to_string(),
            ack: true,
            r#type: "act".to_string(),
            state: "created".to_string(),
            ..Default::default()
        });
        chan3.on_message(move |_e| {});
        // a second acknowledging channel: the terminal message of the process (it outlives the process)
        let chan2 = engine.channel_with_options(&ChannelOptions {
            id: "chan2".to_string(),
            ack: true,
            r#type: "workflow".to_string(),
            state: "{completed,error,aborted}".to_string(),
            ..Default::default()
        });
        {
            let log = log.clone();
            chan2.on_message(move |e| {
                log.lock().unwrap().push((e.id.clone(), e.tid.clone(), e.retry_times));
            });
        }
        let branches: Vec<Value> = (0..n)
            .map(|i| json!({"id": format!("b{i}"), "if": "true", "steps": [{"id": format!("s{i}"), "acts": [{"id": format!("a{i}"), "key": format!("a{i}"), "uses": "acts.core.irq"}]}]}))
            .collect();
        let wfj = json!({"id": format!("m-{cid}"), "steps": [{"id": "top", "branches": branches}]});
        let wf = Workflow::from_json(&wfj.to_string()).unwrap();
        ex.model().deploy(&wf).unwrap();
        let pid = format!("p-{cid}");
        let mut vars = Vars::new();
        vars.set("pid", pid.clone());
        ex.proc().start(&wf.id, &vars).unwrap();
        quiesce().await;
        // message index = order of first delivery
        let mut ids: Vec<(String, String)> = vec![];
        let mut seen = 0usize;
        let store = engine.verif_store();
        let mut report = |w: &mut std::io::BufWriter<std::fs::File>, j: i64, now: i64, accepted: bool, ids: &mut Vec<(String, String)>, seen: &mut usize| {
            let l = log.lock().unwrap();
            let mut fresh = vec![];
            for (id, tid, retry) in l.iter().skip(*seen) {
                if !ids.iter().any(|x| &x.0 == id) {
                    ids.push((id.clone(), tid.clone()));
                }
                let idx = ids.iter().position(|x| &x.0 == id).unwrap();
                fresh.push(format!("{idx}:{retry}"));
            }
            *seen = l.len();
            let rows: Vec<String> = ids
                .iter()
                .enumerate()
                .map(|(i, (id, _))| match store.messages().find(id) {
                    Ok(m) => format!("{i}:{}:{}", m.status, m.retry_times),
                    Err(_) => format!("{i}:gone"),
                })
                .collect();
            writeln!(w, "case {cid} op {j} now={now} ok={accepted} deliveries=[{}] rows=[{}]", fresh.join(";"), rows.join(";")).unwrap();
        };
        report(&mut w, -1, acts::verif::clock_now().unwrap_or(0), true, &mut ids, &mut seen);
        for (j, op) in v["ops"].as_array().unwrap().iter().enumerate() {
            if let Some(adv) = op.get("tick") {
                acts::verif::clock_advance(adv.as_i64().unwrap());
            }
            let now = acts::verif::clock_now().unwrap_or(0);
            let mut accepted = true;
            if op.get("tick").is_some() {
                engine.verif_tick();
            } else if op.get("early").is_some() {
                // done already, inside the handler
            } else if let Some(i) = op.get("ack") {
                if let Some((id, _)) = ids.get(i.as_u64().unwrap() as usize) {
                    let _ = ex.msg().ack(id);
                }
            } else if let Some(i) = op.get("action") {
                if let Some((_, tid)) = ids.get(i.as_u64().unwrap() as usize) {
                    accepted = ex.act().complete(&pid, tid, &Vars::new()).is_ok();
                } else {
                    accepted = false;
                }
            } else if op.get("redo").is_some() {
                let _ = ex.msg().redo();
            } else if op.get("clear").is_some() {
                let _ = ex.msg().clear(None);
            }
            quiesce().await;
            report(&mut w, j as i64, now, accepted, &mut ids, &mut seen);
        }
        engine.close();
        quiesce().await;
    }
    w.flush().unwrap();
}
