//! C10: the same operation sequences against a real store backend
use acts::{DbCollection, EngineBuilder, data, query::*};
use serde::{Serialize, de::DeserializeOwned};
use serde_json::{Value, json};
use std::io::{BufRead, Write};
use std::sync::Arc;

fn build_query(op: &Value) -> Query {
    let mut q = Query::new();
    if let Some(conds) = op.get("conds").and_then(|c| c.as_array()) {
        for c in conds {
            let mut cond = if c["type"] == "or" { Cond::or() } else { Cond::and() };
            for e in c["exprs"].as_array().unwrap() {
                let key = e["key"].as_str().unwrap();
                let val = e["val"].clone();
                let expr = match e["op"].as_str().unwrap() {
                    "eq" => Expr::eq(key, val),
                    "ne" => Expr::ne(key, val),
                    "lt" => Expr::lt(key, val),
                    "le" => Expr::le(key, val),
                    "gt" => Expr::gt(key, val),
                    "ge" => Expr::ge(key, val),
                    o => panic!("op {o}"),
                };
                cond = cond.push(expr);
            }
            q = q.push(cond);
        }
    }
    if let Some(order) = op.get("order").and_then(|c| c.as_array()) {
        let v: Vec<(String, bool)> = order
            .iter()
            .map(|o| (o[0].as_str().unwrap().to_string(), o[1].as_bool().unwrap()))
            .collect();
        q = q.set_order(&v);
    }
    if let Some(o) = op.get("offset").and_then(|c| c.as_u64()) {
        q = q.set_offset(o as usize);
    }
    if let Some(l) = op.get("limit").and_then(|c| c.as_u64()) {
        q = q.set_limit(l as usize);
    }
    q
}

fn guarded<R>(f: impl FnOnce() -> acts::Result<R>) -> Result<R, String> {
    match std::panic::catch_unwind(std::panic::AssertUnwindSafe(f)) {
        Ok(Ok(r)) => Ok(r),
        Ok(Err(e)) => Err(format!("err:{e}")),
        Err(_) => Err("panic".to_string()),
    }
}

fn run_ops<T>(coll: Arc<dyn DbCollection<Item = T>>, ops: &[Value]) -> Vec<Value>
where
    T: Serialize + DeserializeOwned + Clone + 'static,
{
    // start from an empty collection
    if let Ok(all) = coll.query(&Query::new()) {
        for r in all.rows.iter() {
            let v = serde_json::to_value(r).unwrap();
            let _ = coll.delete(v["id"].as_str().unwrap());
        }
    }
    let mut out = Vec::new();
    for op in ops {
        let coll = coll.clone();
        let res = match op["op"].as_str().unwrap() {
            "create" => {
                let rec: T = serde_json::from_value(op["rec"].clone()).expect("record");
                guarded(move || coll.create(&rec)).map(|b| json!({ "bool": b }))
            }
            "update" => {
                let rec: T = serde_json::from_value(op["rec"].clone()).expect("record");
                guarded(move || coll.update(&rec)).map(|b| json!({ "bool": b }))
            }
            "delete" => {
                let id = op["id"].as_str().unwrap().to_string();
                guarded(move || coll.delete(&id)).map(|b| json!({ "bool": b }))
            }
            "exists" => {
                let id = op["id"].as_str().unwrap().to_string();
                guarded(move || coll.exists(&id)).map(|b| json!({ "bool": b }))
            }
            "find" => {
                let id = op["id"].as_str().unwrap().to_string();
                match guarded(move || coll.find(&id)) {
                    Ok(r) => Ok(json!({ "row": serde_json::to_value(&r).unwrap() })),
                    Err(e) if e.starts_with("err:") => Ok(json!({ "row": null })),
                    Err(e) => Err(e),
                }
            }
            "query" => {
                let q = build_query(op);
                guarded(move || coll.query(&q)).map(|p| {
                    json!({"page": {"count": p.count, "page_num": p.page_num, "page_count": p.page_count,
                        "page_size": p.page_size, "rows": p.rows.iter().map(|r| serde_json::to_value(r).unwrap()).collect::<Vec<_>>() }})
                })
            }
            o => panic!("store op {o}"),
        };
        out.push(match res {
            Ok(v) => v,
            Err(e) => json!({ "fail": e }),
        });
    }
    out
}

pub fn main(cases: &str, out: &str, workdir: &str, backend: &str) {
    let rt = tokio::runtime::Builder::new_current_thread().enable_all().build().unwrap();
    rt.block_on(run(cases, out, workdir, backend));
}

async fn run(cases: &str, out: &str, workdir: &str, backend: &str) {
    let cfg = if backend == "sqlite" {
        let _ = std::fs::remove_file(format!("{workdir}/store.db"));
        format!("tick_interval_secs = 100000\n[sqlite]\ndatabase_url = \"sqlite://{workdir}/store.db\"\n")
    } else {
        "tick_interval_secs = 100000\n".to_string()
    };
    let cfgp = crate::util::write_config(workdir, &format!("store-{backend}.toml"), &cfg);
    acts::verif::manual_tick(true);
    let mut b = EngineBuilder::new().set_config_source(&cfgp);
    if backend == "sqlite" {
        b = b.add_plugin(&acts_store_sqlite::SqliteStore);
    }
    let engine = b.build().await.unwrap().start();
    let store = engine.verif_store();
    let f = std::fs::File::open(cases).unwrap();
    let mut w = std::io::BufWriter::new(std::fs::File::create(out).unwrap());
    for line in std::io::BufReader::new(f).lines() {
        let line = line.unwrap();
        if line.trim().is_empty() {
            continue;
        }
        let v: Value = serde_json::from_str(&line).unwrap();
        let ops = v["ops"].as_array().unwrap();
        let res = match v["coll"].as_str().unwrap() {
            "task" => run_ops::<data::Task>(store.tasks(), ops),
            "proc" => run_ops::<data::Proc>(store.procs(), ops),
            "message" => run_ops::<data::Message>(store.messages(), ops),
            "model" => run_ops::<data::Model>(store.models(), ops),
            "event" => run_ops::<data::Event>(store.events(), ops),
            "package" => run_ops::<data::Package>(store.packages(), ops),
            c => panic!("collection {c}"),
        };
        for (j, r) in res.iter().enumerate() {
            writeln!(w, "{}", serde_json::json!({"case": v["id"], "op": j, "res": crate::util::sorted_json(r)})).unwrap();
        }
    }
    w.flush().unwrap();
    engine.close();
}
