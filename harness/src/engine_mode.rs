//! engine cases: deploy the generated workflow, start it, replay the client operations by task
//! creation index, print the canonical trace (same line format as ocaml/driver_engine.ml)
use acts::{EngineBuilder, Vars, Workflow};
use serde_json::Value;
use std::collections::{HashMap, HashSet};
use std::io::{BufRead, Write};

use crate::util::quiesce;

pub fn canon(v: &Value) -> String {
    let mut l: Vec<(String, String)> = vec![];
    if let Value::Object(m) = v {
        for (k, x) in m {
            let known = k == "data" || k == "dataset" || k == "__p" || k == "kk__8" || k == "nope"
                || (k.len() >= 2 && k.starts_with('k') && k[1..].chars().all(|c| c.is_ascii_digit()));
            if known {
                l.push((
                    k.clone(),
                    match x {
                        Value::Null => "null".to_string(),
                        Value::Number(n) => n.to_string(),
                        Value::Bool(b) => b.to_string(),
                        o => format!("?{}", o),
                    },
                ));
            }
        }
    }
    l.sort();
    format!("{{{}}}", l.iter().map(|(k, v)| format!("{k}:{v}")).collect::<Vec<_>>().join(","))
}

pub fn canon_str(js: &str) -> String {
    canon(&serde_json::from_str(js).unwrap_or(Value::Null))
}

pub struct Canon {
    pub idx: HashMap<String, usize>,
    pub tids: Vec<String>,
    /// schedule-independent names: <name of the predecessor task>/<node label>#<k-th such successor>
    pub names: Vec<String>,
    pub by_name: HashMap<String, usize>,
    pub statics: HashSet<String>,
    pub extra: bool,
}

impl Canon {
    pub fn new(wf: &Value, extra: bool) -> Self {
        let mut statics = HashSet::new();
        fn collect(v: &Value, out: &mut HashSet<String>) {
            match v {
                Value::Object(m) => {
                    if let Some(Value::String(id)) = m.get("id") {
                        out.insert(id.clone());
                    }
                    for (_, x) in m {
                        collect(x, out);
                    }
                }
                Value::Array(a) => {
                    for x in a {
                        collect(x, out);
                    }
                }
                _ => {}
            }
        }
        collect(wf, &mut statics);
        Canon { idx: HashMap::new(), tids: vec![], names: vec![], by_name: HashMap::new(), statics, extra }
    }

    fn ix(&self, tid: &str) -> String {
        self.idx.get(tid).map(|x| x.to_string()).unwrap_or("?".into())
    }

    /// drain the hook log and print the lines of process `pid`
    pub fn flush(&mut self, out: &mut impl Write, cid: &str, pid: &str, mid: &str) {
        let lines = acts::verif::take_log();
        self.flush_lines(out, cid, pid, mid, &lines);
    }

    /// print the lines of process `pid` out of a drained hook log
    pub fn flush_lines(&mut self, out: &mut impl Write, cid: &str, pid: &str, mid: &str, lines: &[String]) {
        for l in lines {
            let p: Vec<&str> = l.split(' ').collect();
            if p.len() < 2 || p[1] != pid {
                continue;
            }
            match p[0] {
                "N" => {
                    let i = self.tids.len();
                    self.idx.insert(p[2].to_string(), i);
                    self.tids.push(p[2].to_string());
                    let nid = if p[3] == mid {
                        "n0"
                    } else if self.statics.contains(p[3]) {
                        p[3]
                    } else {
                        "dyn"
                    };
                    let prev = if p[5] == "-" { "-".to_string() } else { self.ix(p[5]) };
                    let label = if nid == "dyn" { format!("dyn:{}", p[7]) } else { nid.to_string() };
                    let base = match self.idx.get(p[5]) {
                        Some(pi) => format!("{}/{}", self.names[*pi], label),
                        None => label,
                    };
                    let mut k = 0;
                    while self.by_name.contains_key(&format!("{base}#{k}")) {
                        k += 1;
                    }
                    let name = format!("{base}#{k}");
                    self.by_name.insert(name.clone(), i);
                    self.names.push(name);
                    writeln!(out, "case {cid}: N {i} {nid} {prev} {} {} {} {}", p[4], p[6], p[7], p[8]).unwrap();
                }
                "T" => writeln!(out, "case {cid}: T {} {} {} {}", self.ix(p[2]), p[3], p[4], p[5]).unwrap(),
                "X" => writeln!(out, "case {cid}: X {}", self.ix(p[2])).unwrap(),
                "F" => {
                    // the rule is named by its limit as written; compared in canonical form (TimeoutLimit's own Display)
                    use std::str::FromStr;
                    let on = acts::TimeoutLimit::from_str(p[3]).map(|l| l.to_string()).unwrap_or(p[3].to_string());
                    writeln!(out, "case {cid}: F {} {} {} {} {}", self.ix(p[2]), on, p[4], p[5], p[6]).unwrap()
                }
                "M" => {
                    let js = p[3].replace('\u{1}', " ");
                    let m: Value = serde_json::from_str(&js).unwrap_or(Value::Null);
                    writeln!(
                        out,
                        "case {cid}: M {} {} {} {}",
                        self.ix(p[2]),
                        m["state"].as_str().unwrap_or("?"),
                        canon(&m["inputs"]),
                        canon(&m["outputs"])
                    )
                    .unwrap();
                    if self.extra {
                        // the fields C08 speaks about, as the client sees them
                        writeln!(
                            out,
                            "case {cid}: MF {} id={} nid={} type={} key={} uses={} pid_ok={} retry={}",
                            self.ix(p[2]),
                            m["id"].as_str().unwrap_or("?"),
                            if m["nid"].as_str() == Some(mid) { "n0" } else { m["nid"].as_str().unwrap_or("?") },
                            m["type"].as_str().unwrap_or("?"),
                            m["key"].as_str().unwrap_or("?"),
                            m["uses"].as_str().unwrap_or("?"),
                            m["pid"].as_str() == Some(pid),
                            m["retry_times"]
                        )
                        .unwrap();
                    }
                }
                "P" => writeln!(out, "case {cid}: P {} {}", p[2], canon_str(&p[3].replace('\u{1}', " "))).unwrap(),
                _ => {}
            }
        }
    }
}

pub fn main(cases: &str, out: &str, workdir: &str, args: &[String]) {
    let threads: usize = args.iter().find_map(|a| a.strip_prefix("threads=").map(|x| x.parse().unwrap())).unwrap_or(1);
    let rt = if threads <= 1 {
        tokio::runtime::Builder::new_current_thread().enable_all().build().unwrap()
    } else {
        tokio::runtime::Builder::new_multi_thread().worker_threads(threads).enable_all().build().unwrap()
    };
    rt.block_on(run(cases, out, workdir, args));
}

async fn run(cases: &str, out: &str, workdir: &str, args: &[String]) {
    let extra = args.iter().any(|a| a == "extra");
    let rows = args.iter().any(|a| a == "rows");
    let evict = args.iter().any(|a| a == "evict");
    let gate = args.iter().any(|a| a == "gate");
    let sqlite = args.iter().any(|a| a == "sqlite");
    let restart = args.iter().any(|a| a == "restart");
    let mut cfg = "tick_interval_secs = 100000\nkeep_processes = true\nmax_message_retry_times = 3\n".to_string();
    if sqlite {
        let db = std::path::Path::new(workdir).join("engine.db");
        let _ = std::fs::remove_file(&db);
        cfg += &format!("[sqlite]\ndatabase_url = \"sqlite://{}\"\n", db.display());
    }
    let cfgp = crate::util::write_config(workdir, "engine.toml", &cfg);
    let build = |cfgp: std::path::PathBuf| async move {
        let mut b = EngineBuilder::new().set_config_source(&cfgp);
        if sqlite {
            b = b.add_plugin(&acts_store_sqlite::SqliteStore);
        }
        b.build().await.unwrap().start()
    };
    acts::verif::manual_tick(true);
    acts::verif::log_enable(true);
    acts::verif::clock_enable(1000);
    let mut engine = build(cfgp.clone()).await;
    let mut ex = engine.executor();
    let f = std::fs::File::open(cases).unwrap();
    let mut w = std::io::BufWriter::new(std::fs::File::create(out).unwrap());
    for line in std::io::BufReader::new(f).lines() {
        let line = line.unwrap();
        if line.trim().is_empty() {
            continue;
        }
        let v: Value = serde_json::from_str(&line).unwrap();
        let cid = v["id"].as_str().unwrap().to_string();
        let mut wf = match Workflow::from_json(&v["wf"].to_string()) {
            Ok(w) => w,
            Err(e) => {
                writeln!(w, "case {cid}: CASE-ERROR {e}").unwrap();
                continue;
            }
        };
        wf.id = format!("m-{cid}");
        let mid = wf.id.clone();
        if let Err(_e) = ex.model().deploy(&wf) {
            writeln!(w, "case {cid}: BUILD-FAILED").unwrap();
            continue;
        }
        let pid = format!("p-{cid}");
        let mut vars = Vars::new();
        vars.set("pid", pid.clone());
        quiesce().await;
        acts::verif::take_log();
        acts::verif::clock_enable(1000);
        if let Err(e) = ex.proc().start(&wf.id, &vars) {
            writeln!(w, "case {cid}: START-FAILED {e}").unwrap();
            continue;
        }
        quiesce().await;
        let mut canon = Canon::new(&v["wf"], extra);
        canon.flush(&mut w, &cid, &pid, &mid);
        writeln!(w, "case {cid}: Q").unwrap();
        if rows {
            rows_check(&engine, &canon, &cid, &pid, 0, &mut w);
        }
        let mut point = 0;
        let mut held = false;
        for op in v["ops"].as_array().unwrap() {
            point += 1;
            if restart {
                // stop the engine at this quiescent point and start a new one on the same store
                engine.close();
                quiesce().await;
                engine = build(cfgp.clone()).await;
                ex = engine.executor();
                quiesce().await;
                canon.flush(&mut w, &cid, &pid, &mid);
            }
            if evict {
                // drop the process from the cache and load it again from the store
                engine.verif_evict(&pid);
                let _ = ex.proc().get_process(&pid);
            }
            if let Some(adv) = op.get("tick") {
                acts::verif::clock_advance(adv.as_i64().unwrap());
                engine.verif_tick();
                if held {
                    held = false;
                    acts::verif::gate_open();
                }
                quiesce().await;
                canon.flush(&mut w, &cid, &pid, &mid);
                writeln!(w, "case {cid}: Q").unwrap();
            } else {
                let t = op["t"].as_u64().unwrap() as usize;
                let tid = canon.tids.get(t).cloned().unwrap_or("zzzz".to_string());
                let opts: Vars = op["o"].clone().into();
                let a = op["a"].as_str().unwrap();
                let ev: acts::Action = serde_json::from_value(serde_json::json!({"pid": pid, "tid": tid, "event": a, "options": {}})).unwrap();
                // `hold`: the action is issued while the scheduler is held; nothing runs until an operation without it
                let hold = op.get("hold").and_then(|x| x.as_bool()).unwrap_or(false);
                if gate || (hold && !held) {
                    acts::verif::gate_close();
                }
                if hold {
                    held = true;
                }
                let r = std::panic::catch_unwind(std::panic::AssertUnwindSafe(|| ex.act().do_action(&pid, &tid, ev.event.clone(), &opts)));
                // the action's own synchronous effects come first in the log, then its result, then the drained queue
                canon.flush(&mut w, &cid, &pid, &mid);
                match r {
                    Ok(r) => writeln!(w, "case {cid}: A {}", if r.is_ok() { "ok" } else { "err" }).unwrap(),
                    Err(_) => writeln!(w, "case {cid}: A panic").unwrap(),
                }
                if hold {
                    point -= 1; // not a quiescent point
                    continue;
                }
                if gate || held {
                    held = false;
                    acts::verif::gate_open();
                }
                quiesce().await;
                canon.flush(&mut w, &cid, &pid, &mid);
                writeln!(w, "case {cid}: Q").unwrap();
            }
            if rows {
                rows_check(&engine, &canon, &cid, &pid, point, &mut w);
            }
        }
        if held {
            // the history ended with the scheduler held: let it run
            acts::verif::gate_open();
            quiesce().await;
            canon.flush(&mut w, &cid, &pid, &mid);
            writeln!(w, "case {cid}: Q").unwrap();
            if rows {
                rows_check(&engine, &canon, &cid, &pid, point + 1, &mut w);
            }
        }
        if let Some(live) = engine.verif_live(&pid) {
            for t in live.3.iter() {
                if let Some(i) = canon.idx.get(&t.0) {
                    let hook = serde_json::from_str::<Value>(&t.5).ok().and_then(|d| d.get("$is_event_processed").cloned()) == Some(Value::Bool(true));
                    writeln!(w, "case {cid}: D {i} {} {}{}", t.3, canon_str(&t.5), if hook { " hook" } else { "" }).unwrap();
                }
            }
        } else if evict || restart {
            // not cached (evicted and not needed since): the final picture is what the store holds
            use acts::query::{Cond, Expr, Query};
            let store = engine.verif_store();
            let q = Query::new().push(Cond::and().push(Expr::eq("pid", pid.to_string())));
            let mut lines: Vec<(usize, String)> = Vec::new();
            if let Ok(rows) = store.tasks().query(&q) {
                for r in rows.rows {
                    if let Some(i) = canon.idx.get(&r.tid) {
                        let hook = serde_json::from_str::<Value>(&r.data).ok().and_then(|d| d.get("$is_event_processed").cloned()) == Some(Value::Bool(true));
                        lines.push((*i, format!("case {cid}: D {i} {} {}{}", r.state, canon_str(&r.data), if hook { " hook" } else { "" })));
                    }
                }
            }
            lines.sort();
            for (_, l) in lines {
                writeln!(w, "{l}").unwrap();
            }
        } else {
            writeln!(w, "case {cid}: GONE").unwrap();
        }
        // the process must not take part in later cases (ticks, restore): drop it from cache and store
        engine.verif_evict(&pid);
        {
            use acts::query::{Cond, Expr, Query};
            let store = engine.verif_store();
            let q = Query::new().push(Cond::and().push(Expr::eq("pid", pid.to_string())));
            if let Ok(rows) = store.tasks().query(&q) {
                for r in rows.rows {
                    let _ = store.tasks().delete(&r.id);
                }
            }
            let _ = store.procs().delete(&pid);
        }
        // a panic on an engine task (tokio swallows it) or work that never drained: report it in the case, and
        // give the rest of the shard a fresh engine (the scheduler loop of this one may be gone)
        let problems = crate::util::take_problems();
        if !problems.is_empty() {
            let mut seen = std::collections::BTreeSet::new();
            for p in problems {
                if seen.insert(p.clone()) {
                    writeln!(w, "case {cid}: {p}").unwrap();
                }
            }
            engine.close();
            tokio::task::yield_now().await;
            let _ = crate::util::take_problems();
            crate::util::force_idle();
            engine = build(cfgp.clone()).await;
            ex = engine.executor();
        }
    }
    w.flush().unwrap();
    engine.close();
}

/// C11: live process vs the rows in the store, at a quiescent point
fn rows_check(engine: &acts::Engine, canon: &Canon, cid: &str, pid: &str, point: usize, out: &mut impl Write) {
    use acts::query::{Cond, Expr, Query};
    let store = engine.verif_store();
    let live = match engine.verif_live(pid) {
        Some(l) => l,
        None => return,
    };
    let prow = store.procs().find(pid).ok();
    let q = Query::new().push(Cond::and().push(Expr::eq("pid", pid.to_string())));
    let rows = store.tasks().query(&q).map(|p| p.rows).unwrap_or_default();
    let rmap: HashMap<String, &acts::data::Task> = rows.iter().map(|r| (r.tid.clone(), r)).collect();
    match &prow {
        None => writeln!(out, "case {cid}: RP {point} missing-proc-row").unwrap(),
        Some(p) => {
            if p.state != live.0 {
                writeln!(out, "case {cid}: RP {point} state live={} row={}", live.0, p.state).unwrap();
            }
            if canon_str(&p.env) != canon_str(&live.1) {
                writeln!(out, "case {cid}: RP {point} env live={} row={}", canon_str(&live.1), canon_str(&p.env)).unwrap();
            }
            if p.err != live.2 {
                writeln!(out, "case {cid}: RP {point} err live={:?} row={:?}", live.2, p.err).unwrap();
            }
        }
    }
    for t in live.3.iter() {
        let i = canon.idx.get(&t.0).map(|x| x.to_string()).unwrap_or("?".into());
        match rmap.get(&t.0) {
            None => writeln!(out, "case {cid}: RT {point} {i} missing-row live-state={}", t.3).unwrap(),
            Some(r) => {
                if r.state != t.3 {
                    writeln!(out, "case {cid}: RT {point} {i} state live={} row={}", t.3, r.state).unwrap();
                }
                if r.prev != t.4 {
                    writeln!(out, "case {cid}: RT {point} {i} prev").unwrap();
                }
                if canon_str(&r.data) != canon_str(&t.5) {
                    writeln!(out, "case {cid}: RT {point} {i} data live={} row={}", canon_str(&t.5), canon_str(&r.data)).unwrap();
                }
                if r.err != t.6 {
                    writeln!(out, "case {cid}: RT {point} {i} err live={:?} row={:?}", t.6, r.err).unwrap();
                }
                if r.start_time != t.7 || r.end_time != t.8 {
                    writeln!(out, "case {cid}: RT {point} {i} times").unwrap();
                }
            }
        }
    }
    for r in rows.iter() {
        if !live.3.iter().any(|t| t.0 == r.tid) {
            writeln!(out, "case {cid}: RT {point} ? row-without-task").unwrap();
        }
    }
}
