pub fn main(_cases: &str, _out: &str, _workdir: &str, _args: &[String]) {
    unimplemented!()
}
