//! C18: channels.  ops: {"on": {id,type,state,tag,key,uses}} | {"close": id} | {"unsub": id} | {"run": n}.
//! A run starts the fixed workflow and answers every interrupt act; every emitted message is
//! printed with the fields a channel looks at, every handler invocation with (channel, message id).
use acts::{ChannelOptions, EngineBuilder, Vars, Workflow};
use serde_json::{Value, json};
use std::collections::HashMap;
use std::io::{BufRead, Write};
use std::sync::{Arc, Mutex};

use crate::util::quiesce;

pub fn main(cases: &str, out: &str, workdir: &str, _args: &[String]) {
    let rt = tokio::runtime::Builder::new_current_thread().enable_all().build().unwrap();
    rt.block_on(run(cases, out, workdir));
}

async fn run(cases: &str, out: &str, workdir: &str) {
    acts::verif::manual_tick(true);
    acts::verif::log_enable(true);
    let cfgp = crate::util::write_config(workdir, "chan.toml", "tick_interval_secs = 100000\nkeep_processes = true\n");
    let f = std::fs::File::open(cases).unwrap();
    let mut w = std::io::BufWriter::new(std::fs::File::create(out).unwrap());
    for line in std::io::BufReader::new(f).lines() {
        let line = line.unwrap();
        if line.trim().is_empty() {
            continue;
        }
        let v: Value = serde_json::from_str(&line).unwrap();
        let cid = v["id"].as_str().unwrap().to_string();
        let engine = EngineBuilder::new().set_config_source(&cfgp).build().await.unwrap().start();
        let ex = engine.executor();
        let wfj = json!({"id": format!("m-{cid}"), "tag": "mt", "steps": [
            {"id": "s1", "tag": "x1", "acts": [
                {"id": "a1", "key": "k1", "tag": "ta", "uses": "acts.core.irq"},
                {"id": "a2", "key": "ab", "uses": "acts.core.msg"}]},
            {"id": "s2", "acts": [{"id": "a3", "key": "ac", "tag": "tb", "uses": "acts.core.irq"}]}]});
        let wf = Workflow::from_json(&wfj.to_string()).unwrap();
        ex.model().deploy(&wf).unwrap();
        let hits: Arc<Mutex<Vec<(String, String)>>> = Arc::new(Mutex::new(Vec::new()));
        let mut chans: HashMap<String, Arc<acts::Channel>> = HashMap::new();
        let mut nrun = 0;
        for op in v["ops"].as_array().unwrap() {
            if let Some(o) = op.get("on") {
                let id = o["id"].as_str().unwrap().to_string();
                let chan = engine.channel_with_options(&ChannelOptions {
                    id: id.clone(),
                    ack: false,
                    r#type: o["type"].as_str().unwrap().to_string(),
                    state: o["state"].as_str().unwrap().to_string(),
                    tag: o["tag"].as_str().unwrap().to_string(),
                    key: o["key"].as_str().unwrap().to_string(),
                    uses: o["uses"].as_str().unwrap().to_string(),
                });
                let hits = hits.clone();
                let cid2 = id.clone();
                chan.on_message(move |e| {
                    hits.lock().unwrap().push((cid2.clone(), e.id.clone()));
                });
                chans.insert(id, chan);
            } else if let Some(id) = op.get("close") {
                if let Some(c) = chans.get(id.as_str().unwrap()) {
                    c.close();
                }
            } else if let Some(id) = op.get("unsub") {
                let _ = ex.msg().unsub(id.as_str().unwrap());
            } else if op.get("run").is_some() {
                nrun += 1;
                let pid = format!("p-{cid}-{nrun}");
                let mut vars = Vars::new();
                vars.set("pid", pid.clone());
                quiesce().await;
                acts::verif::take_log();
                hits.lock().unwrap().clear();
                ex.proc().start(&wf.id, &vars).unwrap();
                for _ in 0..6 {
                    quiesce().await;
                    let open: Vec<String> = engine.verif_live(&pid).map(|l| l.3.iter().filter(|t| t.3 == "interrupted").map(|t| t.0.clone()).collect()).unwrap_or_default();
                    if open.is_empty() {
                        break;
                    }
                    for tid in open {
                        let _ = ex.act().complete(&pid, &tid, &Vars::new());
                    }
                }
                quiesce().await;
                writeln!(w, "case {cid}: RUN {nrun}").unwrap();
                for l in acts::verif::take_log() {
                    let p: Vec<&str> = l.split(' ').collect();
                    if p.len() >= 4 && p[0] == "M" {
                        let m: Value = serde_json::from_str(&p[3].replace('\u{1}', " ")).unwrap_or(Value::Null);
                        writeln!(w, "case {cid}: E {}", json!({"id": m["id"], "type": m["type"], "state": m["state"], "tag": m["tag"], "model_tag": m["model"]["tag"], "key": m["key"], "uses": m["uses"]})).unwrap();
                    }
                }
                for (c, mid) in hits.lock().unwrap().iter() {
                    writeln!(w, "case {cid}: H {c} {mid}").unwrap();
                }
            }
        }
        engine.close();
        quiesce().await;
    }
    w.flush().unwrap();
}
