//! C18: channels.  ops: {"on": {id,h,type,state,tag,key,uses}} | {"close": id} | {"unsub": id} | {"run": n}.
//! `h` is the kind of handler registered: message (default) | start | complete | error.
//! A run starts the fixed workflow and answers every interrupt act (run 2: the first one with an error);
//! every emitted message / process event is printed with the fields a channel looks at (E / ES / EC / EE), every
//! handler invocation with (kind, channel, message id) (H / HS / HC / HE).
use acts::{ChannelOptions, EngineBuilder, Vars, Workflow};
use serde_json::{Value, json};
use std::collections::HashMap;
use std::io::{BufRead, Write};
use std::sync::{Arc, Mutex};

use crate::util::quiesce;

pub fn main(cases: &str, out: &str, workdir: &str, _args: &[String]) {
    let rt = tokio::runtime::Builder::new_current_thread().enable_all().build().unwrap();
    rt.block_on(run(cases, out, workdir));
}

async fn run(cases: &str, out: &str, workdir: &str) {
    acts::verif::manual_tick(true);
    acts::verif::log_enable(true);
    let cfgp = crate::util::write_config(workdir, "chan.toml", "tick_interval_secs = 100000\nkeep_processes = true\n");
    let f = std::fs::File::open(cases).unwrap();
    let mut w = std::io::BufWriter::new(std::fs::File::create(out).unwrap());
    for line in std::io::BufReader::new(f).lines() {
        let line = line.unwrap();
        if line.trim().is_empty() {
            continue;
        }
        let v: Value = serde_json::from_str(&line).unwrap();
        let cid = v["id"].as_str().unwrap().to_string();
        let engine = EngineBuilder::new().set_config_source(&cfgp).build().await.unwrap().start();
        let ex = engine.executor();
        let wfj = json!({"id": format!("m-{cid}"), "tag": "mt", "steps": [
            {"id": "s1", "tag": "x1", "acts": [
                {"id": "a1", "key": "k1", "tag": "ta", "uses": "acts.core.irq"},
                {"id": "a2", "key": "ab", "uses": "acts.core.msg"}]},
            {"id": "s2", "acts": [{"id": "a3", "key": "ac", "tag": "tb", "uses": "acts.core.irq"}]}]});
        let wf = Workflow::from_json(&wfj.to_string()).unwrap();
        ex.model().deploy(&wf).unwrap();
        let hits: Arc<Mutex<Vec<(String, String, String)>>> = Arc::new(Mutex::new(Vec::new()));
        // the process events themselves, seen by a channel that is never closed
        let events: Arc<Mutex<Vec<(String, Value)>>> = Arc::new(Mutex::new(Vec::new()));
        let obs = engine.channel_with_options(&ChannelOptions { id: "zz-obs".to_string(), ..Default::default() });
        for kind in ["S", "C", "E"] {
            let events = events.clone();
            let f = move |e: &acts::Event<acts::Message>| {
                events.lock().unwrap().push((kind.to_string(), json!({"id": e.id, "type": e.r#type, "state": e.state.as_ref(), "tag": e.tag, "model_tag": e.model.tag, "key": e.key, "uses": e.uses})));
            };
            match kind {
                "S" => obs.on_start(f),
                "C" => obs.on_complete(f),
                _ => obs.on_error(f),
            }
        }
        let mut chans: HashMap<String, Arc<acts::Channel>> = HashMap::new();
        let mut nrun = 0;
        for op in v["ops"].as_array().unwrap() {
            if let Some(o) = op.get("on") {
                let id = o["id"].as_str().unwrap().to_string();
                let chan = engine.channel_with_options(&ChannelOptions {
                    id: id.clone(),
                    ack: false,
                    r#type: o["type"].as_str().unwrap().to_string(),
                    state: o["state"].as_str().unwrap().to_string(),
                    tag: o["tag"].as_str().unwrap().to_string(),
                    key: o["key"].as_str().unwrap().to_string(),
                    uses: o["uses"].as_str().unwrap().to_string(),
                });
                let hits = hits.clone();
                let cid2 = id.clone();
                let kind = match o["h"].as_str().unwrap_or("message") {
                    "start" => "S",
                    "complete" => "C",
                    "error" => "E",
                    _ => "",
                };
                let f = move |e: &acts::Event<acts::Message>| {
                    hits.lock().unwrap().push((kind.to_string(), cid2.clone(), e.id.clone()));
                };
                match kind {
                    "S" => chan.on_start(f),
                    "C" => chan.on_complete(f),
                    "E" => chan.on_error(f),
                    _ => chan.on_message(f),
                }
                chans.insert(id, chan);
            } else if let Some(id) = op.get("close") {
                if let Some(c) = chans.get(id.as_str().unwrap()) {
                    c.close();
                }
            } else if let Some(id) = op.get("unsub") {
                let _ = ex.msg().unsub(id.as_str().unwrap());
            } else if let Some(mode) = op.get("run") {
                let fail = mode.as_i64() == Some(2);
                let mut failed = false;
                nrun += 1;
                let pid = format!("p-{cid}-{nrun}");
                let mut vars = Vars::new();
                vars.set("pid", pid.clone());
                quiesce().await;
                acts::verif::take_log();
                hits.lock().unwrap().clear();
                events.lock().unwrap().clear();
                ex.proc().start(&wf.id, &vars).unwrap();
                for _ in 0..6 {
                    quiesce().await;
                    let open: Vec<String> = engine.verif_live(&pid).map(|l| l.3.iter().filter(|t| t.3 == "interrupted").map(|t| t.0.clone()).collect()).unwrap_or_default();
                    if open.is_empty() {
                        break;
                    }
                    for tid in open {
                        if fail && !failed {
                            failed = true;
                            let mut o = Vars::new();
                            o.set("ecode", "e1".to_string());
                            let _ = ex.act().error(&pid, &tid, &o);
                        } else {
                            let _ = ex.act().complete(&pid, &tid, &Vars::new());
                        }
                    }
                }
                quiesce().await;
                writeln!(w, "case {cid}: RUN {nrun}").unwrap();
                for l in acts::verif::take_log() {
                    let p: Vec<&str> = l.split(' ').collect();
                    if p.len() >= 4 && p[0] == "M" {
                        let m: Value = serde_json::from_str(&p[3].replace('\u{1}', " ")).unwrap_or(Value::Null);
                        writeln!(w, "case {cid}: E {}", json!({"id": m["id"], "type": m["type"], "state": m["state"], "tag": m["tag"], "model_tag": m["model"]["tag"], "key": m["key"], "uses": m["uses"]})).unwrap();
                    }
                }
                for (k, m) in events.lock().unwrap().iter() {
                    writeln!(w, "case {cid}: E{k} {m}").unwrap();
                }
                for (k, c, mid) in hits.lock().unwrap().iter() {
                    writeln!(w, "case {cid}: H{k} {c} {mid}").unwrap();
                }
            }
        }
        engine.close();
        quiesce().await;
    }
    w.flush().unwrap();
}
