//! several processes in one engine (C13 isolation, C15 sub-process calls, C17 retention):
//! every process has a fixed pid, its own canonical trace (`case <cid>/<pid>: ...`), and the store is
//! listed at the end of the case.
use acts::query::{Cond, Expr, Query};
use acts::{EngineBuilder, Vars, Workflow};
use serde_json::Value;
use std::collections::BTreeMap;
use std::io::{BufRead, Write};

use crate::engine_mode::{canon_str, Canon};
use crate::util::quiesce;

pub fn main(cases: &str, out: &str, workdir: &str, args: &[String]) {
    let threads: usize = args.iter().find_map(|a| a.strip_prefix("threads=").map(|x| x.parse().unwrap())).unwrap_or(1);
    let rt = if threads <= 1 {
        tokio::runtime::Builder::new_current_thread().enable_all().build().unwrap()
    } else {
        tokio::runtime::Builder::new_multi_thread().worker_threads(threads).enable_all().build().unwrap()
    };
    rt.block_on(run(cases, out, workdir));
}

struct P {
    canon: Canon,
    mid: String,
}

fn flush_all(w: &mut impl Write, cid: &str, procs: &mut BTreeMap<String, P>) {
    let lines = acts::verif::take_log();
    for (pid, p) in procs.iter_mut() {
        let tag = format!("{cid}/{pid}");
        p.canon.flush_lines(w, &tag, pid, &p.mid.clone(), &lines);
    }
}

async fn run(cases: &str, out: &str, workdir: &str) {
    acts::verif::manual_tick(true);
    acts::verif::log_enable(true);
    let f = std::fs::File::open(cases).unwrap();
    let mut w = std::io::BufWriter::new(std::fs::File::create(out).unwrap());
    for line in std::io::BufReader::new(f).lines() {
        let line = line.unwrap();
        if line.trim().is_empty() {
            continue;
        }
        let v: Value = serde_json::from_str(&line).unwrap();
        let cid = v["id"].as_str().unwrap().to_string();
        let keep = v["cfg"]["keep"].as_bool().unwrap_or(true);
        let cap = v["cfg"]["cache_cap"].as_u64().unwrap_or(0);
        let sqlite = v["cfg"]["backend"].as_str() == Some("sqlite");
        let mut cfg = format!("tick_interval_secs = 100000\nkeep_processes = {keep}\nmax_message_retry_times = 3\n");
        if cap > 0 {
            cfg += &format!("cache_cap = {cap}\n");
        }
        if sqlite {
            let db = std::path::Path::new(workdir).join(format!("multi-{cid}.db"));
            let _ = std::fs::remove_file(&db);
            cfg += &format!("[sqlite]\ndatabase_url = \"sqlite://{}\"\n", db.display());
        }
        let cfgp = crate::util::write_config(workdir, "multi.toml", &cfg);
        acts::verif::clock_enable(1000);
        acts::verif::take_log();
        let mut b = EngineBuilder::new().set_config_source(&cfgp);
        if sqlite {
            b = b.add_plugin(&acts_store_sqlite::SqliteStore);
        }
        let mut engine = b.build().await.unwrap().start();
        let mut ex = engine.executor();
        // models
        let mut mids: Vec<String> = vec![];
        for (k, m) in v["models"].as_array().unwrap().iter().enumerate() {
            let mid = format!("m-{cid}-{k}");
            mids.push(mid.clone());
            match Workflow::from_json(&m.to_string()) {
                Ok(mut wf) => {
                    wf.id = mid.clone();
                    if let Err(e) = ex.model().deploy(&wf) {
                        writeln!(w, "case {cid}: DEPLOY-FAILED {k} {e}").unwrap();
                    }
                }
                Err(e) => writeln!(w, "case {cid}: CASE-ERROR {e}").unwrap(),
            }
        }
        // every process of the case (also the ones started by sub-process calls) has a fixed pid
        let mut procs: BTreeMap<String, P> = BTreeMap::new();
        if let Some(m) = v["procs"].as_object() {
            for (pid, k) in m {
                let k = k.as_u64().unwrap() as usize;
                procs.insert(pid.clone(), P { canon: Canon::new(&v["models"][k], false), mid: mids[k].clone() });
            }
        }
        for op in v["ops"].as_array().unwrap() {
            if let Some(k) = op.get("start") {
                let k = k.as_u64().unwrap() as usize;
                let pid = op["pid"].as_str().unwrap();
                let mut vars: Vars = op.get("vars").cloned().unwrap_or(Value::Object(Default::default())).into();
                vars.set("pid", pid.to_string());
                let r = ex.proc().start(&mids[k], &vars);
                quiesce().await;
                flush_all(&mut w, &cid, &mut procs);
                writeln!(w, "case {cid}/{pid}: S {}", if r.is_ok() { "ok" } else { "err" }).unwrap();
            } else if op.get("restart").is_some() {
                // stop the engine at this quiescent point and start a new one on the same store (SQLite)
                engine.close();
                quiesce().await;
                let mut b = EngineBuilder::new().set_config_source(&cfgp);
                if sqlite {
                    b = b.add_plugin(&acts_store_sqlite::SqliteStore);
                }
                engine = b.build().await.unwrap().start();
                ex = engine.executor();
                quiesce().await;
                flush_all(&mut w, &cid, &mut procs);
            } else if let Some(list) = op.get("burst") {
                // several processes started while the scheduler is held, some of them dropped from the cache before they run
                acts::verif::gate_close();
                let mut res: Vec<(String, bool)> = vec![];
                for st in list.as_array().unwrap() {
                    let k = st["start"].as_u64().unwrap() as usize;
                    let pid = st["pid"].as_str().unwrap();
                    let mut vars: Vars = Value::Object(Default::default()).into();
                    vars.set("pid", pid.to_string());
                    res.push((pid.to_string(), ex.proc().start(&mids[k], &vars).is_ok()));
                }
                for _ in 0..50 {
                    tokio::task::yield_now().await;
                }
                for pid in op["evict"].as_array().map(|a| a.clone()).unwrap_or_default() {
                    engine.verif_evict(pid.as_str().unwrap());
                }
                acts::verif::gate_open();
                quiesce().await;
                flush_all(&mut w, &cid, &mut procs);
                for (pid, ok) in res {
                    writeln!(w, "case {cid}/{pid}: S {}", if ok { "ok" } else { "err" }).unwrap();
                }
            } else if let Some(adv) = op.get("tick") {
                acts::verif::clock_advance(adv.as_i64().unwrap());
                engine.verif_tick();
                quiesce().await;
                flush_all(&mut w, &cid, &mut procs);
            } else if let Some(k) = op.get("rm_model") {
                let r = ex.model().rm(&mids[k.as_u64().unwrap() as usize]);
                writeln!(w, "case {cid}: RM-MODEL {} {}", k, matches!(r, Ok(true))).unwrap();
            } else if let Some(pid) = op.get("p") {
                let pid = pid.as_str().unwrap();
                let t = op["t"].as_u64().unwrap() as usize;
                // by schedule-independent name when the case gives one (runs with several worker threads), else by creation index
                let tid = match op.get("tn") {
                    Some(Value::String(n)) => procs.get(pid).and_then(|p| p.canon.by_name.get(n).and_then(|i| p.canon.tids.get(*i).cloned())),
                    Some(_) => None,
                    None => procs.get(pid).and_then(|p| p.canon.tids.get(t).cloned()),
                }
                .unwrap_or("zzzz".to_string());
                let opts: Vars = op["o"].clone().into();
                let a = op["a"].as_str().unwrap();
                let ev: acts::Action = serde_json::from_value(serde_json::json!({"pid": pid, "tid": tid, "event": a, "options": {}})).unwrap();
                let r = std::panic::catch_unwind(std::panic::AssertUnwindSafe(|| ex.act().do_action(pid, &tid, ev.event.clone(), &opts)));
                flush_all(&mut w, &cid, &mut procs);
                match r {
                    Ok(r) => writeln!(w, "case {cid}/{pid}: A {}", if r.is_ok() { "ok" } else { "err" }).unwrap(),
                    Err(_) => writeln!(w, "case {cid}/{pid}: A panic").unwrap(),
                }
                quiesce().await;
                flush_all(&mut w, &cid, &mut procs);
                writeln!(w, "case {cid}/{pid}: Q").unwrap();
            }
        }
        quiesce().await;
        flush_all(&mut w, &cid, &mut procs);
        // what the store holds at the end
        let store = engine.verif_store();
        let big = Query::new().set_limit(1000000);
        let mut prows: Vec<String> = store.procs().query(&big).map(|p| p.rows.iter().map(|r| format!("{}:{}", r.id, r.state)).collect()).unwrap_or_default();
        prows.sort();
        writeln!(w, "case {cid}: STORE procs=[{}]", prows.join(" ")).unwrap();
        for (pid, p) in procs.iter() {
            let q = Query::new().push(Cond::and().push(Expr::eq("pid", pid.to_string()))).set_limit(1000000);
            let rows = store.tasks().query(&q).map(|r| r.rows).unwrap_or_default();
            let open = rows.iter().filter(|r| matches!(r.state.as_str(), "none" | "ready" | "pending" | "running" | "interrupted")).count();
            let msgs = store.messages().query(&q).map(|r| r.rows.len()).unwrap_or(0);
            writeln!(w, "case {cid}/{pid}: STORE tasks={} open={} msgs={}", rows.len(), open, msgs).unwrap();
            // final picture of the tasks, from the store
            let mut lines: Vec<(usize, String)> = rows
                .iter()
                .filter_map(|r| p.canon.idx.get(&r.tid).map(|i| (*i, format!("case {cid}/{pid}: D {i} {} {}", r.state, canon_str(&r.data)))))
                .collect();
            lines.sort();
            for (_, l) in lines {
                writeln!(w, "{l}").unwrap();
            }
            // the error code a task row carries (C15: the calling act carries the code its child ended with)
            let mut errs: Vec<(usize, String)> = rows
                .iter()
                .filter_map(|r| {
                    let e = r.err.as_ref()?;
                    let ev = serde_json::from_str::<serde_json::Value>(e).ok();
                    let code = ev.as_ref().and_then(|v| v.get("ecode").and_then(|c| c.as_str().map(|x| x.to_string()))).unwrap_or_default();
                    // ... and its message (one token: white space replaced)
                    let msg: String = ev.as_ref().and_then(|v| v.get("message").and_then(|c| c.as_str().map(|x| x.to_string()))).unwrap_or_default()
                        .chars().map(|c| if c.is_whitespace() { '_' } else { c }).collect();
                    p.canon.idx.get(&r.tid).map(|i| (*i, format!("case {cid}/{pid}: E {i} {} {}", if code.is_empty() { "-".to_string() } else { code }, if msg.is_empty() { "-".to_string() } else { msg })))
                })
                .collect();
            errs.sort();
            for (_, l) in errs {
                writeln!(w, "{l}").unwrap();
            }
        }
        let mut evs: Vec<String> = store.events().query(&big).map(|p| p.rows.iter().map(|r| r.id.clone()).collect()).unwrap_or_default();
        evs.sort();
        let mut ms: Vec<String> = store.models().query(&big).map(|p| p.rows.iter().map(|r| r.id.clone()).collect()).unwrap_or_default();
        ms.sort();
        writeln!(w, "case {cid}: STORE models=[{}] events=[{}]", ms.join(" "), evs.join(" ")).unwrap();
        engine.close();
        quiesce().await;
        crate::util::emit_problems(&mut w, &cid);
        crate::util::force_idle();
    }
    w.flush().unwrap();
}
