//! C20 cases on the real code: `serde` (JSON / YAML round trips of a model), `tree` (the execution
//! tree built from a model, via the verif_tree hook), `deploy` (deploy / rm / start sequences on a
//! fresh engine, observed through the model and event collections).
use acts::{EngineBuilder, Engine, Vars, Workflow};
use acts::query::Query;
use serde_json::Value;
use std::collections::HashMap;
use std::io::{BufRead, Write};

use crate::util::{quiesce, sorted_json};

pub fn main(cases: &str, out: &str, workdir: &str, _args: &[String]) {
    let rt = tokio::runtime::Builder::new_current_thread().enable_all().build().unwrap();
    rt.block_on(run(cases, out, workdir));
}

/// first path at which two JSON values differ (numbers: integer and float kinds are distinct)
fn diff(a: &Value, b: &Value, path: &str) -> Option<String> {
    match (a, b) {
        (Value::Object(x), Value::Object(y)) => {
            for (k, v) in x {
                match y.get(k) {
                    Some(w) => {
                        if let Some(d) = diff(v, w, &format!("{path}/{k}")) {
                            return Some(d);
                        }
                    }
                    None => return Some(format!("{path}/{k}:missing")),
                }
            }
            for k in y.keys() {
                if !x.contains_key(k) {
                    return Some(format!("{path}/{k}:extra"));
                }
            }
            None
        }
        (Value::Array(x), Value::Array(y)) => {
            if x.len() != y.len() {
                return Some(format!("{path}:len"));
            }
            for (i, (v, w)) in x.iter().zip(y.iter()).enumerate() {
                if let Some(d) = diff(v, w, &format!("{path}/{i}")) {
                    return Some(d);
                }
            }
            None
        }
        (Value::Number(x), Value::Number(y)) => {
            let same = if x.is_f64() != y.is_f64() { false } else if x.is_f64() { x.as_f64() == y.as_f64() } else { x.to_string() == y.to_string() };
            if same { None } else { Some(format!("{path}:{x}!={y}")) }
        }
        _ => {
            if a == b { None } else { Some(format!("{path}:value")) }
        }
    }
}

fn serde_case(w: &mut impl Write, cid: &str, v: &Value) {
    let text = v["wf"].to_string();
    let w1 = match Workflow::from_json(&text) {
        Ok(x) => x,
        Err(e) => {
            writeln!(w, "case {cid}: PARSE-ERR {}", e.to_string().replace('\n', " ")).unwrap();
            return;
        }
    };
    let v1 = serde_json::to_value(&w1).unwrap();
    writeln!(w, "case {cid}: V1 {}", sorted_json(&v1)).unwrap();
    // JSON
    match w1.to_json().and_then(|s| Workflow::from_json(&s)) {
        Ok(w2) => {
            let v2 = serde_json::to_value(&w2).unwrap();
            writeln!(w, "case {cid}: JSON-RT {}", diff(&v1, &v2, "").unwrap_or("ok".to_string())).unwrap();
        }
        Err(e) => writeln!(w, "case {cid}: JSON-RT error {}", e.to_string().replace('\n', " ")).unwrap(),
    }
    // YAML
    match w1.to_yml() {
        Ok(y) => match Workflow::from_yml(&y) {
            Ok(w3) => {
                let v3 = serde_json::to_value(&w3).unwrap();
                writeln!(w, "case {cid}: YML-RT {}", diff(&v1, &v3, "").unwrap_or("ok".to_string())).unwrap();
            }
            Err(e) => writeln!(w, "case {cid}: YML-RT parse-error {}", e.to_string().replace('\n', " ")).unwrap(),
        },
        Err(e) => writeln!(w, "case {cid}: YML-RT write-error {}", e.to_string().replace('\n', " ")).unwrap(),
    }
}

fn tree_case(w: &mut impl Write, cid: &str, v: &Value) {
    let wf = match Workflow::from_json(&v["wf"].to_string()) {
        Ok(x) => x,
        Err(e) => {
            writeln!(w, "case {cid}: PARSE-ERR {e}").unwrap();
            return;
        }
    };
    match Engine::verif_tree(&wf) {
        Ok(lines) => {
            for l in lines {
                writeln!(w, "case {cid}: NODE {l}").unwrap();
            }
        }
        Err(_) => writeln!(w, "case {cid}: TREE-ERR").unwrap(),
    }
}

async fn deploy_case(w: &mut impl Write, cid: &str, v: &Value, workdir: &str) {
    let cfgp = crate::util::write_config(workdir, "model.toml", "tick_interval_secs = 100000\nkeep_processes = true\n");
    let engine = EngineBuilder::new().set_config_source(&cfgp).build().await.unwrap().start();
    let ex = engine.executor();
    // the model last given to deploy under each id, with its text number
    let mut given: HashMap<String, (i64, Value)> = HashMap::new();
    for op in v["ops"].as_array().unwrap() {
        let name = op["op"].as_str().unwrap();
        let ok = match name {
            "deploy" => match Workflow::from_json(&op["wf"].to_string()) {
                Ok(wf) => {
                    let r = ex.model().deploy(&wf).is_ok();
                    if r {
                        given.insert(wf.id.clone(), (op["text"].as_i64().unwrap_or(-1), serde_json::to_value(&wf).unwrap()));
                    }
                    r
                }
                Err(_) => false,
            },
            "rm" => {
                let mid = op["mid"].as_str().unwrap();
                let r = ex.model().rm(mid).unwrap_or(false);
                if r {
                    given.remove(mid);
                }
                r
            }
            "start" => {
                let r = ex.proc().start(op["mid"].as_str().unwrap(), &Vars::new()).is_ok();
                quiesce().await;
                r
            }
            _ => false,
        };
        writeln!(w, "case {cid}: R {name} {}", if ok { "ok" } else { "err" }).unwrap();
        let store = engine.verif_store();
        let mut ms: Vec<(String, i32, String)> =
            store.models().query(&Query::new().set_limit(100000)).map(|p| p.rows.iter().map(|m| (m.id.clone(), m.ver, m.data.clone())).collect()).unwrap_or_default();
        ms.sort();
        let mut es: Vec<String> = store
            .events()
            .query(&Query::new().set_limit(100000))
            .map(|p| p.rows.iter().map(|e| format!("{}:{}:{}", e.mid, e.id.strip_prefix(&format!("{}:", e.mid)).unwrap_or(&e.id), e.ver)).collect())
            .unwrap_or_default();
        es.sort();
        writeln!(
            w,
            "case {cid}: S models=[{}] events=[{}]",
            ms.iter().map(|(i, v, _)| format!("{i}:{v}")).collect::<Vec<_>>().join(" "),
            es.join(" ")
        )
        .unwrap();
        for (id, _, data) in &ms {
            // the stored text read back as a model is the model that was given
            let k = match (Workflow::from_yml(data), given.get(id)) {
                (Ok(stored), Some((k, gv))) => {
                    if diff(&serde_json::to_value(&stored).unwrap(), gv, "").is_none() { k.to_string() } else { format!("{k}-differs") }
                }
                _ => "unreadable".to_string(),
            };
            writeln!(w, "case {cid}: TEXT {id} {k}").unwrap();
        }
    }
    engine.close();
}

async fn run(cases: &str, out: &str, workdir: &str) {
    let f = std::fs::File::open(cases).unwrap();
    let mut w = std::io::BufWriter::new(std::fs::File::create(out).unwrap());
    for line in std::io::BufReader::new(f).lines() {
        let line = line.unwrap();
        if line.trim().is_empty() {
            continue;
        }
        let v: Value = serde_json::from_str(&line).unwrap();
        let cid = v["id"].as_str().unwrap().to_string();
        match v["kind"].as_str().unwrap_or("") {
            "serde" => serde_case(&mut w, &cid, &v),
            "tree" => tree_case(&mut w, &cid, &v),
            "deploy" => deploy_case(&mut w, &cid, &v, workdir).await,
            "limit" => {
                // a timeout limit string through the engine's own parser and conversion
                use std::str::FromStr;
                let s = v["s"].as_str().unwrap_or("");
                match acts::TimeoutLimit::from_str(s) {
                    Err(_) => writeln!(w, "case {cid}: L err").unwrap(),
                    Ok(l) => {
                        let text = l.to_string();
                        let (val, unit) = text.split_at(text.len() - 1);
                        let secs = std::panic::catch_unwind(|| l.as_secs());
                        // the engine computes in i64: an overflow is a panic (debug) or a wrapped value (release)
                        let exact = (l.value as i128) * match unit { "s" => 1, "m" => 60, "h" => 3600, _ => 86400 };
                        let secs = match secs {
                            Ok(x) if x as i128 == exact => x.to_string(),
                            _ => "overflow".to_string(),
                        };
                        writeln!(w, "case {cid}: L {val} {unit} {secs}").unwrap();
                    }
                }
            }
            k => writeln!(w, "case {cid}: CASE-ERROR kind {k}").unwrap(),
        }
    }
}
