//! Correspondence harness: runs generated cases on the real yaojianpin/acts (built from /repo's
//! working tree with `--cfg acts_verif`) and prints canonical observations, one JSON object per line.
//!
//! usage: harness <mode> <cases.jsonl> <out.jsonl> <workdir> [args...]
mod chan_mode;
mod engine_mode;
mod model_mode;
mod multi_mode;
mod raw_mode;
mod retry_mode;
mod store_mode;
mod util;

fn main() {
    let args: Vec<String> = std::env::args().collect();
    if args.len() < 5 {
        eprintln!("usage: harness <mode> <cases.jsonl> <out.jsonl> <workdir> [args...]");
        std::process::exit(2);
    }
    let mode = args[1].as_str();
    util::install_panic_hook();
    let res = std::panic::catch_unwind(|| match mode {
        "store" => store_mode::main(&args[2], &args[3], &args[4], args.get(5).map(|s| s.as_str()).unwrap_or("mem")),
        "engine" => engine_mode::main(&args[2], &args[3], &args[4], &args[5..]),
        "multi" => multi_mode::main(&args[2], &args[3], &args[4], &args[5..]),
        "model" => model_mode::main(&args[2], &args[3], &args[4], &args[5..]),
        "chan" => chan_mode::main(&args[2], &args[3], &args[4], &args[5..]),
        "raw" => raw_mode::main(&args[2], &args[3], &args[4], &args[5..]),
        "retry" => retry_mode::main(&args[2], &args[3], &args[4], args.get(5).map(|s| s.as_str()).unwrap_or("mem")),
        _ => {
            eprintln!("unknown mode {mode}");
            std::process::exit(2);
        }
    });
    if res.is_err() {
        eprintln!("harness: panic in mode {mode}");
        std::process::exit(3);
    }
}
