//! raw cases: deploy the given workflows (first is the main one), start the main one with the given
//! start variables, apply the optional client operations (by node id of the act), and print
//! every message (node id, state, inputs, outputs) and the final data of every task as JSON.
use acts::{EngineBuilder, Vars, Workflow};
use serde_json::Value;
use std::io::{BufRead, Write};

use crate::util::{quiesce, sorted_json};

pub fn main(cases: &str, out: &str, workdir: &str, _args: &[String]) {
    let rt = tokio::runtime::Builder::new_current_thread().enable_all().build().unwrap();
    rt.block_on(run(cases, out, workdir));
}

async fn run(cases: &str, out: &str, workdir: &str) {
    let cfgp = crate::util::write_config(workdir, "raw.toml", "tick_interval_secs = 100000\nkeep_processes = true\n");
    acts::verif::manual_tick(true);
    acts::verif::log_enable(true);
    acts::verif::clock_enable(1000);
    let engine = EngineBuilder::new().set_config_source(&cfgp).build().await.unwrap().start();
    let ex = engine.executor();
    let f = std::fs::File::open(cases).unwrap();
    let mut w = std::io::BufWriter::new(std::fs::File::create(out).unwrap());
    for line in std::io::BufReader::new(f).lines() {
        let line = line.unwrap();
        if line.trim().is_empty() {
            continue;
        }
        let v: Value = serde_json::from_str(&line).unwrap();
        let cid = v["id"].as_str().unwrap().to_string();
        let mut mid = String::new();
        let mut failed = false;
        for (k, wfj) in v["wfs"].as_array().unwrap().iter().enumerate() {
            match Workflow::from_json(&wfj.to_string()) {
                Ok(mut wf) => {
                    wf.id = format!("{}-{cid}", wf.id);
                    if k == 0 {
                        mid = wf.id.clone();
                    }
                    if let Err(e) = ex.model().deploy(&wf) {
                        writeln!(w, "case {cid}: DEPLOY-FAILED {}", e.to_string().replace('\n', " ")).unwrap();
                        failed = true;
                    }
                }
                Err(e) => {
                    writeln!(w, "case {cid}: PARSE-FAILED {}", e.to_string().replace('\n', " ")).unwrap();
                    failed = true;
                }
            }
        }
        if failed {
            continue;
        }
        let pid = format!("p-{cid}");
        let mut vars: Vars = v["vars"].clone().into();
        vars.set("pid", pid.clone());
        quiesce().await;
        acts::verif::take_log();
        if let Err(e) = ex.proc().start(&mid, &vars) {
            writeln!(w, "case {cid}: START-FAILED {}", e.to_string().replace('\n', " ")).unwrap();
            continue;
        }
        quiesce().await;
        let mut flush = |w: &mut std::io::BufWriter<std::fs::File>| {
            for l in acts::verif::take_log() {
                let p: Vec<&str> = l.split(' ').collect();
                if p.len() >= 4 && p[0] == "M" {
                    let m: Value = serde_json::from_str(&p[3].replace('\u{1}', " ")).unwrap_or(Value::Null);
                    writeln!(w, "case {cid}: M {} {}", m["pid"].as_str().unwrap_or("?"), sorted_json(&serde_json::json!({"nid": m["nid"], "state": m["state"], "type": m["type"], "key": m["key"], "inputs": m["inputs"], "outputs": m["outputs"]}))).unwrap();
                } else if p.len() >= 4 && p[0] == "P" {
                    writeln!(w, "case {cid}: P {} {} {}", p[1], p[2], p[3].replace('\u{1}', " ")).unwrap();
                }
            }
        };
        flush(&mut w);
        if let Some(ops) = v["ops"].as_array() {
            for op in ops {
                // {"nid": "a1", "a": "next", "o": {...}, "pid": optional}
                let opid = op["pid"].as_str().map(|s| s.to_string()).unwrap_or(pid.clone());
                let nid = op["nid"].as_str().unwrap_or("");
                let tid = engine
                    .verif_live(&opid)
                    .and_then(|l| l.3.iter().rev().find(|t| t.1 == nid || t.1.ends_with(nid)).map(|t| t.0.clone()))
                    .unwrap_or("zzz".to_string());
                let opts: Vars = op["o"].clone().into();
                let ev: acts::Action = serde_json::from_value(serde_json::json!({"pid": opid, "tid": tid, "event": op["a"], "options": {}})).unwrap();
                let r = ex.act().do_action(&opid, &tid, ev.event.clone(), &opts);
                writeln!(w, "case {cid}: A {}", if r.is_ok() { "ok" } else { "err" }).unwrap();
                quiesce().await;
                flush(&mut w);
            }
        }
        if let Some(live) = engine.verif_live(&pid) {
            writeln!(w, "case {cid}: S {} {}", live.0, live.1).unwrap();
            for t in live.3.iter() {
                // the text as the engine serialises it (re-parsing floats here could round them)
                writeln!(w, "case {cid}: D {} {} {} {}", t.1, t.2, t.3, t.5.replace('\n', " ")).unwrap();
            }
        } else {
            writeln!(w, "case {cid}: GONE").unwrap();
        }
    }
    w.flush().unwrap();
    engine.close();
}
