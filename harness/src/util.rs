use std::io::Write;

/// an engine with its own config file (and scratch dir) so that runs never share state
pub fn write_config(workdir: &str, name: &str, body: &str) -> std::path::PathBuf {
    std::fs::create_dir_all(workdir).unwrap();
    let p = std::path::Path::new(workdir).join(name);
    let mut f = std::fs::File::create(&p).unwrap();
    f.write_all(body.as_bytes()).unwrap();
    p
}

/// wait until nothing is in flight (queued signals, spawned dispatches, launches)
pub async fn quiesce() {
    let mut zero = 0;
    let mut spins: u64 = 0;
    loop {
        tokio::task::yield_now().await;
        if acts::verif::inflight() == 0 {
            zero += 1;
            if zero >= 3 {
                break;
            }
        } else {
            zero = 0;
        }
        spins += 1;
        if spins % 64 == 0 {
            tokio::time::sleep(std::time::Duration::from_micros(50)).await;
        }
        if spins > 4_000_000 {
            eprintln!("quiesce: giving up, inflight={}", acts::verif::inflight());
            break;
        }
    }
}

pub fn sorted_json(v: &serde_json::Value) -> serde_json::Value {
    match v {
        serde_json::Value::Object(m) => {
            let mut keys: Vec<&String> = m.keys().collect();
            keys.sort();
            let mut out = serde_json::Map::new();
            for k in keys {
                out.insert(k.clone(), sorted_json(&m[k]));
            }
            serde_json::Value::Object(out)
        }
        serde_json::Value::Array(a) => serde_json::Value::Array(a.iter().map(sorted_json).collect()),
        x => x.clone(),
    }
}
