use std::io::Write;

/// an engine with its own config file (and scratch dir) so that runs never share state
pub fn write_config(workdir: &str, name: &str, body: &str) -> std::path::PathBuf {
    std::fs::create_dir_all(workdir).unwrap();
    let p = std::path::Path::new(workdir).join(name);
    let mut f = std::fs::File::create(&p).unwrap();
    f.write_all(body.as_bytes()).unwrap();
    p
}

static PROBLEMS: std::sync::Mutex<Vec<String>> = std::sync::Mutex::new(Vec::new());
static DEAD: std::sync::atomic::AtomicBool = std::sync::atomic::AtomicBool::new(false);

/// panics on engine threads / spawned tasks (tokio swallows them) are recorded: a case during which one
/// happened prints a `PANIC` line, a case whose work never drains prints a `HUNG` line
pub fn install_panic_hook() {
    let prev = std::panic::take_hook();
    std::panic::set_hook(Box::new(move |info| {
        let loc = info.location().map(|l| format!("{}:{}", l.file().rsplit("/src/").next().unwrap_or(""), l.line())).unwrap_or_default();
        let msg = info.payload().downcast_ref::<String>().cloned().or_else(|| info.payload().downcast_ref::<&str>().map(|s| s.to_string())).unwrap_or_default();
        let msg: String = msg.lines().next().unwrap_or("").chars().take(160).collect();
        PROBLEMS.lock().unwrap().push(format!("PANIC {loc} {msg}"));
        DEAD.store(true, std::sync::atomic::Ordering::SeqCst);
        prev(info);
    }));
}

/// problems since the last call; resets the in-flight counter when work was lost (so that the next case of
/// the shard starts from zero again)
pub fn take_problems() -> Vec<String> {
    let v = std::mem::take(&mut *PROBLEMS.lock().unwrap());
    DEAD.store(false, std::sync::atomic::Ordering::SeqCst);
    v
}

/// after lost work: the counter restarts from zero for the next case of the shard
pub fn force_idle() {
    while acts::verif::inflight() > 0 {
        acts::verif::dec();
    }
    while acts::verif::inflight() < 0 {
        acts::verif::inc();
    }
}

pub fn emit_problems(w: &mut impl Write, tag: &str) {
    let mut seen = std::collections::BTreeSet::new();
    for p in take_problems() {
        if seen.insert(p.clone()) {
            writeln!(w, "case {tag}: {p}").unwrap();
        }
    }
}

/// wait until nothing is in flight (queued signals, spawned dispatches, launches)
pub async fn quiesce() {
    let mut zero = 0;
    let mut spins: u64 = 0;
    loop {
        tokio::task::yield_now().await;
        if acts::verif::inflight() == 0 {
            zero += 1;
            if zero >= 3 {
                break;
            }
        } else {
            zero = 0;
        }
        spins += 1;
        if spins % 64 == 0 {
            tokio::time::sleep(std::time::Duration::from_micros(50)).await;
        }
        // after a panic on an engine task the lost unit of work never finishes: do not wait long for it
        let limit = if DEAD.load(std::sync::atomic::Ordering::SeqCst) { 20_000 } else { 4_000_000 };
        if spins > limit {
            eprintln!("quiesce: giving up, inflight={}", acts::verif::inflight());
            let mut pr = PROBLEMS.lock().unwrap();
            if !pr.iter().any(|p| p.starts_with("HUNG")) {
                pr.push("HUNG work in flight never drained".to_string());
            }
            DEAD.store(true, std::sync::atomic::Ordering::SeqCst);
            break;
        }
    }
}

pub fn sorted_json(v: &serde_json::Value) -> serde_json::Value {
    match v {
        serde_json::Value::Object(m) => {
            let mut keys: Vec<&String> = m.keys().collect();
            keys.sort();
            let mut out = serde_json::Map::new();
            for k in keys {
                out.insert(k.clone(), sorted_json(&m[k]));
            }
            serde_json::Value::Object(out)
        }
        serde_json::Value::Array(a) => serde_json::Value::Array(a.iter().map(sorted_json).collect()),
        x => x.clone(),
    }
}
