(* JSON case <-> model terms, trace printing (I/O glue only; no engine logic) *)
open M_engine
let rec nat_of_int n = if n <= 0 then O else S (nat_of_int (n - 1))
let rec int_of_nat = function O -> 0 | S n -> 1 + int_of_nat n
let rec pos_of_int n = if n = 1 then XH else if n land 1 = 0 then XO (pos_of_int (n lsr 1)) else XI (pos_of_int (n lsr 1))
let z_of_int n = if n = 0 then Z0 else if n > 0 then Zpos (pos_of_int n) else Zneg (pos_of_int (- n))
let rec int_of_pos = function XH -> 1 | XO p -> 2 * int_of_pos p | XI p -> 2 * int_of_pos p + 1
let int_of_z = function Z0 -> 0 | Zpos p -> int_of_pos p | Zneg p -> - (int_of_pos p)

(* ---- names ---- *)
(* key 8 has `__` inside its name: not a private name (private = begins with `data` or `__`) *)
let kname k = match k with 0 -> "data" | 1 -> "dataset" | 2 -> "__p" | 8 -> "kk__8" | 999 -> "nope" | k -> Printf.sprintf "k%d" k
let key_of_name s =
  match s with
  | "data" -> Some 0 | "dataset" -> Some 1 | "__p" -> Some 2 | "kk__8" -> Some 8 | "nope" -> Some 999
  | _ -> if String.length s >= 2 && s.[0] = 'k' then int_of_string_opt (String.sub s 1 (String.length s - 1)) else None
let nid_of_name s = if String.length s >= 2 && s.[0] = 'n' then int_of_string_opt (String.sub s 1 (String.length s - 1)) else None

(* ---- timeout limits: the rule key of the model is value * 4 + unit index; the limit in ms comes from the extracted
   Limit.parse_limit / Limit.limit_ms, not from this glue ---- *)
let bytes_of_string (s : string) : nat list = List.init (String.length s) (fun i -> nat_of_int (Char.code s.[i]))
let unit_index = function USecond -> 0 | UMinute -> 1 | UHour -> 2 | UDay -> 3
let unit_letter = function 0 -> "s" | 1 -> "m" | 2 -> "h" | _ -> "d"
exception Limit of string
let limit_of_name (s : string) : int * z =
  match parse_limit (bytes_of_string s) with
  | Some (v, u) -> (int_of_z v * 4 + unit_index u, limit_ms (v, u))
  | None -> raise (Limit s)
(* decimal text of a Z that may not fit an OCaml int: through Int64 (values here are i64 by Limit.parse_i64_range / fits_i64) *)
let rec int64_of_pos = function XH -> 1L | XO p -> Int64.mul 2L (int64_of_pos p) | XI p -> Int64.add (Int64.mul 2L (int64_of_pos p)) 1L
let zstring = function
  | Z0 -> "0"
  | Zpos p -> Int64.to_string (int64_of_pos p)
  | Zneg p -> (match p with
               | _ -> let s = Int64.to_string (Int64.neg (int64_of_pos p)) in if s.[0] = '-' then s else "-" ^ s)
let limit_name (k : int) : string = Printf.sprintf "%d%s" (k / 4) (unit_letter (k mod 4))

(* ---- values / vars ---- *)
let jval = function VNull -> Json.Null | VBool b -> Json.Bool b | VNum z -> Json.Int (int_of_z z)
let val_of_json = function
  | Json.Null -> Some VNull | Json.Bool b -> Some (VBool b) | Json.Int k -> Some (VNum (z_of_int k)) | _ -> None
let jvars (v : (nat * val0) list) = Json.Obj (List.map (fun (k, x) -> (kname (int_of_nat k), jval x)) v)
let vars_of_json j : (nat * val0) list =
  match j with
  | Json.Obj l -> List.filter_map (fun (k, v) -> match key_of_name k, val_of_json v with
                                                 | Some k, Some v -> Some (nat_of_int k, v) | _ -> None) l
  | _ -> []
let sval = function VNull -> "null" | VBool b -> string_of_bool b | VNum z -> string_of_int (int_of_z z)
let canon (v : (nat * val0) list) =
  let l = List.sort compare (List.map (fun (k, x) -> (kname (int_of_nat k), sval x)) v) in
  "{" ^ String.concat "," (List.map (fun (k, x) -> k ^ ":" ^ x) l) ^ "}"

(* ---- conditions: fully parenthesised JavaScript ---- *)
let rec js_n = function
  | NVar k -> kname (int_of_nat k)
  | NLit z -> let i = int_of_z z in if i < 0 then Printf.sprintf "(0 - %d)" (- i) else string_of_int i
  | NAdd (a, b) -> Printf.sprintf "(%s + %s)" (js_n a) (js_n b)
  | NSub (a, b) -> Printf.sprintf "(%s - %s)" (js_n a) (js_n b)
let rec js_b = function
  | BTrue -> "true" | BFalse -> "false"
  | BLt (a, b) -> Printf.sprintf "(%s < %s)" (js_n a) (js_n b)
  | BLe (a, b) -> Printf.sprintf "(%s <= %s)" (js_n a) (js_n b)
  | BGt (a, b) -> Printf.sprintf "(%s > %s)" (js_n a) (js_n b)
  | BGe (a, b) -> Printf.sprintf "(%s >= %s)" (js_n a) (js_n b)
  | BAnd (a, b) -> Printf.sprintf "(%s && %s)" (js_b a) (js_b b)
  | BOr (a, b) -> Printf.sprintf "(%s || %s)" (js_b a) (js_b b)
  | BNot a -> Printf.sprintf "(!%s)" (js_b a)
exception Cond of string
let parse_cond (s : string) : bexpr =
  let n = String.length s in
  let i = ref 0 in
  let ws () = while !i < n && s.[!i] = ' ' do incr i done in
  let word () = ws (); let j = !i in
    while !i < n && (match s.[!i] with 'a'..'z' | 'A'..'Z' | '0'..'9' | '_' -> true | _ -> false) do incr i done;
    String.sub s j (!i - j) in
  let opr () = ws (); let j = !i in
    while !i < n && (match s.[!i] with '<' | '>' | '=' | '&' | '|' | '+' | '-' -> true | _ -> false) do incr i done;
    String.sub s j (!i - j) in
  let rec nexp () : nexpr =
    ws ();
    if !i < n && s.[!i] = '(' then begin
      incr i; let a = nexp () in let o = opr () in let b = nexp () in ws ();
      if !i < n && s.[!i] = ')' then incr i else raise (Cond s);
      match o with "+" -> NAdd (a, b) | "-" -> NSub (a, b) | _ -> raise (Cond s) end
    else
      let w = word () in
      match int_of_string_opt w with
      | Some k -> NLit (z_of_int k)
      | None -> (match key_of_name w with Some k -> NVar (nat_of_int k) | None -> raise (Cond s)) in
  let rec bexp () : bexpr =
    ws ();
    if !i < n && s.[!i] = '(' then begin
      incr i; ws ();
      if !i < n && s.[!i] = '!' then begin
        incr i; let a = bexp () in ws (); if !i < n && s.[!i] = ')' then incr i else raise (Cond s); BNot a end
      else begin
        (* either a comparison of numeric expressions or a connective of boolean ones: try boolean first *)
        let save = !i in
        let r = (try
          let a = bexp () in let o = opr () in
          (match o with
           | "&&" -> let b = bexp () in Some (BAnd (a, b))
           | "||" -> let b = bexp () in Some (BOr (a, b))
           | _ -> None) with Cond _ -> None) in
        let r = match r with
          | Some r -> r
          | None ->
            i := save;
            let a = nexp () in let o = opr () in let b = nexp () in
            (match o with "<" -> BLt (a, b) | "<=" -> BLe (a, b) | ">" -> BGt (a, b) | ">=" -> BGe (a, b) | _ -> raise (Cond s)) in
        ws (); if !i < n && s.[!i] = ')' then incr i else raise (Cond s); r end end
    else
      match word () with "true" -> BTrue | "false" -> BFalse | _ -> raise (Cond s) in
  let r = bexp () in ws (); if !i <> n then raise (Cond s); r

(* ---- act templates (setup / generated acts) ---- *)
let levt_name = function LCreated -> "created" | LCompleted -> "completed" | LBeforeUpdate -> "before_update" | LUpdated -> "updated" | LStep -> "step"
let levt_of_name = function "created" -> Some LCreated | "completed" -> Some LCompleted | "before_update" -> Some LBeforeUpdate
  | "updated" -> Some LUpdated | "step" -> Some LStep | _ -> None
let rec jspec_fields (ASpec (u, n, q, on, acts)) : (string * Json.t) list =
  let inl = Json.Arr (List.init (int_of_nat n) (fun i -> Json.Str (Printf.sprintf "v%d" i))) in
  let jacts = Json.Arr (List.map (fun a -> Json.Obj (jspec_fields a)) acts) in
  (match u with
   | UIrq -> [("uses", Json.Str "acts.core.irq")]
   | UMsg -> [("uses", Json.Str "acts.core.msg")]
   | UBlock -> [("uses", Json.Str "acts.core.block"); ("params", Json.Obj [("mode", Json.Str (if q then "sequence" else "parallel")); ("acts", jacts)])]
   | UParallel -> [("uses", Json.Str "acts.core.parallel"); ("params", Json.Obj [("in", inl); ("acts", jacts)])]
   | USequence -> [("uses", Json.Str "acts.core.sequence"); ("params", Json.Obj [("in", inl); ("acts", jacts)])]
   (* a package that fails when it is executed: a script that throws *)
   | UFail -> [("uses", Json.Str "acts.transform.code"); ("params", Json.Str "throw new Error('boom')")])
  @ (match on with None -> [] | Some e -> [("on", Json.Str (levt_name e))])
let rec spec_of_json (j : Json.t) : aspec =
  let uses = (match Json.get "uses" j with Json.Str s -> s | _ -> "") in
  let params = Json.get "params" j in
  let on = (match Json.get "on" j with Json.Str s -> levt_of_name s | _ -> None) in
  let acts = List.map spec_of_json (Json.to_list (Json.get "acts" params)) in
  let n = nat_of_int (List.length (Json.to_list (Json.get "in" params))) in
  match uses with
  | "acts.core.msg" -> ASpec (UMsg, O, true, on, [])
  | "acts.core.block" -> ASpec (UBlock, O, (match Json.get "mode" params with Json.Str "parallel" -> false | _ -> true), on, acts)
  | "acts.core.parallel" -> ASpec (UParallel, n, true, on, acts)
  | "acts.core.sequence" -> ASpec (USequence, n, true, on, acts)
  | "acts.transform.code" -> ASpec (UFail, O, true, on, [])
  | _ -> ASpec (UIrq, O, true, on, [])

(* ---- workflow ---- *)
let opt_field name v = match v with None -> [] | Some x -> [(name, x)]
let jcond c = match c with None -> [] | Some b -> [("if", Json.Str (js_b b))]
let nonempty name l f = if l = [] then [] else [(name, Json.Arr (List.map f l))]
let jv name v = if v = [] then [] else [(name, jvars v)]
let nname k = Printf.sprintf "n%d" (int_of_nat k)
let rec jstep (Step (id, sif, next, ins, outs, setup, branches, acts, catches, timeouts)) : Json.t =
  Json.Obj ([("id", Json.Str (nname id))] @ jcond sif
            @ (match next with None -> [] | Some k -> [("next", Json.Str (nname k))])
            @ jv "inputs" ins @ jv "outputs" outs
            @ nonempty "branches" branches jbranch @ nonempty "acts" acts jact
            @ nonempty "catches" catches jcatch @ nonempty "timeout" timeouts jtmo
            @ nonempty "setup" setup (fun a -> Json.Obj (jspec_fields a)))
and jbranch (Branch (id, bif, els, needs, steps)) =
  Json.Obj ([("id", Json.Str (nname id))] @ jcond bif @ (if els then [("else", Json.Bool true)] else [])
            @ nonempty "needs" needs (fun k -> Json.Str (nname k)) @ [("steps", Json.Arr (List.map jstep steps))])
and jact (Act (id, aif, spec, ins, outs, params, setup, catches, timeouts)) =
  Json.Obj ([("id", Json.Str (nname id)); ("key", Json.Str (nname id))]
            @ (match params with
               | Some p -> [("uses", Json.Str "acts.transform.set"); ("params", jvars p)]
               | None -> jspec_fields spec)
            @ jcond aif @ jv "inputs" ins @ jv "outputs" outs
            @ nonempty "catches" catches jcatch @ nonempty "timeout" timeouts jtmo
            @ nonempty "setup" setup (fun a -> Json.Obj (jspec_fields a)))
and jcatch (Catch (on, steps)) =
  Json.Obj ((match on with None -> [] | Some k -> [("on", Json.Str (Printf.sprintf "e%d" (int_of_nat k)))]) @ [("steps", Json.Arr (List.map jstep steps))])
and jtmo (Tmo (on, _, steps)) =
  (* one limit in eight is written in a legal non-canonical way (a sign, a leading zero): the same duration *)
  let k = int_of_nat on in
  let text = (match (k * 7 + List.length steps) mod 8 with
              | 0 -> "+" ^ limit_name k
              | 1 -> "0" ^ limit_name k
              | _ -> limit_name k) in
  Json.Obj [("on", Json.Str text); ("steps", Json.Arr (List.map jstep steps))]
let jworkflow (w : workflow) : Json.t =
  Json.Obj ([("id", Json.Str (nname w.w_id)); ("steps", Json.Arr (List.map jstep w.w_steps))]
            @ nonempty "setup" w.w_setup (fun a -> Json.Obj (jspec_fields a))
            @ [("inputs", jvars w.w_ins); ("outputs", jvars w.w_outs)])

exception Case of string
let id_of j = match Json.get "id" j with Json.Str s -> (match nid_of_name s with Some k -> nat_of_int k | None -> raise (Case ("id " ^ s))) | _ -> raise (Case "missing id")
let cond_of j = match Json.get "if" j with Json.Str s -> Some (parse_cond s) | _ -> None
let code_of s = if String.length s >= 2 && s.[0] = 'e' then (match int_of_string_opt (String.sub s 1 (String.length s - 1)) with Some k -> nat_of_int k | None -> raise (Case ("ecode " ^ s))) else raise (Case ("ecode " ^ s))
let rec step_of (j : Json.t) : step =
  Step (id_of j, cond_of j,
        (match Json.get "next" j with Json.Str s -> (match nid_of_name s with Some k -> Some (nat_of_int k) | None -> raise (Case "next")) | _ -> None),
        vars_of_json (Json.get "inputs" j), vars_of_json (Json.get "outputs" j),
        List.map spec_of_json (Json.to_list (Json.get "setup" j)),
        List.map branch_of (Json.to_list (Json.get "branches" j)),
        List.map act_of (Json.to_list (Json.get "acts" j)),
        List.map catch_of (Json.to_list (Json.get "catches" j)),
        List.map tmo_of (Json.to_list (Json.get "timeout" j)))
and branch_of j =
  Branch (id_of j, cond_of j, (match Json.get "else" j with Json.Bool b -> b | _ -> false),
          List.map (fun x -> match nid_of_name (Json.to_str x) with Some k -> nat_of_int k | None -> raise (Case "needs")) (Json.to_list (Json.get "needs" j)),
          List.map step_of (Json.to_list (Json.get "steps" j)))
and act_of j =
  let isset = (Json.get "uses" j = Json.Str "acts.transform.set") in
  Act (id_of j, cond_of j, (if isset then ASpec (UBlock, O, true, None, []) else (match spec_of_json j with ASpec (u, n, q, _, a) -> ASpec (u, n, q, None, a))),
       vars_of_json (Json.get "inputs" j), vars_of_json (Json.get "outputs" j),
       (if isset then Some (vars_of_json (Json.get "params" j)) else None),
       List.map spec_of_json (Json.to_list (Json.get "setup" j)),
       List.map catch_of (Json.to_list (Json.get "catches" j)),
       List.map tmo_of (Json.to_list (Json.get "timeout" j)))
and catch_of j =
  Catch ((match Json.get "on" j with Json.Str s -> Some (code_of s) | _ -> None), List.map step_of (Json.to_list (Json.get "steps" j)))
and tmo_of j =
  let s = Json.to_str (Json.get "on" j) in
  let (k, lim) = limit_of_name s in
  Tmo (nat_of_int k, lim, List.map step_of (Json.to_list (Json.get "steps" j)))
let workflow_of (j : Json.t) : workflow =
  { w_id = id_of j; w_steps = List.map step_of (Json.to_list (Json.get "steps" j));
    w_ins = vars_of_json (Json.get "inputs" j); w_outs = vars_of_json (Json.get "outputs" j);
    w_setup = List.map spec_of_json (Json.to_list (Json.get "setup" j)) }

(* ---- client operations ---- *)
(* `hold`: the action is issued while the scheduler is held, nothing is drained after it *)
type cop = CAct of int * action * (nat * val0) list * bool | CTick of int
let cop_of (j : Json.t) : cop =
  match Json.member "tick" j with
  | Some t -> CTick (Json.to_int t)
  | None ->
    let o = Json.get "o" j in
    let a = (match Json.to_str (Json.get "a" j) with
      | "next" -> ANext | "submit" -> ASubmit | "remove" -> ARemove | "skip" -> ASkip | "abort" -> AAbort | "cancel" -> ACancel
      | "error" -> AError (match Json.get "ecode" o with Json.Str s -> Some (code_of s) | _ -> None)
      | "back" -> ABack (match Json.get "to" o with Json.Str s -> (match nid_of_name s with Some k -> Some (nat_of_int k) | None -> Some (nat_of_int 99999)) | _ -> None)
      | "push" -> APush (match Json.get "uses" o with Json.Str _ -> true | _ -> false)
      | s -> raise (Case ("action " ^ s))) in
    CAct (Json.to_int (Json.get "t" j), a, vars_of_json o, (match Json.member "hold" j with Some (Json.Bool b) -> b | _ -> false))

(* ---- traces ---- *)
let sname = function SNone->"none"|SReady->"ready"|SPending->"pending"|SRunning->"running"|SInterrupt->"interrupted"
  |SCompleted->"completed"|SSubmitted->"submitted"|SBacked->"backed"|SCancelled->"cancelled"|SError->"error"
  |SAborted->"aborted"|SSkipped->"skipped"|SRemoved->"removed"
let mname s = match to_mstate s with MNone -> "none" | MCreated -> "created" | MCompleted -> "completed" | MSubmitted -> "submitted"
  | MBacked -> "backed" | MCancelled -> "cancelled" | MAborted -> "aborted" | MSkipped -> "skipped" | MError -> "error" | MRemoved -> "removed"
let kname_of = function KWorkflow -> "workflow" | KBranch -> "branch" | KStep -> "step" | KAct -> "act"
let uses_of (n : node) =
  if n.n_kind <> KAct then "-" else if n.n_isset then "acts.transform.set" else
  match sp_u n.n_spec with UIrq -> "acts.core.irq" | UMsg -> "acts.core.msg" | UBlock -> "acts.core.block"
  | UParallel -> "acts.core.parallel" | USequence -> "acts.core.sequence" | UFail -> "acts.transform.code"
let node_name (e : eng) nstatic n =
  let i = int_of_nat n in
  if i >= nstatic then "dyn" else nname (nd e n).n_id
let print_events oc cid (e : eng) nstatic (evs : ev list) =
  List.iter (function
    | ENew (t, n, p, at, _) -> Printf.fprintf oc "case %s: N %d %s %s %s %d %s %d\n" cid (int_of_nat t) (node_name e nstatic n) (match p with None -> "-" | Some x -> string_of_int (int_of_nat x))
                          (kname_of (nd e n).n_kind) (int_of_nat (nd e n).n_level) (uses_of (nd e n)) (int_of_z at)
    | ETrans (t, o, n, at, site) -> Printf.fprintf oc "case %s: T %d %s %s %d @%d\n" cid (int_of_nat t) (sname o) (sname n) (int_of_z at) (int_of_nat site)
    | EMsg (t, s, i, o) -> Printf.fprintf oc "case %s: M %d %s %s %s\n" cid (int_of_nat t) (mname s) (canon i) (canon o)
    | EProc (s, o) -> Printf.fprintf oc "case %s: P %s %s\n" cid (sname s) (canon o)
    | EAct ok -> Printf.fprintf oc "case %s: A %s\n" cid (if ok then "ok" else "err")
    | EPop t -> Printf.fprintf oc "case %s: X %d\n" cid (int_of_nat t)
    | EQuiet -> Printf.fprintf oc "case %s: Q\n" cid
    | EFire (t, on, now, start, limit) -> Printf.fprintf oc "case %s: F %d %s %d %d %d\n" cid (int_of_nat t) (limit_name (int_of_nat on)) (int_of_z now) (int_of_z start) (int_of_z limit)) evs
let rec drop n l = if n <= 0 then l else match l with [] -> [] | _ :: t -> drop (n - 1) t
