(* minimal JSON reader/printer for case files (I/O glue only) *)
type t = Null | Bool of bool | Int of int | Float of float | Str of string | Arr of t list | Obj of (string * t) list
exception Error of string
let parse (s : string) : t =
  let n = String.length s in
  let i = ref 0 in
  let peek () = if !i < n then s.[!i] else '\000' in
  let rec ws () = if !i < n && (s.[!i] = ' ' || s.[!i] = '\n' || s.[!i] = '\t' || s.[!i] = '\r') then (incr i; ws ()) in
  let expect c = ws (); if peek () = c then incr i else raise (Error (Printf.sprintf "expected %c at %d" c !i)) in
  let rec value () =
    ws ();
    match peek () with
    | '{' -> incr i; ws ();
        if peek () = '}' then (incr i; Obj []) else
        let rec members acc =
          ws (); let k = string () in expect ':'; let v = value () in ws ();
          if peek () = ',' then (incr i; members ((k, v) :: acc)) else (expect '}'; Obj (List.rev ((k, v) :: acc))) in
        members []
    | '[' -> incr i; ws ();
        if peek () = ']' then (incr i; Arr []) else
        let rec elems acc =
          let v = value () in ws ();
          if peek () = ',' then (incr i; elems (v :: acc)) else (expect ']'; Arr (List.rev (v :: acc))) in
        elems []
    | '"' -> Str (string ())
    | 't' -> i := !i + 4; Bool true
    | 'f' -> i := !i + 5; Bool false
    | 'n' -> i := !i + 4; Null
    | _ ->
        let j = !i in
        while !i < n && (match s.[!i] with '0'..'9' | '-' | '+' | '.' | 'e' | 'E' -> true | _ -> false) do incr i done;
        let t = String.sub s j (!i - j) in
        (match int_of_string_opt t with Some k -> Int k | None ->
          match float_of_string_opt t with Some f -> Float f | None -> raise (Error ("number " ^ t)))
  and string () =
    ws (); if peek () <> '"' then raise (Error (Printf.sprintf "string at %d" !i)); incr i;
    let b = Buffer.create 16 in
    let rec go () =
      if !i >= n then raise (Error "unterminated string");
      let c = s.[!i] in incr i;
      if c = '"' then ()
      else if c = '\\' then begin
        let d = s.[!i] in incr i;
        (match d with
         | 'n' -> Buffer.add_char b '\n' | 't' -> Buffer.add_char b '\t' | 'r' -> Buffer.add_char b '\r'
         | 'b' -> Buffer.add_char b '\b' | 'f' -> Buffer.add_char b '\012'
         | 'u' -> let h = int_of_string ("0x" ^ String.sub s !i 4) in i := !i + 4;
                  if h < 128 then Buffer.add_char b (Char.chr h) else Buffer.add_string b (Printf.sprintf "\\u%04x" h)
         | c -> Buffer.add_char b c);
        go () end
      else (Buffer.add_char b c; go ()) in
    go (); Buffer.contents b in
  let v = value () in v
let member k = function Obj l -> (try Some (List.assoc k l) with Not_found -> None) | _ -> None
let get k j = match member k j with Some v -> v | None -> Null
let to_list = function Arr l -> l | Null -> [] | _ -> raise (Error "array expected")
let to_int = function Int k -> k | Float f -> int_of_float f | _ -> raise (Error "int expected")
let to_str = function Str s -> s | _ -> raise (Error "string expected")
let str_opt = function Str s -> Some s | _ -> None
let escape s =
  let b = Buffer.create (String.length s + 2) in
  String.iter (fun c -> match c with '"' -> Buffer.add_string b "\\\"" | '\\' -> Buffer.add_string b "\\\\" | '\n' -> Buffer.add_string b "\\n" | c -> Buffer.add_char b c) s;
  Buffer.contents b
let rec show = function
  | Null -> "null" | Bool b -> string_of_bool b | Int k -> string_of_int k | Float f -> Printf.sprintf "%g" f
  | Str s -> "\"" ^ escape s ^ "\""
  | Arr l -> "[" ^ String.concat "," (List.map show l) ^ "]"
  | Obj l -> "{" ^ String.concat "," (List.map (fun (k, v) -> "\"" ^ escape k ^ "\":" ^ show v) l) ^ "}"
