(* C20 cases on the extracted model: `tree` prints the node table built from a workflow
   (Tree.build_model), `deploy` replays deploy / rm / start sequences (Serde.dstep).
   I/O glue only. *)
open M_engine
open Engine_io

let fuel_tree = nat_of_int 64
let on_ids (j : Json.t) : nat list =
  List.map (fun a -> match Json.get "id" a with
    | Json.Str "" -> O
    | Json.Str s -> (match nid_of_name s with Some k -> nat_of_int k | None -> raise (Case ("on id " ^ s)))
    | _ -> O) (Json.to_list (Json.get "on" j))

let okind_name = function
  | ONormal -> "Normal:-"
  | OCatch None -> "Catch:-"
  | OCatch (Some k) -> Printf.sprintf "Catch:e%d" (int_of_nat k)
  | OTimeout k -> "Timeout:" ^ limit_name (int_of_nat k)

let tree_lines (on : nat list) (t : node list) : string list =
  let arr = Array.of_list t in
  let name i = nname arr.(int_of_nat i).n_id in
  let nodes = List.map (fun (n : node) ->
    Printf.sprintf "%s %s %d %s [%s]" (nname n.n_id) (kname_of n.n_kind) (int_of_nat n.n_level)
      (match n.n_next with Some j -> name j | None -> "-")
      (String.concat " " (List.map (fun (k, c) -> okind_name k ^ ":" ^ name c) n.n_children))) t in
  let ons = List.map (fun i -> Printf.sprintf "%s act 0 - []" (nname i)) on in
  List.sort compare (nodes @ ons)

let tree_main path =
  let ic = open_in path in
  (try while true do
     let l = input_line ic in
     if String.trim l <> "" then begin
       let j = Json.parse l in
       let cid = Json.to_str (Json.get "id" j) in
       (try
          let wj = Json.get "wf" j in
          let wf = workflow_of wj in
          (match build_model fuel_tree (on_ids wj) wf with
           | None -> Printf.printf "case %s: TREE-ERR\n" cid
           | Some t -> List.iter (fun s -> Printf.printf "case %s: NODE %s\n" cid s) (tree_lines (on_ids wj) t))
        with Case m | Cond m | Json.Error m -> Printf.printf "case %s: CASE-ERROR %s\n" cid m)
     end
   done with End_of_file -> ());
  close_in ic

(* deploy sequences *)
let print_state cid (st : dstate) =
  let ms = List.sort compare (List.map (fun (r : mrow) -> Printf.sprintf "%s:%d" (nname r.m_id) (int_of_nat r.m_ver)) st.ds_models) in
  let es = List.sort compare (List.map (fun (e : erow) -> Printf.sprintf "%s:%s:%d" (nname e.e_mid) (nname e.e_act) (int_of_nat e.e_ver)) st.ds_events) in
  Printf.printf "case %s: S models=[%s] events=[%s]\n" cid (String.concat " " ms) (String.concat " " es)

let deploy_main path =
  let ic = open_in path in
  (try while true do
     let l = input_line ic in
     if String.trim l <> "" then begin
       let j = Json.parse l in
       let cid = Json.to_str (Json.get "id" j) in
       (try
          let st = ref dinit in
          List.iter (fun o ->
            let mid_of s = (match nid_of_name s with Some k -> nat_of_int k | None -> O) in
            let op, tag = (match Json.to_str (Json.get "op" o) with
              | "deploy" ->
                let wj = Json.get "wf" o in
                let ids = (match Json.get "id" wj with Json.Str s -> s | _ -> "") in
                (* the empty id is id 0 of the model *)
                let wj0 = (match wj with Json.Obj l -> Json.Obj (List.map (fun (k, v) -> if k = "id" && ids = "" then (k, Json.Str "n0") else (k, v)) l) | x -> x) in
                let text = Json.to_int (Json.get "text" o) in
                let ver = nat_of_int (match Json.get "ver" wj with Json.Int k -> k | _ -> 0) in
                DDeploy (dmodel_of fuel_tree (on_ids wj) (workflow_of wj0) ver (nat_of_int text)), "deploy"
              | "rm" -> DRm (mid_of (Json.to_str (Json.get "mid" o))), "rm"
              | "start" -> DStart (mid_of (Json.to_str (Json.get "mid" o))), "start"
              | s -> raise (Case ("op " ^ s))) in
            let (st', ok) = dstep !st op in
            st := st';
            Printf.printf "case %s: R %s %s\n" cid tag (if ok then "ok" else "err");
            print_state cid !st;
            (* stored text of every model = the text last deployed under that id *)
            List.iter (fun (r : mrow) -> Printf.printf "case %s: TEXT %s %d\n" cid (nname r.m_id) (int_of_nat r.m_text))
              (List.sort compare !st.ds_models)) (Json.to_list (Json.get "ops" j))
        with Case m | Cond m | Json.Error m -> Printf.printf "case %s: CASE-ERROR %s\n" cid m)
     end
   done with End_of_file -> ());
  close_in ic

(* timeout limits: one string per case, through the extracted Limit.parse_limit / as_secs *)
let limit_main path =
  let ic = open_in path in
  (try while true do
     let l = input_line ic in
     if String.trim l <> "" then begin
       let j = Json.parse l in
       let cid = Json.to_str (Json.get "id" j) in
       let s = Json.to_str (Json.get "s" j) in
       (match parse_limit (bytes_of_string s) with
        | None -> Printf.printf "case %s: L err\n" cid
        | Some (v, u) ->
            let secs = as_secs (v, u) in
            Printf.printf "case %s: L %s %s %s\n" cid (zstring v) (unit_letter (unit_index u)) (if fits_i64 secs then zstring secs else "overflow"))
     end
   done with End_of_file -> ());
  close_in ic

let () =
  match Array.to_list Sys.argv with
  | [_; "limit"; p] -> limit_main p
  | [_; "tree"; p] -> tree_main p
  | [_; "deploy"; p] -> deploy_main p
  | _ -> prerr_endline "usage: driver_model tree|deploy <cases.jsonl>"; exit 2
