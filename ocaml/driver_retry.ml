(* runs the extracted Retry model: one case per line
   <id> <interval> <max> <nops> ops...   ops: E tid | T now | A i now | X tid now | R now | C
   prints per op the new deliveries and the rows *)
open M_retry
open Common
let rec nat_of_int n = if n <= 0 then O else S (nat_of_int (n - 1))
let rec int_of_nat = function O -> 0 | S n -> 1 + int_of_nat n
let rec pos_of_int n = if n = 1 then XH else if n land 1 = 0 then XO (pos_of_int (n lsr 1)) else XI (pos_of_int (n lsr 1))
let z_of_int n = if n = 0 then Z0 else if n > 0 then Zpos (pos_of_int n) else Zneg (pos_of_int (- n))
let rec int_of_pos = function XH -> 1 | XO p -> 2 * int_of_pos p | XI p -> 2 * int_of_pos p + 1
let int_of_z = function Z0 -> 0 | Zpos p -> int_of_pos p | Zneg p -> - (int_of_pos p)
let sname = function Created -> "created" | Acked -> "acked" | Completed -> "completed" | Error -> "error"
let () =
  let ic = if Array.length Sys.argv > 1 then open_in Sys.argv.(1) else stdin in
  List.iter (fun l ->
    let r = { toks = tokens_of_line l } in
    if r.toks <> [] then begin
      let cid = next r in
      let interval = z_of_int (next_int r) in
      let max = z_of_int (next_int r) in
      let nops = next_int r in
      let s = ref rinit in
      for j = 0 to nops - 1 do
        let o = (match next r with
          | "N" -> RTick (z_of_int (-1000000))   (* a rejected client action: nothing is selected, nothing changes *)
          | "E" -> REmit (nat_of_int (next_int r))
          | "T" -> RTick (z_of_int (next_int r))
          | "A" -> let i = next_int r in RAck (nat_of_int i, z_of_int (next_int r))
          | "X" -> let t = next_int r in RAction (nat_of_int t, z_of_int (next_int r))
          | "R" -> RRedo (z_of_int (next_int r))
          | "C" -> RClear
          | t -> fail ("op " ^ t)) in
        let before = List.length (!s).delivered in
        s := rstep interval max !s o;
        (* messages the engine emitted as an effect of this operation *)
        while (match r.toks with "+E" :: _ -> true | _ -> false) do
          ignore (next r);
          s := rstep interval max !s (REmit (nat_of_int (next_int r)))
        done;
        let fresh = List.filteri (fun k _ -> k >= before) (!s).delivered in
        Printf.printf "case %s op %d deliveries=[%s] rows=[%s]\n" cid j
          (String.concat ";" (List.map (fun (i, rt) -> Printf.sprintf "%d:%d" (int_of_nat i) (int_of_z rt)) fresh))
          (String.concat ";" (List.mapi (fun i (row : row) -> if row.r_live then Printf.sprintf "%d:%s:%d" i (sname row.r_status) (int_of_z row.r_retry) else Printf.sprintf "%d:gone" i) (!s).rows))
      done
    end) (read_lines ic)
