(* Extraction of the executable models to OCaml: ExtrOcamlBasic only (its Extract Inductive
   directives for bool, option, unit, list, prod, sumbool, sumor); N / Z / nat stay Coq datatypes.
   One self-contained .ml per model so that names never clash. *)
From Coq Require Import Extraction ExtrOcamlBasic.
From Acts.Model Require Import StoreQ.
Extraction Language OCaml.
Extraction "m_storeq.ml" StoreQ.srun StoreQ.run_query.
