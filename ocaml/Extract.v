(* Extraction of the executable models to OCaml: ExtrOcamlBasic only (its Extract Inductive
   directives for bool, option, unit, list, prod, sumbool, sumor); N / Z / nat stay Coq datatypes.
   One self-contained .ml per model so that names never clash. *)
From Coq Require Import Extraction ExtrOcamlBasic.
From Acts.Model Require Import StoreQ Engine Tree Oracles Retry Script Chan Serde Multi Limit Class.
Extraction Language OCaml.
Extraction "m_storeq.ml" StoreQ.srun StoreQ.run_query.
Extraction "m_engine.ml" Engine.run Engine.apply_op Engine.drain Engine.start Engine.do_action Engine.do_tick Engine.sched_pick Engine.step_queue Engine.states Engine.kind Engine.tnode GenState.to_mstate GenState.is_completed Tree.build_tree Tree.build_model Tree.dmodel_of Serde.dstep Serde.dinit Oracles.check Oracles.observe Oracles.ops_codes Oracles.hook_tids Oracles.tmo_nids_of Limit.parse_limit Limit.limit_ms Limit.as_secs Limit.fits_i64 Class.frag_nodes Class.frag_op.
Extraction "m_retry.ml" Retry.rrun Retry.rstep Retry.rinit.
Extraction "m_script.ml" Script.fill_string Script.get_expr Script.to_js Script.of_js.
Extraction "m_chan.ml" Chan.crun Chan.cstep Chan.glob Chan.hub0 Chan.hstep Chan.hrun.
Extraction "m_multi.ml" Multi.call_check Multi.forced_check Multi.caught_check Multi.ret_check.
