(* runs the extracted channel model.  Input lines:
     case <id>
     on <kind> <chan> <type> <state> <tag> <key> <uses>        kind m|s|c|e (message / start / complete / error handler); patterns in token form
     close <chan>
     emit <kind> <mid> <type> <state> <tag> <model_tag> <key> <uses>     strings as dot-separated byte codes ("-" = empty)
   Output: `case <id>: <kind> <mid> <chan> <chan> ...` for every emit *)
open M_chan
let rec nat_of_int n = if n <= 0 then O else S (nat_of_int (n - 1))
let rec int_of_nat = function O -> 0 | S n -> 1 + int_of_nat n
let bytes_of s = if s = "-" then [] else List.map (fun x -> nat_of_int (int_of_string x)) (String.split_on_char '.' s)
(* token form: tokens separated by ','; l<code> | q | s | c<0|1>:<lo>-<hi>;... | a:<alt>|<alt> with '.' between the tokens of an alternative *)
let rec tok_of sep (t : string) : gtok =
  match t.[0] with
  | 'l' -> GLit (nat_of_int (int_of_string (String.sub t 1 (String.length t - 1))))
  | 'q' -> GAny
  | 's' -> GStar
  | 'c' ->
      let neg = t.[1] = '1' in
      let body = String.sub t 3 (String.length t - 3) in
      let ranges = if body = "" then [] else List.map (fun r -> match String.split_on_char '-' r with
        | [a; b] -> (nat_of_int (int_of_string a), nat_of_int (int_of_string b)) | _ -> failwith ("range " ^ r)) (String.split_on_char ';' body) in
      GClass (neg, ranges)
  | 'a' ->
      let body = String.sub t 2 (String.length t - 2) in
      GAlt (List.map (fun alt -> if alt = "" then [] else List.map (tok_of '.') (String.split_on_char '.' alt)) (String.split_on_char '|' body))
  | _ -> failwith ("token " ^ t)
let pat_of (s : string) : gtok list = if s = "-" then [] else List.map (tok_of ',') (String.split_on_char ',' s)
let () =
  let ic = open_in Sys.argv.(1) in
  let cid = ref "" in
  let e = ref hub0 in
  let kind_of = function "m" -> HMsg | "s" -> HStart | "c" -> HComplete | "e" -> HError | k -> failwith ("kind " ^ k) in
  (try while true do
     let l = input_line ic in
     match List.filter (fun x -> x <> "") (String.split_on_char ' ' l) with
     | ["case"; id] -> cid := id; e := hub0
     | ["on"; k; c; ty; st; tag; key; uses] ->
         e := fst (hstep !e (HOn (kind_of k, nat_of_int (int_of_string c), { o_type = pat_of ty; o_state = pat_of st; o_tag = pat_of tag; o_key = pat_of key; o_uses = pat_of uses })))
     | ["close"; c] -> e := fst (hstep !e (HClose (nat_of_int (int_of_string c))))
     | ["emit"; k; mid; ty; st; tag; mtag; key; uses] ->
         let m = { m_type = bytes_of ty; m_state = bytes_of st; m_tag = bytes_of tag; m_model_tag = bytes_of mtag; m_key = bytes_of key; m_uses = bytes_of uses } in
         let (_, d) = hstep !e (HEmit (kind_of k, m)) in
         Printf.printf "case %s: %s %s %s\n" !cid k mid (String.concat " " (List.sort compare (List.map (fun c -> string_of_int (int_of_nat c)) d)))
     | [] -> ()
     | _ -> failwith ("line " ^ l)
   done with End_of_file -> ())
