(* shared glue: token reader, nat/Z conversions (I/O only) *)
let tokens_of_line (l : string) : string list =
  List.filter (fun s -> s <> "") (String.split_on_char ' ' l)
exception Parse of string
let fail m = raise (Parse m)
type reader = { mutable toks : string list }
let next r = match r.toks with [] -> fail "eof" | t :: tl -> r.toks <- tl; t
let next_int r = let t = next r in try int_of_string t with _ -> fail ("int: " ^ t)
let read_lines ic =
  let rec go acc = match input_line ic with l -> go (l :: acc) | exception End_of_file -> List.rev acc in go []
