(* runs the extracted template model: one JSON case per line {"id","vars":{name: value},"t":"..."}
   prints the filled value as JSON.  eval = value of the variable named by the template's inner text
   (the generated templates are variable references); show = the text utils/convert.rs substitutes *)
open M_script
let rec nat_of_int n = if n <= 0 then O else S (nat_of_int (n - 1))
let rec int_of_nat = function O -> 0 | S n -> 1 + int_of_nat n
let rec pos_of_int n = if n = 1 then XH else if n land 1 = 0 then XO (pos_of_int (n lsr 1)) else XI (pos_of_int (n lsr 1))
let z_of_int n = if n = 0 then Z0 else if n > 0 then Zpos (pos_of_int n) else Zneg (pos_of_int (- n))
let rec int_of_pos = function XH -> 1 | XO p -> 2 * int_of_pos p | XI p -> 2 * int_of_pos p + 1
let int_of_z = function Z0 -> 0 | Zpos p -> int_of_pos p | Zneg p -> - (int_of_pos p)
let bytes_of_string s = List.init (String.length s) (fun i -> nat_of_int (Char.code s.[i]))
let string_of_bytes b = String.concat "" (List.map (fun n -> String.make 1 (Char.chr (int_of_nat n))) b)
let rec jv_of_json (j : Json.t) : float jv =
  match j with
  | Json.Null -> JNull | Json.Bool b -> JBool b | Json.Int k -> JInt (z_of_int k) | Json.Float f -> JFloat f
  | Json.Str s -> JStr (bytes_of_string s) | Json.Arr l -> JArr (List.map jv_of_json l)
  | Json.Obj l -> JObj (List.map (fun (k, v) -> (bytes_of_string k, jv_of_json v)) l)
let rec json_of_jv (v : float jv) : Json.t =
  match v with
  | JNull -> Json.Null | JBool b -> Json.Bool b | JInt z -> Json.Int (int_of_z z) | JFloat f -> Json.Float f
  | JStr s -> Json.Str (string_of_bytes s) | JArr l -> Json.Arr (List.map json_of_jv l)
  | JObj l -> Json.Obj (List.map (fun (k, v) -> (string_of_bytes k, json_of_jv v)) l)
let () =
  let ic = open_in Sys.argv.(1) in
  (try while true do
     let l = input_line ic in
     if String.trim l <> "" then begin
       let j = Json.parse l in
       let cid = Json.to_str (Json.get "id" j) in
       let vars = (match Json.get "vars" j with Json.Obj l -> l | _ -> []) in
       let eval (t : nat list) : float jv =
         let s = string_of_bytes t in
         let inner = String.trim (String.sub s 2 (String.length s - 4)) in
         (try jv_of_json (List.assoc inner vars) with Not_found -> JNull) in
       let show (v : float jv) : nat list =
         match v with
         | JStr s -> s
         | v -> bytes_of_string (Json.show (json_of_jv v)) in
       let r = fill_string eval show (bytes_of_string (Json.to_str (Json.get "t" j))) in
       Printf.printf "case %s: %s\n" cid (Json.show (json_of_jv r))
     end
   done with End_of_file -> ())
