(* C15 / C17 checkers (Multi.call_check, Multi.ret_check, extracted) on observation lines written by
   the runner.  I/O glue only.
   call <key> missing=0 child=<state>@<t>|none act=<state>@<t>,...|- open=0 parent=<t>|none inputs=1 outs=1 unsat=0 quiet=1
   forced <key> act=<state>@<t>,... inputs=1
   caught <key> child=<state>@<t>|none act=<state>@<t>,... open=0 inputs=1
   ret <key> keep=1 ended=1 procrow=<state>|none tasks=4 open=0 created=4 refused=1 *)
open M_multi
let rec nat_of_int n = if n <= 0 then O else S (nat_of_int (n - 1))
let rec int_of_nat = function O -> 0 | S n -> 1 + int_of_nat n
let rec pos_of_int n = if n = 1 then XH else if n land 1 = 0 then XO (pos_of_int (n lsr 1)) else XI (pos_of_int (n lsr 1))
let z_of_int n = if n = 0 then Z0 else if n > 0 then Zpos (pos_of_int n) else Zneg (pos_of_int (- n))
let state_of_name = function
  | "none" -> SNone | "ready" -> SReady | "pending" -> SPending | "running" -> SRunning | "interrupted" -> SInterrupt
  | "completed" -> SCompleted | "submitted" -> SSubmitted | "backed" -> SBacked | "cancelled" -> SCancelled
  | "error" -> SError | "aborted" -> SAborted | "skipped" -> SSkipped | "removed" -> SRemoved | s -> failwith ("state " ^ s)
let kv fields k = List.assoc k fields
let st_at s = match String.split_on_char '@' s with [a; b] -> (state_of_name a, z_of_int (int_of_string b)) | _ -> failwith ("state@time " ^ s)
let () =
  let ic = open_in Sys.argv.(1) in
  (try while true do
     let l = input_line ic in
     match String.split_on_char ' ' (String.trim l) with
     | kind :: key :: rest ->
       let fields = List.filter_map (fun f -> match String.index_opt f '=' with
         | Some i -> Some (String.sub f 0 i, String.sub f (i + 1) (String.length f - i - 1)) | None -> None) rest in
       let b k = kv fields k = "1" in
       let vs =
         (match kind with
          | "call" ->
            call_check { co_missing = b "missing";
                         co_child_end = (match kv fields "child" with "none" -> None | s -> Some (st_at s));
                         co_act_ends = (match kv fields "act" with "-" -> [] | s -> List.map st_at (String.split_on_char ',' s));
                         co_act_open = b "open";
                         co_parent_end = (match kv fields "parent" with "none" -> None | s -> Some (z_of_int (int_of_string s)));
                         co_inputs_ok = b "inputs"; co_outs_ok = b "outs"; co_unsatisfied = b "unsat"; co_quiescent = b "quiet" }
          | "forced" ->
            forced_check { co_missing = false; co_child_end = None;
                           co_act_ends = (match kv fields "act" with "-" -> [] | s -> List.map st_at (String.split_on_char ',' s));
                           co_act_open = false; co_parent_end = None; co_inputs_ok = b "inputs"; co_outs_ok = true; co_unsatisfied = false; co_quiescent = true }
          | "caught" ->
            caught_check { co_missing = false; co_child_end = (match kv fields "child" with "none" -> None | s -> Some (st_at s));
                           co_act_ends = (match kv fields "act" with "-" -> [] | s -> List.map st_at (String.split_on_char ',' s));
                           co_act_open = b "open"; co_parent_end = None; co_inputs_ok = b "inputs"; co_outs_ok = true; co_unsatisfied = false; co_quiescent = true }
          | "ret" ->
            ret_check { ro_keep = b "keep"; ro_ended = b "ended";
                        ro_procrow = (match kv fields "procrow" with "none" -> None | s -> Some (state_of_name s));
                        ro_taskrows = nat_of_int (int_of_string (kv fields "tasks")); ro_openrows = nat_of_int (int_of_string (kv fields "open"));
                        ro_created = nat_of_int (int_of_string (kv fields "created")); ro_refused = b "refused" }
          | _ -> []) in
       Printf.printf "%s %s\n" key (if vs = [] then "OK" else "V " ^ String.concat " " (List.map (fun n -> string_of_int (int_of_nat n)) vs))
     | _ -> ()
   done with End_of_file -> ());
  close_in ic
