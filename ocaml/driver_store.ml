(* runs the extracted StoreQ model on store cases (one per line) and prints one result per op *)
open M_storeq
open Common
let rec nat_of_int n = if n <= 0 then O else S (nat_of_int (n - 1))
let rec int_of_nat = function O -> 0 | S n -> 1 + int_of_nat n
let rec pos_of_int n = if n = 1 then XH else if n land 1 = 0 then XO (pos_of_int (n lsr 1)) else XI (pos_of_int (n lsr 1))
let z_of_int n = if n = 0 then Z0 else if n > 0 then Zpos (pos_of_int n) else Zneg (pos_of_int (- n))
let rec int_of_pos = function XH -> 1 | XO p -> 2 * int_of_pos p | XI p -> 2 * int_of_pos p + 1
let int_of_z = function Z0 -> 0 | Zpos p -> int_of_pos p | Zneg p -> - (int_of_pos p)

let read_val r : jv =
  match next r with
  | "n" -> JNull
  | "b" -> JBool (next_int r <> 0)
  | "i" -> JNum (z_of_int (next_int r))
  | "s" -> JStr (nat_of_int (next_int r))
  | t -> fail ("val kind " ^ t)
let read_row r : (nat * jv) list =
  let n = next_int r in
  List.init n (fun _ -> let f = next_int r in let v = read_val r in (nat_of_int f, v))
let read_op r : sop =
  match next r with
  | "C" -> let k = next_int r in let row = read_row r in SCreate (nat_of_int k, row)
  | "U" -> let k = next_int r in let row = read_row r in SUpdate (nat_of_int k, row)
  | "D" -> SDelete (nat_of_int (next_int r))
  | "F" -> SFind (nat_of_int (next_int r))
  | "E" -> SExists (nat_of_int (next_int r))
  | "Q" ->
      let nc = next_int r in
      let conds = List.init nc (fun _ ->
        let ty = (match next r with "and" -> CAnd | "or" -> COr | t -> fail ("ctype " ^ t)) in
        let ne = next_int r in
        let exprs = List.init ne (fun _ ->
          let op = (match next r with "eq" -> EQ | "ne" -> NE | "lt" -> LT | "le" -> LE | "gt" -> GT | "ge" -> GE | t -> fail ("op " ^ t)) in
          let key = next_int r in
          let v = read_val r in
          { e_op = op; e_key = nat_of_int key; e_val = v }) in
        { c_type = ty; c_exprs = exprs }) in
      let no = next_int r in
      let order = List.init no (fun _ -> let k = next_int r in let rev = next_int r <> 0 in (nat_of_int k, rev)) in
      let off = next_int r in
      let lim = next_int r in
      SQuery { q_conds = conds; q_order = order; q_offset = nat_of_int off; q_limit = nat_of_int lim }
  | t -> fail ("op " ^ t)

let show_val = function
  | JNull -> "n"
  | JBool b -> "b " ^ (if b then "1" else "0")
  | JNum z -> "i " ^ string_of_int (int_of_z z)
  | JStr s -> "s " ^ string_of_int (int_of_nat s)
let show_row (row : (nat * jv) list) =
  let l = List.sort compare (List.map (fun (f, v) -> (int_of_nat f, show_val v)) row) in
  "{" ^ String.concat "," (List.map (fun (f, v) -> Printf.sprintf "%d:%s" f v) l) ^ "}"
let show_res = function
  | RBool b -> "bool " ^ (if b then "1" else "0")
  | RErr -> "err"
  | RRow None -> "row none"
  | RRow (Some r) -> "row " ^ show_row r
  | RPage p ->
      Printf.sprintf "page count=%d num=%d pages=%d size=%d rows=[%s]" (int_of_nat p.p_count) (int_of_nat p.p_page_num)
        (int_of_nat p.p_page_count) (int_of_nat p.p_page_size)
        (String.concat ";" (List.map (fun (k, r) -> Printf.sprintf "%d=%s" (int_of_nat k) (show_row r)) p.p_rows))

let () =
  let ic = if Array.length Sys.argv > 1 then open_in Sys.argv.(1) else stdin in
  let lines = read_lines ic in
  List.iter (fun l ->
    let r = { toks = tokens_of_line l } in
    match r.toks with
    | [] -> ()
    | _ ->
      let case = next r in
      let nops = next_int r in
      let ops = List.init nops (fun _ -> read_op r) in
      let (_, results) = srun [] ops in
      List.iteri (fun j res -> Printf.printf "case %s op %d %s\n" case j (show_res res)) results) lines
