(* engine cases: `gen` writes generated cases (workflow JSON + model-driven histories),
   `run` replays case files on the extracted model and prints the canonical trace *)
open M_engine
open Engine_io

(* ---------- PRNG: splitmix64 on OCaml ints (63 bit), one state ---------- *)
let seed = ref 12345
let rnd n =
  seed := (!seed * 2862933555777941757 + 3037000493) land max_int;
  if n <= 0 then 0 else ((!seed lsr 17) land 0x3fffffff) mod n

let clock0 = 1000
let big = nat_of_int 100000

(* ---------- running a case on the model ---------- *)
let fuel_tree = nat_of_int 64
let run_case oc (cid : string) (wf : workflow) (ops : cop list) : eng option =
  match build_tree fuel_tree wf with
  | None -> Printf.fprintf oc "case %s: BUILD-FAILED\n" cid; None
  | Some ns ->
    let nstatic = List.length ns in
    let printed = ref 0 in
    let flush e =
      let tr = e.trace in
      print_events oc cid e nstatic (drop !printed tr);
      printed := List.length tr in
    (* C11: the store image (rows) against the live tasks at every quiescent point *)
    let point = ref 0 in
    let rows_check (e : eng) =
      (match e.prow with
       | None -> Printf.fprintf oc "case %s: RP %d missing-proc-row\n" cid !point
       | Some s -> if s <> e.pstate then Printf.fprintf oc "case %s: RP %d state live=%s row=%s\n" cid !point (sname e.pstate) (sname s));
      List.iteri (fun i (t : task) ->
        match (try List.nth e.rows i with _ -> None) with
        | None -> Printf.fprintf oc "case %s: RT %d %d missing-row live-state=%s\n" cid !point i (sname t.t_state)
        | Some r ->
          if r.t_state <> t.t_state then Printf.fprintf oc "case %s: RT %d %d state live=%s row=%s\n" cid !point i (sname t.t_state) (sname r.t_state);
          if r.t_prev <> t.t_prev then Printf.fprintf oc "case %s: RT %d %d prev\n" cid !point i;
          if canon r.t_data <> canon t.t_data then Printf.fprintf oc "case %s: RT %d %d data live=%s row=%s\n" cid !point i (canon t.t_data) (canon r.t_data);
          if r.t_err <> t.t_err then Printf.fprintf oc "case %s: RT %d %d err\n" cid !point i;
          if r.t_start <> t.t_start || r.t_end <> t.t_end then Printf.fprintf oc "case %s: RT %d %d times\n" cid !point i) e.tasks;
      if List.length e.rows > List.length e.tasks then Printf.fprintf oc "case %s: RT %d ? row-without-task\n" cid !point;
      incr point in
    let e = ref (apply_op (start ns (z_of_int clock0)) ODrain) in
    flush !e; rows_check !e;
    let held = ref false in
    List.iter (fun op ->
      (match op with
       | CAct (t, a, o, hold) -> e := apply_op !e (OAct (nat_of_int t, a, o)); held := hold
       | CTick ms -> e := apply_op !e (OTick (z_of_int ms)); held := false);
      (* an action issued while the scheduler is held: its own effects, nothing drained, no quiescent point *)
      if !held then flush !e
      else begin e := apply_op !e ODrain; flush !e; rows_check !e end) ops;
    if !held then begin e := apply_op !e ODrain; flush !e; rows_check !e end;
    List.iteri (fun i (t : task) -> Printf.fprintf oc "case %s: D %d %s %s%s\n" cid i (sname t.t_state) (canon t.t_data) (if t.t_evproc then " hook" else "")) (!e).tasks;
    if (!e).oof then Printf.fprintf oc "case %s: OUT-OF-FUEL\n" cid;
    Some !e

let run_main path =
  let ic = open_in path in
  (try while true do
     let l = input_line ic in
     if String.trim l <> "" then begin
       let j = Json.parse l in
       let cid = Json.to_str (Json.get "id" j) in
       (try
          let wf = workflow_of (Json.get "wf" j) in
          let ops = List.map cop_of (Json.to_list (Json.get "ops" j)) in
          ignore (run_case stdout cid wf ops)
        with Case m | Cond m | Json.Error m -> Printf.printf "case %s: CASE-ERROR %s\n" cid m)
     end
   done with End_of_file -> ());
  close_in ic

(* ---------- generator ---------- *)
let tmo_mode = ref false
let hold_mode = ref false
(* class mode: workflows and histories of the class for which C01 is proved (model/Class.v) *)
let class_mode = ref false
let counter = ref 0
let fresh () = incr counter; nat_of_int !counter
let vnum n = VNum (z_of_int n)
let rvars keys p = List.filter_map (fun k -> if rnd 100 < p then Some (nat_of_int k, (if rnd 4 = 0 then VNull else vnum (rnd 9 - 2))) else None) keys
let rnulls keys p = List.filter_map (fun k -> if rnd 100 < p then Some (nat_of_int k, (if rnd 5 = 0 then vnum (1 + rnd 9) else VNull)) else None) keys
(* conditions over the workflow inputs k3 / k4 (small integers), sometimes an undefined name *)
let rnexp () =
  match rnd 6 with
  | 0 -> NLit (z_of_int (rnd 8 - 2))
  | 1 -> NAdd (NVar (nat_of_int (3 + rnd 2)), NLit (z_of_int (rnd 3)))
  | 2 -> NSub (NVar (nat_of_int (3 + rnd 2)), NLit (z_of_int (rnd 3)))
  | _ -> NVar (nat_of_int (3 + rnd 3))
let rec rbexp d =
  match (if d > 0 then rnd 9 else rnd 6) with
  | 0 -> BTrue | 1 -> BFalse
  | 2 -> BLt (rnexp (), rnexp ()) | 3 -> BLe (rnexp (), rnexp ())
  | 4 -> BGt (rnexp (), rnexp ()) | 5 -> BGe (rnexp (), rnexp ())
  | 6 -> BAnd (rbexp (d - 1), rbexp (d - 1)) | 7 -> BOr (rbexp (d - 1), rbexp (d - 1))
  | _ -> BNot (rbexp (d - 1))
let rcond p : bexpr option =
  if rnd 100 < p then
    (match rnd 12 with
     | 0 -> Some (BGt (NVar (nat_of_int 999), NLit (z_of_int 1)))     (* throws *)
     | x when x < 5 -> Some BTrue
     | x when x < 8 -> Some BFalse
     | _ -> Some (rbexp 1))
  else None
let rec gen_spec d allow_on =
  let on = if allow_on && rnd 3 <> 0 then Some (match rnd 5 with 0 -> LCreated | 1 -> LCompleted | 2 -> LBeforeUpdate | 3 -> LUpdated | _ -> LStep) else None in
  if on = None && rnd 14 = 0 then ASpec (UFail, O, true, None, []) else
  match (if d > 0 then rnd 10 else rnd 6) with
  | x when x < 4 -> ASpec (UIrq, O, true, on, [])
  | x when x < 6 -> ASpec (UMsg, O, true, on, [])
  | 6 -> ASpec (UBlock, O, rnd 2 = 0, on, List.init (1 + rnd 2) (fun _ -> gen_spec (d-1) false))
  | 7 | 8 -> ASpec (UParallel, nat_of_int (rnd 4), true, on, List.init (1 + rnd 2) (fun _ -> gen_spec (d-1) false))
  | _ -> ASpec (USequence, nat_of_int (rnd 4), true, on, List.init (1 + rnd 2) (fun _ -> gen_spec (d-1) false))
let gen_setup () =
  if rnd 5 = 0 then List.init (1 + rnd 2) (fun _ -> match gen_spec 0 true with ASpec (u,n,q,on,a) -> ASpec ((if on <> None && rnd 4 <> 0 then UMsg else u),n,q,on,a)) else []
let rec gen_act depth : act =
  let id = fresh () in
  let isset = rnd 4 = 0 in
  let spec = (if isset then ASpec (UBlock, O, true, None, []) else match gen_spec 2 false with ASpec (u,n,q,_,a) -> ASpec (u,n,q,None,a)) in
  let outs = (if (not isset) && rnd 4 = 0 then (let l = rnulls [1;3;4;5] 40 in if l = [] then [(nat_of_int 3, VNull)] else l) else []) in
  let ins = (if rnd 6 = 0 then rvars [3;4;7] 50 else []) in
  let params = (if isset then Some (rvars [0;1;2;3;4;5;6] 45) else None) in
  let catches = (if depth >= 0 && rnd 6 = 0 then gen_catches (depth-1) else []) in
  let timeouts = (if depth >= 0 && (if !tmo_mode then rnd 2 = 0 else rnd 8 = 0) then gen_timeouts (depth-1) else []) in
  Act (id, rcond 15, spec, ins, outs, params, gen_setup (), catches, timeouts)
and gen_timeouts depth =
  let used = ref [] in
  List.filter_map (fun _ ->
    (* mostly seconds; one rule in six in minutes (a tick of a minute and more exists in the timeout corpus) *)
    let name = if !tmo_mode && rnd 6 = 0 then "1m" else Printf.sprintf "%ds" (1 + rnd 3) in
    let (on, lim) = limit_of_name name in
    if List.mem on !used then None else begin used := on :: !used;
    Some (Tmo (nat_of_int on, lim, List.init (rnd 3) (fun _ -> gen_step depth true))) end) (List.init (1 + rnd 2) (fun _ -> ()))
and gen_catches depth =
  List.init (1 + rnd 3) (fun _ -> Catch ((match rnd 4 with 0 -> None | x -> Some (nat_of_int x)), List.init (rnd 3) (fun _ -> gen_step depth true)))
and gen_step depth simple : step =
  let id = fresh () in
  let sif = rcond 15 in
  let ins = (if rnd 6 = 0 then rvars [3;4;5;7] 40 else []) in
  let outs = (if rnd 6 = 0 then rnulls [3;4;5;6] 40 else []) in
  if depth > 0 && not simple && rnd 3 = 0 then begin
    let nb = 1 + rnd 3 in
    let else_used = ref false in
    let else_idx = ref (-1) in
    let bids = List.init nb (fun _ -> fresh ()) in
    let branches = List.mapi (fun i bid ->
      let kind = rnd 4 in
      let els = (kind = 2 && not !else_used) in
      if els then (else_used := true; else_idx := i);
      let cands = List.filter (fun j -> j <> !else_idx) (List.init nb (fun j -> j)) in
      let cands = List.filter (fun j -> j <> i) cands in
      let needs = if kind = 3 && cands <> [] then [List.nth bids (List.nth cands (rnd (List.length cands)))] else [] in
      let bif = if els || needs <> [] then None else (match rcond 100 with Some b -> Some b | None -> Some BTrue) in
      Branch (bid, bif, els, needs, List.init (rnd 3) (fun _ -> gen_step (depth-1) false))) bids in
    Step (id, sif, None, ins, outs, gen_setup (), branches, [],
          (if depth >= 0 && rnd 4 = 0 then gen_catches (depth-1) else []),
          (if depth >= 0 && rnd 6 = 0 then gen_timeouts (depth-1) else []))
  end else
    Step (id, sif, None, ins, outs, gen_setup (), [], List.init (rnd 4) (fun _ -> gen_act depth),
          (if depth >= 0 && rnd 3 = 0 then gen_catches (depth-1) else []),
          (if depth >= 0 && (if !tmo_mode then rnd 2 = 0 else rnd 5 = 0) then gen_timeouts (depth-1) else []))
let gen_class_workflow () : workflow =
  counter := 0;
  let irq = ASpec (UIrq, O, true, None, []) in
  (* timeout rules without steps: a firing starts nothing (the class has no timeout steps), ticks are part of the histories *)
  let tmo () = if rnd 4 = 0 then (let (on, lim) = limit_of_name (Printf.sprintf "%ds" (1 + rnd 3)) in [Tmo (nat_of_int on, lim, [])]) else [] in
  let act () = let id = fresh () in
    Act (id, None, (if rnd 3 = 0 then ASpec (UMsg, O, true, None, []) else irq), (if rnd 4 = 0 then rvars [3;4;7;8] 50 else []), (if rnd 3 = 0 then (let l = rnulls [1;3;4;5;8] 40 in if l = [] then [(nat_of_int 3, VNull)] else l) else []), None, [], [], tmo ()) in
  let step () = let id = fresh () in
    Step (id, None, None, (if rnd 4 = 0 then rvars [3;4;5;7;8] 40 else []), (if rnd 4 = 0 then rnulls [3;4;5;6;8] 40 else []), [], [], List.init (rnd 4) (fun _ -> act ()), [], tmo ()) in
  { w_id = O; w_steps = List.init (if rnd 8 = 0 then 0 else 1 + rnd 3) (fun _ -> step ()); w_ins = rvars [1;3;4;5;8] 70; w_outs = rnulls [1;3;4;6;8] 60; w_setup = [] }
let gen_workflow () : workflow =
  if !class_mode then gen_class_workflow () else begin
  counter := 0;
  let setup = gen_setup () in
  let ins = rvars [1;3;4;5] 70 in
  let outs = rnulls [1;3;4;6] 60 in
  { w_id = O; w_steps = List.init (1 + rnd 3) (fun _ -> gen_step 2 false); w_ins = ins; w_outs = outs; w_setup = setup } end

let is_term s = is_completed s
let maxq = ref 0
let drain_track (e : eng) : eng =
  let e = ref e in
  let n = ref 0 in
  while (!e).queue <> [] && !n < 100000 do
    let q = List.length (!e).queue in
    if q > !maxq then maxq := q;
    e := step_queue !e; incr n
  done; !e
let gen_main n seed0 maxops out =
  seed := seed0;
  let oc = open_out out in
  let stats = Hashtbl.create 17 in
  let bump k = Hashtbl.replace stats k (1 + try Hashtbl.find stats k with Not_found -> 0) in
  let k = ref 0 in
  let attempts = ref 0 in
  while !k < n && !attempts < 20 * n + 100 do
    incr attempts;
    let wf = gen_workflow () in
    maxq := 0;
    (match build_tree fuel_tree wf with
     | None -> bump "build-failed"
     | Some ns ->
       if !class_mode && not (frag_nodes ns) then bump "class-miss" else
       let has_tmo = List.exists (fun (nd : node) -> nd.n_timeouts <> []) ns in
       let e = ref (drain_track (start ns (z_of_int clock0))) in
       let ops = ref [] in
       let nops = ref 0 in
       let stop = ref false in
       while not !stop && !nops < maxops do
         let sts = List.map (fun (t : task) -> t.t_state) (!e).tasks in
         let nt = List.length sts in
         let idx p = List.filter p (List.init nt (fun i -> i)) in
         let kindof i = kind !e (nat_of_int i) in
         let irqs = idx (fun i -> List.nth sts i = SInterrupt) in
         let termacts = idx (fun i -> kindof i = KAct && is_term (List.nth sts i)) in
         let nonacts = idx (fun i -> kindof i <> KAct) in
         let r = rnd 100 in
         let pick l = List.nth l (rnd (List.length l)) in
         if has_tmo && (if !tmo_mode then rnd 2 = 0 else rnd 5 = 0) then begin
           let adv = (if !tmo_mode && rnd 7 = 0 then (if rnd 2 = 0 then 58000 else 61000) else match rnd 4 with 0 -> 400 | 1 -> 1000 | 2 -> 1100 | _ -> 2500) in
           ops := Json.Obj [("tick", Json.Int adv)] :: !ops;
           incr nops; bump "tick";
           e := drain_track (do_tick !e (z_of_int adv))
         end else begin
           let rand_action tgt =
             if !class_mode then (match rnd 20 with x when x < 10 -> ANext, "next", [] | x when x < 14 -> ASubmit, "submit", [] | x when x < 17 -> ARemove, "remove", [] | x when x < 19 -> ASkip, "skip", [] | _ -> AAbort, "abort", []) else
             match rnd 100 with
             | x when x < 36 -> ANext, "next", []
             | x when x < 42 -> ASubmit, "submit", []
             | x when x < 48 -> ARemove, "remove", []
             | x when x < 57 -> ASkip, "skip", []
             | x when x < 62 -> AAbort, "abort", []
             | x when x < 80 -> let c = 1 + rnd 3 in AError (Some (nat_of_int c)), "error", [("ecode", Json.Str (Printf.sprintf "e%d" c))]
             | x when x < 82 -> AError None, "error", []
             | x when x < 90 ->
                 let rec chain i acc = match (tk !e (nat_of_int i)).t_prev with None -> acc | Some p -> chain (int_of_nat p) (int_of_nat p :: acc) in
                 let steps = List.filter (fun i -> kindof i = KStep) (chain tgt []) in
                 if steps = [] || rnd 8 = 0 then ABack (Some (nat_of_int 99999)), "back", [("to", Json.Str "n99999")]
                 else let s = (tnode !e (nat_of_int (pick steps))).n_id in ABack (Some s), "back", [("to", Json.Str (nname s))]
             | x when x < 92 -> ABack None, "back", []
             | _ -> ACancel, "cancel", [] in
           let target, (act, aname, aopts) =
             if !class_mode then begin
               let openacts = idx (fun i -> kindof i = KAct && not (is_term (List.nth sts i))) in
               if r < 60 && irqs <> [] then (let t = pick irqs in t, rand_action t)
               else if r < 75 && openacts <> [] then (let t = pick openacts in t, rand_action t)
               else if r < 85 && termacts <> [] then (let t = pick termacts in t, rand_action t)
               else if r < 92 && nonacts <> [] then (let t = pick nonacts in t, rand_action t)
               else if r < 95 || irqs = [] then (nt + 3, rand_action 0)
               else (let t = pick irqs in t, rand_action t)
             end else
             if r < 70 && irqs <> [] then (let t = pick irqs in t, rand_action t)
             else if r < 84 && termacts <> [] then (let t = pick termacts in t, (if rnd 3 = 0 then (ACancel, "cancel", []) else rand_action t))
             else if r < 90 && nonacts <> [] then
               (let runsteps = idx (fun i -> kindof i = KStep && List.nth sts i = SRunning) in
                let t = if runsteps <> [] && rnd 4 <> 0 then pick runsteps else pick nonacts in
                if kindof t <> KStep then t, rand_action t else
                if rnd 2 = 0 then t, (let nid = List.length (!e).nodes in
                                      APush true, "push", [("uses", Json.Str "acts.core.irq"); ("id", Json.Str (Printf.sprintf "x%d" nid)); ("key", Json.Str (Printf.sprintf "x%d" nid))])
                else if rnd 4 = 0 then t, (APush false, "push", []) else t, rand_action t)
             else if r < 94 then (nt + 3, rand_action 0)
             else if irqs <> [] then (let t = pick irqs in t, (ANext, "next", []))
             else (nt + 3, (ANext, "next", [])) in
           let declared = if target < nt then List.map fst (tnode !e (nat_of_int target)).n_outputs else [] in
           let supply = rnd 5 <> 0 in
           let extra = if !class_mode then rvars [0;1;2;3;4;5;6;7;8] 30 else rvars [0;1;2;3;4;5;6;7] 25 in
           let decl_vals = if supply then List.map (fun k -> (k, vnum (10 + rnd 9))) declared else (match declared with [] -> [] | _ :: tl -> List.map (fun k -> (k, vnum (10 + rnd 9))) tl) in
           let optv = List.fold_left (fun acc (k, x) -> if List.mem_assoc k acc then acc else acc @ [(k, x)]) decl_vals extra in
           let o = aopts @ (match jvars optv with Json.Obj l -> l | _ -> []) in
           (* hold mode: four actions in ten are issued while the scheduler is held (the queue keeps what the action scheduled,
              the next operation meets tasks that have not run yet); one in four of those is then repeated at once, identically *)
           let hold = !hold_mode && rnd 10 < 4 in
           let twice = hold && rnd 4 = 0 in
           let item h = Json.Obj ([("t", Json.Int target); ("a", Json.Str aname); ("o", Json.Obj o)] @ (if h then [("hold", Json.Bool true)] else [])) in
           ops := item hold :: !ops;
           incr nops; bump aname; if hold then bump "held";
           e := do_action !e (nat_of_int target) act optv;
           if twice then begin
             ops := item true :: !ops; incr nops; bump "repeated";
             e := do_action !e (nat_of_int target) act optv
           end else if hold && not !class_mode && rnd 3 = 0 then begin
             (* ... or taken back at once: cancel on the same act while what the action scheduled is still queued *)
             ops := Json.Obj [("t", Json.Int target); ("a", Json.Str "cancel"); ("o", Json.Obj []); ("hold", Json.Bool true)] :: !ops;
             incr nops; bump "cancel"; bump "held";
             e := do_action !e (nat_of_int target) ACancel []
           end;
           if not hold then e := drain_track !e
         end;
         let root = (tk !e O).t_state in
         if is_term root && rnd 3 = 0 then stop := true
       done;
       e := drain_track !e;
       if (!e).oof then bump "OOF";
       (* the scheduler queue is a bounded channel (100): beyond it the pop order is not FIFO *)
       if !maxq > 60 || List.length (!e).tasks > 250 || (!e).oof then bump "discarded-too-large" else begin
       incr k;
       if !class_mode then bump "c01-class";
       bump (Printf.sprintf "tasks<=%d" (let nt = List.length (!e).tasks in if nt <= 5 then 5 else if nt <= 15 then 15 else if nt <= 40 then 40 else 1000));
       Printf.fprintf oc "%s\n" (Json.show (Json.Obj [("id", Json.Str (Printf.sprintf "g%d" !k)); ("wf", jworkflow wf); ("ops", Json.Arr (List.rev !ops))])) end)
  done;
  close_out oc;
  Hashtbl.iter (fun k v -> Printf.printf "%s=%d " k v) stats; print_newline ()

(* ---------- oracle mode: a trace file (model's or implementation's) + the case file ---------- *)
let state_of_name = function
  | "none" -> SNone | "ready" -> SReady | "pending" -> SPending | "running" -> SRunning | "interrupted" -> SInterrupt
  | "completed" -> SCompleted | "submitted" -> SSubmitted | "backed" -> SBacked | "cancelled" -> SCancelled
  | "error" -> SError | "aborted" -> SAborted | "skipped" -> SSkipped | "removed" -> SRemoved | s -> failwith ("state " ^ s)
let mstate_of_name = function
  | "none" -> MNone | "created" -> MCreated | "completed" -> MCompleted | "submitted" -> MSubmitted | "backed" -> MBacked
  | "cancelled" -> MCancelled | "aborted" -> MAborted | "skipped" -> MSkipped | "error" -> MError | "removed" -> MRemoved | s -> failwith ("mstate " ^ s)
let kind_of_name = function "workflow" -> KWorkflow | "branch" -> KBranch | "step" -> KStep | _ -> KAct
let pack_of_name = function
  | "-" -> PNone | "acts.core.irq" -> PIrq | "acts.core.msg" -> PMsg | "acts.core.block" -> PBlock | "acts.core.parallel" -> PParallel
  | "acts.core.sequence" -> PSequence | "acts.transform.set" -> PSet | _ -> POther
let parse_canon (s : string) : (nat * val0) list =
  (* {k3:5,data:null} *)
  let body = String.sub s 1 (String.length s - 2) in
  if body = "" then [] else
  List.filter_map (fun kv ->
    match String.index_opt kv ':' with
    | None -> None
    | Some i ->
      let k = String.sub kv 0 i and v = String.sub kv (i + 1) (String.length kv - i - 1) in
      (match key_of_name k with
       | None -> None
       | Some k -> Some (nat_of_int k, (match v with "null" -> VNull | "true" -> VBool true | "false" -> VBool false
                                                   | v -> (match int_of_string_opt v with Some z -> VNum (z_of_int z) | None -> VNull))))) (String.split_on_char ',' body)
let oev_of_line (l : string) : oev option =
  match String.split_on_char ' ' l with
  | "N" :: t :: nid :: prev :: k :: lvl :: u :: at :: _ ->
      Some (ObNew (nat_of_int (int_of_string t), (match nid_of_name nid with Some x when nid <> "dyn" -> Some (nat_of_int x) | _ -> None),
                  (if prev = "-" then None else Some (nat_of_int (int_of_string prev))), kind_of_name k, nat_of_int (int_of_string lvl), pack_of_name u, z_of_int (int_of_string at)))
  | "T" :: t :: o :: n :: at :: _ -> Some (ObTrans (nat_of_int (int_of_string t), state_of_name o, state_of_name n, z_of_int (int_of_string at)))
  | "M" :: t :: ms :: i :: o :: _ -> Some (ObMsg (nat_of_int (int_of_string t), mstate_of_name ms, parse_canon i, parse_canon o))
  | "P" :: s :: o :: _ -> Some (ObProc (state_of_name s, parse_canon o))
  | "A" :: r :: _ -> Some (ObAct (r = "ok"))
  | "X" :: t :: _ -> Some (ObPop (nat_of_int (int_of_string t)))
  | "Q" :: _ -> Some ObQuiet
  | "F" :: t :: on :: now :: start :: limit :: _ ->
      let onk = (try fst (limit_of_name on) with _ -> 0) in
      Some (ObFire (nat_of_int (int_of_string t), nat_of_int onk, z_of_int (int_of_string now), z_of_int (int_of_string start), z_of_int (int_of_string limit)))
  | _ -> None
let oracle_main cases_path trace_path =
  (* traces per case *)
  let tbl : (string, string list ref) Hashtbl.t = Hashtbl.create 997 in
  let ic = open_in trace_path in
  (try while true do
     let l = input_line ic in
     if String.length l > 5 && String.sub l 0 5 = "case " then
       match String.index_opt l ':' with
       | Some i -> let cid = String.sub l 5 (i - 5) in
                   let rest = String.sub l (i + 2) (String.length l - i - 2) in
                   let r = (try Hashtbl.find tbl cid with Not_found -> let r = ref [] in Hashtbl.add tbl cid r; r) in
                   r := rest :: !r
       | None -> ()
   done with End_of_file -> ());
  close_in ic;
  let ic = open_in cases_path in
  (try while true do
     let l = input_line ic in
     if String.trim l <> "" then begin
       let j = Json.parse l in
       let cid = Json.to_str (Json.get "id" j) in
       (try
          let wf = workflow_of (Json.get "wf" j) in
          let ops = List.map cop_of (Json.to_list (Json.get "ops" j)) in
          let codes = List.filter_map (function CAct (t, a, _, _) -> Some (nat_of_int t, action_code a) | CTick _ -> None) ops in
          let tmo = (match build_tree fuel_tree wf with Some ns -> tmo_nids_of ns | None -> []) in
          let lines = List.rev (try !(Hashtbl.find tbl cid) with Not_found -> []) in
          let hooks = List.filter_map (fun l -> match String.split_on_char ' ' l with
                                                | "D" :: t :: rest when List.mem "hook" rest -> Some (nat_of_int (int_of_string t)) | _ -> None) lines in
          let evs = List.filter_map (fun l -> try oev_of_line l with _ -> None) lines in
          let v = check hooks tmo codes evs in
          List.iter (fun (c, t) -> Printf.printf "case %s: V %d %d\n" cid (int_of_nat c) (int_of_nat t)) v
        with Case m | Cond m | Json.Error m -> Printf.printf "case %s: CASE-ERROR %s\n" cid m)
     end
   done with End_of_file -> ());
  close_in ic

let () =
  match Array.to_list Sys.argv with
  | _ :: "run" :: path :: _ -> run_main path
  | _ :: "oracle" :: cases :: trace :: _ -> oracle_main cases trace
  | _ :: "gen" :: n :: s :: m :: out :: rest -> tmo_mode := List.mem "tmo" rest; hold_mode := List.mem "hold" rest; class_mode := List.mem "cls" rest; gen_main (int_of_string n) (int_of_string s) (int_of_string m) out
  | _ -> prerr_endline "usage: driver_engine run <cases.jsonl> | gen <n> <seed> <maxops> <out.jsonl>"; exit 2
