"""Engine corpus: generated workflows + model-driven histories, run on the extracted model and on the
real engine (sharded over fresh engines), cached per (repo, verif, seed, tier)."""
import json
import os
import re
import resource
import shutil
import subprocess
import time

from common import ROOT, BUILD, ML, HARNESS_BIN, ENV, repo_hash, verif_hash, sh

DRIVER = os.path.join(ML, 'driver_engine')
SHARDS = 16


def corpus_dir(tier, seed, variant=''):
    h = f"{repo_hash()}-{verif_hash()}"
    return os.path.join(BUILD, 'run', f'engine-{tier}-{seed}{variant}-{h}')


def split_cases(path):
    """trace file -> {case id: [lines without the `case x: ` prefix]}"""
    out = {}
    for line in open(path, errors='replace'):
        m = re.match(r'case (\S+): (.*)$', line.rstrip('\n'))
        if m:
            out.setdefault(m.group(1), []).append(m.group(2))
    return out


def _more_files():
    # a restart variant opens a new SQLite pool per engine; the engine does not release the old one on close
    soft, hard = resource.getrlimit(resource.RLIMIT_NOFILE)
    want = 262144 if hard == resource.RLIM_INFINITY else hard
    try:
        resource.setrlimit(resource.RLIMIT_NOFILE, (want, hard))
    except (ValueError, OSError):
        pass


def run_harness(cases_path, out_path, workdir, args=(), shards=SHARDS, mode='engine', per_proc=None):
    """shard the case file over fresh engines; concatenates the outputs in case order.  With `per_proc` the
    cases are cut into chunks of that size, each run by its own harness process, `shards` processes at a time
    (the restart variant opens a new SQLite pool per restart and the engine never releases the old one: a process
    that lives for hundreds of cases runs out of file descriptors)"""
    lines = [l for l in open(cases_path) if l.strip()]
    if per_proc:
        parts = [lines[k:k + per_proc] for k in range(0, len(lines), per_proc)] or [[]]
    else:
        shards = max(1, min(shards, len(lines)))
        parts = [lines[s::shards] for s in range(shards)]
    jobs = []
    for s, part in enumerate(parts):
        sd = os.path.join(workdir, f'shard{s}')
        os.makedirs(sd, exist_ok=True)
        cp = os.path.join(sd, 'cases.jsonl')
        open(cp, 'w').writelines(part)
        jobs.append((cp, os.path.join(sd, 'out.txt'), sd))
    errs = []
    running, todo, done = [], list(jobs), {}
    while todo or running:
        while todo and len(running) < max(1, shards):
            cp, op, sd = todo.pop(0)
            errf = open(os.path.join(sd, 'stderr.txt'), 'wb')
            p = subprocess.Popen([HARNESS_BIN, mode, cp, op, sd] + list(args), cwd=sd, env=ENV, stdout=subprocess.DEVNULL, stderr=errf, preexec_fn=_more_files)
            running.append((p, op, sd, time.time(), errf))
        still = []
        for p, op, sd, t0, errf in running:
            rc = p.poll()
            if rc is None and time.time() - t0 > 3000:
                p.kill(); p.wait(); rc = -9
            if rc is None:
                still.append((p, op, sd, t0, errf))
                continue
            errf.close()
            if rc != 0:
                err = open(os.path.join(sd, 'stderr.txt'), 'rb').read()
                errs.append(f"{sd}: rc={rc} {err[-400:].decode(errors='replace')}")
            done[sd] = op
        running = still
        if running:
            time.sleep(0.02)
    with open(out_path, 'w') as out:
        for cp, op, sd in jobs:
            if os.path.exists(op):
                out.write(open(op, errors='replace').read())
    return errs


def corpus_cases(workdir):
    """the corpus of minimised cases always runs first"""
    cases = []
    cdir = os.path.join(ROOT, 'corpus')
    if os.path.isdir(cdir):
        for f in sorted(os.listdir(cdir)):
            if f.startswith('engine') and f.endswith('.jsonl'):
                for i, l in enumerate(open(os.path.join(cdir, f))):
                    if l.strip():
                        c = json.loads(l)
                        c['id'] = f"k{f[6:-6]}{i}"
                        cases.append(json.dumps(c))
    return cases


def build(tier, seed, variant='', harness_args=('rows', 'extra'), n=None, maxops=None, gen_args=(), idtag='', with_corpus=True):
    """returns dict(dir, cases, model, impl, stats); cached"""
    d = corpus_dir(tier, seed, variant)
    done = os.path.join(d, 'done.json')
    if os.path.exists(done):
        return json.load(open(done))
    os.makedirs(d, exist_ok=True)
    n = n or (320 if tier == 'quick' else 6000)
    maxops = maxops or (12 if tier == 'quick' else 16)
    t0 = time.time()
    gen = os.path.join(d, 'gen.jsonl')
    # generation is sharded too (independent seeds derived from the one seed)
    parts = []
    procs = []
    gshards = 1 if n <= 400 else 16
    for s in range(gshards):
        gp = os.path.join(d, f'gen{s}.jsonl')
        procs.append((subprocess.Popen([DRIVER, 'gen', str((n + gshards - 1) // gshards), str(seed * 1000 + s), str(maxops), gp] + list(gen_args),
                                       stdout=subprocess.PIPE, stderr=subprocess.STDOUT, text=True), gp, s))
    dist = {}
    lines = corpus_cases(d) if with_corpus else []
    ncorpus = len(lines)
    for p, gp, s in procs:
        out, _ = p.communicate(timeout=3000)
        if p.returncode != 0:
            raise RuntimeError('generator failed: ' + out[-500:])
        for kv in out.split():
            if '=' in kv:
                k, v = kv.rsplit('=', 1)
                dist[k] = dist.get(k, 0) + int(v)
        for l in open(gp):
            if l.strip():
                c = json.loads(l)
                c['id'] = f"{idtag}s{s}{c['id']}"
                lines.append(json.dumps(c))
    open(gen, 'w').write("\n".join(lines) + "\n")
    # model
    model = os.path.join(d, 'model.txt')
    rc, out, _ = sh(f"{DRIVER} run {gen} > {model}", timeout=3000)
    if rc != 0:
        raise RuntimeError('model run failed: ' + out[-500:])
    impl = os.path.join(d, 'impl.txt')
    errs = run_harness(gen, impl, d, harness_args)
    res = {'dir': d, 'cases': gen, 'model': model, 'impl': impl, 'harness_errors': errs, 'ncases': len(lines), 'ncorpus': ncorpus,
           'distribution': dist, 'wall_s': round(time.time() - t0, 1)}
    json.dump(res, open(done, 'w'))
    # keep the run directory small: drop shard scratch
    for f in os.listdir(d):
        if f.startswith('shard'):
            shutil.rmtree(os.path.join(d, f), ignore_errors=True)
    prune_old(d)
    return res


def variant(res, name, flags):
    """the same cases run again with extra harness flags (evict / sqlite restart / threads); cached beside the corpus"""
    out = os.path.join(res['dir'], f'impl-{name}.txt')
    done = out + '.done'
    if os.path.exists(done):
        return out, json.load(open(done))
    wd = os.path.join(res['dir'], f'var-{name}')
    shutil.rmtree(wd, ignore_errors=True)
    os.makedirs(wd)
    # restart / evict variants rebuild engines or processes all the time and their memory grows with every case (nothing is
    # ever released by the engine): short-lived harness processes
    errs = run_harness(res['cases'], out, wd, tuple(flags), per_proc=(40 if 'restart' in flags else 60 if 'evict' in flags else None))
    shutil.rmtree(wd, ignore_errors=True)
    json.dump(errs, open(done, 'w'))
    return out, errs


def prune_old(keep):
    base = os.path.dirname(keep)
    ds = sorted((os.path.join(base, x) for x in os.listdir(base) if x.startswith('engine-')), key=os.path.getmtime)
    def recent(x):
        # a run directory another check may still be using (checks may run side by side): touched within the last 90 minutes
        try:
            m = max([os.path.getmtime(x)] + [os.path.getmtime(os.path.join(x, f)) for f in os.listdir(x)])
        except OSError:
            return True
        return time.time() - m < 5400
    for x in ds[:-6]:
        if x != keep and not recent(x):
            shutil.rmtree(x, ignore_errors=True)


def project(lines, kinds):
    """keep the line kinds a property depends on (first token)"""
    return [l for l in lines if l.split(' ', 1)[0] in kinds]


def compare(res, kinds, strip=None):
    """per-case comparison of the projected traces -> (agreeing, [disagreement dicts])"""
    m = split_cases(res['model'])
    i = split_cases(res['impl'])
    cases = {}
    for l in open(res['cases']):
        if l.strip():
            c = json.loads(l)
            cases[c['id']] = c
    agree, dis = 0, []
    for cid, c in cases.items():
        a = project(m.get(cid, []), kinds)
        b = project(i.get(cid, []), kinds)
        if strip:
            a, b = [strip(x) for x in a], [strip(x) for x in b]
        if a == b:
            agree += 1
        else:
            k = 0
            while k < min(len(a), len(b)) and a[k] == b[k]:
                k += 1
            dis.append({'case': c, 'at': k, 'model': a[k] if k < len(a) else None, 'impl': b[k] if k < len(b) else None})
    return agree, dis, cases, m, i


def rerun_single(case, workdir, harness_args=('rows', 'extra')):
    """model and implementation traces of one case (used by shrinking and replay)"""
    os.makedirs(workdir, exist_ok=True)
    cp = os.path.join(workdir, 'one.jsonl')
    open(cp, 'w').write(json.dumps(case) + "\n")
    rc, out, _ = sh([DRIVER, 'run', cp], timeout=600)
    mlines = [re.sub(r'^case \S+: ', '', l) for l in out.splitlines() if l.startswith('case ')]
    op = os.path.join(workdir, 'one.out')
    errs = run_harness(cp, op, workdir, harness_args, shards=1)
    ilines = [re.sub(r'^case \S+: ', '', l.rstrip('\n')) for l in open(op, errors='replace') if l.startswith('case ')] if os.path.exists(op) else []
    return mlines, ilines, errs
