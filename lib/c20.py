"""C20 models: type-directed serialisation cases (from the translator's field tables), tree cases
(Engine::verif_tree against the extracted Tree.build_model) and deployment histories (deploy / rm /
start on a fresh engine against the extracted Serde.dstep)."""
import json
import os
import re

import engine
from common import ML, COQ, Rng, sh

TEXTS = ['a', 'step one', 'Ünïcödé', '名前', '🚀 go', 'yes', 'no', 'null', '~', '1e3', '0x1F', '- a', 'a: b', '# c', '  lead', 'trail  ',
         'multi\nline', 'tab\there', "'q'", '"dq"', '{{ x }}', '', '0123', '1_000', '.inf', '2021-01-01', '!tag', '&a', '*a', '|', '>', '%', '@', '`',
         'true', 'Null', 'line1\n\nline3\n', 'a\\b', ' nbsp', 'x' * 90, '[1, 2]', '{a: 1}', '?', ': ', 'ключ', ' sep']
INTS = [0, 1, -1, 7, 2147483647, -2147483648, 2147483648, 4294967296, 9007199254740993, 9223372036854775807, -9223372036854775808, 18446744073709551615]
FLOATS = [1.5, -0.25, 3.0, 1e30, 1e-07, 123456789.125, 0.1, -1e+300]


def fields():
    return json.load(open(os.path.join(COQ, 'gen', 'model_fields.json')))


class Gen:
    def __init__(self, r, tables):
        self.r = r
        self.t = tables
        self.dist = {}
        self.nid = 0

    def count(self, k):
        self.dist[k] = self.dist.get(k, 0) + 1

    def text(self):
        return self.r.pick(TEXTS)

    def jvalue(self, depth):
        x = self.r.below(100)
        if depth <= 0:
            x = x % 60
        if x < 8:
            return None
        if x < 16:
            return self.r.chance(50)
        if x < 34:
            self.count('int')
            return self.r.pick(INTS)
        if x < 44:
            self.count('float')
            return self.r.pick(FLOATS)
        if x < 60:
            return self.text()
        if x < 80:
            return [self.jvalue(depth - 1) for _ in range(self.r.below(4))]
        return self.vars(depth - 1)

    def vars(self, depth=2):
        return {(self.text() if self.r.chance(40) else f"k{self.r.below(6)}"): self.jvalue(depth) for _ in range(self.r.below(4))}

    def value(self, ty, depth, full):
        r = self.r
        if ty == 'String':
            return self.text()
        if ty == 'Option<String>':
            return None if r.chance(25) else self.text()
        if ty == 'Option<ActEvent>':
            return None if r.chance(30) else r.pick(self.t['act_events'])
        if ty == 'i32':
            return r.pick([0, 1, 2, 17, 2147483647, -2147483648, -5])
        if ty == 'bool':
            return r.chance(50)
        if ty == 'Vars':
            return self.vars()
        if ty == 'JsonValue':
            return self.jvalue(2)
        if ty == 'Vec<String>':
            return [self.text() for _ in range(r.below(3))]
        m = re.fullmatch(r'Vec<(\w+)>', ty)
        if m and m.group(1) in self.t['structs']:
            if depth <= 0:
                return []
            k = r.below(3) if not full else 1 + r.below(2)
            return [self.struct(m.group(1), depth - 1, full) for _ in range(k)]
        raise RuntimeError(f"TRANSLATOR-ERROR: no generator for field type {ty}")

    def struct(self, S, depth, full):
        self.count(S)
        o = {}
        for f in self.t['structs'][S]:
            if full or self.r.chance(55):
                o[f['ser']] = self.value(f['type'], depth, full)
        if 'id' in o and S != 'Workflow':
            # distinct ids so that the model is also a valid tree (not needed for serialisation)
            self.nid += 1
            o['id'] = f"{o['id']}#{self.nid}" if self.r.chance(70) else o['id']
        return o


def default_of(ty):
    if ty == 'String':
        return ''
    if ty.startswith('Option<') or ty == 'JsonValue':
        return None
    if ty == 'i32':
        return 0
    if ty == 'bool':
        return False
    if ty == 'Vars':
        return {}
    return []


def normalise(o, S, tables, got=None):
    """the value every field should have after parsing `o` as struct S (defaults filled in)"""
    out = {}
    for f in tables['structs'][S]:
        if f['skip'] and (got is None or f['ser'] not in got):
            continue
        v = o.get(f['ser'], default_of(f['type'])) if f['ser'] in o else default_of(f['type'])
        m = re.fullmatch(r'Vec<(\w+)>', f['type'])
        if m and m.group(1) in tables['structs']:
            gl = (got or {}).get(f['ser']) if isinstance((got or {}).get(f['ser']), list) else None
            v = [normalise(x, m.group(1), tables, gl[i] if gl and i < len(gl) else None) for i, x in enumerate(v)]
        out[f['ser']] = v
    return out


def strict_diff(a, b, path=''):
    if isinstance(a, dict) and isinstance(b, dict):
        for k in a:
            if k not in b:
                return f"{path}/{k}: lost"
            d = strict_diff(a[k], b[k], f"{path}/{k}")
            if d:
                return d
        for k in b:
            if k not in a:
                return f"{path}/{k}: appeared"
        return None
    if isinstance(a, list) and isinstance(b, list):
        if len(a) != len(b):
            return f"{path}: {len(a)} items became {len(b)}"
        for i, (x, y) in enumerate(zip(a, b)):
            d = strict_diff(x, y, f"{path}/{i}")
            if d:
                return d
        return None
    if type(a) is not type(b) or a != b:
        return f"{path}: {json.dumps(a)[:60]} became {json.dumps(b)[:60]}"
    return None


# ---------------- tree cases ----------------
class TreeGen:
    def __init__(self, r):
        self.r = r
        self.k = 0
        self.ids = []
        self.anon = []
        self.dist = {}

    def count(self, k):
        self.dist[k] = self.dist.get(k, 0) + 1

    def fresh(self):
        self.k += 1
        declared = [x for x in self.ids if x not in self.anon]
        if declared and self.r.chance(self.dup):
            self.count('duplicate_id')
            return self.r.pick(declared)
        i = f"n{self.k}"
        if self.r.chance(self.anonp):
            i = f"n{50000 + self.k}"
            self.anon.append(i)
            self.count('generated_id')
        self.ids.append(i)
        return i

    def handlers(self, o, depth):
        if depth > 0 and self.r.chance(22):
            o['catches'] = [dict(**({'on': f"e{1 + self.r.below(3)}"} if self.r.chance(60) else {}), steps=self.steps(depth - 1, 1 + self.r.below(2))) for _ in range(1 + self.r.below(2))]
            self.count('catches')
        if depth > 0 and self.r.chance(18):
            o['timeout'] = [dict(on=f"{1 + self.r.below(5)}s", steps=self.steps(depth - 1, 1 + self.r.below(2))) for _ in range(1 + self.r.below(2))]
            self.count('timeouts')

    def act(self, depth):
        i = self.fresh()
        a = {'id': i, 'key': i, 'uses': self.r.pick(['acts.core.irq', 'acts.core.msg'])}
        self.handlers(a, depth)
        self.count('act')
        return a

    def step(self, depth):
        s = {'id': self.fresh()}
        self.count('step')
        if self.r.chance(self.nextp):
            x = self.r.below(10)
            declared = [i for i in self.ids if i not in self.anon]
            if x < 6 and declared:
                s['next'] = self.r.pick(declared); self.count('next_backward_or_self')
            elif x < 9:
                s['next'] = f"n{self.k + 1 + self.r.below(4)}"; self.count('next_forward')
            else:
                s['next'] = 'n99999'; self.count('next_unknown')
        if depth > 0 and self.r.chance(35):
            s['branches'] = [dict(id=self.fresh(), steps=self.steps(depth - 1, self.r.below(3))) for _ in range(1 + self.r.below(3))]
            self.count('branches')
        if self.r.chance(50):
            s['acts'] = [self.act(depth) for _ in range(1 + self.r.below(3))]
        self.handlers(s, depth)
        return s

    def steps(self, depth, n):
        return [self.step(depth) for _ in range(n)]

    def workflow(self, wid=None, dup=6, anonp=10, nextp=15, onp=30):
        self.dup, self.anonp, self.nextp = 0, 0, nextp
        self.k, self.ids, self.anon = 0, [], []
        w = {'id': wid or self.fresh()}
        self.dup, self.anonp = dup, anonp
        w['steps'] = self.steps(2, 1 + self.r.below(3))
        if self.r.chance(onp):
            on = []
            for _ in range(1 + self.r.below(3)):
                x = self.r.below(20)
                if x == 0:
                    on.append({'id': '', 'uses': 'acts.event.manual'}); self.count('on_empty_id')
                elif x < 3 and self.ids:
                    on.append({'id': self.r.pick(self.ids), 'uses': 'acts.event.manual'}); self.count('on_id_clash')
                else:
                    # ids of `on` acts come from their own range: a `next` naming an `on` act is outside the grammar
                    on.append({'id': f"n{30000 + self.r.below(6)}", 'uses': 'acts.event.manual'}); self.count('on')
            w['on'] = on
        return w


def strip_anon(o, anon):
    if isinstance(o, dict):
        return {k: strip_anon(v, anon) for k, v in o.items() if not (k in ('id', 'key') and v in anon)}
    if isinstance(o, list):
        return [strip_anon(x, anon) for x in o]
    return o


def canon_tree(lines):
    """NODE lines -> canonical form: nodes numbered by a walk from the root (children in order, then
    next); declared ids are kept, generated ones are not"""
    if any(l.startswith(('TREE-ERR', 'PARSE-ERR')) for l in lines):
        return ['ERR']
    nodes = {}
    for l in lines:
        m = re.match(r'NODE (\S+) (\S+) (\d+) (\S+) \[(.*)\]$', l)
        if not m:
            return ['UNPARSED ' + l]
        ch = []
        for c in m.group(5).split():
            typ, rest = c.split(':', 1)
            on, cid = rest.rsplit(':', 1)
            ch.append((typ, on, cid))
        nodes[m.group(1)] = dict(kind=m.group(2), level=int(m.group(3)), next=m.group(4), ch=ch)
    roots = [i for i, n in nodes.items() if n['kind'] == 'workflow']
    if len(roots) != 1:
        return [f'ROOTS {len(roots)}']
    num = {}
    order = []
    stack = [roots[0]]

    def visit(i):
        st = [i]
        while st:
            x = st.pop()
            if x in num or x not in nodes:
                continue
            num[x] = len(num)
            order.append(x)
            nxt = nodes[x]['next']
            todo = [c[2] for c in nodes[x]['ch']] + ([nxt] if nxt != '-' else [])
            for y in reversed(todo):
                st.append(y)
    visit(roots[0])
    for i in sorted(nodes):
        if i not in num:
            visit(i)

    def nm(i):
        if i == '-':
            return '-'
        declared = re.fullmatch(r'n(\d+)', i) and int(i[1:]) < 50000
        return f"{num.get(i, '?')}={i if declared else 'generated'}"
    out = []
    for i in order:
        n = nodes[i]
        out.append(f"{nm(i)} {n['kind']} {n['level']} next={nm(n['next'])} [{' '.join(f'{t}:{o}:{nm(c)}' for t, o, c in n['ch'])}]")
    return out


def run(seed, tier, workdir):
    os.makedirs(workdir, exist_ok=True)
    tables = fields()
    r = Rng(seed)
    n_serde, n_tree, n_dep = (120, 300, 60) if tier == 'quick' else (1500, 4000, 600)
    cases, model_cases = [], []
    g = Gen(r, tables)
    for k in range(n_serde):
        full = k % 3 == 0
        wf = g.struct('Workflow', 3, full)
        cases.append({'id': f"s{k}", 'kind': 'serde', 'wf': wf})
    tg = TreeGen(r)
    for k in range(n_tree):
        mode = k % 4
        wf = tg.workflow(dup=(0 if mode == 0 else r.pick([1, 1, 4])), anonp=(0 if mode == 1 else 12), nextp=(0 if mode == 2 else 18))
        cid = f"t{k}"
        model_cases.append({'id': cid, 'kind': 'tree', 'wf': wf})
        cases.append({'id': cid, 'kind': 'tree', 'wf': strip_anon(wf, set(tg.anon))})
    text = 0
    ddist = {}
    for k in range(n_dep):
        ops = []
        mids = ['n9001', 'n9002', 'n9003']
        for _ in range(3 + r.below(8)):
            x = r.below(100)
            if x < 60:
                text += 1
                wid = r.pick(mids) if not r.chance(4) else ''
                # these models are started: no `next` jumps (a backward or self jump is a legitimate endless loop), the tree
                # cases above cover `next` without running anything
                wf = tg.workflow(wid=wid or 'n9009', dup=(6 if r.chance(15) else 0), anonp=0, nextp=0, onp=70)
                wf['id'] = wid
                wf['name'] = f"t{text}"
                wf['ver'] = r.below(3)
                ops.append({'op': 'deploy', 'wf': wf, 'text': text})
            elif x < 75:
                ops.append({'op': 'rm', 'mid': r.pick(mids)})
            else:
                ops.append({'op': 'start', 'mid': r.pick(mids + ['n9004'])})
            ddist[ops[-1]['op']] = ddist.get(ops[-1]['op'], 0) + 1
        c = {'id': f"d{k}", 'kind': 'deploy', 'ops': ops}
        cases.append(c)
        model_cases.append(c)
    dis, st = evaluate(cases, model_cases, tables, workdir)
    stats = {'serde': n_serde, 'tree': n_tree, 'deploy': n_dep, 'serde_structs': g.dist, 'tree_features': tg.dist, 'deploy_ops': ddist}
    stats.update(st)
    return {'cases': cases, 'disagreements': dis, 'stats': stats}


def evaluate(cases, model_cases, tables, workdir):
    """run the cases on the implementation and on the extracted model, compare"""
    os.makedirs(workdir, exist_ok=True)
    cp = os.path.join(workdir, 'cases.jsonl')
    open(cp, 'w').write("".join(json.dumps(c) + "\n" for c in cases))
    op = os.path.join(workdir, 'impl.txt')
    errs = engine.run_harness(cp, op, os.path.join(workdir, 'w'), (), mode='model')
    if errs:
        raise RuntimeError('harness model failed: ' + "; ".join(errs)[:500])
    impl = engine.split_cases(op)
    # model side
    tp = os.path.join(workdir, 'tree.jsonl')
    open(tp, 'w').write("".join(json.dumps(c) + "\n" for c in model_cases if c['kind'] == 'tree'))
    dp = os.path.join(workdir, 'deploy.jsonl')
    open(dp, 'w').write("".join(json.dumps(c) + "\n" for c in model_cases if c['kind'] == 'deploy'))
    model = {}
    for mode, p in (('tree', tp), ('deploy', dp)):
        mo = os.path.join(workdir, f'model-{mode}.txt')
        rc, out, _ = sh(f"{os.path.join(ML, 'driver_model')} {mode} {p} > {mo}", timeout=1200)
        if rc != 0:
            raise RuntimeError('driver_model failed: ' + out[-400:])
        model.update(engine.split_cases(mo))
    dis = []
    stats = {'tree_rejected': 0, 'deploy_rejected': 0, 'agree': 0}
    mby = {c['id']: c for c in model_cases}
    for c in cases:
        cid = c['id']
        il = impl.get(cid, [])
        what = None
        if c['kind'] == 'serde':
            v1 = next((l[3:] for l in il if l.startswith('V1 ')), None)
            if v1 is None:
                what = ('serde:parse', 'the model parses', " ".join(il)[:200])
            else:
                got = json.loads(v1)
                d = strict_diff(normalise(c['wf'], 'Workflow', tables, got), got)
                if d:
                    what = ('serde:parse', 'every given field is kept when the model is parsed', d)
                for tag, cls in (('JSON-RT', 'serde:json'), ('YML-RT', 'serde:yaml')):
                    res = next((l.split(' ', 1)[1] for l in il if l.startswith(tag + ' ')), 'missing')
                    if res != 'ok' and what is None:
                        what = (cls, 'written and parsed back the model is identical', res)
        elif c['kind'] == 'tree':
            a, b = canon_tree(model.get(cid, [])), canon_tree(il)
            if a == ['ERR']:
                stats['tree_rejected'] += 1
            if a != b:
                k = 0
                while k < min(len(a), len(b)) and a[k] == b[k]:
                    k += 1
                what = ('tree', a[k] if k < len(a) else None, b[k] if k < len(b) else None)
        else:
            a, b = model.get(cid, []), il
            stats['deploy_rejected'] += sum(1 for l in a if l == 'R deploy err')
            if a != b:
                k = 0
                while k < min(len(a), len(b)) and a[k] == b[k]:
                    k += 1
                what = ('deploy', a[k] if k < len(a) else None, b[k] if k < len(b) else None)
        if what:
            dis.append({'case': c, 'model_case': mby.get(cid), 'class': what[0], 'expected': what[1], 'observed': what[2]})
        else:
            stats['agree'] += 1
    return dis, stats
