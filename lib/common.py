"""Shared machinery of ./check: builds, Coq obligations, evidence, verdict lines."""
import hashlib
import json
import os
import re
import subprocess
import sys
import time

ROOT = os.path.dirname(os.path.dirname(os.path.abspath(__file__)))
REPO = os.environ.get('VERIF_REPO', '/repo')
BUILD = os.path.join(ROOT, '.build')
COQ = os.path.join(ROOT, 'coq')
ML = os.path.join(BUILD, 'ml')
TARGET = os.path.join(BUILD, 'target')
HARNESS_BIN = os.path.join(TARGET, 'debug', 'harness')
ENV = dict(os.environ, CARGO_NET_OFFLINE='true', CARGO_TARGET_DIR=TARGET)

FORBIDDEN = re.compile(r'\b(Admitted|admit|Axiom|Axioms|Parameter|Parameters|Conjecture|Hypothesis|Variable|Abort)\b|Unset Guard|bypass_check|Admit Obligations|-type-in-type|impredicative-set')
# axioms of the standard library that a theorem may depend on (none is needed today)
AXIOM_ALLOW = set()


class Violation(Exception):
    def __init__(self, prop, detail, replay, found_input=True):
        self.prop, self.detail, self.replay, self.found_input = prop, detail, replay, found_input


def sh(cmd, cwd=None, timeout=3600, env=None, inp=None):
    t0 = time.time()
    try:
        p = subprocess.run(cmd, cwd=cwd, env=env or ENV, input=inp, stdout=subprocess.PIPE, stderr=subprocess.STDOUT,
                           timeout=timeout, shell=isinstance(cmd, str), text=True)
        return p.returncode, p.stdout, time.time() - t0
    except subprocess.TimeoutExpired as e:
        return 124, (e.stdout or '') + '\nTIMEOUT', time.time() - t0


def repo_hash():
    """content hash of the parts of /repo the checks depend on (sources, manifests)"""
    h = hashlib.sha256()
    for base in ('acts/src', 'store/sqlite/src', 'acts/Cargo.toml', 'store/sqlite/Cargo.toml', 'Cargo.toml', 'Cargo.lock'):
        p = os.path.join(REPO, base)
        if os.path.isfile(p):
            h.update(base.encode()); h.update(open(p, 'rb').read())
            continue
        for d, dirs, files in sorted(os.walk(p)):
            dirs.sort()
            for f in sorted(files):
                fp = os.path.join(d, f)
                h.update(fp.encode()); h.update(open(fp, 'rb').read())
    return h.hexdigest()[:16]


def verif_hash():
    h = hashlib.sha256()
    for base in ('coq/model', 'coq/proofs', 'coq/props', 'ocaml', 'harness/src', 'lib', 'translate', 'check', 'known_findings.txt', 'corpus'):
        p = os.path.join(ROOT, base)
        if os.path.isfile(p):
            h.update(open(p, 'rb').read()); continue
        for d, dirs, files in sorted(os.walk(p)):
            dirs.sort()
            for f in sorted(files):
                if f.endswith(('.v', '.ml', '.rs', '.py', '.txt', '.json', '.jsonl', '.toml')) or f == 'check':
                    h.update(open(os.path.join(d, f), 'rb').read())
    return h.hexdigest()[:16]


# ---------------------------------------------------------------------------------------
# builds
# ---------------------------------------------------------------------------------------
def translate():
    """regenerate coq/gen from the current sources; returns (ok, log)"""
    os.makedirs(os.path.join(COQ, 'gen'), exist_ok=True)
    rc, out, _ = sh([sys.executable, os.path.join(ROOT, 'translate', 'translate.py'), REPO, os.path.join(COQ, 'gen')], timeout=120)
    return rc == 0, out


def coq_files():
    fs = []
    for sub in ('gen', 'model', 'proofs', 'props'):
        d = os.path.join(COQ, sub)
        if os.path.isdir(d):
            fs += sorted(os.path.join(sub, f) for f in os.listdir(d) if f.endswith('.v'))
    return fs


def coq_makefile():
    files = coq_files()
    stamp = os.path.join(COQ, '.files')
    cur = "\n".join(files)
    if not os.path.exists(os.path.join(COQ, 'Makefile')) or not os.path.exists(stamp) or open(stamp).read() != cur:
        rc, out, _ = sh(['coq_makefile', '-f', '_CoqProject'] + files + ['-o', 'Makefile'], cwd=COQ)
        if rc != 0:
            raise RuntimeError('coq_makefile failed: ' + out)
        open(stamp, 'w').write(cur)


def coq_make(targets, timeout=2400):
    """full .vo build of the given targets (never -vos); returns (ok, log)"""
    coq_makefile()
    rc, out, dt = sh(['make', '-j16'] + targets, cwd=COQ, timeout=timeout)
    if rc != 0 and 'not found in the current environment' in out or 'inconsistent assumptions' in out:
        # a freshly generated dependency file can be missed by the first parallel run
        rc, out, dt = sh(['make', '-j16'] + targets, cwd=COQ, timeout=timeout)
    return rc == 0, out


def prop_obligations(prop):
    """theorem names of props/<prop>.v, each must be followed by Print Assumptions"""
    src = open(os.path.join(COQ, 'props', prop + '.v')).read()
    src_nc = re.sub(r'\(\*.*?\*\)', '', src, flags=re.S)
    thms = re.findall(r'^\s*Theorem\s+(\w+)', src_nc, re.M)
    printed = re.findall(r'^\s*Print Assumptions\s+(\w+)\s*\.', src_nc, re.M)
    return thms, printed, src_nc


def coq_check_prop(prop):
    """(re)compile props/<prop>.v and everything it depends on; returns dict with obligations,
    discharged, assumptions per theorem, problems (list of strings)"""
    problems = []
    thms, printed, src_nc = prop_obligations(prop)
    if sorted(thms) != sorted(printed):
        problems.append(f"props/{prop}.v: theorems without Print Assumptions: {sorted(set(thms) - set(printed))}")
    # forbidden words anywhere in the development (comments removed)
    for f in coq_files():
        if f.startswith('gen/'):
            continue
        txt = re.sub(r'\(\*.*?\*\)', '', open(os.path.join(COQ, f)).read(), flags=re.S)
        txt = re.sub(r'"[^"]*"', '""', txt)
        # Section variables are allowed in model/proof files (inside a Section only)
        for m in FORBIDDEN.finditer(txt):
            w = m.group(0)
            if w in ('Variable', 'Hypothesis') and in_section(txt, m.start()):
                continue
            problems.append(f"{f}: forbidden `{w}`")
    # force re-evaluation of the property file so that its Print Assumptions output is captured
    vo = os.path.join(COQ, 'props', prop + '.vo')
    if os.path.exists(vo):
        os.remove(vo)
    ok, log = coq_make([f'props/{prop}.vo'])
    res = {'theorems': thms, 'obligations': len(thms), 'discharged': 0, 'assumptions': {}, 'problems': problems, 'log': log, 'built': ok}
    if not ok:
        m = re.search(r'File "([^"]+)", line (\d+).*?\n(Error:.*?)(?:\n\n|\Z)', log, re.S)
        res['first_error'] = (m.group(1) + ':' + m.group(2) + ' ' + m.group(3)[:400]) if m else log[-600:]
        # which theorems still compile cannot be told from a failed build: none is counted
        return res
    # parse the Print Assumptions blocks in order
    blocks, cur = [], None
    for line in log.splitlines():
        if line.startswith('Closed under the global context'):
            if cur is not None:
                blocks.append(cur)
            blocks.append('Closed'); cur = None
        elif line.startswith('Axioms:'):
            if cur is not None:
                blocks.append(cur)
            cur = 'Axioms:\n'
        elif cur is not None:
            if line.startswith(('COQC', 'COQDEP', 'make', 'File ')):
                blocks.append(cur); cur = None
            else:
                cur += line + '\n'
    if cur is not None:
        blocks.append(cur)
    if len(blocks) != len(printed):
        problems.append(f"props/{prop}.v: {len(printed)} Print Assumptions but {len(blocks)} reports")
    for name, blk in zip(printed, blocks):
        if blk.startswith('Closed'):
            res['assumptions'][name] = []
        else:
            axs = re.findall(r'^(\S+)\s*:', blk, re.M)
            res['assumptions'][name] = axs
            bad = [a for a in axs if a not in AXIOM_ALLOW]
            if bad:
                problems.append(f"{name} depends on axioms {bad}")
    res['discharged'] = len([t for t in thms if t in res['assumptions'] and not [a for a in res['assumptions'][t] if a not in AXIOM_ALLOW]])
    return res


def in_section(txt, pos):
    opened = len(re.findall(r'^\s*Section\s+\w+', txt[:pos], re.M))
    closed = len(re.findall(r'^\s*End\s+\w+', txt[:pos], re.M))
    return opened > closed


def ocaml_build():
    """extract the models and build the OCaml drivers (rebuilt only when inputs changed)"""
    os.makedirs(ML, exist_ok=True)
    ok, log = coq_make([os.path.join('model', f)[:-2] + '.vo' for f in os.listdir(os.path.join(COQ, 'model')) if f.endswith('.v')])
    if not ok:
        return False, log
    h = hashlib.sha256()
    for d in (os.path.join(COQ, 'model'), os.path.join(COQ, 'gen'), os.path.join(ROOT, 'ocaml')):
        for f in sorted(os.listdir(d)):
            if f.endswith(('.v', '.ml')):
                h.update(open(os.path.join(d, f), 'rb').read())
    stamp = os.path.join(ML, '.stamp')
    if os.path.exists(stamp) and open(stamp).read() == h.hexdigest() and all(os.path.exists(os.path.join(ML, d)) for d in drivers()):
        return True, 'ocaml: up to date'
    rc, out, _ = sh(['coqc', '-Q', os.path.join(COQ, 'gen'), 'Acts.Gen', '-Q', os.path.join(COQ, 'model'), 'Acts.Model',
                     '-o', os.path.join(ML, 'Extract.vo'), os.path.join(ROOT, 'ocaml', 'Extract.v')], cwd=ML, timeout=600)
    if rc != 0:
        return False, out
    log = out
    for f in os.listdir(os.path.join(ROOT, 'ocaml')):
        if f.endswith('.ml'):
            open(os.path.join(ML, f), 'w').write(open(os.path.join(ROOT, 'ocaml', f)).read())
    for drv, (mods, extra) in DRIVERS.items():
        srcs = ['common.ml']
        for m in mods:
            srcs += [m + '.mli', m + '.ml'] if os.path.exists(os.path.join(ML, m + '.mli')) else [m + '.ml']
        srcs += [x + '.ml' for x in extra]
        srcs.append(drv + '.ml')
        rc, out, _ = sh(['ocamlfind', 'ocamlopt', '-O2', '-w', '-a'] + srcs + ['-o', drv], cwd=ML, timeout=900)
        log += out
        if rc != 0:
            return False, log
    open(stamp, 'w').write(h.hexdigest())
    return True, log


DRIVERS = {'driver_store': (['m_storeq'], []), 'driver_engine': (['m_engine'], ['json', 'engine_io']), 'driver_model': (['m_engine'], ['json', 'engine_io']), 'driver_multi': (['m_multi'], []), 'driver_retry': (['m_retry'], []), 'driver_script': (['m_script'], ['json']), 'driver_chan': (['m_chan'], [])}


def drivers():
    return list(DRIVERS.keys())


def harness_build():
    lock_src = os.path.join(REPO, 'Cargo.lock')
    lock_dst = os.path.join(ROOT, 'harness', 'Cargo.lock')
    if not os.path.exists(lock_dst) or open(lock_src, 'rb').read() != open(lock_dst, 'rb').read():
        # the harness resolves against the repository's lock file (cargo prunes what it does not need)
        if not os.path.exists(lock_dst):
            open(lock_dst, 'wb').write(open(lock_src, 'rb').read())
    rc, out, dt = sh(['cargo', 'build', '--offline'], cwd=os.path.join(ROOT, 'harness'), timeout=3000)
    return rc == 0, out


# ---------------------------------------------------------------------------------------
# evidence / verdicts
# ---------------------------------------------------------------------------------------
def write_evidence(prop, tier, seed, t0, coq, cov, assumptions, violations=0):
    os.makedirs(os.path.join(ROOT, 'evidence'), exist_ok=True)
    tb = [
        "Coq 8.16.1 kernel (vm_compute used in finite table checks; no native_compute)",
        "axioms per theorem (Print Assumptions): " + ("; ".join(f"{k}: {', '.join(v) if v else 'closed under the global context'}" for k, v in coq['assumptions'].items()) or 'n/a'),
        "translate/translate.py (declarative tables from the Rust sources, fail-closed)",
        "extraction: ExtrOcamlBasic only; hand-written OCaml drivers (I/O and parsing only)",
        "Rust harness + cfg(acts_verif) hooks; Python case generators and canonicalisation in lib/",
    ]
    coverage = {
        'obligations': coq['obligations'], 'discharged': coq['discharged'],
        'checker_cmd': f"make -C coq props/{prop}.vo  (coqc 8.16.1, full .vo build; thorough tier adds coqchk -o)",
        'trusted_base': tb,
        'theorems': coq['theorems'],
    }
    coverage.update(cov)
    ev = {'property_id': prop, 'tier': tier, 'seed': seed, 'level': 'proof', 'coverage': coverage,
          'assumptions': assumptions, 'wall_s': round(time.time() - t0, 2), 'violations': violations,
          'repo_hash': repo_hash(), 'verif_hash': verif_hash()}
    with open(os.path.join(ROOT, 'evidence', prop + '.json'), 'w') as f:
        json.dump(ev, f, indent=1, sort_keys=True)


def write_replay(prop, name, obj):
    d = os.path.join(ROOT, 'replay')
    os.makedirs(d, exist_ok=True)
    p = os.path.join(d, f"{prop}-{name}.json")
    with open(p, 'w') as f:
        json.dump(obj, f, indent=1)
    return p


def known_findings(prop):
    """lines of known_findings.txt for this property: list of dicts(kind, cls, text)"""
    out = []
    p = os.path.join(ROOT, 'known_findings.txt')
    if not os.path.exists(p):
        return out
    for line in open(p):
        line = line.strip()
        if not line or line.startswith('#'):
            continue
        m = re.match(r'(finding|fixed):\s+property=(\w+)\s+(.*)', line)
        if not m or m.group(2) != prop:
            continue
        kv = dict(re.findall(r'(\w+)=(\S+)', m.group(3)))
        out.append({'kind': m.group(1), 'class': kv.get('class', ''), 'text': m.group(3)})
    return out


class Rng:
    """splitmix64: every random choice of a check derives from VERIF_SEED"""
    def __init__(self, seed):
        self.s = seed & 0xFFFFFFFFFFFFFFFF

    def next(self):
        self.s = (self.s + 0x9E3779B97F4A7C15) & 0xFFFFFFFFFFFFFFFF
        z = self.s
        z = ((z ^ (z >> 30)) * 0xBF58476D1CE4E5B9) & 0xFFFFFFFFFFFFFFFF
        z = ((z ^ (z >> 27)) * 0x94D049BB133111EB) & 0xFFFFFFFFFFFFFFFF
        return z ^ (z >> 31)

    def below(self, n):
        return self.next() % n if n > 0 else 0

    def chance(self, pct):
        return self.below(100) < pct

    def pick(self, l):
        return l[self.below(len(l))]
