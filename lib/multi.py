"""C13 (isolation under load), C15 (sub-process calls), C17 (retention): several processes in one real
engine (harness mode `multi`), per-pid canonical traces, the store listing at the end of a history."""
import json
import os
import re
import shutil
import subprocess
from collections import Counter

import engine
from common import ML, BUILD, Rng, sh

TERM = {'completed', 'submitted', 'backed', 'cancelled', 'error', 'aborted', 'skipped', 'removed'}


def notime(l):
    return re.sub(r' \d{4,}$', '', l) if l[:2] in ('N ', 'T ') else l


def run_multi(cases, workdir, threads=1, shards=8):
    os.makedirs(workdir, exist_ok=True)
    cp = os.path.join(workdir, 'cases.jsonl')
    open(cp, 'w').write("".join(json.dumps(c) + "\n" for c in cases))
    out = os.path.join(workdir, 'out.txt')
    errs = engine.run_harness(cp, out, os.path.join(workdir, 'w'), (f'threads={threads}',), shards=shards, mode='multi')
    shutil.rmtree(os.path.join(workdir, 'w'), ignore_errors=True)
    if errs:
        raise RuntimeError('harness multi failed: ' + "; ".join(errs)[:500])
    return engine.split_cases(out)


def problems(prefix, cases, got, extra=None):
    """a panic on an engine task (the scheduler loop dies with it) or work that never drains, as violations"""
    out = []
    for c in cases:
        for l in got.get(c['id'], []):
            if l.startswith(('PANIC ', 'HUNG')):
                loc = l.split(' ')[1] if l.startswith('PANIC ') else 'hung'
                out.append({'class': f"{prefix}:engine_panic:{loc}" if l.startswith('PANIC') else f"{prefix}:engine_hung",
                            'detail': f"case {c['id']}: {l} -- the engine stopped serving every process of the group",
                            'case': dict({'kind': 'multi', 'case': c}, **(extra or {}))})
    return out


def corpus_members(tier, seed):
    """cases of the engine corpus usable as members of a loaded run: no ticks, no timeout rules, moderate size"""
    res = engine.build(tier, seed)
    solo = engine.split_cases(res['impl'])
    out = []
    for l in open(res['cases']):
        if not l.strip():
            continue
        c = json.loads(l)
        if any('tick' in o for o in c['ops']) or '"timeout"' in l:
            continue
        n = sum(1 for x in solo.get(c['id'], []) if x.startswith('N '))
        if 0 < n <= 40:
            out.append(c)
    return res, solo, out


def outcome(lines):
    """order-free picture of one process: message multiset, final task states, process events"""
    names = {}
    for l in lines:
        p = l.split(' ')
        if p[0] == 'N':
            names[p[1]] = f"{p[2]}/{p[4]}/{p[5]}"
    msgs = Counter()
    for l in lines:
        p = l.split(' ')
        if p[0] == 'M':
            msgs[(names.get(p[1], '?'), p[2], p[3], p[4])] += 1
    last = {}
    for l in lines:
        p = l.split(' ')
        if p[0] == 'T':
            last[p[1]] = p[3]
    fin = Counter((names.get(t, '?'), s) for t, s in last.items())
    procs = [l for l in lines if l.startswith('P ')]
    acts = [l for l in lines if l.startswith('A ')]
    return msgs, fin, procs, acts


def task_names(lines):
    """schedule-independent task names of a canonical trace, as harness Canon computes them:
    <name of the predecessor task>/<node label>#<k-th such successor>"""
    names, seen = [], set()
    for l in lines:
        p = l.split(' ')
        if p[0] != 'N':
            continue
        label = p[2] if p[2] != 'dyn' else f"dyn:{p[6]}"
        base = label if p[3] == '-' or not p[3].isdigit() or int(p[3]) >= len(names) else f"{names[int(p[3])]}/{label}"
        k = 0
        while f"{base}#{k}" in seen:
            k += 1
        seen.add(f"{base}#{k}")
        names.append(f"{base}#{k}")
    return names


def control_outcome(lines):
    """the outcome of a process without the values: messages by (task name, state), final states, process event states, action results"""
    msgs, fin, procs, acts = outcome(lines)
    m2 = Counter()
    for (name, state, _i, _o), n in msgs.items():
        m2[(name, state)] += n
    return m2, fin, [p.split(' ')[1] for p in procs], acts


def ended_over_open(lines):
    """the trace reports the process ended while a task is still open"""
    st = {}
    for l in lines:
        p = l.split(' ')
        if p[0] == 'N':
            st[p[1]] = 'none'
        elif p[0] == 'T':
            st[p[1]] = p[3]
        elif p[0] == 'P' and p[1] in TERM:
            return any(s not in TERM for s in st.values())
    return False


def interleave(r, seqs):
    """random merge of the per-process operation lists, order inside each list kept"""
    pos = [0] * len(seqs)
    out = []
    live = [i for i, s in enumerate(seqs) if s]
    while live:
        i = r.pick(live)
        out.append(seqs[i][pos[i]])
        pos[i] += 1
        if pos[i] >= len(seqs[i]):
            live.remove(i)
    return out


# ---------------------------------------------------------------- C13
def run_c13(tier, seed, workdir):
    r = Rng(seed * 7919 + 13)
    res, solo, members = corpus_members(tier, seed)
    ngroups = 24 if tier == 'quick' else 160
    sizes = [2, 3, 4, 6, 8] if tier == 'quick' else [2, 3, 4, 6, 8, 12, 16, 32, 64]
    cases, meta = [], {}
    for g in range(ngroups):
        size = sizes[g % len(sizes)]
        chosen = [r.pick(members) for _ in range(size)]
        models, procs, seqs, starts = [], {}, [], []
        midx = []
        for i, c in enumerate(chosen):
            if i > 0 and r.chance(25):
                j = r.below(i)                    # a second process of a model that is already there
                c = chosen[j]
                chosen[i] = c
                k = midx[j]
            else:
                models.append(c['wf'])
                k = len(models) - 1
            midx.append(k)
            pid = f"p{i}"
            procs[pid] = k
            meta[(g, pid)] = {'case': c}
            starts.append({'start': k, 'pid': pid})
            nm = task_names(solo.get(c['id'], []))
            seqs.append([dict(p=pid, t=o['t'], tn=(nm[o['t']] if o['t'] < len(nm) else None), a=o['a'], o=o['o']) for o in c['ops']])
        # all processes are started first (in random order), then their operations are interleaved;
        # one duplicate start of a live pid somewhere
        order = list(starts)
        for i in range(len(order) - 1, 0, -1):
            j = r.below(i + 1)
            order[i], order[j] = order[j], order[i]
        ops = order + interleave(r, seqs)
        keep = g % 3 == 2
        # a second start of a pid is refused while that pid is live (or kept): without keep_processes only a
        # process that never ends in this history is certainly live at the time of the duplicate
        never_ends = [st for st in starts if not any(l.startswith('P ') and l.split(' ')[1] in TERM for l in solo.get(meta[(g, st['pid'])]['case']['id'], []))]
        dup_from = starts if keep else never_ends
        if dup_from:
            dup = r.pick(dup_from)
            ops.insert(len(order) + r.below(max(1, len(ops) - len(order))), dict(dup, dup=True))
        cap = [0, 1, 2, 3][g % 4]
        # the default configuration drops a process when it ends; a third of the groups keep them
        cases.append({'id': f"g{g}", 'cfg': {'keep': keep, 'cache_cap': cap}, 'models': models, 'procs': procs, 'ops': ops})
    violations, stats = [], {'groups': ngroups, 'processes': sum(len(c['procs']) for c in cases), 'cache_caps': Counter(c['cfg']['cache_cap'] for c in cases), 'ordered_equal': 0, 'outcome_equal': {}}
    # the solo traces of the corpus run were taken with keep_processes on; for the groups that run with the default
    # configuration the same cases are run alone under that configuration (one process per engine)
    alone, solo_drop = {}, {}
    for g, c in enumerate(cases):
        if not c['cfg']['keep']:
            for pid in c['procs']:
                m = meta[(g, pid)]['case']
                if m['id'] not in alone:
                    alone[m['id']] = {'id': f"a-{m['id']}", 'cfg': {'keep': False, 'cache_cap': 0}, 'models': [m['wf']], 'procs': {'p0': 0},
                                      'ops': [{'start': 0, 'pid': 'p0'}] + [dict(p='p0', t=o['t'], a=o['a'], o=o['o']) for o in m['ops']]}
    if alone:
        got1 = run_multi(list(alone.values()), os.path.join(workdir, 'alone'))
        violations += problems('13', list(alone.values()), got1, {'threads': 1})
        solo_drop = {mid: got1.get(f"a-{mid}/p0", []) for mid in alone}
    one_thread_equal = set()
    for threads in ([1] if tier == 'quick' else [1, 4, 8]):
        got = run_multi(cases, os.path.join(workdir, f't{threads}'), threads=threads)
        violations += problems('13', cases, got, {'threads': threads})
        same = 0
        for g, c in enumerate(cases):
            # the duplicate start is refused: every pid has exactly one accepted start
            for pid in c['procs']:
                key = f"g{g}/{pid}"
                lines = got.get(key, [])
                member = meta[(g, pid)]['case']
                base = solo.get(member['id'], []) if c['cfg']['keep'] else solo_drop.get(member['id'], [])
                expect = [notime(l) for l in base if l.split(' ')[0] in ('N', 'T', 'M', 'P', 'A')]
                have = [notime(l) for l in lines if l.split(' ')[0] in ('N', 'T', 'M', 'P', 'A')]
                starts_ok = [l for l in lines if l.startswith('S ')]
                cls = None
                # a start is refused exactly while the pid is taken: from its accepted start on, for good when processes are kept,
                # until the process has ended (in this very run) when they are dropped
                taken, bad_start = False, False
                for l in lines:
                    if l.startswith('S ok'):
                        bad_start = bad_start or taken
                        taken = True
                    elif l.startswith('S err'):
                        bad_start = bad_start or not taken
                    elif l.startswith('P ') and l.split(' ')[1] in TERM and not c['cfg']['keep']:
                        taken = False
                if bad_start or len(starts_ok) != 1 + sum(1 for o in c['ops'] if o.get('dup') and o['pid'] == pid):
                    cls, detail = '13:duplicate_start', f"start results {starts_ok}"
                elif threads == 1 and expect == have:
                    stats['ordered_equal'] += 1
                    one_thread_equal.add((g, pid))
                    same += 1
                    continue
                elif outcome(expect) == outcome(have):
                    same += 1
                    continue
                else:
                    k = 0
                    while k < min(len(expect), len(have)) and expect[k] == have[k]:
                        k += 1
                    ex = expect[k] if k < len(expect) else 'END'
                    ob = have[k] if k < len(have) else 'END'
                    if c['cfg']['cache_cap'] and ex.startswith('N ') and ex.split(' ')[2] == 'dyn':
                        cls = '13:generated_node_not_created'
                    elif threads > 1 and ended_over_open(expect):
                        # the process reports its ending while tasks beneath the root are still open (C03 findings 304 / 305):
                        # what the open part still does depends on the pop order of the worker threads
                        cls = '13:ended_over_open_tasks'
                    elif threads > 1 and control_outcome(expect) == control_outcome(have):
                        # same tasks, same states, same messages up to the values they carry: only data differs
                        cls = '13:thread_order_data'
                    elif threads > 1 and c['cfg']['cache_cap'] and any('/dyn:' in n for n in task_names(expect)):
                        # line order differs with several threads, so the first differing line says little: a process with generated
                        # acts under a cache smaller than the number of live processes (reloads lose generated nodes; the one-thread
                        # runs of the same groups pin that class down by the first differing line)
                        cls = '13:generated_node_not_created'
                    elif threads > 1 and (g, pid) in one_thread_equal:
                        # the same process of the same group, same operations, reproduced its solo trace line by line on one
                        # worker thread in this very run: the difference comes with the thread schedule
                        cls = '13:thread_schedule'
                    else:
                        cls = f"13:{ex.split(' ')[0]}/{ob.split(' ')[0]}"
                    detail = f"alone the process continues with `{ex}`, under load with `{ob}` (line {k})"
                    if threads > 1:
                        oa, ob2 = outcome(expect), outcome(have)
                        parts = []
                        for nm, x, y in (('messages', oa[0], ob2[0]), ('final states', oa[1], ob2[1])):
                            if x != y:
                                parts.append(f"{nm}: only alone {dict(x - y)}, only under load {dict(y - x)}")
                        if oa[2] != ob2[2]:
                            parts.append(f"process events: alone {oa[2]}, under load {ob2[2]}")
                        if oa[3] != ob2[3]:
                            parts.append(f"action results: alone {oa[3]}, under load {ob2[3]}")
                        detail += "; outcome: " + "; ".join(parts)[:900]
                violations.append({'class': cls, 'detail': f"group g{g} ({len(c['procs'])} processes, cache_cap={c['cfg']['cache_cap'] or 'default'}, {threads} threads) process {pid} (corpus case {member['id']}): {detail}",
                                   'case': {'kind': 'multi', 'case': c, 'pid': pid, 'solo_case': member, 'threads': threads}})
        stats['outcome_equal'][f'threads={threads}'] = same
    cov = {'evaluations': stats['processes'] * len(stats['outcome_equal']), 'distinct_nontrivial': stats['processes'],
           'rule': "groups of 2..64 processes drawn from the engine corpus (generated workflows with model-driven client histories, those without timers), sometimes two processes of one model; all started first in random order, their operations interleaved at random (one PRNG), one duplicate start of a live pid per group; cache capacity default / 1 / 2 / 3; thorough: also 4 and 8 worker threads. Per pid: the trace under load against the trace of the same case run alone (ordered for 1 thread, as message multiset + final task states + process events otherwise)",
           'traces_validated_against_impl': min(stats['outcome_equal'].values()), 'input_distribution': {k: (dict(v) if isinstance(v, Counter) else v) for k, v in stats.items()},
           'samples': [cases[0]['ops'][:6]]}
    return {'cov': cov, 'violations': violations, 'broken': [],
            'assumptions': ["the solo traces are those of the engine corpus run (one process per engine at a time)",
                            "with several worker threads the order of log lines of one process is not compared, only its outcome"]}


# ---------------------------------------------------------------- C17
def run_c17(tier, seed, workdir):
    r = Rng(seed * 104729 + 17)
    res, solo, members = corpus_members(tier, seed)
    ngroups = 24 if tier == 'quick' else 200
    cases = []
    for g in range(ngroups):
        size = 1 + r.below(4)
        chosen = [r.pick(members) for _ in range(size)]
        models, procs, seqs, starts = [], {}, [], []
        for i, c in enumerate(chosen):
            wf = dict(c['wf'])
            if r.chance(50):
                wf['on'] = [{'id': f"ev{j}", 'uses': 'acts.event.manual'} for j in range(1 + r.below(2))]
            models.append(wf)
            pid = f"p{i}"
            procs[pid] = i
            starts.append({'start': i, 'pid': pid})
            ops = [dict(p=pid, t=o['t'], a=o['a'], o=o['o']) for o in c['ops']]
            # something to refuse after the end (it is refused too while the process runs if the task is unknown / closed)
            ops.append(dict(p=pid, t=r.below(4), a='next', o={}, after=True))
            seqs.append(ops)
        ops = starts + interleave(r, seqs)
        rm = None
        if r.chance(50):
            rm = r.below(size)
            ops.append({'rm_model': rm})
        cases.append({'id': f"r{g}", 'cfg': {'keep': g % 2 == 0, 'backend': 'sqlite' if g % 4 >= 2 else 'mem'}, 'models': models, 'procs': procs, 'ops': ops, 'rm': rm})
    # processes that run to their end while they are not in the cache: started in a burst behind the held scheduler,
    # some of them dropped from the cache before they run (what a small cache does to a burst of starts)
    auto = {'id': 'w', 'steps': [{'id': 'n1', 'acts': [{'id': 'n2', 'key': 'n2', 'uses': 'acts.core.msg'}]}, {'id': 'n3', 'acts': [{'id': 'n4', 'key': 'n4', 'uses': 'acts.core.msg'}]}], 'inputs': {}, 'outputs': {}}
    for g in range(4 if tier == 'quick' else 24):
        size = 2 + r.below(4)
        pids = [f"p{i}" for i in range(size)]
        ev = [p for p in pids if r.chance(60)] or [pids[0]]
        ops = [{'burst': [{'start': 0, 'pid': p} for p in pids], 'evict': ev}] + [dict(p=p, t=r.below(4), a='next', o={}, after=True) for p in pids]
        cases.append({'id': f"b{g}", 'cfg': {'keep': g % 4 == 3, 'backend': 'sqlite' if g % 2 else 'mem'}, 'models': [auto], 'procs': {p: 0 for p in pids}, 'ops': ops, 'rm': None})
    # a process that was called by another one is retained / dropped like any other
    for g in range(4 if tier == 'quick' else 24):
        child = child_model(r, 0, 1)
        child['id'] = 'c'
        parent = {'id': 'w', 'steps': [{'id': 'n1', 'acts': [{'id': 'n2', 'key': 'n2', 'uses': 'acts.core.subflow', 'params': {'to': f"m-s{g}-1", 'options': {'pid': 'c1', 'k3': 1}}}]}], 'inputs': {}, 'outputs': {}}
        ops = [{'start': 0, 'pid': 'p', 'vars': {}}, dict(p='c1', t=2, a=r.pick(['next', 'next', 'error', 'abort']), o={'ecode': 'e2'}),
               dict(p='c1', t=2, a='next', o={}, after=True), dict(p='p', t=2, a='next', o={}, after=True)]
        cases.append({'id': f"s{g}", 'cfg': {'keep': g % 4 == 3, 'backend': 'sqlite' if g % 2 else 'mem'}, 'models': [parent, child], 'procs': {'p': 0, 'c1': 1}, 'ops': ops, 'rm': None})
    got = run_multi(cases, os.path.join(workdir, 'run'))
    obs_path = os.path.join(workdir, 'obs.txt')
    keys = {}
    violations = problems('17', cases, got)
    stats = Counter()
    with open(obs_path, 'w') as f:
        for c in cases:
            top = got.get(c['id'], [])
            prow = {}
            for l in top:
                m = re.match(r'STORE procs=\[(.*)\]', l)
                if m:
                    prow = dict(x.split(':') for x in m.group(1).split())
            for pid in c['procs']:
                lines = got.get(f"{c['id']}/{pid}", [])
                ended_at = next((k for k, l in enumerate(lines) if l.startswith('P ') and l.split(' ')[1] in TERM), None)
                created = sum(1 for l in lines if l.startswith('N '))
                st = next((l for l in lines if l.startswith('STORE ')), 'STORE tasks=0 open=0 msgs=0')
                kv = dict(x.split('=') for x in st.split(' ')[1:])
                refused = 1
                if ended_at is not None:
                    # the action that ended the process reports after its effects; later actions come after a Q marker
                    rest = lines[ended_at:]
                    q = next((k for k, l in enumerate(rest) if l == 'Q'), len(rest))
                    if any(l == 'A ok' for l in rest[q:]):
                        refused = 0
                key = f"{c['id']}/{pid}"
                keys[key] = c
                stats['ended' if ended_at is not None else 'open'] += 1
                stats['keep' if c['cfg']['keep'] else 'drop'] += 1
                f.write(f"ret {key} keep={int(c['cfg']['keep'])} ended={int(ended_at is not None)} procrow={prow.get(pid, 'none')} tasks={kv['tasks']} open={kv['open']} created={created} refused={refused}\n")
            # removing a model removes exactly its events
            mids = [f"m-{c['id']}-{k}" for k in range(len(c['models']))]
            want_models = sorted(m for k, m in enumerate(mids) if k != c['rm'])
            want_events = sorted(f"{m}:{e['id']}" for k, m in enumerate(mids) if k != c['rm'] for e in c['models'][k].get('on', []))
            m = next((re.match(r'STORE models=\[(.*)\] events=\[(.*)\]', l) for l in top if l.startswith('STORE models')), None)
            have = (sorted(m.group(1).split()), sorted(m.group(2).split())) if m else ([], [])
            if have != (want_models, want_events):
                violations.append({'class': '17:model_removal', 'detail': f"case {c['id']}: after removing model #{c['rm']} the store lists models {have[0]} events {have[1]}, expected {want_models} {want_events}",
                                   'case': {'kind': 'multi', 'case': c}})
    rc, out, _ = sh([os.path.join(ML, 'driver_multi'), obs_path], timeout=600)
    if rc != 0:
        raise RuntimeError('driver_multi failed: ' + out[-300:])
    ok = 0
    text = {1701: "rows of a finished process remain although keep_processes is off", 1702: "rows of a finished process are missing / not terminal although keep_processes is on",
            1703: "task rows of a finished process are still in an open state", 1704: "an action on a finished process was accepted", 1705: "rows of a process that has not ended are missing"}
    for l in out.splitlines():
        p = l.split(' ')
        if p[1] == 'OK':
            ok += 1
            continue
        for cl in p[2:]:
            violations.append({'class': f"17:{cl}", 'detail': f"{p[0]}: {text.get(int(cl), cl)} ({open(obs_path).read().split('ret ' + p[0] + ' ')[1].splitlines()[0]})",
                               'case': {'kind': 'multi', 'case': keys[p[0]], 'pid': p[0].split('/')[1]}})
    cov = {'evaluations': sum(len(c['procs']) for c in cases), 'distinct_nontrivial': stats['ended'],
           'rule': "1..4 interleaved processes from the engine corpus (ending by completion, error, abort, skip, or left open), one more action per process issued at the end, models with 0..2 `on` events, one model removed in half of the groups; keep_processes on / off and memory / SQLite store alternate; the store is listed at the end (process rows, task rows per pid with their states, models, events); non-trivial = processes that ended",
           'traces_validated_against_impl': ok, 'input_distribution': dict(stats), 'samples': [cases[0]['cfg']]}
    return {'cov': cov, 'violations': violations, 'broken': [],
            'assumptions': ["message records: the harness registers no acknowledging channel, the messages collection is not part of the comparison",
                            "the listing is taken after the last operation of the history, at a quiescent point"]}


# ---------------------------------------------------------------- C15
def child_model(r, depth, tag):
    """a child that waits on an irq act; how it ends is decided by the client"""
    outs = {}
    if r.chance(60):
        outs['k4'] = r.below(9)
    if r.chance(30):
        outs['k5'] = None
    acts = [{'id': 'n2', 'key': 'n2', 'uses': 'acts.core.irq'}]
    # the called model may declare a default for an input the call passes: the call's value wins
    ins = {'k3': 90 + r.below(9)} if r.chance(40) else {}
    return {'id': f'c{tag}', 'steps': [{'id': 'n1', 'acts': acts}], 'inputs': ins, 'outputs': outs}


def run_c15(tier, seed, workdir):
    r = Rng(seed * 15485863 + 15)
    n = 60 if tier == 'quick' else 800
    cases = []
    plan = {}
    for g in range(n):
        depth = 1 + r.below(3)
        missing = r.chance(8)
        ending = r.pick(['next', 'next', 'error', 'abort', 'skip', 'submit', 'none'])
        # one case in eight: the calling act is closed from the side (a sibling irq in the same parallel block is skipped /
        # aborted / failed by the client) while the child still runs; the child ends afterwards and its return comes late
        forced = r.chance(12)
        if forced:
            depth, missing, ending = 1, False, r.pick(['next', 'error', 'abort', 'skip'])
        # chain: p calls c1 calls c2 ... ; the deepest one has the irq act the client answers
        models = []
        procs = {}
        names = ['p'] + [f"c{i}" for i in range(1, depth + 1)]
        opts = {'k3': r.below(9)}
        for lvl, pid in enumerate(names):
            if lvl == depth:
                wf = child_model(r, 0, lvl)
            else:
                to = 'nomodel' if (missing and lvl == depth - 1) else f"m-q{g}-{lvl + 1}"
                call = {'id': 'n2', 'key': 'n2', 'uses': 'acts.core.subflow', 'params': {'to': to, 'options': dict(opts, pid=names[lvl + 1])}}
                if r.chance(30):
                    call['outputs'] = {'k4': None}
                acts = [call]
                if r.chance(60):
                    acts.append({'id': 'n3', 'key': 'n3', 'uses': 'acts.core.msg'})
                steps = [{'id': 'n1', 'acts': acts}]
                if forced:
                    call = {k: v for k, v in call.items() if k not in ('id', 'key', 'outputs')}
                    steps = [{'id': 'n1', 'acts': [{'id': 'n5', 'key': 'n5', 'uses': 'acts.core.block',
                                                    'params': {'mode': 'parallel', 'acts': [call, {'uses': 'acts.core.irq'}]}}]},
                             {'id': 'n6', 'acts': [{'id': 'n7', 'key': 'n7', 'uses': 'acts.core.irq'}]}]
                elif r.chance(30):
                    # other activity in the parent while the child runs
                    steps = [{'id': 'n9', 'branches': [{'id': 'b1', 'steps': steps}, {'id': 'b2', 'steps': [{'id': 'n7', 'acts': [{'id': 'n8', 'key': 'n8', 'uses': 'acts.core.irq'}]}]}]}]
                wf = {'id': f'w{lvl}', 'steps': steps, 'inputs': {}, 'outputs': {'k4': None} if r.chance(50) else {}}
            models.append(wf)
            procs[pid] = lvl
        ops = [{'start': 0, 'pid': 'p', 'vars': {}}]
        plan[f"q{g}"] = dict(depth=depth, missing=missing, ending=ending, names=names, opts=opts, forced=forced, how=r.pick(['skip', 'skip', 'abort', 'error']))
        cases.append({'id': f"q{g}", 'cfg': {'keep': True}, 'models': models, 'procs': procs, 'ops': ops, 'ending': ending})
    # calling acts that catch the error their child ends in (their own PRNG, so the chains above stay as they were): a catch-all
    # or a catch for the code, with or without handler steps, the call followed by another act and a further step
    rc = Rng(seed * 15485863 + 151)
    for j in range(8 if tier == 'quick' else 100):
        g = f"c{j}"
        handler = [{'id': 'h1', 'acts': [{'id': 'h2', 'key': 'h2', 'uses': 'acts.core.msg'}]}] if rc.chance(50) else []
        catch = dict({'steps': handler}, **({'on': 'e7'} if rc.chance(50) else {}))
        opts = {'k3': rc.below(9)}
        call = {'id': 'n2', 'key': 'n2', 'uses': 'acts.core.subflow', 'params': {'to': f"m-q{g}-1", 'options': dict(opts, pid='c1')}, 'catches': [catch]}
        acts = [call] + ([{'id': 'n3', 'key': 'n3', 'uses': 'acts.core.msg'}] if rc.chance(60) else [])
        steps = [{'id': 'n1', 'acts': acts}, {'id': 'n6', 'acts': [{'id': 'n7', 'key': 'n7', 'uses': 'acts.core.irq'}]}]
        models = [{'id': 'w0', 'steps': steps, 'inputs': {}, 'outputs': {}}, child_model(rc, 0, 1)]
        plan[f"q{g}"] = dict(depth=1, missing=False, ending='error', names=['p', 'c1'], opts=opts, forced=False, caught=True, how='skip')
        cases.append({'id': f"q{g}", 'cfg': {'keep': True}, 'models': models, 'procs': {'p': 0, 'c1': 1}, 'ops': [{'start': 0, 'pid': 'p', 'vars': {}}], 'ending': 'error'})
    # the answer to the deepest irq act is addressed by task index: learn it from a first run
    first = run_multi(cases, os.path.join(workdir, 'probe'))
    for c in cases:
        pl = plan[c['id']]
        leaf = pl['names'][-1]
        lines = first.get(f"{c['id']}/{leaf}", [])
        irq = next((l.split(' ')[1] for l in lines if l.startswith('N ') and 'acts.core.irq' in l), None)
        side = next((l.split(' ')[1] for l in first.get(f"{c['id']}/p", []) if l.startswith('N ') and l.split(' ')[2] == 'n8'), None)
        if pl['forced']:
            gate = next((l.split(' ')[1] for l in first.get(f"{c['id']}/p", []) if l.startswith('N ') and 'acts.core.irq' in l), None)
            if gate is not None:
                c['ops'].append({'p': 'p', 't': int(gate), 'a': pl['how'], 'o': ({'ecode': 'e5'} if pl['how'] == 'error' else {})})
        if side is not None and r.chance(50):
            c['ops'].append({'p': 'p', 't': int(side), 'a': 'next', 'o': {}})
        if irq is not None and pl['ending'] != 'none':
            o = {'ecode': 'e7'} if pl['ending'] == 'error' else {}
            c['ops'].append({'p': leaf, 't': int(irq), 'a': pl['ending'], 'o': o})
        if side is not None and r.chance(50):
            c['ops'].append({'p': 'p', 't': int(side), 'a': 'next', 'o': {}})
    got = run_multi(cases, os.path.join(workdir, 'run'))
    obs_path = os.path.join(workdir, 'obs.txt')
    keys = {}
    rejected = {}
    codecut = {}
    stats = Counter()
    with open(obs_path, 'w') as f:
        for c in cases:
            pl = plan[c['id']]
            stats[f"ending={pl['ending']}"] += 1
            stats[f"depth={pl['depth']}"] += 1
            stats['missing_model'] += int(pl['missing'])
            for lvl in range(pl['depth']):
                par, chi = pl['names'][lvl], pl['names'][lvl + 1]
                pl_lines = got.get(f"{c['id']}/{par}", [])
                ch_lines = got.get(f"{c['id']}/{chi}", [])
                act = next((l.split(' ')[1] for l in pl_lines if l.startswith('N ') and 'acts.core.subflow' in l), None)
                if act is None:
                    continue           # the caller itself was never started (missing model further up)
                missing = pl['missing'] and lvl == pl['depth'] - 1
                ends = [(l.split(' ')[3], l.split(' ')[4]) for l in pl_lines if l.startswith(f'T {act} ') and l.split(' ')[3] in TERM]
                last = next((l.split(' ')[3] for l in reversed(pl_lines) if l.startswith(f'T {act} ')), 'none')
                child_end = next(((l.split(' ')[3], l.split(' ')[4]) for l in ch_lines if l.startswith('T 0 ') and l.split(' ')[3] in TERM), None)
                parent_end = next((l.split(' ')[4] for l in pl_lines if l.startswith('T 0 ') and l.split(' ')[3] in TERM), None)
                created = next((l for l in ch_lines if l.startswith('M 0 created ')), None)
                want_in = "{" + ",".join(f"{k}:{v}" for k, v in sorted(pl['opts'].items())) + "}"
                inputs_ok = 1 if (created is None or created.split(' ')[3] == want_in) else 0
                stats['child_declares_the_input'] += int(bool(c['models'][lvl + 1].get('inputs')))
                if pl.get('caught'):
                    stats['caught_child_error'] += 1
                    key = f"{c['id']}/{par}"
                    keys[key] = c
                    f.write(f"caught {key} child={'none' if not child_end else child_end[0] + '@' + child_end[1]} act={','.join(s + '@' + t for s, t in ends) or '-'} open={int(last not in TERM)} inputs={inputs_ok}\n")
                    continue
                if pl['forced']:
                    stats['forced_close'] += 1
                    key = f"{c['id']}/{par}"
                    keys[key] = c
                    f.write(f"forced {key} act={','.join(s + '@' + t for s, t in ends) or '-'} inputs={inputs_ok}\n")
                    continue
                outs_ok = 1
                unsat = 0
                if child_end:
                    pout = next((l.split(' ')[2] for l in ch_lines if l.startswith('P ') and l.split(' ')[1] in TERM), '{}')
                    adata = next((l.split(' ')[3] for l in pl_lines if l.startswith(f'D {act} ')), '{}')
                    want = dict(x.split(':') for x in pout.strip('{}').split(',') if x)
                    have = dict(x.split(':') for x in adata.strip('{}').split(',') if x)
                    declared = set((c['models'][lvl]['steps'][0].get('acts') or c['models'][lvl]['steps'][0]['branches'][0]['steps'][0]['acts'])[0].get('outputs', {}))
                    # every return is an action on the calling act: it needs the outputs the act declares (C05)
                    unsat = int(bool(declared - set(want)))
                    rejected[f"{c['id']}/{par}"] = bool(unsat)
                    if child_end[0] == 'error' and not unsat:
                        # the calling act carries the error code its child ended with
                        # ... and its message: code and message are compared as a pair
                        acode = next((tuple(l.split(' ')[2:4]) for l in pl_lines if l.startswith(f'E {act} ')), None)
                        ccode = next((tuple(l.split(' ')[2:4]) for l in ch_lines if l.startswith('E 0 ')), None)
                        stats['error_code_compared'] += 1
                        outs_ok = int(acode is not None and acode == ccode)
                        if not outs_ok and declared:
                            # the return is an action on the calling act: its options are cut down to the outputs the act declares,
                            # which drops `ecode` / `message` (known finding: the act then fails with the engine's own message)
                            codecut[f"{c['id']}/{par}"] = True
                    if child_end[0] == 'completed' and not unsat:
                        # the options of the return are cut down to the outputs the calling act declares (C07)
                        outs_ok = int(all(have.get(k) == v for k, v in want.items() if k != 'data' and (not declared or k in declared)))
                key = f"{c['id']}/{par}"
                keys[key] = c
                f.write(f"call {key} missing={int(missing)} child={'none' if not child_end else child_end[0] + '@' + child_end[1]} "
                        f"act={','.join(s + '@' + t for s, t in ends) or '-'} open={int(last not in TERM)} parent={parent_end or 'none'} inputs={inputs_ok} outs={outs_ok} unsat={unsat} quiet=1\n")
    rc, out, _ = sh([os.path.join(ML, 'driver_multi'), obs_path], timeout=600)
    if rc != 0:
        raise RuntimeError('driver_multi failed: ' + out[-300:])
    text = {1501: "the calling act was closed before the child process ended", 1502: "the calling act was not closed exactly once with the state the child's ending maps to",
            1503: "the calling act does not carry the child's outputs", 1504: "the child did not start with exactly the inputs of the call",
            1505: "the parent's terminal event precedes the child's (or comes without it)", 1506: "a missing target model left the calling act open",
            1507: "a calling act closed from the side while the child ran was not closed exactly once (the late return wrote to it)",
            1508: "a calling act that catches its child's error was not written error and then completed, each once (the catch did not bring it to its end)"}
    violations, ok = problems('15', cases, got), 0
    obs = {l.split(' ')[1]: l for l in open(obs_path)}
    for l in out.splitlines():
        p = l.split(' ')
        if p[1] == 'OK':
            ok += 1
            continue
        c = keys[p[0]]
        for cl in p[2:]:
            cls = f"15:{cl}"
            if cl == '1503' and codecut.get(p[0]):
                cls = '15:1503:error_code_cut_by_declared_outputs'
            if cl == '1502' and ' act=- ' in obs[p[0]]:
                cls = '15:1502:return_rejected' if rejected.get(p[0]) else '15:1502:never_closed'
            violations.append({'class': cls, 'detail': f"{p[0]}: {text.get(int(cl), cl)} ({obs[p[0]].strip()})", 'case': {'kind': 'multi', 'case': c, 'pid': p[0].split('/')[1]}})
    cov = {'evaluations': len(obs), 'distinct_nontrivial': sum(1 for l in obs.values() if ' child=none ' not in l),
           'rule': "call chains of depth 1..3 (parent -> child -> grandchild), the deepest process waits on an interrupt act that the client completes, submits, errors (with a code), aborts, skips or leaves open; calling acts with / without declared outputs, followed or not by another act, optionally beside a second branch with its own interrupt act answered before / after the child ends; child outputs with 0..2 keys; a missing target model in 8% of the chains; one observation = one (calling act, child) pair; non-trivial = the child ended",
           'traces_validated_against_impl': ok, 'input_distribution': dict(stats), 'samples': [cases[0]['models'][0]]}
    return {'cov': cov, 'violations': violations, 'broken': [],
            'assumptions': ["times are those of the virtual clock (one tick per state write), so 'before' is the order of state writes",
                            "the return of a child is a spawned client action; the history is observed after the engine is quiescent"]}


def replay(case, workdir):
    c = case['case']
    got = run_multi([c], workdir, threads=case.get('threads', 1), shards=1)
    for k in sorted(got):
        if k == c['id'] or ('pid' in case and k.endswith('/' + case['pid'])) or 'pid' not in case:
            print(k)
            for l in got[k]:
                print('   ', l)
    print("re-run: the observations above are what the checker judged; REPRODUCED if they show the reported difference")
    return 1
