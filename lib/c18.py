"""C18 channels: generated glob patterns and registration histories on the real emitter (globset) and
on the extracted model (model/Chan.v)."""
import json
import os
import re

import engine
from common import ML, Rng, sh

KIND_LETTER = {'message': 'm', 'start': 's', 'complete': 'c', 'error': 'e'}
FIELD_VALUES = {
    'type': ['workflow', 'step', 'act'],
    'state': ['created', 'completed', 'error'],
    'tag': ['mt', 'x1', 'ta', 'tb', ''],
    'key': ['k1', 'ab', 'ac', ''],
    'uses': ['acts.core.irq', 'acts.core.msg', ''],
}


def gen_pattern(r, field):
    vals = FIELD_VALUES[field]
    x = r.below(100)
    if x < 25:
        return '*'
    v = r.pick([s for s in vals if s] or ['a'])
    if x < 40:
        return v
    if x < 50:
        return v[:max(1, len(v) // 2)] + '*'
    if x < 58:
        return '*' + v[-1]
    if x < 66:
        i = r.below(len(v))
        return v[:i] + '?' + v[i + 1:]
    if x < 76:
        w = r.pick(vals) or 'zz'
        return '{' + v + ',' + w + '}'
    if x < 84:
        c = v[0]
        lo = chr(max(97, ord(c) - 1)) if c.isalpha() else c
        return '[' + lo + '-' + chr(min(122, ord(lo) + 2)) + ']' + v[1:] if c.isalpha() else v
    if x < 90:
        return '[!' + v[0] + ']*'
    if x < 95:
        # ... and the empty pattern, which matches the empty string only
        return r.pick(['zz', 'nomatch*', '?', ''])
    return v[:1] + '*' + v[-1:]


def tokens(pat):
    """glob text -> token form for the model driver"""
    out = []
    i = 0

    def simple(s, sep):
        toks = []
        j = 0
        while j < len(s):
            c = s[j]
            if c == '*':
                toks.append('s')
            elif c == '?':
                toks.append('q')
            elif c == '[':
                k = s.index(']', j)
                body = s[j + 1:k]
                neg = '1' if body.startswith('!') else '0'
                if neg == '1':
                    body = body[1:]
                rs = []
                m = 0
                while m < len(body):
                    if m + 2 < len(body) and body[m + 1] == '-':
                        rs.append(f"{ord(body[m])}-{ord(body[m + 2])}"); m += 3
                    else:
                        rs.append(f"{ord(body[m])}-{ord(body[m])}"); m += 1
                toks.append(f"c{neg}:" + ";".join(rs))
                j = k
            else:
                toks.append(f"l{ord(c)}")
            j += 1
        return sep.join(toks)
    res = []
    while i < len(pat):
        if pat[i] == '{':
            k = pat.index('}', i)
            alts = pat[i + 1:k].split(',')
            res.append('a:' + '|'.join(simple(a, '.') for a in alts))
            i = k + 1
        else:
            j = i
            while j < len(pat) and pat[j] != '{':
                j += 1
            s = simple(pat[i:j], ',')
            if s:
                res.append(s)
            i = j
    return ",".join(res) if res else '-'


def enc(s):
    return ".".join(str(b) for b in s.encode()) if s else '-'


def run(seed, n, workdir):
    os.makedirs(workdir, exist_ok=True)
    r = Rng(seed)
    cases = []
    for k in range(n):
        ops = []
        ids = ['1', '2', '3', '4']
        for _ in range(3 + r.below(9)):
            x = r.below(100)
            if x < 45:
                # a channel registers handlers of four kinds under one id: messages, process start, completion, error
                o = {'id': r.pick(ids), 'h': r.pick(['message'] * 6 + ['start', 'complete', 'complete', 'error'])}
                for f in FIELD_VALUES:
                    o[f] = gen_pattern(r, f) if r.chance(60 if o['h'] == 'message' else 25) else '*'
                ops.append({'on': o})
            elif x < 55:
                ops.append({'close': r.pick(ids)})
            elif x < 62:
                ops.append({'unsub': r.pick(ids)})
            else:
                ops.append({'run': 2 if r.chance(25) else 1})
        ops.append({'run': 2 if r.chance(25) else 1})
        cases.append({'id': f"h{k}", 'ops': ops})
    cp = os.path.join(workdir, 'cases.jsonl')
    open(cp, 'w').write("".join(json.dumps(c) + "\n" for c in cases))
    op = os.path.join(workdir, 'impl.txt')
    errs = engine.run_harness(cp, op, os.path.join(workdir, 'w'), (), mode='chan')
    if errs:
        raise RuntimeError('harness chan failed: ' + "; ".join(errs)[:500])
    impl = engine.split_cases(op)
    # the model sees the same registrations and the messages the engine emitted
    mi = os.path.join(workdir, 'model.in')
    expect_impl = {}
    kinds = {}
    with open(mi, 'w') as f:
        for c in cases:
            f.write(f"case {c['id']}\n")
            lines = impl.get(c['id'], [])
            runs, cur = [], None
            for l in lines:
                if l.startswith('RUN '):
                    cur = {'E': [], 'H': {}}
                    runs.append(cur)
                elif l[0] == 'E' and l.split(' ')[0] in ('E', 'ES', 'EC', 'EE') and cur is not None:
                    tag, js = l.split(' ', 1)
                    cur['E'].append(({'E': 'm', 'ES': 's', 'EC': 'c', 'EE': 'e'}[tag], json.loads(js)))
                elif l[0] == 'H' and l.split(' ')[0] in ('H', 'HS', 'HC', 'HE') and cur is not None:
                    tag, ch, mid = l.split(' ')
                    cur['H'].setdefault(({'H': 'm', 'HS': 's', 'HC': 'c', 'HE': 'e'}[tag], mid), []).append(ch)
            ri = 0
            for opx in c['ops']:
                if 'on' in opx:
                    o = opx['on']
                    f.write(f"on {KIND_LETTER[o.get('h', 'message')]} {o['id']} {tokens(o['type'])} {tokens(o['state'])} {tokens(o['tag'])} {tokens(o['key'])} {tokens(o['uses'])}\n")
                elif 'close' in opx or 'unsub' in opx:
                    f.write(f"close {opx.get('close') or opx.get('unsub')}\n")
                else:
                    if ri < len(runs):
                        for k, m in runs[ri]['E']:
                            f.write(f"emit {k} {m['id']} {enc(m['type'])} {enc(m['state'])} {enc(m['tag'])} {enc(m['model_tag'])} {enc(m['key'])} {enc(m['uses'])}\n")
                            expect_impl[(c['id'], k, m['id'])] = (sorted(runs[ri]['H'].get((k, m['id']), [])), m, ri)
                            kinds[k] = kinds.get(k, 0) + 1
                    ri += 1
    rc, out, _ = sh([os.path.join(ML, 'driver_chan'), mi], timeout=600)
    if rc != 0:
        raise RuntimeError('model driver failed: ' + out[-400:])
    dis, ok, total, delivered = [], 0, 0, 0
    # every handler invocation the implementation reports has to be one the model was asked about
    asked = set(expect_impl)
    bad_cases = set()
    for l in out.splitlines():
        m = re.match(r'case (\S+): (\S) (\S+)(.*)$', l)
        if not m:
            continue
        cid, k, mid, rest = m.group(1), m.group(2), m.group(3), sorted(m.group(4).split())
        total += 1
        got, msg, ri = expect_impl[(cid, k, mid)]
        delivered += len(got)
        if got != rest:
            bad_cases.add(cid)
            dis.append({'case': next(c for c in cases if c['id'] == cid), 'kind': k, 'message': msg, 'run': ri, 'model': rest, 'impl': got})
    stats = {'cases': n, 'messages': total, 'deliveries': delivered, 'traces_validated_against_impl': n - len(bad_cases),
             'ops': {k: sum(1 for c in cases for o in c['ops'] if k in o) for k in ('on', 'close', 'unsub', 'run')},
             'events_by_kind': kinds, 'handler_kinds': {h: sum(1 for c in cases for o in c['ops'] if 'on' in o and o['on'].get('h', 'message') == h) for h in KIND_LETTER}}
    return {'cases': cases, 'disagreements': dis, 'stats': stats}
