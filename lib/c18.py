"""C18 channels: generated glob patterns and registration histories on the real emitter (globset) and
on the extracted model (model/Chan.v)."""
import json
import os
import re

import engine
from common import ML, Rng, sh

FIELD_VALUES = {
    'type': ['workflow', 'step', 'act'],
    'state': ['created', 'completed'],
    'tag': ['mt', 'x1', 'ta', 'tb', ''],
    'key': ['k1', 'ab', 'ac', ''],
    'uses': ['acts.core.irq', 'acts.core.msg', ''],
}


def gen_pattern(r, field):
    vals = FIELD_VALUES[field]
    x = r.below(100)
    if x < 25:
        return '*'
    v = r.pick([s for s in vals if s] or ['a'])
    if x < 40:
        return v
    if x < 50:
        return v[:max(1, len(v) // 2)] + '*'
    if x < 58:
        return '*' + v[-1]
    if x < 66:
        i = r.below(len(v))
        return v[:i] + '?' + v[i + 1:]
    if x < 76:
        w = r.pick(vals) or 'zz'
        return '{' + v + ',' + w + '}'
    if x < 84:
        c = v[0]
        lo = chr(max(97, ord(c) - 1)) if c.isalpha() else c
        return '[' + lo + '-' + chr(min(122, ord(lo) + 2)) + ']' + v[1:] if c.isalpha() else v
    if x < 90:
        return '[!' + v[0] + ']*'
    if x < 95:
        return r.pick(['zz', 'nomatch*', '?'])
    return v[:1] + '*' + v[-1:]


def tokens(pat):
    """glob text -> token form for the model driver"""
    out = []
    i = 0

    def simple(s, sep):
        toks = []
        j = 0
        while j < len(s):
            c = s[j]
            if c == '*':
                toks.append('s')
            elif c == '?':
                toks.append('q')
            elif c == '[':
                k = s.index(']', j)
                body = s[j + 1:k]
                neg = '1' if body.startswith('!') else '0'
                if neg == '1':
                    body = body[1:]
                rs = []
                m = 0
                while m < len(body):
                    if m + 2 < len(body) and body[m + 1] == '-':
                        rs.append(f"{ord(body[m])}-{ord(body[m + 2])}"); m += 3
                    else:
                        rs.append(f"{ord(body[m])}-{ord(body[m])}"); m += 1
                toks.append(f"c{neg}:" + ";".join(rs))
                j = k
            else:
                toks.append(f"l{ord(c)}")
            j += 1
        return sep.join(toks)
    res = []
    while i < len(pat):
        if pat[i] == '{':
            k = pat.index('}', i)
            alts = pat[i + 1:k].split(',')
            res.append('a:' + '|'.join(simple(a, '.') for a in alts))
            i = k + 1
        else:
            j = i
            while j < len(pat) and pat[j] != '{':
                j += 1
            s = simple(pat[i:j], ',')
            if s:
                res.append(s)
            i = j
    return ",".join(res) if res else '-'


def enc(s):
    return ".".join(str(b) for b in s.encode()) if s else '-'


def run(seed, n, workdir):
    os.makedirs(workdir, exist_ok=True)
    r = Rng(seed)
    cases = []
    for k in range(n):
        ops = []
        ids = ['1', '2', '3', '4']
        for _ in range(3 + r.below(9)):
            x = r.below(100)
            if x < 45:
                o = {'id': r.pick(ids)}
                for f in FIELD_VALUES:
                    o[f] = gen_pattern(r, f) if r.chance(60) else '*'
                ops.append({'on': o})
            elif x < 55:
                ops.append({'close': r.pick(ids)})
            elif x < 62:
                ops.append({'unsub': r.pick(ids)})
            else:
                ops.append({'run': 1})
        ops.append({'run': 1})
        cases.append({'id': f"h{k}", 'ops': ops})
    cp = os.path.join(workdir, 'cases.jsonl')
    open(cp, 'w').write("".join(json.dumps(c) + "\n" for c in cases))
    op = os.path.join(workdir, 'impl.txt')
    errs = engine.run_harness(cp, op, os.path.join(workdir, 'w'), (), mode='chan')
    if errs:
        raise RuntimeError('harness chan failed: ' + "; ".join(errs)[:500])
    impl = engine.split_cases(op)
    # the model sees the same registrations and the messages the engine emitted
    mi = os.path.join(workdir, 'model.in')
    expect_impl = {}
    with open(mi, 'w') as f:
        for c in cases:
            f.write(f"case {c['id']}\n")
            lines = impl.get(c['id'], [])
            runs, cur = [], None
            for l in lines:
                if l.startswith('RUN '):
                    cur = {'E': [], 'H': {}}
                    runs.append(cur)
                elif l.startswith('E ') and cur is not None:
                    cur['E'].append(json.loads(l[2:]))
                elif l.startswith('H ') and cur is not None:
                    _, ch, mid = l.split(' ')
                    cur['H'].setdefault(mid, []).append(ch)
            ri = 0
            for opx in c['ops']:
                if 'on' in opx:
                    o = opx['on']
                    f.write(f"on {o['id']} {tokens(o['type'])} {tokens(o['state'])} {tokens(o['tag'])} {tokens(o['key'])} {tokens(o['uses'])}\n")
                elif 'close' in opx or 'unsub' in opx:
                    f.write(f"close {opx.get('close') or opx.get('unsub')}\n")
                else:
                    if ri < len(runs):
                        for m in runs[ri]['E']:
                            f.write(f"emit {m['id']} {enc(m['type'])} {enc(m['state'])} {enc(m['tag'])} {enc(m['model_tag'])} {enc(m['key'])} {enc(m['uses'])}\n")
                            expect_impl[(c['id'], m['id'])] = (sorted(runs[ri]['H'].get(m['id'], [])), m, ri)
                    ri += 1
    rc, out, _ = sh([os.path.join(ML, 'driver_chan'), mi], timeout=600)
    if rc != 0:
        raise RuntimeError('model driver failed: ' + out[-400:])
    dis, ok, total, delivered = [], 0, 0, 0
    bad_cases = set()
    for l in out.splitlines():
        m = re.match(r'case (\S+): (\S+)(.*)$', l)
        if not m:
            continue
        cid, mid, rest = m.group(1), m.group(2), sorted(m.group(3).split())
        total += 1
        got, msg, ri = expect_impl[(cid, mid)]
        delivered += len(got)
        if got != rest:
            bad_cases.add(cid)
            dis.append({'case': next(c for c in cases if c['id'] == cid), 'message': msg, 'run': ri, 'model': rest, 'impl': got})
    stats = {'cases': n, 'messages': total, 'deliveries': delivered, 'traces_validated_against_impl': n - len(bad_cases),
             'ops': {k: sum(1 for c in cases for o in c['ops'] if k in o) for k in ('on', 'close', 'unsub', 'run')}}
    return {'cases': cases, 'disagreements': dis, 'stats': stats}
