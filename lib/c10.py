"""C10 store contract: generated operation sequences on the real memory and SQLite backends and on
the extracted model (model/StoreQ.v); field tables come from the translator."""
import json
import os
import re

from common import REPO, BUILD, ML, HARNESS_BIN, Rng, sh

COLLS = {'task': 'Task', 'proc': 'Proc', 'message': 'Message', 'model': 'Model', 'event': 'Event', 'package': 'Package'}
ENUMS = {
    'MessageState': ['created', 'completed', 'submitted', 'backed', 'cancelled', 'aborted', 'skipped', 'error', 'removed'],
    'MessageStatus': [0, 1, 2, 3],
    'ActRunAs': None, 'ActPackageCatalog': None,   # filled from the sources
}


def enum_values(name):
    """serde names of a plain enum, read from the sources (fail closed)"""
    for root, _, files in os.walk(os.path.join(REPO, 'acts/src')):
        for f in files:
            if not f.endswith('.rs'):
                continue
            src = open(os.path.join(root, f)).read()
            m = re.search(r'((?:#\[[^\]]*\]\s*)*)pub enum %s\s*\{(.*?)\n\}' % name, src, re.S)
            if m:
                attrs, body = m.group(1), re.sub(r'//[^\n]*', '', m.group(2))
                variants = []
                for part in body.split(','):
                    part = part.strip()
                    if not part:
                        continue
                    ren = re.search(r'#\[serde\(rename\s*=\s*"([^"]+)"\)\]', part)
                    nm = re.sub(r'#\[[^\]]*\]', '', part).strip()
                    variants.append((nm, ren.group(1) if ren else None))
                ra = re.search(r'serde\(rename_all\s*=\s*"(\w+)"\)', attrs)
                out = []
                for nm, ren in variants:
                    if ren:
                        out.append(ren)
                    elif ra and ra.group(1) == 'snake_case':
                        out.append(re.sub(r'(?<!^)(?=[A-Z])', '_', nm).lower())
                    elif ra and ra.group(1) == 'lowercase':
                        out.append(nm.lower())
                    else:
                        out.append(nm)
                return out
    raise RuntimeError(f"enum {name} not found")


def schemas():
    """field name -> type class per collection, from the current sources"""
    out = {}
    for f, S in COLLS.items():
        src = open(os.path.join(REPO, f'acts/src/store/data/{f}.rs')).read()
        m = re.search(r'pub struct %s\s*\{(.*?)\n\}' % S, src, re.S)
        fields = []
        for name, ty in re.findall(r'pub (?:r#)?(\w+)\s*:\s*([^,\n]+),', m.group(1)):
            ty = ty.strip()
            if ty == 'String':
                k = 'str'
            elif ty in ('i64', 'i32'):
                k = 'int'
            elif ty == 'bool':
                k = 'bool'
            elif ty == 'Option<String>':
                k = 'ostr'
            elif ty in ENUMS:
                k = 'enum:' + ty
            else:
                raise RuntimeError(f"store field type {ty} of {S}.{name} not understood")
            fields.append((name, k))
        out[f] = fields
    for e in ('ActRunAs', 'ActPackageCatalog'):
        ENUMS[e] = enum_values(e)
    return out


class Gen:
    def __init__(self, seed, schema):
        self.r = Rng(seed)
        self.schema = schema
        self.uniq = 0

    def value(self, name, kind):
        self.uniq += 1
        n = self.uniq
        if kind == 'str':
            pool = ['a', 'B', 'é', '', 'z z', '"q"', 'ü', '0']
            return f"{name[:3]}{self.r.pick(pool)}{n}" if not (name in ('model', 'inputs', 'outputs', 'data', 'env', 'node_data', 'hooks', 'params', 'resources', 'schema') ) else json.dumps({"k": n})
        if kind == 'int':
            if self.r.chance(6):
                return self.r.pick([2**40, -2**40, 2**31, -2**31 - 1]) + n
            return (n * 7 + self.r.below(5)) * (-1 if self.r.chance(15) else 1)
        if kind == 'bool':
            return self.r.chance(50)
        if kind == 'ostr':
            return None if self.r.chance(35) else f"{name[:3]}{n}"
        if kind.startswith('enum:'):
            return self.r.pick(ENUMS[kind[5:]])
        raise RuntimeError(kind)

    def record(self, coll, rid):
        rec = {}
        for name, kind in self.schema[coll]:
            rec[name] = rid if name == 'id' else self.value(name, kind)
            if name == 'retry_times' or name in ('ver', 'size'):
                rec[name] = abs(rec[name]) % 100000
        return rec

    def case(self, idx, coll, nops):
        fields = self.schema[coll]
        live = {}
        ops = []
        nid = 0
        for _ in range(nops):
            x = self.r.below(100)
            if x < 30 or not live:
                if live and self.r.chance(8):
                    rid = self.r.pick(sorted(live))
                else:
                    nid += 1
                    rid = f"r{nid:03d}"
                rec = self.record(coll, rid)
                live[rid] = rec
                ops.append({'op': 'create', 'rec': rec})
            elif x < 42:
                rid = self.r.pick(sorted(live)) if self.r.chance(85) else 'r999'
                rec = self.record(coll, rid)
                if rid in live:
                    live[rid] = rec
                ops.append({'op': 'update', 'rec': rec})
            elif x < 50:
                rid = self.r.pick(sorted(live)) if self.r.chance(80) else 'r998'
                live.pop(rid, None)
                ops.append({'op': 'delete', 'id': rid})
            elif x < 58:
                ops.append({'op': 'find', 'id': self.r.pick(sorted(live)) if self.r.chance(85) else 'r997'})
            elif x < 63:
                ops.append({'op': 'exists', 'id': self.r.pick(sorted(live)) if self.r.chance(70) else 'r996'})
            else:
                ops.append(self.query(coll, fields, live))
        return {'id': f"c{idx}", 'coll': coll, 'ops': ops}

    def query(self, coll, fields, live):
        qf = [(n, k) for n, k in fields if k in ('str', 'int', 'ostr') or k.startswith('enum:')]
        conds = []
        for _ in range(self.r.below(4)):
            exprs = []
            for _ in range(self.r.below(4) if self.r.chance(90) else 0):
                name, kind = self.r.pick(qf)
                recs = [live[k] for k in sorted(live)]
                hit = recs and self.r.chance(70)
                if kind == 'int' or kind == 'enum:MessageStatus':
                    op = self.r.pick(['eq', 'ne', 'lt', 'le', 'gt', 'ge'])
                    val = self.r.pick(recs)[name] if hit else self.r.below(200) - 20
                    if hit and self.r.chance(30):
                        val += self.r.pick([-1, 1])
                else:
                    op = self.r.pick(['eq', 'eq', 'ne'])
                    val = self.r.pick(recs)[name] if hit else 'nope'
                    if val is None:
                        val = 'nope'
                exprs.append({'op': op, 'key': name, 'val': val})
            conds.append({'type': self.r.pick(['and', 'and', 'or']), 'exprs': exprs})
        order = []
        if self.r.chance(60):
            of = [(n, k) for n, k in fields if k in ('str', 'int') and n != 'id' and n not in ('retry_times', 'ver', 'size')]
            for _ in range(1 + self.r.below(2)):
                name, _k = self.r.pick(of)
                if name not in [o[0] for o in order]:
                    order.append([name, self.r.chance(40)])
        q = {'op': 'query', 'conds': conds, 'order': order}
        if order:
            q['offset'] = self.r.pick([0, 0, 1, 2, 5, 50])
            q['limit'] = self.r.pick([1, 2, 3, 10, 100000])
        else:
            q['offset'] = 0
            q['limit'] = self.r.pick([100, 100000])
        return q


# ---- interning for the model ----
def intern_case(case, fields):
    """strings -> ranks in byte order; field names -> indices"""
    strs = set()

    def collect(v):
        if isinstance(v, str):
            strs.add(v)
    for op in case['ops']:
        if 'rec' in op:
            for v in op['rec'].values():
                collect(v)
        if 'id' in op:
            collect(op['id'])
        for c in op.get('conds', []):
            for e in c['exprs']:
                collect(e['val'])
    ranks = {s: i for i, s in enumerate(sorted(strs, key=lambda s: s.encode('utf-8')))}
    fidx = {n: i for i, (n, _) in enumerate(fields)}
    return ranks, fidx


def mval(v, ranks):
    if v is None:
        return 'n'
    if isinstance(v, bool):
        return f"b {1 if v else 0}"
    if isinstance(v, int):
        return f"i {v}"
    if isinstance(v, str):
        return f"s {ranks[v]}"
    raise RuntimeError(f"value {v!r}")


def model_line(case, fields):
    ranks, fidx = intern_case(case, fields)
    toks = [case['id'], str(len(case['ops']))]
    for op in case['ops']:
        o = op['op']
        if o in ('create', 'update'):
            rec = op['rec']
            toks += ['C' if o == 'create' else 'U', str(ranks[rec['id']]), str(len(rec))]
            for n, v in rec.items():
                toks += [str(fidx[n]), mval(v, ranks)]
        elif o == 'delete':
            toks += ['D', str(ranks[op['id']])]
        elif o == 'find':
            toks += ['F', str(ranks[op['id']])]
        elif o == 'exists':
            toks += ['E', str(ranks[op['id']])]
        else:
            toks += ['Q', str(len(op['conds']))]
            for c in op['conds']:
                toks += [c['type'], str(len(c['exprs']))]
                for e in c['exprs']:
                    toks += [e['op'], str(fidx[e['key']]), mval(e['val'], ranks)]
            toks += [str(len(op['order']))]
            for n, rev in op['order']:
                toks += [str(fidx[n]), '1' if rev else '0']
            toks += [str(op['offset']), str(op['limit'])]
    return " ".join(toks), ranks, fidx


def canon_model_row(txt, ranks_inv, fields):
    """{0:s 3,1:i 5} -> dict name -> value"""
    out = {}
    body = txt.strip()[1:-1]
    if not body:
        return out
    for part in body.split(','):
        f, v = part.split(':', 1)
        name = fields[int(f)][0]
        v = v.strip()
        if v == 'n':
            out[name] = None
        elif v.startswith('b '):
            out[name] = v[2:] == '1'
        elif v.startswith('i '):
            out[name] = int(v[2:])
        elif v.startswith('s '):
            out[name] = ranks_inv[int(v[2:])]
    return out


def parse_model_results(text, cases_meta):
    """-> {case id: [canonical result per op]}"""
    res = {}
    for line in text.splitlines():
        m = re.match(r'case (\S+) op (\d+) (.*)$', line)
        if not m:
            continue
        cid, j, body = m.group(1), int(m.group(2)), m.group(3)
        ranks_inv, fields, ops = cases_meta[cid]
        if body.startswith('bool '):
            r = {'bool': body[5:] == '1'}
        elif body == 'err':
            r = {'fail': 'err'}
        elif body == 'row none':
            r = {'row': None}
        elif body.startswith('row '):
            r = {'row': canon_model_row(body[4:], ranks_inv, fields)}
        else:
            pm = re.match(r'page count=(\d+) num=(\d+) pages=(\d+) size=(\d+) rows=\[(.*)\]$', body)
            rows = []
            if pm.group(5):
                for part in pm.group(5).split(';'):
                    k, row = part.split('=', 1)
                    rows.append(canon_model_row(row, ranks_inv, fields))
            r = {'page': {'count': int(pm.group(1)), 'page_num': int(pm.group(2)), 'page_count': int(pm.group(3)),
                          'page_size': int(pm.group(4)), 'rows': rows}}
        res.setdefault(cid, []).append(canon_result(r, ops[j]))
    return res


def canon_result(r, op):
    """rows of an unordered query are compared as a set (sorted by id)"""
    if 'page' in r and not op.get('order'):
        r = {'page': dict(r['page'], rows=sorted(r['page']['rows'], key=lambda x: x['id']))}
    return r


def parse_impl_results(path, cases_by_id):
    res = {}
    for line in open(path):
        v = json.loads(line)
        cid, j, r = v['case'], v['op'], v['res']
        if 'fail' in r and r['fail'].startswith('err:'):
            r = {'fail': 'err'}
        res.setdefault(cid, []).append(canon_result(r, cases_by_id[cid]['ops'][j]))
    return res


def run(seed, ncases, workdir, backends=('mem', 'sqlite')):
    """returns dict(cases, disagreements=[(backend, case, opidx, model, impl)], stats)"""
    os.makedirs(workdir, exist_ok=True)
    schema = schemas()
    g = Gen(seed, schema)
    cases = []
    colls = list(COLLS)
    for i in range(ncases):
        coll = colls[i % len(colls)]
        cases.append(g.case(i, coll, 4 + g.r.below(22)))
    # corpus first
    return run_cases(cases, schema, workdir, backends)


def run_cases(cases, schema, workdir, backends=('mem', 'sqlite')):
    os.makedirs(workdir, exist_ok=True)
    cases_by_id = {c['id']: c for c in cases}
    with open(os.path.join(workdir, 'cases.jsonl'), 'w') as f:
        for c in cases:
            f.write(json.dumps(c) + "\n")
    meta = {}
    with open(os.path.join(workdir, 'cases.txt'), 'w') as f:
        for c in cases:
            line, ranks, fidx = model_line(c, schema[c['coll']])
            f.write(line + "\n")
            meta[c['id']] = ({v: k for k, v in ranks.items()}, schema[c['coll']], c['ops'])
    rc, out, _ = sh([os.path.join(ML, 'driver_store'), os.path.join(workdir, 'cases.txt')], timeout=600)
    if rc != 0:
        raise RuntimeError('model driver failed: ' + out[-500:])
    model = parse_model_results(out, meta)
    disagreements = []
    stats = {'cases': len(cases), 'ops': sum(len(c['ops']) for c in cases), 'by_op': {}, 'by_coll': {}, 'queries_with_empty_subresult': 0,
             'queries_ordered': 0, 'nonempty_pages': 0}
    for c in cases:
        stats['by_coll'][c['coll']] = stats['by_coll'].get(c['coll'], 0) + 1
        for op in c['ops']:
            stats['by_op'][op['op']] = stats['by_op'].get(op['op'], 0) + 1
            if op['op'] == 'query' and op['order']:
                stats['queries_ordered'] += 1
    for cid, rs in model.items():
        for r in rs:
            if 'page' in r and r['page']['rows']:
                stats['nonempty_pages'] += 1
    validated = 0
    for b in backends:
        outp = os.path.join(workdir, f'out-{b}.jsonl')
        rc, out, _ = sh([HARNESS_BIN, 'store', os.path.join(workdir, 'cases.jsonl'), outp, os.path.join(workdir, 'w-' + b), b], cwd=workdir, timeout=1200)
        if rc != 0:
            raise RuntimeError(f'harness store {b} failed: ' + out[-800:])
        impl = parse_impl_results(outp, cases_by_id)
        for c in cases:
            mr, ir = model.get(c['id'], []), impl.get(c['id'], [])
            ok = True
            for j in range(len(c['ops'])):
                a = mr[j] if j < len(mr) else None
                bb = ir[j] if j < len(ir) else None
                if a != bb:
                    disagreements.append({'backend': b, 'case': c, 'op': j, 'model': a, 'impl': bb})
                    ok = False
                    break
            if ok:
                validated += 1
    stats['traces_validated_against_impl'] = validated
    return {'cases': cases, 'disagreements': disagreements, 'stats': stats}
